#!/bin/bash
# process_seeds.sh <round-prefix> <tag> <props...>: confirm every finished seeder output, print one line each
cd /verif
pre="$1"; tag="$2"; shift 2
for p in "$@"; do P=$(echo $p | tr c C); for k in 1 2; do d=/tmp/${pre}_${p}_out/mut$k; if [ -d $d ] && [ ! -d seeded/${P}_${tag}m$k ]; then echo -n "${P}_${tag}m$k: "; bin/seedconfirm $P ${tag}m$k $d 2>&1 | grep "CONFIRMED\|NOT CONF\|RESULT" | tr '\n' ' '; echo; fi; done; done
