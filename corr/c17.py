"""C17 — MQTT CONNECT contents, command-topic grammar, number rendering: generators, monitor, check definition."""
import os, struct, sys
from decimal import Decimal
import framework as F
import c16 as C16M

def consts(): return C16M.consts()

def default_prefix(user_prefix=b''):
    c = consts()
    return (user_prefix + b'/' if user_prefix else b'') + b'supla/devices/' + bytes(c['DEVICE_NAME']).lower() + b'-a3a4a5'

def cfg_blob(user_img, pass_img, prefix_img, guid):
    c = consts()
    assert len(user_img) == c['EMAIL_MAXSIZE'] and len(pass_img) == c['PWD_MAXSIZE'] and len(prefix_img) == c['PREFIX_SIZE'] and len(guid) == 16
    return user_img + pass_img + prefix_img + guid

def store_credentials(rng, user, password, junk=False):
    """field images as supla_esp_cfgmode.c leaves them (long-password tail behind the user name)"""
    c = consts(); E = c['EMAIL_MAXSIZE']; P = c['PWD_MAXSIZE']
    fill = (lambda n: bytes(rng.randrange(1, 256) for _ in range(n))) if junk else (lambda n: b'\0' * n)
    u = bytearray(user + b'\0' + fill(E - len(user) - 1)); u[E - 1] = 0
    if len(password) < P:
        p = bytearray(password + b'\0' + fill(P - len(password) - 1))
    else:
        p = bytearray(password[:P]); tail = password[P:]
        room = E - len(user) - 1
        t = (tail + b'\0' * room)[:room]          # strncpy
        u[len(user) + 1:] = t; u[E - 1] = 0
    return bytes(u), bytes(p)

def cstr(b):
    i = b.find(b'\0'); return b if i < 0 else b[:i]

def parse_connect(w):
    """strict MQTT 3.1.1 CONNECT decoder; returns dict or raises ValueError"""
    if len(w) < 2 or w[0] != 0x10: raise ValueError('not a CONNECT fixed header')
    rl = 0; i = 1
    while True:
        if i > 4 or i >= len(w): raise ValueError('bad remaining length')
        rl |= (w[i] & 0x7F) << (7 * (i - 1)); i += 1
        if not (w[i - 1] & 0x80): break
    if len(w) != i + rl: raise ValueError('remaining length %d does not match %d bytes' % (rl, len(w) - i))
    b = w[i:]; o = 0
    def take(n):
        nonlocal o
        if o + n > len(b): raise ValueError('field runs past the packet')
        r = b[o:o + n]; o += n; return r
    def s(): return take(struct.unpack('>H', take(2))[0])
    if take(6) != b'\x00\x04MQTT': raise ValueError('protocol name')
    if take(1)[0] != 4: raise ValueError('protocol level')
    fl = take(1)[0]; keep = struct.unpack('>H', take(2))[0]
    if fl & 1: raise ValueError('reserved connect flag set')
    d = dict(flags=fl, keep=keep, clean=bool(fl & 2), cid=s())
    if fl & 4: d['will_topic'] = s(); d['will_msg'] = s()
    elif fl & 0x38: raise ValueError('will qos/retain without will')
    d['will_qos'] = (fl >> 3) & 3; d['will_retain'] = bool(fl & 0x20)
    d['user'] = s() if fl & 0x80 else None
    d['password'] = s() if fl & 0x40 else None
    if o != len(b): raise ValueError('%d bytes after the last field' % (len(b) - o))
    return d

SET_ON = {b'1': 1, b'yes': 1, b'true': 1, b'0': 0, b'no': 0, b'false': 0}
EXEC_ON = {b'turn_on': 1, b'turn_off': 0, b'toggle': 255}
EXEC_RS = {b'shut': 4, b'reveal': 6, b'stop': 7, b'recalibrate': 8, b'calibrate': 8}

def _long_channels():
    out = []
    for k in (1, 2, 3):
        for n in (0, 1, 2, 255, 256): out.append(k * 2**32 + n)
    for base in (2**31, 2**32, 2**63, 2**64, 2**16, 2**8):
        for d in (-2, -1, 0, 1, 2, 255, 256): out.append(base + d)
    for k in (1, 5, 7): out += [k * 2**64 + n for n in (0, 1, 255, 256)]
    out += [10**9, 10**10, 10**19, 10**20 + 7, 10**39 + 255, 12345678901234567890123456789012345678]
    res = [str(x).encode() for x in out if x >= 0]
    res += [b'0' * z + m for z in (1, 3, 9, 10, 20, 38) for m in (b'1', b'0', b'255', b'256', b'7')]
    res += [b'0256', b'00255', b'0' * 30]
    return res
LONG_CHANNELS = _long_channels()

def ref_head(prefix, topic):
    """channel number and command per the property's grammar, or None"""
    if not prefix or not topic.startswith(prefix + b'/channels/'): return None
    rest = topic[len(prefix) + 10:]
    i = rest.find(b'/')
    if i <= 0: return None
    n = rest[:i]
    if not n.isdigit() or not all(48 <= x <= 57 for x in n) or int(n) > 255: return None
    return int(n), rest[i + 1:]

import re
NUM_RE = re.compile(rb'\A(-?)([0-9]+)(\.[0-9]*)?\Z')
def ref_percent(msg):
    """value of a percentage payload per the grammar ['-'] digit+ ['.' digit*] with integer part 0..100, else None"""
    m = NUM_RE.match(msg)
    if not m: return None
    val = int(m.group(2))
    if val > 100 or (m.group(1) and val != 0): return None
    return val
VALUE_CMDS = ((b'set/closing_percentage', 'RSFB'), (b'set/tilt', 'RSFB'), (b'set/brightness', 'BRI'))
def numeric_defects(rng):
    """numeric payloads with one defect at each position, plus valid ones"""
    out = [b'0', b'7', b'50', b'100', b'050', b'0100', b'100.0', b'50.5', b'50.', b'99.999999999999999999', b'-0', b'-0.0', b'0' * 30 + b'42',
           b'101', b'255', b'256', b'1000', b'-1', b'-100', b'-', b'-.', b'-.5', b'.', b'.5', b'', b'+5', b'+', b' 5', b'5 ', b'5\0', b'\0', b'5\n',
           b'1.2.3', b'1..2', b'50..', b'50.x', b'50.5x', b'30.-1', b'30.+1', b'99.turn_on', b'5-', b'5-0', b'--5', b'-+5', b'1e1', b'0x10', b'5,5', b'5/5',
           b'4294967296', b'4294967346', b'2147483647', b'2147483648', b'2147483640', b'2147483639', b'99999999999', b'18446744073709551666', b'1' + b'0' * 40,
           b'100' + b'0' * 20, b'0' * 60, b'9' * 60, b'50.' + b'1' * 60, b'50.' + b'1' * 30 + b'x']
    base = rng.choice([b'50.25', b'100', b'-0.5', b'7.125', b'0042.50'])
    for pos in range(len(base) + 1):
        for ins in (b'.', b'-', b'+', b'x', b' ', b'e', b'\0', b'/'):
            out.append(base[:pos] + ins + base[pos:])
            if pos < len(base): out.append(base[:pos] + ins + base[pos + 1:])
    return out

def render(raw, uns, prec):
    v = raw if uns or raw < 2**63 else raw - 2**64
    neg = v < 0; a = -v if neg else v
    s = str(a)
    if prec > 0:
        s = s.rjust(prec + 1, '0'); ip, fp = s[:-prec], s[-prec:].rstrip('0')
        s = ip + ('.' + fp if fp else '')
    return (b'-' if neg and a != 0 else b'') + s.encode()

class C17(F.PropCheck):
    pid = 'C17'; gen_groups = ['MqttConsts']; prop_file = 'Properties_C17'
    IN = {'CFG': 0, 'CONNECT': 1, 'SETPFX': 2, 'SETON': 3, 'RSFB': 4, 'VAL': 5, 'BRI': 6, 'FORM': 7}
    OUT = {0: 'PREFIX', 1: 'WIRE', 2: 'SETON', 3: 'RSFB', 4: 'VAL', 5: 'BRI'}
    quick_cases = 2500; thorough_cases = 100000
    trusted_extra = ['C17 driver harness/drv/c17.c (+ c16_mqtt_wrap.c, c16_mqtt_board.c): configuration fields written as raw images, '
                     'CONNECT through the real init / dns-found / reconnect / conn_on_connect / mqtt_sync path and captured at espconn_sent; '
                     'parsers and prepare_val called directly with exact-size heap copies; station MAC a0..a5 (double)']
    assumptions = ['user name field and topic-prefix field contain a terminator (as the configuration page writes them)',
                   'number rendering: precision <= 20 (call sites use 1, 2, 3, 5)']
    rule = ('CONNECT: user-name lengths 0..254 x password lengths 0..maximum storable+ (split across Password field and the tail behind the user name, '
            'stale bytes after terminators) x auth on/off x TLS x prefix lengths 0..49; two/three-form histories through the real configuration page (long password, then empty password with a shorter/equal/longer user name) followed by CONNECT; parser: topics around <prefix>/channels/<N>/<command> '
            '(N 0..99999 and 10-40 digit numbers (k*2^32+n, around 2^31/2^32/2^63/2^64, long leading zeros), signs, dots, empty, wrong/missing separator after the prefix, missing/extra segments, prefix variants) x '
            'payload variants (case, truncation, numeric values with one defect at each position for set/closing_percentage, set/tilt, set/brightness, every single-byte substitution 0x00..0xFF at every position of every keyword; byte substitutions in the command segment); rendering: 64-bit values (boundaries, powers of ten, random) x precision 0..20 x signedness; '
            'distinct by sha256 of the event text')

    def build_impl(self): return C16M.build_mqtt('c17', ['-DMQTT_DIMMER_SUPPORT'])   # + parser_set_brightness

    # ---------------- generators
    def gen_connect(self, rng):
        c = consts(); E = c['EMAIL_MAXSIZE']; P = c['PWD_MAXSIZE']
        binary = rng.random() < 0.25      # credentials are byte strings: any value 1..255
        def txt(n): return bytes(rng.randrange(1, 256) if binary else rng.choice(b'abcdefghijklmnopqrstuvwxyzABCDEFGHIJKLMNOPQRSTUVWXYZ0123456789_-@.!') for _ in range(n))
        ul = rng.choice([0, 1, 4, 10, rng.randrange(0, 60), rng.randrange(0, E - 1), E - 2, E - 3, E - 36])
        ul = max(0, min(E - 2, ul))
        room = E - ul - 1                       # bytes behind the user name's terminator
        k = rng.random()
        if k < 0.25: pl = rng.randrange(0, P)
        elif k < 0.4: pl = rng.choice([P - 1, P, P + 1])
        elif k < 0.75: pl = P + rng.choice([room - 2, room - 1, room, room + 1, rng.randrange(0, max(1, room))])
        else: pl = rng.randrange(0, P + room + 5)
        pl = max(0, pl)
        user, pw = txt(ul), txt(pl)
        uimg, pimg = store_credentials(rng, user, pw, junk=rng.random() < 0.4)
        pfl = rng.choice([0, 0, 1, 5, rng.randrange(0, 50), 49])
        pimg2 = (txt(pfl) + b'\0' * 50)[:50]
        flags = 1 | (8 if rng.random() < 0.4 else 0) | (4 if rng.random() < 0.3 else 0)
        guid = bytes(rng.getrandbits(8) for _ in range(16))
        tags = ['connect:' + ('noauth' if flags & 8 else 'auth'), 'pw:' + ('short' if pl < P else 'split' if pl - P < room - 1 else 'split-max')]
        return [('CFG', [flags], cfg_blob(uimg, pimg, pimg2, guid)), ('CONNECT', [], b'')], tags

    def form(self, user, pw=None, extra=b''):
        body = b'pro=1&sid=net&wpw=wifipass&mvr=10.0.0.1&usr=' + user + (b'&mwd=' + pw if pw is not None else b'') + extra + b'&rbt=0'
        return b'POST / HTTP/1.1\r\nHost: 192.168.4.1\r\nContent-Type: application/x-www-form-urlencoded\r\nContent-Length: %d\r\n\r\n' % len(body) + body

    def gen_forms(self, rng):
        """(password >= 33 chars, name A) -> (password field empty/absent, name B shorter / equal / longer) -> CONNECT"""
        c = consts(); P = c['PWD_MAXSIZE']
        def txt(n): return bytes(rng.choice(b'abcdefghijklmnopqrstuvwxyzABCDEFGHIJKLMNOPQRSTUVWXYZ0123456789') for _ in range(n))
        la = rng.choice([1, 4, 10, 20, 40]); pl = rng.choice([1, 10, P - 1, P, P + 1, P + 5, P + 20, P + 60, rng.randrange(1, 120)])
        lb = rng.choice([0, 1, max(1, la - 3), la - 1 if la > 1 else 1, la, la + 1, la + 3, la + pl, la + 30, rng.randrange(1, 80)])
        a, b, pw = txt(la), txt(max(1, lb)), txt(pl)
        evs = [('FORM', [], self.form(a, pw))]
        k = rng.random()
        if k < 0.8: evs.append(('FORM', [], self.form(b, b'' if rng.random() < 0.6 else None)))
        if k < 0.2: evs.append(('FORM', [], self.form(txt(rng.randrange(1, 60)), b'')))
        evs.append(('CONNECT', [], b''))
        return evs, ['forms:' + ('short' if pl < P else 'long') + ':' + ('one' if k >= 0.8 else 'B<A' if len(b) < la else 'B=A' if len(b) == la else 'B>A')]

    def gen_parser(self, rng):
        pfx = rng.choice([b'supla/devices/zam-row-01-a3a4a5', b'home/supla/devices/x-010203', b'p', b'a/b', bytes(rng.randrange(1, 256) for _ in range(rng.randrange(1, 30)))])
        evs = [('SETPFX', [], pfx)]; tags = []
        for _ in range(rng.randrange(1, 8)):
            rs = rng.random() < 0.45
            n = rng.choice([b'0', b'1', b'2', b'7', b'9', b'10', b'99', b'127', b'128', b'200', b'255', b'256', b'257', b'300', b'511', b'512', b'999', b'1000', b'65535', b'65536', b'99999',
                            b'-1', b'-0', b'-', b'-255', b'+1', b'1.5', b'1.', b'.5', b'-.5', b'007', b'0255', b'00256', b'', b' 1', b'1 ', b'0x10', b'1e2', b'12a', str(rng.randrange(0, 100000)).encode()])
            if rng.random() < 0.3: n = rng.choice(LONG_CHANNELS) if rng.random() < 0.8 else str(rng.randrange(10**19, 10**rng.randrange(20, 41))).encode()
            cmds = [b'set/on', b'execute_action', b'set/closing_percentage', b'set/tilt', b'set/brightness']
            cmd = rng.choice(cmds)
            if cmd == b'set/on': pay = rng.choice(list(SET_ON) + [b'YES', b'True', b'fAlSe', b'No', b'2', b'on', b'tru', b'truee', b'', b'1 ', b'ye', b'yess'])
            elif cmd == b'execute_action': pay = rng.choice(list(EXEC_ON) + list(EXEC_RS) + [b'TURN_ON', b'Toggle', b'SHUT', b'Stop', b'turn_o', b'turn_onn', b'shutt', b'calibrat', b'', b'reveal '])
            else: pay = rng.choice([b'0', b'1', b'50', b'100', b'101', b'255', b'256', b'-1', b'-0', b'-', b'50.5', b'50.', b'.5', b'1e1', b'', b' 5', b'5 ', b'099', b'0100', b'100.9', b'99.99', b'1000', b'abc', str(rng.randrange(0, 300)).encode()])
            if pay and rng.random() < 0.25:
                j = rng.randrange(len(pay)); x = rng.choice([pay[j] ^ 0x20, pay[j] | 0x20, pay[j] & 0xDF, 0x7F, 0x5F, 0x00, 0x20, 0x40, 0x60, 0x5B, 0x7B, rng.randrange(256)])
                pay = pay[:j] + bytes([x]) + pay[j + 1:]
            sep = b'/'; chs = b'channels/'; sl2 = b'/'
            m = rng.random()
            if m < 0.5: pass
            elif m < 0.58: sep = rng.choice([b'X', b'', b'//', b'\\', b'.', b'0'])
            elif m < 0.64: chs = rng.choice([b'channel/', b'Channels/', b'channels', b'/channels/', b'channels//', b''])
            elif m < 0.7: sl2 = rng.choice([b'', b'//', b'/x/'])
            elif m < 0.76: cmd = rng.choice([cmd[:-1], cmd + b'x', cmd.upper(), cmd + b'/', b'set', b'set/', b'', b'state/on'])
            elif m < 0.8: n = n + b'/' + n
            p2 = pfx
            if 0.8 <= m < 0.88: p2 = rng.choice([pfx[:-1], pfx + b'x', pfx.upper(), b'x' + pfx[1:], pfx[:-1] + bytes([pfx[-1] ^ 1]), b''])
            topic = p2 + sep + chs + n + sl2 + cmd
            if 0.88 <= m < 0.92: topic = topic[:rng.randrange(0, len(topic) + 1)]
            topic = topic[:60000]
            evk = 'BRI' if cmd.startswith(b'set/brightness') or (cmd == b'set/brightness') else ('RSFB' if rs else 'SETON')
            if rng.random() < 0.3 and not cmd.startswith(b'set/on') and cmd != b'execute_action': pay = rng.choice(numeric_defects(rng))
            evs.append((evk, [len(topic)], topic + pay))
            tags.append({'BRI': 'brightness', 'RSFB': 'rs', 'SETON': 'set_on'}[evk])
        return evs, sorted(set(tags))

    def gen_val(self, rng):
        evs = []
        for _ in range(rng.randrange(1, 10)):
            k = rng.random()
            if k < 0.3: raw = rng.choice([0, 1, 9, 10, 99, 100, 1000, 12345, 100000, 1200000, 2**31 - 1, 2**31, 2**32 - 1, 2**32, 2**63 - 1, 2**63, 2**63 + 1, 2**64 - 1, 2**64 - 5, 2**64 - 100000, 10**18, 10**19, 10**19 - 1])
            elif k < 0.5: raw = rng.randrange(0, 2**64)
            elif k < 0.7: raw = rng.randrange(0, 10**rng.randrange(1, 20)) * 10**rng.randrange(0, 6) % 2**64
            elif k < 0.85: raw = (2**64 - rng.randrange(1, 10**rng.randrange(1, 12))) % 2**64
            else: raw = rng.randrange(0, 100000)
            prec = rng.choice([0, 1, 2, 3, 5, 5, 5, 4, 6, 8, 10, 15, 18, 19, 20, rng.randrange(0, 21)])
            evs.append(('VAL', [rng.randrange(2), prec, raw >> 32, raw & 0xFFFFFFFF], b''))
        return evs, ['val']

    def gen_cases(self, rng, n, tier):
        cases = []
        for i in range(n):
            k = rng.random()
            if k < 0.08: evs, tags = self.gen_forms(rng)
            elif k < 0.3: evs, tags = self.gen_connect(rng)
            elif k < 0.75: evs, tags = self.gen_parser(rng)
            else: evs, tags = self.gen_val(rng)
            cases.append(F.Case('%s%d' % (tier[0], i), evs, tags))
        # exhaustive channel numbers 0..1100 with set/on, and all (value, precision) for small values
        pfx = b'supla/devices/x-a3a4a5'
        for base in range(0, 1100, 50):
            evs = [('SETPFX', [], pfx)]
            for ch in range(base, base + 50):
                t = pfx + b'/channels/' + str(ch).encode() + b'/set/on'; evs.append(('SETON', [len(t)], t + b'1'))
            cases.append(F.Case('ch%d' % base, evs, ['exhaustive-channel']))
        # numeric payloads (valid, and one defect at each position) for every value-carrying command
        for (cmd, evk) in VALUE_CMDS:
            t = pfx + b'/channels/9/' + cmd
            evs = [('SETPFX', [], pfx)] + [(evk, [len(t)], t + m) for m in numeric_defects(rng)]
            cases.append(F.Case('num_%s' % cmd.decode().replace('/', '-'), evs, ['exhaustive-numeric-defects']))
            t2 = pfx + b'/channels/9/' + cmd + b'x'
            cases.append(F.Case('num_%s_wrongcmd' % cmd.decode().replace('/', '-'), [('SETPFX', [], pfx), (evk, [len(t2)], t2 + b'50'), (evk, [len(t)], t + b'50')], ['exhaustive-numeric-defects']))
        # every single-byte substitution 0x00..0xFF at every position of every payload keyword, truncated/extended words
        for (cmd, words, rs) in ((b'set/on', list(SET_ON), False), (b'execute_action', list(EXEC_ON), False), (b'execute_action', list(EXEC_RS), True)):
            for w in words:
                t = pfx + b'/channels/5/' + cmd
                evs = [('SETPFX', [], pfx)]
                for pos in range(len(w)):
                    for x in range(256):
                        evs.append(('RSFB' if rs else 'SETON', [len(t)], t + w[:pos] + bytes([x]) + w[pos + 1:]))
                for m in (w[:-1], w[1:], w + b'\0', w + b' ', w + w[-1:], b' ' + w, w.upper(), w.title(), w.swapcase(), w[:1].upper() + w[1:]):
                    evs.append(('RSFB' if rs else 'SETON', [len(t)], t + m))
                cases.append(F.Case('kw_%s_%s%s' % (cmd.decode().replace('/', '-'), w.decode(), '_rs' if rs else ''), evs, ['exhaustive-keyword-bytes']))
        # substitutions in the command segment of the topic (compared exactly, no case folding)
        for (cmd, pay, rs) in ((b'set/on', b'1', False), (b'execute_action', b'toggle', False), (b'execute_action', b'stop', True),
                               (b'set/closing_percentage', b'50', True), (b'set/tilt', b'50', True), (b'set/brightness', b'50', 'BRI')):
            evs = [('SETPFX', [], pfx)]
            # every proper prefix of the command word, and the word extended
            for cw in [cmd[:j] for j in range(len(cmd))] + [cmd + x for x in (b'x', b'/', b'\0', b' ', b'/on', cmd[-1:], cmd)] + [b'/' + cmd, cmd.upper(), cmd.title()]:
                t = pfx + b'/channels/5/' + cw
                evs.append(('BRI' if rs == 'BRI' else 'RSFB' if rs else 'SETON', [len(t)], t + pay))
            for pos in range(len(cmd)):
                for x in sorted(set([cmd[pos] ^ 0x20, cmd[pos] | 0x20, cmd[pos] & 0xDF, 0, 0x20, 0x5F, 0x7F, 0xFF, cmd[pos] ^ 1, cmd[pos] ^ 0x80] + list(range(0x40, 0x80)))):
                    t = pfx + b'/channels/5/' + cmd[:pos] + bytes([x]) + cmd[pos + 1:]
                    evs.append(('BRI' if rs == 'BRI' else 'RSFB' if rs else 'SETON', [len(t)], t + pay))
            cases.append(F.Case('cmdseg_%s%s' % (cmd.decode().replace('/', '-'), '_bri' if rs == 'BRI' else '_rs' if rs else ''), evs, ['exhaustive-command-bytes']))
        for i in range(0, len(LONG_CHANNELS), 25):
            evs = [('SETPFX', [], pfx)]
            for nn in LONG_CHANNELS[i:i + 25]:
                t = pfx + b'/channels/' + nn + b'/set/on'; evs.append(('SETON', [len(t)], t + b'1'))
                t = pfx + b'/channels/' + nn + b'/execute_action'; evs.append(('RSFB', [len(t)], t + b'stop'))
            cases.append(F.Case('longch%d' % i, evs, ['exhaustive-long-channel']))
        for prec in range(0, 7):
            evs = [('VAL', [u, prec, 0, v], b'') for v in range(0, 1300, 7) for u in (0, 1)]
            evs += [('VAL', [0, prec, 0xFFFFFFFF, (2**32 - v) & 0xFFFFFFFF], b'') for v in range(1, 1300, 13)]
            cases.append(F.Case('val%d' % prec, evs, ['exhaustive-val']))
        return cases

    # ---------------- monitor
    def monitor(self, case, status, outs):
        c = consts(); E = c['EMAIL_MAXSIZE']; P = c['PWD_MAXSIZE']
        v = []; oi = 0; prefix = None; cfgimg = None; flags = 1
        def nxt(kind):
            nonlocal oi
            if oi < len(outs) and outs[oi][0] == kind: oi += 1; return outs[oi - 1]
            return None
        form_user = None; form_pw = None; forms = 0
        for (k, ints, data) in case.evs:
            if k == 'FORM':
                forms += 1
                m = re.search(rb'usr=([^&]*)', bytes(data)); m2 = re.search(rb'mwd=([^&]*)', bytes(data))
                if m: form_user = m.group(1)
                if m2 and m2.group(1): form_pw = m2.group(1)
            elif k == 'CFG' and len(data) == E + P + c['PREFIX_SIZE'] + 16: cfgimg = bytes(data); flags = ints[0] & 255
            elif k == 'SETPFX': prefix = bytes(data)
            elif k == 'CONNECT':
                if forms:
                    po = nxt('PREFIX'); wo = nxt('WIRE')
                    if po is None or wo is None: return v
                    try: d = parse_connect(bytes(wo[2]))
                    except ValueError as ex: v.append('CONNECT is not valid MQTT 3.1.1: %s' % ex); return v
                    # judged only when the overflow part fits behind the (new) user name
                    if form_user is not None and form_pw is not None and len(form_user) + 1 + max(0, len(form_pw) - P) + 1 <= E and len(form_user) < E - 1:
                        if d['user'] != form_user: v.append('CONNECT user name is not the one stored by the last configuration form (%d vs %d bytes)' % (len(d['user'] or b''), len(form_user)))
                        elif d['password'] != form_pw:
                            v.append('CONNECT password is not the complete password stored through the configuration form (%d bytes sent, %d stored, %d form(s), user name %d bytes)' % (len(d['password'] or b''), len(form_pw), forms, len(form_user)))
                    if v: return v
                    continue
                if cfgimg is None: cfgimg = b'\0' * (E + P + c['PREFIX_SIZE'] + 16)
                uimg, pimg, fimg, guid = cfgimg[:E], cfgimg[E:E + P], cfgimg[E + P:E + P + c['PREFIX_SIZE']], cfgimg[-16:]
                if b'\0' not in uimg or b'\0' not in fimg: return v     # outside the configuration page's output
                po = nxt('PREFIX'); wo = nxt('WIRE')
                if po is None or wo is None:
                    if status != 'ok': v.append('no CONNECT packet: the implementation crashed while building it (%s), authentication %s' % (status, 'off' if flags & 8 else 'on'))
                    return v
                dp = default_prefix(cstr(fimg))
                if prefix is None: prefix = bytes(po[2])
                try: d = parse_connect(bytes(wo[2]))
                except ValueError as ex:
                    v.append('CONNECT is not valid MQTT 3.1.1: %s' % ex); return v
                exp_user = cstr(uimg)
                exp_pw = cstr(pimg) if b'\0' in pimg else pimg + cstr(uimg[len(exp_user) + 1:])
                if flags & 8:
                    if d['user'] is not None or d['password'] is not None:
                        v.append('authentication disabled but CONNECT carries %s (connect flags 0x%02x, password %d bytes)' %
                                 (' and '.join(x for x, y in (('a user name', d['user']), ('a password', d['password'])) if y is not None), d['flags'], len(d['password'] or b'')))
                else:
                    if d['user'] != exp_user: v.append('CONNECT user name differs from the configured one (%d vs %d bytes)' % (len(d['user'] or b''), len(exp_user)))
                    elif d['password'] != exp_pw: v.append('CONNECT password is not the complete configured password (%d of %d bytes; user name %d bytes)' % (len(d['password'] or b''), len(exp_pw), len(exp_user)))
                cid = ''.join('%02X' % x for x in guid)[:22].encode()
                if d['cid'] != cid: v.append('client id is not the truncated GUID')
                if d['keep'] != 32 or not d['clean']: v.append('keep-alive %d / clean session %s' % (d['keep'], d['clean']))
                if d.get('will_topic') != dp + b'/state/connected' or d.get('will_msg') != b'false' or d['will_qos'] != 0 or d['will_retain']:
                    v.append('last will is not <prefix>/state/connected = false (QoS 0, not retained)')
                if v: return v
            elif k in ('SETON', 'RSFB', 'BRI'):
                o = nxt(k)
                if o is None:
                    if status != 'ok': v.append('%s crashed (%s) on a %d-byte value: undefined behaviour instead of ignoring it' % (k, status, len(data) - ints[0]))
                    return v
                if prefix is None: continue
                tl = ints[0]; topic = bytes(data[:tl]); msg = bytes(data[tl:])
                got = o[1]
                h = ref_head(prefix, topic)
                if got[0] == 1:
                    if h is None:
                        v.append('%s acted on channel %d although the topic is not <prefix>/channels/<0..255>/<command> (%s)' % (k, got[1], 'prefix not followed by /' if topic.startswith(prefix) and topic[len(prefix):len(prefix) + 1] != b'/' else 'channel number not a decimal 0..255' if topic.startswith(prefix + b'/channels/') else 'other')); return v
                    if got[1] != h[0]:
                        v.append('%s acted on channel %d, the topic addresses channel %d' % (k, got[1], h[0])); return v
                    cmd = h[1]; low = msg.lower() if all(x < 128 for x in msg) else None
                    if k == 'BRI':
                        val = ref_percent(msg)
                        if cmd != b'set/brightness': v.append('BRI accepted an unknown command'); return v
                        if val is None: v.append('BRI acted (brightness %d) on a value that is not a number 0..100 of the grammar [-]digits[.digits]' % got[2]); return v
                        if got[2] != val: v.append('BRI brightness %d for value %d' % (got[2], val)); return v
                    elif k == 'SETON':
                        exp = SET_ON.get(low if low is not None else msg) if cmd == b'set/on' else EXEC_ON.get(low) if cmd == b'execute_action' else None
                        if cmd == b'set/on' and msg in (b'1', b'0'): exp = int(msg)
                        if exp is None: v.append('SETON accepted an unknown command or value'); return v
                        if got[2] != exp: v.append('SETON result %d, expected %d' % (got[2], exp)); return v
                    else:
                        if cmd == b'execute_action':
                            if EXEC_RS.get(low) != got[2]: v.append('RSFB action %d for an execute_action value that does not name it' % got[2]); return v
                        elif cmd in (b'set/closing_percentage', b'set/tilt'):
                            val = ref_percent(msg)
                            if val is None: v.append('RSFB acted (action %d, %d/%d) on a value that is not a number 0..100 of the grammar [-]digits[.digits]' % (got[2], got[3], got[4])); return v
                            want = (5, val, 0) if cmd == b'set/closing_percentage' else (9, 0, val)
                            if tuple(got[2:5]) != want: v.append('RSFB numeric command gave action %d percentage %d tilt %d for value %d' % (got[2], got[3], got[4], val)); return v
                        else: v.append('RSFB accepted an unknown command'); return v
                else:
                    # must act when topic and value are plainly valid
                    if h is not None:
                        cmd = h[1]; low = msg.lower() if all(x < 128 for x in msg) else None
                        valid = False
                        if k == 'SETON': valid = (cmd == b'set/on' and low in SET_ON) or (cmd == b'execute_action' and low in EXEC_ON)
                        elif k == 'BRI': valid = cmd == b'set/brightness' and ref_percent(msg) is not None
                        else: valid = (cmd == b'execute_action' and low in EXEC_RS) or (cmd in (b'set/closing_percentage', b'set/tilt') and ref_percent(msg) is not None)
                        if valid: v.append('%s ignored a valid command for channel %d' % (k, h[0])); return v
            elif k == 'VAL':
                o = nxt('VAL')
                if o is None:
                    if status != 'ok' and ints[1] <= 20: v.append('number rendering crashed (%s) for raw value %d, precision %d, %s' % (status, (ints[2] << 32) | ints[3], ints[1], 'unsigned' if ints[0] else 'signed'))
                    return v
                uns, prec, raw = ints[0], ints[1], (ints[2] << 32) | ints[3]
                if prec > 20: continue
                exp = render(raw, bool(uns), prec)
                if bytes(o[2]) != exp:
                    v.append('value %d (%s) with precision %d is not rendered as its exact decimal (got %d characters, expected %d)' % (raw if uns or raw < 2**63 else raw - 2**64, 'unsigned' if uns else 'signed', prec, len(o[2]), len(exp))); return v
        return v

    def compare(self, case, mo, io):
        if any(e[0] == 'FORM' for e in case.evs): return None     # the configuration page is outside the model: monitor only
        return F.PropCheck.compare(self, case, mo, io)
    def finding_key(self, case, what): return None
    def nontrivial(self, case, io): return len(io[1]) > 0

CHECK = C17()
