"""C09 — shutter position estimate vs. motor run time: generators, implementation-side monitor, check definition."""
import fcntl, glob, hashlib, os, shutil
from fractions import Fraction
import framework as F

# ---------------------------------------------------------------------------------------------------
# The C09/C10 models use Coq primitive floats; the extracted code needs the kernel's Float64/Uint63
# modules (ExtrOCamlFloats / ExtrOCamlInt63).  framework.extract_model has no way to pass packages,
# so this is a copy of it with `-rectypes -thread -package coq-core.kernel -linkpkg` (own helper, see
# docs/reports/C09.md); installed only inside the process that runs this check.
def extract_model_floats(pid):
    VERIF = F.VERIF; sh = F.sh
    d = os.path.join(VERIF, 'ocaml', pid.lower())
    os.makedirs(d, exist_ok=True)
    with open(os.path.join(d, '.lock'), 'w') as lk:
        fcntl.flock(lk, fcntl.LOCK_EX)
        rc, out, err = sh([os.path.join(VERIF, 'bin', 'coqmake'), '-j%d' % F.NCPU, '%s/Model.vo' % pid], timeout=900)
        if rc != 0:
            return None, 'model build failed:\n' + (out + err)[-3000:]
        key = hashlib.sha256()
        deps = glob.glob(os.path.join(VERIF, 'coq', pid, '*.vo')) + glob.glob(os.path.join(VERIF, 'coq', 'Gen', '*.vo'))
        if pid != 'C09': deps += glob.glob(os.path.join(VERIF, 'coq', 'C09', 'Model.vo'))
        for p in sorted(deps + [os.path.join(VERIF, 'ocaml', 'driver.ml'), os.path.join(VERIF, 'coq', pid, 'Extract.v')]):
            key.update(p.encode()); key.update(open(p, 'rb').read())
        key.update(b'floats-v1')
        stamp = os.path.join(d, '.stamp'); exe = os.path.join(d, 'driver')
        if os.path.exists(stamp) and os.path.exists(exe) and open(stamp).read() == key.hexdigest():
            return exe, ''
        rc, out, err = sh(['coqc', '-Q', os.path.join(VERIF, 'coq'), 'V', os.path.join(VERIF, 'coq', pid, 'Extract.v')], cwd=d, timeout=600)
        for junk in glob.glob(os.path.join(VERIF, 'coq', pid, 'Extract.vo*')) + glob.glob(os.path.join(VERIF, 'coq', pid, 'Extract.glob')) + glob.glob(os.path.join(VERIF, 'coq', pid, '.Extract.aux')):
            os.remove(junk)
        if rc != 0:
            return None, 'extraction failed:\n' + (out + err)[-3000:]
        shutil.copy(os.path.join(VERIF, 'ocaml', 'driver.ml'), os.path.join(d, 'driver.ml'))
        rc, out, err = sh(['ocamlfind', 'ocamlopt', '-O3', '-w', '-a', '-rectypes', '-thread', '-package', 'coq-core.kernel', '-linkpkg',
                           'model.mli', 'model.ml', 'driver.ml', '-o', 'driver'], cwd=d, timeout=600)
        if rc != 0:
            return None, 'ocaml build failed:\n' + (out + err)[-3000:]
        open(stamp, 'w').write(key.hexdigest())
        return exe, ''

def install_float_extraction():
    F.extract_model = extract_model_floats

# ---------------------------------------------------------------------------------------------------
def run_batches(chk, ctx, makers, label):
    """thorough tier in batches: generate -> run both drivers -> monitor / compare -> drop, so that peak memory stays bounded.
    Alarms and disagreements go to the framework's lists (at most 3 alarms are kept per listed finding class)."""
    import gc, hashlib, time
    known_keys = {k for k, _ in F.load_findings().get(chk.pid, [])}
    kept = {}; n = 0; nontriv = set(); hist = {}; t0 = time.time()
    for make in makers:
        cases = make()
        if not cases: continue
        ires, _ = F.run_batch(ctx['iexe'], cases)
        mres = F.run_batch(ctx['mexe'], cases, chk.IN, chk.OUT)[0] if ctx['mexe'] is not None else {}
        for c in cases:
            io = ires.get(c.id, ('missing', [])); n += 1
            for t in c.tags: hist[t] = hist.get(t, 0) + 1
            if chk.nontrivial(c, io): nontriv.add(hashlib.sha256(F.case_text(c).encode()).digest()[:12])
            for v in chk.monitor(c, io[0], io[1]):
                key = chk.finding_key(c, v)
                if key is not None and key in known_keys:
                    kept[key] = kept.get(key, 0) + 1
                    if kept[key] > 3: continue
                ctx['alarms'].append((c, v))
            if ctx['mexe'] is not None:
                d = chk.compare(c, mres.get(c.id, ('missing', [])), io)
                if d and len(ctx['disagreements']) < 40: ctx['disagreements'].append((c, d))
        del cases, ires, mres; gc.collect()
    ctx['extra'][label] = dict(evaluations=n, distinct_nontrivial=len(nontriv), known_finding_alarms=kept, input_distribution=hist,
                               wall_s=round(time.time() - t0, 1))

def known(p): return 100 <= p <= 10100

class Ideal:
    """The physical reading of the property, in exact rationals: tilt and position (raw 0..10000) of a motor that has
    run for a given time in one direction from a given start, per tilt mode."""
    def __init__(self, cfg):
        (self.boot, self.fo, self.fc, self.tilt_ms, self.ttype, self.margin) = cfg[:6]
    def supported(self): return self.tilt_ms != 0 and self.ttype != 0
    def after(self, p0, t0, up, t_us):
        """p0/t0 raw start (0..10000); returns (pos, tilt) as Fractions; tilt None when not supported"""
        full = (self.fo if up else self.fc) * 1000
        sgn = -1 if up else 1
        clampf = lambda x: max(Fraction(0), min(Fraction(10000), x))
        if not self.supported():
            return clampf(p0 + sgn * Fraction(10000 * t_us, full)), None
        Tt = self.tilt_ms * 1000
        if self.ttype == 2:
            return clampf(p0 + sgn * Fraction(10000 * t_us, full)), clampf(t0 + sgn * Fraction(10000 * t_us, Tt))
        Tp = full - Tt
        if self.ttype == 3 and p0 < 10000:
            # tilt is fixed (0 %) away from the fully closed position; tilting starts when fully closed
            if up: return clampf(p0 - Fraction(10000 * t_us, Tp)), Fraction(0)
            t_pos = Fraction((10000 - p0) * Tp, 10000)
            if t_us <= t_pos: return clampf(p0 + Fraction(10000 * t_us, Tp)), Fraction(0)
            return Fraction(10000), clampf(Fraction(10000 * (t_us - t_pos), Tt))
        # tilt first, then position
        rem_tilt = (t0 if up else 10000 - t0)
        t_tilt = Fraction(rem_tilt * Tt, 10000)
        if t_us <= t_tilt: return Fraction(p0), clampf(t0 + sgn * Fraction(10000 * t_us, Tt))
        return clampf(p0 + sgn * Fraction(10000 * (t_us - t_tilt), Tp)), Fraction(0 if up else 10000)

class C09(F.PropCheck):
    pid = 'C09'; gen_groups = ['RsConsts']; prop_file = 'Properties_C09'
    IN = {'CFG': 0, 'SET': 1, 'CB': 2, 'POKE': 3, 'RESEND': 4}
    OUT = {0: 'ST', 1: 'REPORT'}
    quick_cases = 1500; thorough_cases = 1000          # thorough: 1000 cases through the framework + 30 batches of 500 (extra_quick)
    thorough_batches = 30; batch_size = 500
    trusted_extra = ['C09 driver harness/drv/c09.c: real supla_esp_gpio_init, rs_timer_cb, move_position, calibrate, get_current_position/_tilt, '
                     'set_relay; output pins written directly (SET), callback called directly at scripted times (own os_timer disarmed)',
                     'extraction: ExtrOCamlFloats + ExtrOCamlInt63, linked against coq-core.kernel (Float64, Uint63); host x86-64 SSE2 double arithmetic '
                     'stands for the target soft-float binary64',
                     'Coq standard-library axioms on primitive floats/integers (FloatAxioms, Uint63 axioms) wherever the float instance `fops` is used']
    assumptions = ['FP1..FP5 (relational facts on the five double sub-expressions) are hypotheses of the accounting theorems unless stated otherwise',
                   'full_time_ms * 1000 < 2^32; tilt time < full time for the modes that tilt in place; roller shutter has tilt time 0',
                   'run boundaries are callbacks (the switching latency is bounded separately in C09_end_to_end)']
    rule = ('one shutter; configurations = travel times 0.5 s..600 s (fixed corners + random) x tilt mode 0..3 x tilt time x margin x start position/tilt '
            '(unknown, end stops, random) x boot counter (incl. wrap during the run); scripts = 1..6 runs up/down/off with callback intervals 10 ms exact, '
            '10..30 ms jitter, 1..250 ms random, and mixed; non-trivial = position or tilt changed at least once; distinct by sha256 of the event text')

    def build_impl(self):
        return F.build_c('c09', os.path.join(F.VERIF, 'harness', 'drv', 'c09.c'), exclude=('supla_esp_rs_fb',),
                         extra_srcs=[os.path.join(F.VERIF, 'harness', 'wrap', 'c09_rsfb_wrap.c')])

    # ---------------- generators
    def gen_cfg(self, rng, tier):
        TIMES = [500, 1000, 2000, 10000, 17300, 60000, 600000]
        def tm():
            k = rng.random()
            if k < 0.6: return rng.choice(TIMES)
            if k < 0.8: return rng.randrange(500, 5000)
            return rng.randrange(500, 600001)
        fo = tm(); fc = fo if rng.random() < 0.5 else tm()
        ttype = rng.choice([0, 0, 0, 1, 1, 2, 2, 3, 3])
        if ttype == 0: tilt_ms = 0
        elif ttype == 2: tilt_ms = rng.choice([500, 1000, 2000, 1730, rng.randrange(500, 20000), tm()])
        else:
            m = min(fo, fc)
            if m <= 1000: tilt_ms = rng.randrange(1, m - 400) if m > 500 else rng.randrange(1, 400)
            else: tilt_ms = rng.choice([500, 1000, 2000, 1730, rng.randrange(500, m - 400)]) if m > 2500 else rng.randrange(500, m - 400)
            if tilt_ms >= m - 100: tilt_ms = max(1, m - 400)
        if rng.random() < 0.04 and ttype != 0: tilt_ms = 0
        margin = rng.choice([-1, -1, 0, 5, 50, 100, rng.randrange(0, 101)])
        k = rng.random()
        if k < 0.12: pos0 = 0
        elif k < 0.3: pos0 = rng.choice([100, 10100])
        else: pos0 = rng.randrange(100, 10101)
        k = rng.random()
        if k < 0.2: tilt0 = 0
        elif k < 0.4: tilt0 = rng.choice([100, 10100])
        else: tilt0 = rng.randrange(100, 10101)
        if ttype == 3 and pos0 != 10100: tilt0 = 100 if rng.random() < 0.9 else tilt0
        k = rng.random()
        if k < 0.5: boot = 1
        elif k < 0.8: boot = rng.randrange(1, 2**32)
        else: boot = 2**32 - rng.randrange(1, 30_000_000)
        now0 = rng.choice([100000, 250000, rng.randrange(50000, 2_000_000)])
        return [boot, fo, fc, tilt_ms, ttype, margin, pos0, tilt0, now0]

    def gen_dts(self, rng, total_us, maxn):
        style = rng.choice(['exact10', 'jitter', 'random', 'mixed', 'coarse', 'fine'])
        out = []; t = 0
        while t < total_us and len(out) < maxn:
            if style == 'exact10': dt = 10000
            elif style == 'jitter': dt = 10000 + rng.choice([0, 0, 0, rng.randrange(0, 20001)])
            elif style == 'random': dt = rng.randrange(1000, 250001)
            elif style == 'fine': dt = rng.randrange(1000, 3000)          # lower end of the quantifier, not whole milliseconds
            elif style == 'coarse': dt = rng.choice([100000, 250000, 200000, rng.randrange(50000, 250001)])
            else: dt = rng.choice([1000, 10000, 10000, 10001, 9999, 30000, 250000, rng.randrange(1000, 250001)])
            out.append(dt); t += dt
        return out, style

    def extra_quick(self, ctx):
        if ctx['tier'] != 'thorough' or ctx['iexe'] is None: return
        import random
        def maker(b): return lambda: self.gen_cases(random.Random(ctx['seed'] * 7919 + 104729 * (b + 1)), self.batch_size, 'thorough', prefix='b%d_' % b)
        run_batches(self, ctx, [maker(b) for b in range(self.thorough_batches)], 'batched_thorough')

    def gen_cases(self, rng, n, tier, prefix=''):
        cases = []
        for i in range(n):
            cfg = self.gen_cfg(rng, tier)
            evs = [('CFG', cfg, b'')]; tags = ['type%d' % cfg[4], 'unknown-start' if cfg[6] == 0 else 'known-start']
            if cfg[0] > 2**32 - 30_000_000: tags.append('boot-near-wrap')
            budget = 2500 if tier != 'thorough' else 6000
            for _ in range(rng.randrange(1, 4)): evs.append(('CB', [10000], b''))
            nruns = rng.choice([1, 1, 2, 3, 4, 6]); used = 0
            for r in range(nruns):
                d = rng.choice([1, 2, 1, 2, 0])
                evs.append(('SET', [d], b''))
                full = (cfg[1] if d == 2 else cfg[2]) * 1000
                k = rng.random()
                if k < 0.35: total = int(full * rng.uniform(0.02, 0.9))
                elif k < 0.7: total = int(full * rng.uniform(0.9, 1.3))
                else: total = int(full * rng.uniform(1.3, 2.6))
                if d == 0: total = rng.choice([10000, 50000, 300000])
                maxn = max(5, (budget - used) // (nruns - r))
                if total // 10000 > maxn:
                    # long travel: use coarse intervals so that the run fits the budget
                    dts = []; t = 0
                    while t < total and len(dts) < maxn:
                        dt = rng.choice([250000, 200000, 100000, rng.randrange(50000, 250001)]); dts.append(dt); t += dt
                    style = 'coarse'
                else:
                    dts, style = self.gen_dts(rng, total, maxn)
                tags.append(style)
                for dt in dts: evs.append(('CB', [dt], b''))
                used += len(dts)
                if rng.random() < 0.05:
                    evs.append(('POKE', [rng.choice([0, 100, 10100, rng.randrange(100, 10101)]), rng.choice([0, 100, 10100, rng.randrange(100, 10101)])], b''))
                    tags.append('poke')
            if rng.random() < 0.12:
                # place the wrap of the 32-bit microsecond counter inside a late callback interval of a run (report block / 10-minute
                # rule / elapsed-time arithmetic must be wrap-safe)
                cbs = [j for j, e in enumerate(evs) if e[0] == 'CB']
                j = rng.choice(cbs[len(cbs) // 8:]) if len(cbs) > 8 else cbs[-1]
                late = rng.choice([60000, 100000, 150000, 250000, rng.randrange(30000, 250001)])
                evs[j] = ('CB', [late], b'')
                before = cfg[8] + sum(e[1][0] for e in evs[1:j] if e[0] == 'CB')
                cfg[0] = (2**32 - (before + rng.randrange(1, late))) % 2**32
                if cfg[0] == 0: cfg[0] = 1
                tags = [t for t in tags if t != 'boot-near-wrap'] + ['wrap-in-late-callback']
            cases.append(F.Case('%s%s%d' % (prefix, tier[0], i), evs, tags))
        # boundary of the case split `remaining time <= accumulated time` (and `time_delta > *time`) of move_position: one callback whose
        # interval equals the remaining time of the run exactly, one microsecond less, one more; half of them on (distance, travel time)
        # pairs for which the two-rounding product falls below the exact floor (then time_delta exceeds the accumulated time by one)
        for i in range(max(6, n // 12)):
            F_ms = rng.choice([500, 1000, 2000, 17300, 60000, 600000, rng.randrange(500, 600001)])
            T = F_ms * 1000
            rmax = max(1, min(10000, 250000 * 10000 // T))
            want_below = rng.random() < 0.5
            r = None
            for _ in range(400):
                cand = rng.randrange(1, rmax + 1)
                a_ = int((1.0 * cand / 10000.0) * T); b_ = cand * T // 10000
                if a_ >= 1000 and ((a_ - b_ == -1) == want_below): r = cand; rpt = a_; break
            if r is None: continue
            ttype = rng.choice([0, 0, 0, 2])
            tilt_ms = 0 if ttype == 0 else rng.choice([500, 2000])
            d = rng.choice([1, 2])
            pos0 = 100 + r if d == 2 else 10100 - r
            tilt0 = 100 if d == 2 else 10100       # tilt already at its end stop: only the position block runs
            cfg = [rng.choice([1, rng.randrange(1, 2**32)]), F_ms, F_ms, tilt_ms, ttype, rng.choice([-1, 5, 100]), pos0, tilt0, 250000]
            evs = [('CFG', cfg, b''), ('CB', [10000], b''), ('SET', [d], b''), ('CB', [rpt + rng.choice([-1, 0, 0, 1])], b'')]
            evs += [('CB', [rng.choice([1000, 10000, 30000])], b'') for _ in range(rng.randrange(2, 12))]
            cases.append(F.Case('%s%sB%d' % (prefix, tier[0], i), evs, ['clamp-boundary', 'float-below-floor' if want_below else 'float-exact', 'type%d' % ttype]))
        # the command for the direction that is already running is sent again and again, at a random phase BETWEEN two callbacks
        # (callbacks 10..250 ms): a repeated command must not drop the time since the last callback from the accounting
        for i in range(max(16, n // 30)):
            F_ms = rng.choice([2000, 5000, 17300, 60000, rng.randrange(1000, 30000)])
            d = rng.choice([1, 2]); pos0 = rng.choice([100, 10100, rng.randrange(100, 10101)]) if rng.random() < 0.5 else (10100 if d == 2 else 100)
            cfg = [rng.choice([1, rng.randrange(1, 2**32)]), F_ms, F_ms, 0, 0, rng.choice([-1, 5, 100]), pos0, 0, 250000]
            evs = [('CFG', cfg, b''), ('CB', [10000], b''), ('SET', [d], b'')]
            style = rng.choice(['tick10', 'tick10', 'mixed', 'coarse']); total = int(F_ms * 1000 * rng.uniform(0.15, 0.8)); t = 0; k = 0
            while t < total and k < 2500:
                dt = 10000 if style == 'tick10' else (rng.choice([100000, 250000, 200000, rng.randrange(50000, 250001)]) if style == 'coarse' else rng.randrange(10000, 250001))
                if rng.random() < (0.5 if style == 'tick10' else 0.35): evs.append(('RESEND', [rng.randrange(1, dt)], b''))
                evs.append(('CB', [dt], b'')); t += dt; k += 1
            evs.append(('SET', [0], b'')); evs += [('CB', [100000], b'')] * 3
            cases.append(F.Case('%s%sR%d' % (prefix, tier[0], i), evs, ['resend-same-direction', 'type0', style]))
        # boot from a state sector with arbitrary 32-bit position / tilt words (the tilt slot is a union with the RGB colour, the sector is
        # loaded without validation): what is reported from boot until the first movement must be -1 or 0..100 for EVERY stored value
        WORDS = [-1, -2147483648, -100, 0, 1, 99, 100, 101, 5100, 10099, 10100, 10101, 10150, 12900, 12950, 0xFF00, 0xFF0000, 0xFFFFFF, 0x7FFFFFFF,
                 25700, 25749, 25750, 65535, 65536]
        for i in range(max(24, n // 25)):
            ttype = rng.choice([1, 2, 3, 1, 2, 3, 0]); tilt_ms = 0 if ttype == 0 else rng.choice([500, 2000, 1730])
            w = lambda: rng.choice(WORDS) if rng.random() < 0.8 else rng.randrange(-2**31, 2**31)
            pos0 = w() if rng.random() < 0.6 else rng.choice([100, 5100, 10100])
            tilt0 = WORDS[i % len(WORDS)] if i < len(WORDS) else w()
            F_ms = rng.choice([2000, 20000, 17300])
            cfg = [rng.choice([1, rng.randrange(1, 2**32)]), F_ms, F_ms, tilt_ms, ttype, rng.choice([-1, 5]), pos0, tilt0, 250000]
            evs = [('CFG', cfg, b'')] + [('CB', [rng.choice([10000, 100000, 250000])], b'') for _ in range(rng.randrange(3, 30))]
            if rng.random() < 0.5:
                evs.append(('SET', [rng.choice([1, 2])], b'')); evs += [('CB', [10000], b'')] * rng.randrange(5, 120)
                evs.append(('SET', [0], b'')); evs += [('CB', [100000], b'')] * 4
            cases.append(F.Case('%s%sG%d' % (prefix, tier[0], i), evs, ['persisted-state-words', 'type%d' % ttype]))
        # the 10-minute rule across the counter wrap: motor energised for more than 600 s, coarse callbacks
        for i in range(max(2, n // 60)):
            fo = rng.choice([0, 0, 600000, 400000])
            cfg = [1, fo, fo, 0, 0, rng.choice([-1, 100]), 0 if fo == 0 else rng.choice([0, 5000]), 0, 250000]
            d = rng.choice([1, 2])
            evs = [('CFG', cfg, b''), ('CB', [10000], b''), ('SET', [d], b'')]
            dts = [rng.choice([250000, 250000, 200000, 249999]) for _ in range(2700)]
            wrap_at = rng.randrange(1_000_000, 598_000_000)
            cfg[0] = (2**32 - wrap_at) % 2**32
            evs += [('CB', [dt], b'') for dt in dts]
            cases.append(F.Case('%s%sT%d' % (prefix, tier[0], i), evs, ['ten-minute-rule', 'wrap-during-run', 'type0']))
        return cases

    # ---------------- monitor: the property text evaluated on the implementation trace (no Coq model involved)
    def monitor(self, case, status, outs):
        if status != 'ok':
            # the sanitizers stopped the real code (undefined behaviour such as an out-of-range double -> integer conversion, or a
            # memory error): no position/tilt bookkeeping is defined for this input
            return ['implementation crashed (%s): undefined behaviour or memory error inside the accounting code' % status]
        v = []
        cfg = None; idl = None; d = 0
        sts = [o for o in outs if o[0] == 'ST']; si = 0
        reps = []; cur = []          # reps[i] = values reported inside callback i
        for o in outs:
            if o[0] == 'REPORT': cur.append(o[2])
            elif o[0] == 'ST': reps.append(cur); cur = []
        rep_tilt = None; stale_t = 0
        rep_pos = None; stale_us = 0; maxdt_seen = 0     # last position value handed to the server; how long it has differed from the stored one
        for o in outs:
            if o[0] == 'REPORT' and len(o[2]) >= 2:
                rp_ = o[2][0] - 256 if o[2][0] > 127 else o[2][0]; rt_ = o[2][1] - 256 if o[2][1] > 127 else o[2][1]
                if not (rp_ == -1 or 0 <= rp_ <= 100): v.append('value handed to the server has position %d (not -1 or 0..100)' % rp_)
                if not (rt_ == -1 or 0 <= rt_ <= 100): v.append('value handed to the server has tilt %d (not -1 or 0..100)' % rt_)
        pos = tilt = None; wf = True; in_scope = False; blocked = False; last_carry = (0, 0); synced = False
        seg = None   # [dir, p0raw, t0raw, elapsed_us, max interval, min interval]
        def state_ok(p, t):
            if not ((p == 0 or known(p)) and (t in (0, -1) or known(t))): return False
            # "tilting only when fully closed": a stored tilt other than 0 % away from the closed position is not a
            # state the module produces itself (stale value of another tilt mode)
            if cfg is not None and cfg[4] == 3 and idl.supported() and known(p) and p < 10100 and known(t) and t != 100: return False
            return True
        for (k, a, _) in case.evs:
            if k == 'CFG':
                rep_pos = None; stale_us = 0; rep_tilt = None; stale_t = 0
                cfg = a; idl = Ideal(a); pos = a[6]; tilt = a[7] if idl.supported() else -1; d = 0; seg = None
                blocked = False; synced = False     # synced: a callback has run (last_time is not initialised before)
                wf = state_ok(pos, tilt)
                # the quantifier of the property: times 0.5 s .. 10 min; tilting shorter than the travel for the modes that tilt in place;
                # a roller shutter has no tilting time
                in_scope = all(500 <= x <= 600000 for x in (a[1], a[2])) and (not idl.supported() or 500 <= a[3] <= 600000)
                if idl.supported() and a[4] in (1, 3) and a[3] > min(a[1], a[2]) - 500: in_scope = False
                if a[4] == 0 and a[3] != 0: in_scope = False
            elif k == 'SET':
                # a run that starts with the carry of an earlier run in the same direction still stored (outputs switched off and on
                # again between two callbacks, impossible through set_relay because of the 1 s start delay) is not "t ms from a known position"
                # Switching to the direction that is already energised is not a run boundary: the motor keeps running, the run
                # (its start values, elapsed time, largest/smallest interval) continues.
                if a[0] != d:
                    if a[0] == 2: blocked = (last_carry[0] != 0)
                    elif a[0] == 1: blocked = (last_carry[1] != 0)
                    d = a[0]; seg = None
            elif k == 'POKE':
                pos, tilt = a[0], a[1]; seg = None; blocked = True    # the carry of the running motor is not a run "from a known position"
                if not state_ok(pos, tilt): wf = False
            elif k == 'CB':
                if si >= len(sts) or cfg is None: break
                o = sts[si][1]; si += 1
                npos, ntilt, ut, dtm, nd, rpos, rtilt = o
                where = 'callback #%d' % si
                # --- range
                if wf:
                    if not (npos == 0 or known(npos)): v.append('%s: stored position %d is neither unknown nor inside 0..100 %%' % (where, npos))
                    if not (ntilt in (0, -1) or known(ntilt)): v.append('%s: stored tilt %d is neither unknown nor inside 0..100 %%' % (where, ntilt))
                if not (rpos == -1 or 0 <= rpos <= 100): v.append('%s: reported position %d is not -1 or 0..100' % (where, rpos))
                if not (rtilt == -1 or 0 <= rtilt <= 100): v.append('%s: reported tilt %d is not -1 or 0..100' % (where, rtilt))
                # --- the reported value is the stored one rounded to percent ("range checks and rounding to percent"): -1 for an unknown
                # position; tilt: -1 when tilting is not supported, 0 for an unknown tilt
                exp_pos = (npos - 100 + 50) // 100 if known(npos) else -1
                exp_tilt = -1 if not idl.supported() else ((ntilt - 100 + 50) // 100 if known(ntilt) else 0)
                if rpos != exp_pos: v.append('%s: stored position %d is reported as %d (expected %d)' % (where, npos, rpos, exp_pos))
                if rtilt != exp_tilt: v.append('%s: stored tilt %d is reported as %d (expected %d)' % (where, ntilt, rtilt, exp_tilt))
                # --- direction
                if wf and d in (1, 2) and known(pos) and known(npos):
                    if d == 2 and npos > pos: v.append('%s: position rose %d -> %d while moving up' % (where, pos, npos))
                    if d == 1 and npos < pos: v.append('%s: position fell %d -> %d while moving down' % (where, pos, npos))
                    if known(tilt) and known(ntilt) and idl.supported():
                        if d == 2 and ntilt > tilt: v.append('%s: tilt rose %d -> %d while moving up [mode=%d]' % (where, tilt, ntilt, cfg[4]))
                        if d == 1 and ntilt < tilt: v.append('%s: tilt fell %d -> %d while moving down [mode=%d]' % (where, tilt, ntilt, cfg[4]))
                # --- accounting
                if wf and in_scope and synced and not blocked and d in (1, 2) and known(pos):
                    if seg is None or seg[0] != d:
                        t0 = (tilt - 100) if (idl.supported() and known(tilt)) else 0
                        seg = [d, pos - 100, t0, 0, 0, 10**9]
                    seg[3] += a[0]; seg[4] = max(seg[4], a[0]); seg[5] = min(seg[5], a[0])
                    up = (d == 2)
                    ip, it = idl.after(seg[1], seg[2], up, seg[3])
                    full = (cfg[1] if up else cfg[2]) * 1000
                    Tp = full - cfg[3] * 1000 if (idl.supported() and cfg[4] in (1, 3)) else full
                    lat = 30000
                    def verdict(what, stored, ideal, T, raw0):
                        tol = 100 + Fraction(10000 * lat, T)
                        err = abs(stored - ideal)
                        if err <= tol: return
                        # classification data for finding_key: would the deviation fit the travel of the largest callback interval of the run
                        # (the callback that spans the hand-over between tilting and moving treats only one of them)?
                        lag = err <= 100 + Fraction(10000 * max(lat, seg[4]), T)
                        slow = idl.supported() and cfg[3] * 1000 > 10000 * seg[5]   # one tilt unit (0.01 %) takes longer than the shortest interval
                        v.append('%s: after %d us %s from raw %s %d the stored %s is %d, ideal %.1f (tolerance %.1f) [mode=%d maxdt=%d handover_lag=%d slow_tilt=%d]' %
                                 (where, seg[3], 'up' if up else 'down', what, raw0, what, stored, float(ideal), float(tol), cfg[4], seg[4], int(lag), int(slow)))
                    if known(npos): verdict('position', npos - 100, ip, Tp, seg[1])
                    if it is not None and known(ntilt): verdict('tilt', ntilt - 100, it, cfg[3] * 1000, seg[2])
                    if not known(npos): seg = None
                else:
                    seg = None
                # --- the reported value follows the stored one within the 200 ms reporting period (+ one callback interval)
                maxdt_seen = max(maxdt_seen, a[0])
                for rb in reps[si - 1]:
                    rep_pos = rb[0] - 256 if rb[0] > 127 else rb[0]
                    if cfg[4] != 0 and len(rb) > 1: rep_tilt = rb[1] - 256 if rb[1] > 127 else rb[1]
                # the tilt byte of a facade-blind value follows the stored tilt in the same way (a change of the tilt alone is reported too)
                if rep_tilt is not None and cfg[4] != 0:
                    if rep_tilt != exp_tilt:
                        stale_t += a[0]
                        if stale_t > 200000 + 2 * maxdt_seen + a[0]:
                            v.append('%s: the tilt handed to the server (%d) has differed from the stored one (%d) for %d us (reporting period 200 ms)' % (where, rep_tilt, exp_tilt, stale_t))
                            stale_t = -10**12
                    else: stale_t = 0
                if rep_pos is not None:
                    if rep_pos != rpos:
                        stale_us += a[0] if stale_us or True else 0
                        if stale_us > 200000 + 2 * maxdt_seen + a[0]:
                            v.append('%s: the position handed to the server (%d) has differed from the stored one (%d) for %d us (reporting period 200 ms)' % (where, rep_pos, rpos, stale_us))
                            stale_us = -10**12
                    else: stale_us = 0
                pos, tilt = npos, ntilt; last_carry = (ut, dtm)
                if d == 0: blocked = False     # a callback with both outputs off clears the carries
                if not synced: synced = True; blocked = blocked or d != 0
                if nd != d: d = nd; seg = None
                if len(v) >= 3: break
        return v[:3]

    def nontrivial(self, case, io):
        sts = [o[1] for o in io[1] if o[0] == 'ST']
        return len({(s[0], s[1]) for s in sts}) > 1

    def finding_key(self, case, what):
        """classes of the known deviations of the facade-blind accounting (see docs/reports/C09.md)"""
        import re
        m = re.search(r'\[mode=(\d)(?: maxdt=(\d+) handover_lag=(\d) slow_tilt=(\d))?\]', what)
        if not m: return None
        mode = int(m.group(1))
        if m.group(2) is None:
            # direction alarm on the tilt of a blind: only the starved-tilt class produces it (mode 1/3, slow tilting)
            cfg = case.evs[0][1] if case.evs and case.evs[0][0] == 'CFG' else None
            if cfg and mode in (1, 3):
                mind = min([e[1][0] for e in case.evs if e[0] == 'CB'] or [0])
                if cfg[3] * 1000 > 10000 * mind: return 'fb-slow-tilt-starved'
            return None
        lag, slow = int(m.group(3)), int(m.group(4))
        if mode == 2 and 'the stored tilt' in what: return 'fb-mode2-tilt-shares-position-carry'
        if mode in (1, 3) and slow: return 'fb-slow-tilt-starved'
        if mode in (1, 3) and lag and int(m.group(2)) > 30000: return 'fb-handover-lag'
        return None

CHECK = C09()
install_float_extraction()
