"""C09 — shutter position estimate vs. motor run time: generators, implementation-side monitor, check definition."""
import fcntl, glob, hashlib, os, shutil
from fractions import Fraction
import framework as F

# ---------------------------------------------------------------------------------------------------
# The C09/C10 models use Coq primitive floats; the extracted code needs the kernel's Float64/Uint63
# modules (ExtrOCamlFloats / ExtrOCamlInt63).  framework.extract_model has no way to pass packages,
# so this is a copy of it with `-rectypes -thread -package coq-core.kernel -linkpkg` (own helper, see
# docs/reports/C09.md); installed only inside the process that runs this check.
def extract_model_floats(pid):
    VERIF = F.VERIF; sh = F.sh
    d = os.path.join(VERIF, 'ocaml', pid.lower())
    os.makedirs(d, exist_ok=True)
    with open(os.path.join(d, '.lock'), 'w') as lk:
        fcntl.flock(lk, fcntl.LOCK_EX)
        rc, out, err = sh([os.path.join(VERIF, 'bin', 'coqmake'), '-j%d' % F.NCPU, '%s/Model.vo' % pid], timeout=900)
        if rc != 0:
            return None, 'model build failed:\n' + (out + err)[-3000:]
        key = hashlib.sha256()
        deps = glob.glob(os.path.join(VERIF, 'coq', pid, '*.vo')) + glob.glob(os.path.join(VERIF, 'coq', 'Gen', '*.vo'))
        if pid != 'C09': deps += glob.glob(os.path.join(VERIF, 'coq', 'C09', 'Model.vo'))
        for p in sorted(deps + [os.path.join(VERIF, 'ocaml', 'driver.ml'), os.path.join(VERIF, 'coq', pid, 'Extract.v')]):
            key.update(p.encode()); key.update(open(p, 'rb').read())
        key.update(b'floats-v1')
        stamp = os.path.join(d, '.stamp'); exe = os.path.join(d, 'driver')
        if os.path.exists(stamp) and os.path.exists(exe) and open(stamp).read() == key.hexdigest():
            return exe, ''
        rc, out, err = sh(['coqc', '-Q', os.path.join(VERIF, 'coq'), 'V', os.path.join(VERIF, 'coq', pid, 'Extract.v')], cwd=d, timeout=600)
        for junk in glob.glob(os.path.join(VERIF, 'coq', pid, 'Extract.vo*')) + glob.glob(os.path.join(VERIF, 'coq', pid, 'Extract.glob')) + glob.glob(os.path.join(VERIF, 'coq', pid, '.Extract.aux')):
            os.remove(junk)
        if rc != 0:
            return None, 'extraction failed:\n' + (out + err)[-3000:]
        shutil.copy(os.path.join(VERIF, 'ocaml', 'driver.ml'), os.path.join(d, 'driver.ml'))
        rc, out, err = sh(['ocamlfind', 'ocamlopt', '-O3', '-w', '-a', '-rectypes', '-thread', '-package', 'coq-core.kernel', '-linkpkg',
                           'model.mli', 'model.ml', 'driver.ml', '-o', 'driver'], cwd=d, timeout=600)
        if rc != 0:
            return None, 'ocaml build failed:\n' + (out + err)[-3000:]
        open(stamp, 'w').write(key.hexdigest())
        return exe, ''

def install_float_extraction():
    F.extract_model = extract_model_floats

# ---------------------------------------------------------------------------------------------------
def known(p): return 100 <= p <= 10100

class Ideal:
    """The physical reading of the property, in exact rationals: tilt and position (raw 0..10000) of a motor that has
    run for a given time in one direction from a given start, per tilt mode."""
    def __init__(self, cfg):
        (self.boot, self.fo, self.fc, self.tilt_ms, self.ttype, self.margin) = cfg[:6]
    def supported(self): return self.tilt_ms != 0 and self.ttype != 0
    def after(self, p0, t0, up, t_us):
        """p0/t0 raw start (0..10000); returns (pos, tilt) as Fractions; tilt None when not supported"""
        full = (self.fo if up else self.fc) * 1000
        sgn = -1 if up else 1
        clampf = lambda x: max(Fraction(0), min(Fraction(10000), x))
        if not self.supported():
            return clampf(p0 + sgn * Fraction(10000 * t_us, full)), None
        Tt = self.tilt_ms * 1000
        if self.ttype == 2:
            return clampf(p0 + sgn * Fraction(10000 * t_us, full)), clampf(t0 + sgn * Fraction(10000 * t_us, Tt))
        Tp = full - Tt
        if self.ttype == 3 and p0 < 10000:
            # tilt is fixed (0 %) away from the fully closed position; tilting starts when fully closed
            if up: return clampf(p0 - Fraction(10000 * t_us, Tp)), Fraction(0)
            t_pos = Fraction((10000 - p0) * Tp, 10000)
            if t_us <= t_pos: return clampf(p0 + Fraction(10000 * t_us, Tp)), Fraction(0)
            return Fraction(10000), clampf(Fraction(10000 * (t_us - t_pos), Tt))
        # tilt first, then position
        rem_tilt = (t0 if up else 10000 - t0)
        t_tilt = Fraction(rem_tilt * Tt, 10000)
        if t_us <= t_tilt: return Fraction(p0), clampf(t0 + sgn * Fraction(10000 * t_us, Tt))
        return clampf(p0 + sgn * Fraction(10000 * (t_us - t_tilt), Tp)), Fraction(0 if up else 10000)

class C09(F.PropCheck):
    pid = 'C09'; gen_groups = ['RsConsts']; prop_file = 'Properties_C09'
    IN = {'CFG': 0, 'SET': 1, 'CB': 2, 'POKE': 3}
    OUT = {0: 'ST'}
    quick_cases = 1500; thorough_cases = 60000
    trusted_extra = ['C09 driver harness/drv/c09.c: real supla_esp_gpio_init, rs_timer_cb, move_position, calibrate, get_current_position/_tilt, '
                     'set_relay; output pins written directly (SET), callback called directly at scripted times (own os_timer disarmed)',
                     'extraction: ExtrOCamlFloats + ExtrOCamlInt63, linked against coq-core.kernel (Float64, Uint63); host x86-64 SSE2 double arithmetic '
                     'stands for the target soft-float binary64',
                     'Coq standard-library axioms on primitive floats/integers (FloatAxioms, Uint63 axioms) wherever the float instance `fops` is used']
    assumptions = ['FP1..FP5 (relational facts on the five double sub-expressions) are hypotheses of the accounting theorems unless stated otherwise',
                   'full_time_ms * 1000 < 2^32; tilt time < full time for the modes that tilt in place; roller shutter has tilt time 0',
                   'run boundaries are callbacks (the switching latency is bounded separately in C09_end_to_end)']
    rule = ('one shutter; configurations = travel times 0.5 s..600 s (fixed corners + random) x tilt mode 0..3 x tilt time x margin x start position/tilt '
            '(unknown, end stops, random) x boot counter (incl. wrap during the run); scripts = 1..6 runs up/down/off with callback intervals 10 ms exact, '
            '10..30 ms jitter, 1..250 ms random, and mixed; non-trivial = position or tilt changed at least once; distinct by sha256 of the event text')

    def build_impl(self):
        return F.build_c('c09', os.path.join(F.VERIF, 'harness', 'drv', 'c09.c'))

    # ---------------- generators
    def gen_cfg(self, rng, tier):
        TIMES = [500, 1000, 2000, 10000, 17300, 60000, 600000]
        def tm():
            k = rng.random()
            if k < 0.6: return rng.choice(TIMES)
            if k < 0.8: return rng.randrange(500, 5000)
            return rng.randrange(500, 600001)
        fo = tm(); fc = fo if rng.random() < 0.5 else tm()
        ttype = rng.choice([0, 0, 0, 1, 1, 2, 2, 3, 3])
        if ttype == 0: tilt_ms = 0
        elif ttype == 2: tilt_ms = rng.choice([500, 1000, 2000, 1730, rng.randrange(500, 20000), tm()])
        else:
            m = min(fo, fc)
            if m <= 1000: tilt_ms = rng.randrange(1, m - 400) if m > 500 else rng.randrange(1, 400)
            else: tilt_ms = rng.choice([500, 1000, 2000, 1730, rng.randrange(500, m - 400)]) if m > 2500 else rng.randrange(500, m - 400)
            if tilt_ms >= m - 100: tilt_ms = max(1, m - 400)
        if rng.random() < 0.04 and ttype != 0: tilt_ms = 0
        margin = rng.choice([-1, -1, 0, 5, 50, 100, rng.randrange(0, 101)])
        k = rng.random()
        if k < 0.12: pos0 = 0
        elif k < 0.3: pos0 = rng.choice([100, 10100])
        else: pos0 = rng.randrange(100, 10101)
        k = rng.random()
        if k < 0.2: tilt0 = 0
        elif k < 0.4: tilt0 = rng.choice([100, 10100])
        else: tilt0 = rng.randrange(100, 10101)
        if ttype == 3 and pos0 != 10100: tilt0 = 100 if rng.random() < 0.9 else tilt0
        k = rng.random()
        if k < 0.5: boot = 1
        elif k < 0.8: boot = rng.randrange(1, 2**32)
        else: boot = 2**32 - rng.randrange(1, 30_000_000)
        now0 = rng.choice([100000, 250000, rng.randrange(50000, 2_000_000)])
        return [boot, fo, fc, tilt_ms, ttype, margin, pos0, tilt0, now0]

    def gen_dts(self, rng, total_us, maxn):
        style = rng.choice(['exact10', 'jitter', 'random', 'mixed', 'coarse'])
        out = []; t = 0
        while t < total_us and len(out) < maxn:
            if style == 'exact10': dt = 10000
            elif style == 'jitter': dt = 10000 + rng.choice([0, 0, 0, rng.randrange(0, 20001)])
            elif style == 'random': dt = rng.randrange(1000, 250001)
            elif style == 'coarse': dt = rng.choice([100000, 250000, 200000, rng.randrange(50000, 250001)])
            else: dt = rng.choice([1000, 10000, 10000, 10001, 9999, 30000, 250000, rng.randrange(1000, 250001)])
            out.append(dt); t += dt
        return out, style

    def gen_cases(self, rng, n, tier):
        cases = []
        for i in range(n):
            cfg = self.gen_cfg(rng, tier)
            evs = [('CFG', cfg, b'')]; tags = ['type%d' % cfg[4], 'unknown-start' if cfg[6] == 0 else 'known-start']
            if cfg[0] > 2**32 - 30_000_000: tags.append('boot-near-wrap')
            budget = 2500 if tier != 'thorough' else 6000
            for _ in range(rng.randrange(1, 4)): evs.append(('CB', [10000], b''))
            nruns = rng.choice([1, 1, 2, 3, 4, 6]); used = 0
            for r in range(nruns):
                d = rng.choice([1, 2, 1, 2, 0])
                evs.append(('SET', [d], b''))
                full = (cfg[1] if d == 2 else cfg[2]) * 1000
                k = rng.random()
                if k < 0.35: total = int(full * rng.uniform(0.02, 0.9))
                elif k < 0.7: total = int(full * rng.uniform(0.9, 1.3))
                else: total = int(full * rng.uniform(1.3, 2.6))
                if d == 0: total = rng.choice([10000, 50000, 300000])
                maxn = max(5, (budget - used) // (nruns - r))
                if total // 10000 > maxn:
                    # long travel: use coarse intervals so that the run fits the budget
                    dts = []; t = 0
                    while t < total and len(dts) < maxn:
                        dt = rng.choice([250000, 200000, 100000, rng.randrange(50000, 250001)]); dts.append(dt); t += dt
                    style = 'coarse'
                else:
                    dts, style = self.gen_dts(rng, total, maxn)
                tags.append(style)
                for dt in dts: evs.append(('CB', [dt], b''))
                used += len(dts)
                if rng.random() < 0.05:
                    evs.append(('POKE', [rng.choice([0, 100, 10100, rng.randrange(100, 10101)]), rng.choice([0, 100, 10100, rng.randrange(100, 10101)])], b''))
                    tags.append('poke')
            cases.append(F.Case('%s%d' % (tier[0], i), evs, tags))
        return cases

    # ---------------- monitor: the property text evaluated on the implementation trace (no Coq model involved)
    def monitor(self, case, status, outs):
        if status != 'ok': return []        # no memory-safety clause in C09; crashes surface as disagreements
        v = []
        cfg = None; idl = None; d = 0
        sts = [o for o in outs if o[0] == 'ST']; si = 0
        pos = tilt = None; wf = True
        seg = None   # (dir, p0raw, t0raw, elapsed_us)
        for (k, a, _) in case.evs:
            if k == 'CFG':
                cfg = a; idl = Ideal(a); pos = a[6]; tilt = a[7] if idl.supported() else -1; d = 0; seg = None
                wf = (pos == 0 or known(pos)) and (tilt in (0, -1) or known(tilt))
                # outside the quantifier of the property: times below 0.5 s / above 10 min, tilt >= full for the in-place modes
                self_ok = all(500 <= x <= 600000 for x in (a[1], a[2])) and (not idl.supported() or 500 <= a[3] <= 600000)
                if idl.supported() and a[4] in (1, 3) and a[3] >= min(a[1], a[2]): self_ok = False
                if a[4] == 0 and a[3] != 0: self_ok = False
                in_scope = self_ok
            elif k == 'SET':
                d = a[0]; seg = None
            elif k == 'POKE':
                pos, tilt = a[0], a[1]; seg = None
                if not ((pos == 0 or known(pos)) and (tilt in (0, -1) or known(tilt))): wf = False
            elif k == 'CB':
                if si >= len(sts) or cfg is None: break
                o = sts[si][1]; si += 1
                npos, ntilt, ut, dtm, nd, rpos, rtilt = o
                where = 'callback #%d' % si
                # --- range
                if wf:
                    if not (npos == 0 or known(npos)): v.append('%s: stored position %d is neither unknown nor inside 0..100 %%' % (where, npos))
                    if not (ntilt in (0, -1) or known(ntilt)): v.append('%s: stored tilt %d is neither unknown nor inside 0..100 %%' % (where, ntilt))
                if not (rpos == -1 or 0 <= rpos <= 100): v.append('%s: reported position %d is not -1 or 0..100' % (where, rpos))
                if not (rtilt == -1 or 0 <= rtilt <= 100): v.append('%s: reported tilt %d is not -1 or 0..100' % (where, rtilt))
                # --- direction
                if wf and d in (1, 2) and known(pos) and known(npos):
                    if d == 2 and npos > pos: v.append('%s: position rose %d -> %d while moving up' % (where, pos, npos))
                    if d == 1 and npos < pos: v.append('%s: position fell %d -> %d while moving down' % (where, pos, npos))
                    if known(tilt) and known(ntilt) and idl.supported():
                        if d == 2 and ntilt > tilt: v.append('%s: tilt rose %d -> %d while moving up' % (where, tilt, ntilt))
                        if d == 1 and ntilt < tilt: v.append('%s: tilt fell %d -> %d while moving down' % (where, tilt, ntilt))
                # --- accounting
                if wf and in_scope and d in (1, 2) and known(pos):
                    if seg is None or seg[0] != d:
                        t0 = (tilt - 100) if (idl.supported() and known(tilt)) else 0
                        seg = [d, pos - 100, t0, 0]
                    seg[3] += a[0]
                    up = (d == 2)
                    ip, it = idl.after(seg[1], seg[2], up, seg[3])
                    full = (cfg[1] if up else cfg[2]) * 1000
                    Tp = full - cfg[3] * 1000 if (idl.supported() and cfg[4] in (1, 3)) else full
                    tolp = 100 + Fraction(10000 * 30000, Tp)
                    if known(npos) and abs((npos - 100) - ip) > tolp:
                        v.append('%s: after %d us %s from raw position %d the stored position is %d, ideal %.1f (tolerance %.1f)' %
                                 (where, seg[3], 'up' if up else 'down', seg[1], npos - 100, float(ip), float(tolp)))
                    if it is not None and known(ntilt):
                        tolt = 100 + Fraction(10000 * 30000, cfg[3] * 1000)
                        if abs((ntilt - 100) - it) > tolt:
                            v.append('%s: after %d us %s from raw tilt %d the stored tilt is %d, ideal %.1f (tolerance %.1f)' %
                                     (where, seg[3], 'up' if up else 'down', seg[2], ntilt - 100, float(it), float(tolt)))
                    if not known(npos): seg = None
                else:
                    seg = None
                pos, tilt = npos, ntilt
                if nd != d: d = nd; seg = None
                if len(v) >= 3: break
        return v[:3]

    def nontrivial(self, case, io):
        sts = [o[1] for o in io[1] if o[0] == 'ST']
        return len({(s[0], s[1]) for s in sts}) > 1

    def finding_key(self, case, what):
        return None

CHECK = C09()
install_float_extraction()
