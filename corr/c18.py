"""C18 — firmware update: generators, implementation-side monitor, check definition."""
import os, re
import framework as F

UC = None
def consts():
    global UC
    if UC is None: UC = F.G.load('UpdateConsts')
    return UC

def cks(b):
    s = 0
    for x in b: s = (s * 31 + x) & 0xFFFFFFFF
    return s

# independent of the code under test: where the SDK keeps the two firmware slots (ESP8266 non-OS SDK
# flash maps: user1 at 0x1000; user2 at 0x81000 for the 512+512 maps, 0x101000 for the 1024+1024 maps)
SDK_USER1 = 0x1000
SDK_USER2 = {2: 0x81000, 3: 0x81000, 4: 0x81000, 5: 0x101000, 6: 0x101000}
def inactive_slot(m, ubin):
    if m not in SDK_USER2: return None
    return SDK_USER2[m] if ubin == 0 else SDK_USER1      # userbin 0 = user1 is running

# size of a firmware slot: the slot stride of the flash map (512 KB / 1024 KB) minus the 4 KB boot sector in front of user1
# and the 16 KB system-parameter area at the end of the (first) flash half that the slot shares
SDK_SLOT_SIZE = {2: 512 * 1024 - 20 * 1024, 3: 512 * 1024 - 20 * 1024, 4: 512 * 1024 - 20 * 1024,
                 5: 1024 * 1024 - 20 * 1024, 6: 1024 * 1024 - 20 * 1024}

def fill_bytes(n, seed):
    """expansion of SEGFILL n seed (same as harness/drv/c18.c and Model.segfill)"""
    n = min(n, 65535); x = seed & 255; hi0 = (seed >> 8) & 255
    xs = bytearray(256)
    for i in range(256): xs[i] = x; x = (x * 5 + 113) & 255
    out = bytearray()
    for blk in range((n + 255) // 256):
        h = (hi0 + blk) & 255
        out += bytes((v + h) & 255 for v in xs)
    return bytes(out[:n])

def seg_bytes(ev):
    k, ints, data = ev
    if k == 'SEGFILL': return fill_bytes(ints[0], ints[1]) if len(ints) >= 2 else b''
    return bytes(data)

MARK = ' [after the restart request]'
HALTING = ('RESTART', 'UPGRADEREBOOT')

def slot_limit(m):
    for row in consts()['LIMITS']:
        if row[0] == m: return row[1]
    return None

def magic(): return bytes(consts()['FOOTER_MAGIC'])
SIGN = 512; FOOT = 16

def make_image(rng, n, foot_tail=None):
    """body ++ signature ++ footer, n bytes in total (n > 528)"""
    nb = n - SIGN - FOOT
    body = bytes(rng.getrandbits(8) for _ in range(min(nb, 64))) * (nb // 64 + 1)
    body = body[:nb]
    sig = bytes(rng.getrandbits(8) for _ in range(SIGN))
    foot = magic() + bytes([2, 0]) + (foot_tail if foot_tail is not None else bytes(rng.getrandbits(8) for _ in range(8)))
    return body + sig + foot

def oracle_ev(img, mode=2):
    n = max(0, len(img) - SIGN - FOOT)
    return ('ORACLE', [mode, n, cks(img[:n]), cks(img[n:n + SIGN])], b'')

def header(cl, status='HTTP/1.1 200 OK', ctype='Content-Type: application/octet-stream', clname='Content-Length: ', extra=(), order=0):
    lines = [ctype, clname + str(cl)] if cl is not None else [ctype]
    lines = [l for l in lines if l is not None]
    ex = list(extra)
    if order == 1: lines = lines[::-1]
    if order == 2: lines = ex + lines; ex = []
    return ('\r\n'.join([status] + ex[:len(ex) // 2] + lines + ex[len(ex) // 2:]) + '\r\n\r\n').encode('latin-1')

def announced_kind(hdr):
    """('num', n): the header states the length n unambiguously (decimal digits, optional blanks/tabs around them);
       ('none', None): it unambiguously announces no numeric length (no Content-Length field at all, or its value is
       not a decimal number: letters, separators, sign, empty); ('unknown', None): anything else (duplicates, other
       spellings of the field name ...), left to the model/implementation comparison"""
    txt = hdr.decode('latin-1')
    c = txt.lower().count('content-length')
    if c == 0: return ('none', None)
    if c != 1: return ('unknown', None)
    m = re.search(r'\r\nContent-Length: ([^\r\n]*)\r\n', txt)
    if not m: return ('unknown', None)
    val = m.group(1)
    if re.fullmatch(r'[ \t]*\d+[ \t]*', val): return ('num', int(val.strip(' \t')))
    return ('none', None)

def announced_of(hdr):
    k, n = announced_kind(hdr)
    return n if k == 'num' else None

def fold_clen(val, guard=1028096):
    """what a digit loop that does not reject non-digits makes of the text (v = v*10 + (c - '0'), stop above guard)"""
    v = 0
    for ch in val.encode('latin-1'):
        if v > guard: return None
        v = v * 10 + ch - 48
    return v

def split_stream(stream):
    """(header incl. blank line, body) as an HTTP client would see it; header None when there is none"""
    i = stream.find(b'\r\n\r\n')
    if i < 0: return None, b''
    return stream[:i + 4], stream[i + 4:]

class C18(F.PropCheck):
    pid = 'C18'; gen_groups = ['UpdateConsts']; prop_file = 'Properties_C18'
    IN = {'MAP': 0, 'USERBIN': 1, 'ORACLE': 2, 'FAILS': 3, 'HEAP': 4, 'FLASHINIT': 5, 'START': 6, 'SEG': 7, 'DISC': 8, 'ARENA': 9,
          'SEGFILL': 10, 'NOHALT': 11, 'ERR': 12}
    OUT = {0: 'BASE', 1: 'NOUPDATE', 2: 'FLAG', 3: 'ERASE', 4: 'WRITE', 5: 'VERIFY', 6: 'UPGRADEREBOOT', 7: 'RESTART', 8: 'FAULT'}
    quick_cases = 2000; thorough_cases = 30000
    trusted_extra = ['C18 driver harness/drv/c18.c + wrapper harness/wrap/c18_update_wrap.c: real supla_update.c driven through '
                     'init/check_updates/url_result/delay timer/connect/recv_cb/disconnect_cb; system_upgrade_flag_set, '
                     'system_upgrade_reboot, rsa_sha256_verify and malloc interposed by macro in the wrapper TU',
                     'SHA-256/RSA not verified: scripted oracle on (count, checksum) of the hashed bytes and of the signature buffer',
                     'flash double: an operation scripted to fail changes nothing; flash reads never fail']
    assumptions = ['signature oracle `verify` is a Section variable of every theorem (any function of body and signature)',
                   'spi_flash_read succeeds (the read-error branches of verify_and_reboot are not modelled)',
                   'the device reboots after the callback in which supla_system_restart/system_upgrade_reboot was called (later events ignored)']
    rule = ('HTTP responses (status line, header order/case/extra/oversize, Content-Length exact/0/non-numeric/limit+-1/2^31/2^32+n) x '
            'segmentations (single, 1400-byte, random, cuts inside the header and inside "Content-Length", byte-wise header, 64 KB) x '
            'images (valid, bit flipped in body/signature/footer, short/long body, <= 528 bytes, sector multiples) x flash map x userbin x '
            'flash failure scripts x heap garbage; non-trivial = a flag or flash operation was observed; distinct by sha256 of the event text')

    def build_impl(self):
        return F.build_c('c18', os.path.join(F.VERIF, 'harness', 'drv', 'c18.c'), exclude=('supla_update',),
                         extra_srcs=[os.path.join(F.VERIF, 'harness', 'wrap', 'c18_update_wrap.c')])

    # ---------------- generators
    def gen_response(self, rng, m, tier):
        """returns (events before START, stream, tags, image)"""
        tags = []; pre = []
        lim = slot_limit(m) or 1028096
        k = rng.random()
        if k < 0.08: n = rng.choice([529, 530, 544, 600])
        elif k < 0.55: n = rng.randrange(529, 9000)
        elif k < 0.75: n = rng.choice([4096, 8192, 12288]) + rng.choice([-1, 0, 0, 1])
        elif k < 0.97: n = rng.randrange(9000, 25000)
        else: n = rng.randrange(25000, 60000 if tier != 'thorough' else 150000)
        n = min(n, lim)
        img = make_image(rng, n)
        sent = img; cl = str(n); omode = 2
        k = rng.random()
        if k < 0.40: tags.append('valid')
        elif k < 0.55:   # corrupted image
            w = rng.choice(['body', 'sig', 'magic', 'keylen', 'foottail'])
            i = {'body': rng.randrange(0, n - 528) if n > 528 else 0, 'sig': n - 528 + rng.randrange(512),
                 'magic': n - 16 + rng.randrange(6), 'keylen': n - 10 + rng.randrange(2), 'foottail': n - 8 + rng.randrange(8)}[w]
            sent = img[:i] + bytes([img[i] ^ (1 << rng.randrange(8))]) + img[i + 1:]; tags.append('flip:' + w)
            if rng.random() < 0.3: omode = 1; tags.append('oracle:always')
        elif k < 0.67:   # body shorter than announced
            sent = img[:rng.choice([0, 1, rng.randrange(0, n), n - 1, max(0, n - 16), max(0, n - 528)])]; tags.append('short')
        elif k < 0.80:   # body longer than announced
            extra = rng.choice([1, 2, 100, 1400, 4096, 5000, rng.randrange(1, 20000)])
            sent = img + (make_image(rng, max(529, extra)) if rng.random() < 0.5 else bytes(rng.getrandbits(8) for _ in range(extra)))[:extra]
            tags.append('long')
        elif k < 0.86:   # tiny announced lengths (no room for signature+footer)
            n2 = rng.choice([1, 15, 16, 527, 528, rng.randrange(1, 529)]); cl = str(n2)
            sent = (magic() + bytes([2, 0]) + bytes(8))[-n2:] if n2 <= 16 else img[-n2:]; tags.append('tiny')
        else:            # Content-Length games
            w = rng.randrange(12)
            cl = [ '0', '', 'abc', cl + 'x', ' ' + cl, cl + ' ', '+' + cl, '-' + cl, '000' + cl, str(2**32 + n), str(rng.choice([2**31 - 1, 2**31, 2**31 + n, 2**32 - 1, 2**32, 10**10 + n, 99999999999, 10**18, 10**40])),
                   str(rng.choice([lim - 1, lim, lim + 1, lim + 4096, 1028096, 1028097, 503808, 503809]))][w]
            tags.append('clen:%d' % w)
        if rng.random() < 0.06: omode = rng.choice([0, 1]); tags.append('oracle:%d' % omode)
        # header variants
        status = 'HTTP/1.1 200 OK'; ctype = 'Content-Type: application/octet-stream'; clname = 'Content-Length: '; extra = []
        k = rng.random()
        if k < 0.70: pass
        elif k < 0.76: status = rng.choice(['HTTP/1.1 404 Not Found', 'HTTP/1.0 200 OK', 'HTTP/1.1 206 Partial Content', 'HTTP/1.1 200', 'http/1.1 200 ok', 'HTTP/1.1 301 Moved']); tags.append('status')
        elif k < 0.80: ctype = rng.choice(['Content-Type: text/html', 'content-type: application/octet-stream', None, 'Content-Type:application/octet-stream']); tags.append('ctype')
        elif k < 0.85: clname = rng.choice(['content-length: ', 'Content-Length:', 'Content-length: ', 'CONTENT-LENGTH: ', 'Content-Length:  ']); tags.append('clname')
        elif k < 0.88: cl = None; tags.append('noclen')
        elif k < 0.92: extra = [rng.choice(['X-Content-Length: 7', 'Content-Length: 12', 'X-A: HTTP/1.1 200 OK', 'X-Z: Content-Length: 9'])]; tags.append('dupclen')
        else:
            tot = rng.choice([500, 560, 590, 600, 610, 640, 700, 900])
            extra = ['X-Pad%d: %s' % (i, 'p' * 40) for i in range(tot // 50)]; tags.append('padded')
        if rng.random() < 0.3: extra = extra + ['Server: nginx', 'Connection: keep-alive', 'Date: Mon, 01 Jan 2024 00:00:00 GMT'][:rng.randrange(4)]
        hdr = header(cl, status, ctype, clname, extra, rng.randrange(3))
        if rng.random() < 0.06:      # header of exactly 696..702 bytes (the buffer holds 699 + NUL)
            want = rng.choice([696, 697, 698, 699, 699, 700, 701, 702]); base_len = len(header(cl, status, ctype, clname, ['X-Fill: '], 0))
            if want > base_len:
                hdr = header(cl, status, ctype, clname, ['X-Fill: ' + 'f' * (want - base_len)], rng.choice([0, 2])); tags.append('hdrlen:%d' % len(hdr))
        if rng.random() < 0.03: hdr = hdr[:rng.randrange(len(hdr))] + b'\x00' + hdr[rng.randrange(len(hdr)):]; tags.append('nul')
        pre.append(oracle_ev(img, omode))
        if rng.random() < 0.08:
            g = bytes(rng.getrandbits(8) | 1 for _ in range(rng.randrange(0, 700)))
            if rng.random() < 0.6:
                ins = rng.choice([b'HTTP/1.1 200 OK', b'Content-Type: application/octet-stream', b'Content-Length: 4096\r\n'])
                p = rng.randrange(0, 700); g = (g + bytes(700))[:p].replace(b'\0', b'\x01') + ins + g[p:]
            pre.append(('HEAP', [], g[:2000])); tags.append('heap')
        return pre, hdr, sent, tags, img

    def segmentations(self, rng, hdr, body):
        s = hdr + body; n = len(s); h = len(hdr); k = rng.random(); cuts = set()
        if k < 0.15: pass
        elif k < 0.40: cuts = {h} | set(range(h + 1400, n, 1400))
        elif k < 0.50: cuts = set(range(1460, n, 1460))
        elif k < 0.62: cuts = {rng.randrange(1, h)} | ({h} if rng.random() < 0.5 else set()) | set(range(h + 1400, n, 1400))
        elif k < 0.70:
            i = hdr.find(b'ontent-L'); i = i if i > 0 else 1
            cuts = {i + rng.randrange(0, 18)} | set(rng.randrange(1, n) for _ in range(rng.randrange(0, 4)))
        elif k < 0.76: cuts = set(range(1, min(h + 3, n))) | set(range(h + 1400, n, 1400))
        elif k < 0.84: cuts = set(h + x for x in range(4096, len(body), 4096)) | ({h} if rng.random() < 0.5 else set())
        elif k < 0.90: cuts = {max(1, h - rng.randrange(0, 5))} | set(rng.randrange(1, n) for _ in range(rng.randrange(1, 6))) if n > 1 else set()
        else: cuts = set(rng.randrange(1, n) for _ in range(rng.randrange(1, 12))) if n > 1 else set()
        pieces = []; prev = 0
        for c in sorted(x for x in cuts if 0 < x < n) + [n]:
            if c > prev: pieces.append(s[prev:c]); prev = c
        out = []
        big = rng.choice([65535, 65535, 30000, 4096])
        for p in pieces:
            while len(p) > big: out.append(p[:big]); p = p[big:]
            if p: out.append(p)
        return out

    def gen_stale(self, rng, cid):
        """the spare slot already holds a correctly signed image of the same length (an earlier update); the download is
        garbage / a tampered copy / the same image, and flash operations fail persistently"""
        m = rng.choice([2, 3, 4, 5, 6]); ub = rng.choice([0, 1]); base = inactive_slot(m, ub)
        n = rng.choice([rng.randrange(529, 4096), rng.randrange(4097, 20000), 8192, 12288 + rng.randrange(1, 4096)])
        stale = make_image(rng, n); nsec = (n + 4095) // 4096; tags = ['stale-image', 'map%d' % m]
        k = rng.randrange(nsec)                                  # the sector that cannot be programmed
        w = rng.random()
        if w < 0.35: dl = bytes(rng.getrandbits(8) for _ in range(n)); tags.append('dl:garbage')
        elif w < 0.8:
            i = min(n - 1, k * 4096 + rng.randrange(4096)); dl = stale[:i] + bytes([stale[i] ^ (1 << rng.randrange(8))]) + stale[i + 1:]; tags.append('dl:tampered')
        else: dl = stale; tags.append('dl:same')
        w = rng.random()
        if w < 0.35: f = [1] * (5 * nsec + 10); tags.append('fail:all')
        elif w < 0.75: f = [0] * (2 * k) + [1] * 5 + [0] * 4; tags.append('fail:erase-sector')
        elif w < 0.9: f = [0] * (2 * k) + [0, 1] * 5; tags.append('fail:write-sector')
        else: f = [0] * (2 * k) + [1] * 4; tags.append('fail:4')
        evs = [('MAP', [m], b''), ('USERBIN', [ub], b''), oracle_ev(stale, 2 if rng.random() < 0.8 else 1),
               ('FAILS', [], bytes(f)), ('FLASHINIT', [base], stale), ('START', [], b'')]
        for sg in self.segmentations(rng, header(n), dl): evs.append(('SEG', [], sg))
        evs.append(('DISC', [], b''))
        return F.Case(cid, evs, tags)

    def gen_nonnum(self, rng, cid):
        """Content-Length values that are not decimal numbers: one non-digit at any position (':' folds to 10, letters,
        separators, sign, blank/tab); body = an authentic image whose length is what a careless digit loop makes of the text,
        or some other body"""
        m = rng.choice([2, 3, 5, 6]); ub = rng.choice([0, 1]); tags = ['clen-nonnum', 'map%d' % m]
        for _ in range(200):
            digits = str(rng.choice([rng.randrange(1, 10), rng.randrange(10, 100), rng.randrange(100, 1000), rng.randrange(1000, 10000), rng.randrange(10000, 99999)]))
            ch = rng.choice(':;,. \t+-abcxzAF_/%')
            pos = rng.randrange(len(digits) + 1)
            val = (digits[:pos] + ch + digits[pos + (1 if rng.random() < 0.5 else 0):]) if rng.random() < 0.85 else rng.choice(['abc', 'x', '0x1b90', '1e4', '7,056', '6:56', '1b90', '--', '+', '5 000'])
            if announced_kind(('HTTP/1.1 200 OK\r\nContent-Length: %s\r\n\r\n' % val).encode('latin-1'))[0] != 'none': continue
            f = fold_clen(val)
            break
        else: val, f = 'abc', fold_clen('abc')
        if f is not None and SIGN + FOOT < f <= 40000 and rng.random() < 0.8:
            img = make_image(rng, f); body = img; tags.append('body:authentic-folded')
        else:
            n = rng.randrange(529, 9000); img = make_image(rng, n); body = img; tags.append('body:other')
        if rng.random() < 0.15: body = body + bytes(rng.getrandbits(8) for _ in range(rng.randrange(1, 3000)))
        evs = [('MAP', [m], b''), ('USERBIN', [ub], b''), oracle_ev(img, 2 if rng.random() < 0.8 else 1), ('START', [], b'')]
        for sg in self.segmentations(rng, header(val, order=rng.randrange(3)), body): evs.append(('SEG', [], sg))
        if rng.random() < 0.8: evs.append(('DISC', [], b''))
        return F.Case(cid, evs, tags)

    def gen_nohalt(self, rng, cid):
        """callbacks keep arriving after the restart / upgrade reboot was requested (system_restart() is asynchronous)"""
        m = rng.choice([2, 3, 5, 6]); ub = rng.choice([0, 1])
        n = rng.choice([rng.randrange(529, 4096), rng.randrange(4097, 24000), 8192 + 528, 20000])
        img = make_image(rng, n); tags = ['nohalt', 'map%d' % m]; sent = img
        w = rng.random()
        if w < 0.5: tags.append('valid')
        elif w < 0.75: i = rng.randrange(n - 528); sent = img[:i] + bytes([img[i] ^ 1]) + img[i + 1:]; tags.append('flip:body')
        else: sent = img[:-16] + bytes(16); tags.append('nofooter')
        evs = [('MAP', [m], b''), ('USERBIN', [ub], b''), oracle_ev(img), ('NOHALT', [], b''), ('START', [], b'')]
        for sg in self.segmentations(rng, header(n), sent): evs.append(('SEG', [], sg))
        for _ in range(rng.randrange(1, 4)):
            if rng.random() < 0.2: evs.append(('DISC', [], b''))
            evs.append(('SEG', [], bytes(rng.getrandbits(8) for _ in range(rng.choice([1, 100, 1400, 5000])))))
        if rng.random() < 0.7: evs.append(('DISC', [], b''))
        return F.Case(cid, evs, tags)

    def gen_big(self, tier):
        """per flash map: announced length at the slot size (full body delivered), one above it, and 8 KB above it with a body
        that crosses the end of the slot; SEGFILL keeps the cases small"""
        cases = []
        for m in (2, 3, 4, 5, 6):
            L = SDK_SLOT_SIZE[m]
            for j, (cl, blen) in enumerate(((L, L), (L + 1, L + 1 + 4096), (L + 8192, L + 8192))):
                ub = (m + j) & 1
                evs = [('MAP', [m], b''), ('USERBIN', [ub], b''), ('ORACLE', [1, 0, 0, 0], b''), ('START', [], b''), ('SEG', [], header(cl))]
                left = blen; sd = 256 * m + j
                while left > 0:
                    k = min(left, 65535); evs.append(('SEGFILL', [k, sd], b'')); left -= k; sd += 255
                if not (j == 0 and m & 1): evs.append(('DISC', [], b''))      # at-limit on odd maps: completion alone must decide
                cases.append(F.Case('%sbig_m%d_%d' % (tier[0], m, j), evs, ['big', 'map%d' % m, ('at-limit', 'limit+1', 'crosses-slot-end')[j]]))
        # authentic images longer than 64 KB (16-bit counters/lengths): filler body + explicit signature and footer
        for j, n in enumerate((65535 + 528, 65536 + 528 + 1, 2 * 65536 + 4096, 70000)):
            m = (5, 2, 6, 3)[j]; nb = n - SIGN - FOOT; parts = []; left = nb; sd = 77 + j
            evs = [('MAP', [m], b''), ('USERBIN', [j & 1], b'')]
            segs = []
            while left > 0:
                k = min(left, (65535, 30000, 65535, 1460 * 40)[j]); segs.append(('SEGFILL', [k, sd], b'')); parts.append(fill_bytes(k, sd)); left -= k; sd += 255
            body = b''.join(parts); sig = bytes((i * 7 + j) & 255 for i in range(SIGN)); foot = magic() + bytes([2, 0]) + bytes(8)
            evs += [('ORACLE', [2, nb, cks(body), cks(sig)], b''), ('START', [], b''), ('SEG', [], header(n))] + segs + [('SEG', [], sig + foot)]
            if j & 1: evs.append(('DISC', [], b''))
            cases.append(F.Case('%smid_%d' % (tier[0], j), evs, ['mid>64K', 'map%d' % m, 'valid']))
        return cases

    def gen_digits(self, rng, cid):
        """the body starts with an authentic image whose length is the announced number with a digit dropped at the front or
        the end (what a parser that starts one character late / stops one early would take), then filler up to the announced
        length or beyond"""
        m = rng.choice([2, 3, 5, 6]); ub = rng.choice([0, 1]); tags = ['clen-digits', 'map%d' % m]
        for _ in range(100):
            n = rng.choice([rng.randrange(5290, 99999), rng.randrange(10000, 60000)]); ds = str(n)
            short = int(rng.choice([ds[1:], ds[:-1], ds[1:], ds[2:] or '0']))
            if SIGN + FOOT < short < n: break
        else: n, short = 15000, 5000
        img = make_image(rng, short)
        rest = n - short + rng.choice([0, 0, 0, -1, 1, 100])
        body = img + bytes(rng.getrandbits(8) for _ in range(min(max(rest, 0), 4000))) * 1
        if len(body) < short + max(rest, 0): body += fill_bytes(min(short + max(rest, 0) - len(body), 65535), rng.randrange(65536))
        evs = [('MAP', [m], b''), ('USERBIN', [ub], b''), oracle_ev(img, 2 if rng.random() < 0.7 else 1), ('START', [], b'')]
        for sg in self.segmentations(rng, header(n, order=rng.randrange(3)), body): evs.append(('SEG', [], sg))
        if rng.random() < 0.7: evs.append(('DISC', [], b''))
        return F.Case(cid, evs, tags)

    ERR_CODES = [-1, -3, -4, -5, -7, -8, -9, -10, -10, -10, -11, -12, -14, -15, -16, -28, -61, 0, 1, 10, 127, -128]
    def gen_cases(self, rng, n, tier):
        cases = self._gen_cases(rng, n, tier)
        # the connection may also end through the error (reconnect) callback, with any espconn error code, at any point
        for c in cases:
            if rng.random() < 0.45:
                evs = [('ERR', [rng.choice(self.ERR_CODES)], b'') if (k == 'DISC' and rng.random() < 0.8) else (k, i, d) for (k, i, d) in c.evs]
                if evs != c.evs: c.evs = evs; c.tags = c.tags + ('err-callback',)
        return cases

    def _gen_cases(self, rng, n, tier):
        cases = self.gen_big(tier)
        for i in range(n):
            r = rng.random()
            if r < 0.04: cases.append(self.gen_stale(rng, '%sst%d' % (tier[0], i))); continue
            if r < 0.07: cases.append(self.gen_nohalt(rng, '%snh%d' % (tier[0], i))); continue
            if r < 0.12: cases.append(self.gen_nonnum(rng, '%snn%d' % (tier[0], i))); continue
            if r < 0.15: cases.append(self.gen_digits(rng, '%sdg%d' % (tier[0], i))); continue
            m = rng.choice([5, 5, 5, 6, 2, 2, 3, 4, rng.choice([0, 1, 7, 8, 9])]); ub = rng.choice([0, 0, 1, 1, rng.choice([2, 255])])
            pre, hdr, body, tags, img = self.gen_response(rng, m, tier)
            evs = [('MAP', [m], b''), ('USERBIN', [ub], b'')] + pre
            base = inactive_slot(m, 0 if ub == 0 else 1)
            if rng.random() < 0.15:
                k = rng.random(); nops = 2 * (len(body) // 4096 + 2)
                if k < 0.4: f = [1 if rng.random() < 0.15 else 0 for _ in range(nops)]
                elif k < 0.7:   # a run of failures somewhere (5 consecutive erase failures abandon)
                    p = rng.randrange(0, nops); f = [0] * p + [1] * rng.choice([1, 4, 5, 6, 9, 10]) + [0] * 4
                else:           # aimed at the last (partial) sector
                    p = 2 * (len(body) // 4096); f = [0] * p + rng.choice([[1] * 5, [0, 1] * 5, [1, 0, 1] * 4, [1] * 4])
                evs.append(('FAILS', [], bytes(f))); tags.append('flashfail')
                if base and rng.random() < 0.5:   # stale bytes in front of the slot / footer-looking data
                    evs.append(('FLASHINIT', [base - 16], magic() + bytes([2, 0]) + bytes(8))); tags.append('stalefooter')
            if rng.random() < 0.3: evs.append(('ARENA', [], b'')); tags.append('arena')
            evs.append(('START', [], b''))
            segs = self.segmentations(rng, hdr, body)
            dpos = rng.randrange(len(segs) + 1) if rng.random() < 0.08 else None
            for j, sgm in enumerate(segs):
                if dpos == j: evs.append(('DISC', [], b''))
                evs.append(('SEG', [], sgm))
            if rng.random() < 0.75: evs.append(('DISC', [rng.choice([0, 0, 1])] if rng.random() < 0.3 else [], b''))
            tags.append('map%d' % m)
            cases.append(F.Case('%s%d' % (tier[0], i), evs, tags))
        return cases

    # ---------------- comparison: a crash of the implementation is a disagreement unless the model predicts a fault
    def compare(self, case, mo, io):
        (ms, ml), (is_, il) = mo, io
        if is_ != 'ok':
            if any(k == 'FAULT' for (k, _, _) in ml): return None
            return 'implementation crashed (%s); model: %d outputs, no fault' % (is_, len(ml))
        ml = [x for x in ml if x[0] != 'FAULT'] if any(k == 'FAULT' for (k, _, _) in ml) else ml
        d = F.PropCheck.compare(self, case, (ms, ml), io)
        if d and len(il) > len(ml) and il[:len(ml)] == ml and ml and ml[-1][0] in HALTING: d += MARK
        return d

    def nontrivial(self, case, io):
        return any(k in ('FLAG', 'ERASE', 'WRITE') for (k, _, _) in io[1])

    # ---------------- monitor (implementation trace vs. the property text, no model involved)
    def monitor(self, case, status, outs):
        """alarms of the whole trace; those that only appear after the first restart / upgrade-reboot request (possible only
        when callbacks are still delivered after it, event NOHALT) are marked"""
        full = self._judge(case, status, outs)
        cut = next((i for i, (k, _, _) in enumerate(outs) if k in HALTING), None)
        if cut is None or cut == len(outs) - 1 or not full: return full
        first = set(self._judge(case, status, outs[:cut + 1]))
        return [x if x in first else x + MARK for x in full]

    def finding_key(self, case, what):
        # class: the failing behaviour needs a callback delivered after supla_system_restart()/system_upgrade_reboot() returned
        if MARK in what and any(k == 'NOHALT' for (k, _, _) in case.evs): return 'callback-after-restart-request'
        return None

    def _judge(self, case, status, outs):
        v = []
        m = 5; ub = 0; omode = 0; oargs = [0, 0, 0, 0]; seen_start = False; stream = b''; last_ev = None
        for (k, ints, data) in case.evs:
            if k == 'ORACLE' and len(ints) >= 4: oargs = ints[:4]
            elif k == 'MAP' and not seen_start and ints: m = ints[0]
            elif k == 'USERBIN' and not seen_start and ints: ub = ints[0]
            elif k == 'START': seen_start = True
            elif k in ('SEG', 'SEGFILL') and seen_start:
                d = seg_bytes((k, ints, data))
                if 0 < len(d) <= 65535: stream += d
            if k in ('SEG', 'SEGFILL', 'DISC', 'ERR', 'START'): last_ev = 'SEG' if k == 'SEGFILL' else 'DISC' if k == 'ERR' else k
        base_line = [ints[0] for (k, ints, _) in outs if k == 'BASE']
        if not base_line:
            bad = [k for (k, _, _) in outs if k in ('ERASE', 'WRITE', 'FLAG', 'UPGRADEREBOOT')]
            if bad: v.append('flash/boot operations (%s) without an update slot' % bad[0])
            return v
        base = inactive_slot(m, 0 if (ub & 255) == 0 else 1)
        lim = SDK_SLOT_SIZE.get(m)
        if base is None or lim is None: return v
        if base_line[0] != base:
            v.append('writes go to 0x%X but the inactive slot for map %d / running bin %d starts at 0x%X' % (base_line[0], m, ub, base)); return v
        hdr, body = split_stream(stream)
        akind, ann = announced_kind(hdr) if hdr is not None and len(hdr) <= 699 else ('unknown', None)
        if akind == 'none':
            # "never beyond the announced length", "only when the download delivered exactly the announced length":
            # without an announced numeric length there is nothing to download into the slot and nothing to boot
            for (k, ints, _) in outs:
                if k in ('ERASE', 'WRITE'): v.append('flash %s at 0x%X although the response announces no numeric length' % (k.lower(), ints[0])); break
            if any(k == 'FLAG' and ints[0] == 1 for (k, ints, _) in outs): v.append('download started (FLAG START) although the response announces no numeric length')
            if any(k == 'FLAG' and ints[0] == 2 for (k, ints, _) in outs): v.append('image marked for boot (FLAG FINISH) although the response announces no numeric length')
        bound = min(ann, lim) if ann is not None else lim
        rnd = (bound + 4095) // 4096 * 4096
        # containment
        for (k, ints, _) in outs:
            if k == 'ERASE':
                a = ints[0]
                if a < base or a + 4096 > base + rnd:
                    v.append('sector 0x%X erased outside [slot base 0x%X, +%d announced/limit bytes rounded to sectors)' % (a // 4096, base, bound)); break
            elif k == 'WRITE':
                a, n = ints[0], ints[1]
                if a < base or a + n > base + bound:
                    v.append('write of %d bytes at 0x%X goes beyond slot base 0x%X + %d (announced %s, slot limit %d)' % (n, a, base, bound, ann, lim)); break
        flags = [(i, ints[0]) for i, (k, ints, _) in enumerate(outs) if k == 'FLAG']
        fin = [i for (i, f) in flags if f == 2]
        kinds = [k for (k, _, _) in outs]
        if fin:
            i = fin[0]; why = None
            if ann is None: why = None      # ambiguous or unusual header: left to the model/implementation comparison
            elif len(body) < ann: why = 'only %d of the announced %d bytes were delivered' % (len(body), ann)
            elif ann <= SIGN + FOOT: why = 'an image of %d bytes cannot carry signature and footer' % ann
            else:
                img = body[:ann]; nb = ann - SIGN - FOOT
                ver = [ints for (k, ints, _) in outs[:i] if k == 'VERIFY']
                if img[-FOOT:-FOOT + len(magic())] != magic(): why = 'the image does not end with the footer magic'
                elif img[-FOOT + len(magic()):-FOOT + len(magic()) + 2] != bytes([SIGN >> 8, SIGN & 255]): why = 'the footer does not state a %d-byte signature' % SIGN
                elif not ver: why = 'no signature verification took place'
                else:
                    n, sm, sl, sg, verdict = ver[-1][:5]; builtin = ver[-1][5] if len(ver[-1]) > 5 else 1
                    if builtin != 1: why = 'the signature was not checked against the built-in public key and exponent'
                    elif (n, sm) != (nb, cks(img[:nb])): why = 'the hash was computed over %d bytes (checksum %d), the image body has %d bytes (checksum %d)' % (n, sm, nb, cks(img[:nb]))
                    elif (sl, sg) != (SIGN, cks(img[nb:nb + SIGN])): why = 'the signature buffer is not the %d bytes that follow the body' % SIGN
                    elif verdict != 1: why = 'the signature did not verify'
                    else:
                        om, on, os_, og = oargs
                        ok = om == 1 or (om == 2 and (on, os_, og) == (nb, cks(img[:nb]), cks(img[nb:nb + SIGN])))
                        if not ok: why = 'the signature oracle rejects this image'
            if why: v.append('image marked for boot (FLAG FINISH) although ' + why)
            if any(f == 0 for (j, f) in flags if j > i): v.append('boot selection reset to IDLE after FINISH')
            if 'UPGRADEREBOOT' not in kinds[i:]: v.append('FINISH without upgrade reboot')
        else:
            if 'UPGRADEREBOOT' in kinds: v.append('upgrade reboot without FINISH')
            started_dl = any(f == 1 for (_, f) in flags)
            ended = (last_ev == 'DISC') or (started_dl and ann is not None and len(body) >= ann)
            if status != 'ok': ended = False     # a crashed run shows a truncated trace: left to the comparison with the model
            if ended:
                lastf = flags[-1][1] if flags else 0
                if 'RESTART' not in kinds or lastf != 0:
                    what = 'the connection was closed' if last_ev == 'DISC' else 'all %d announced bytes were delivered, the image was not marked for boot' % ann
                    v.append('%s but the update is not abandoned (last flag %s, %s)' % (what, {0: 'IDLE', 1: 'START'}.get(lastf, lastf), 'restart' if 'RESTART' in kinds else 'no restart'))
        return v

CHECK = C18()
