"""C19 — behaviour independent of the absolute value of the microsecond counter: generators, monitor, check.

Two kinds of cases go through harness/drv/c19.c:
  uptime : the real uptime_usec/msec/sec polled at scripted times with preset cycle counts, compared value by
           value with the extracted Coq model; the monitor checks monotonicity per unit,
  dev    : a whole-device scenario (shutter scenarios of C08, plain relay + countdown + button, silent server)
           executed once per boot value; the monitor requires identical traces relative to boot
           (implementation-side oracle of the property; runs in which the counter was read as exactly 0 are
           excluded, as the property says).
"""
import os, struct, sys
import framework as F
import c08 as C8

W32 = 1 << 32
CALL_PING = 40

def plain_set_value(v, duration=0, sender=5): return C8.set_value(4, v, 0, duration, sender)

class C19(F.PropCheck):
    pid = 'C19'; gen_groups = ['UptimeConsts', 'RsSpacingConsts']; prop_file = 'Properties_C19'
    IN = {'CFG': 0, 'ADV': 1, 'USEC': 2, 'MSEC': 3, 'SEC': 4,
          'SRV': 10, 'IN': 11, 'REGOK': 12, 'CONNCB': 13, 'DISCCB': 14, 'SENSOR': 15, 'ITER': 16, 'WIFI': 17,
          'SENTRES': 18, 'REGFAIL': 19, 'RECV': 20}
    OUT = {0: 'U'}
    quick_cases = 1200; thorough_cases = 40000
    DEV_SHARE = 0.35
    trusted_extra = ['C19 driver harness/drv/c19.c: presets usermain_uptime.{cycles,last_system_time} (non-static global of uptime.c); '
                     'device mode forks one child per boot value and runs the same event list; system_get_time wrapped at link time to report reads of exactly 0',
                     'trace canonicalisation in corr/c19.py: the payload of SUPLA_DCS_CALL_PING_SERVER (raw counter split into s/us) is compared relative to boot']
    assumptions = ['C19_uptime_*: cycle counter below 2^32 wraps (no 64-bit wrap can occur at all); seconds monotone while uptime < 2^32 s; accuracy needs poll gaps < 2^32 us',
                   'C19_shutter_shift_invariance: both runs free of stamps sampled as exactly 0 (`no_zero`), model = code after docs/fixes/C08_rs_wrap.diff',
                   'other stamp-carrying modules (inputs, countdown, devconn timing, cfg mode) are covered by trace comparison only, not by a theorem of this property']
    rule = ('uptime: boot x preset cycles {0,1,999,1000,1001,2^20,random} x poll scripts straddling 2^32 us, 2^32 ms, 2^32 s, with and without the 10 s poll timer; '
            'dev: C08 shutter scenarios, plain relay/countdown/button scenarios, registered-then-silent and never-registered servers, each run with boot = 1 and 2-3 boots '
            'placing the wrap before/between/inside timed intervals; non-trivial = at least one value/edge/frame; distinct by sha256 of the event text')

    def build_impl(self):
        return F.build_c('c19', os.path.join(F.VERIF, 'harness', 'drv', 'c19.c'), config='devcfg', libs=('-Wl,--wrap=system_get_time',))

    # ---------------- generators
    def gen_uptime(self, rng, cid, tier):
        k = rng.random()
        if k < 0.25: boot = rng.choice([0, 1, 100000, 250000])
        elif k < 0.5: boot = rng.randrange(W32)
        else: boot = W32 - rng.choice([1, 500, 1000, 999999, 1000000, 5000000, 30000000, rng.randrange(1, 120000000)])
        cyc = rng.choice([0, 0, 1, 2, 998, 999, 999, 1000, 1000, 1000, 1001, 4294, 4295, 999999, 1000000, 1000001, 1 << 20, rng.randrange(0, 2000), rng.randrange(0, 1 << 21)])
        kk = rng.random()
        if kk < 0.5: last = max(0, boot - rng.choice([0, 1, 1000, 9999999]))      # consistent: previous poll shortly before boot time 0
        elif kk < 0.8: last = rng.choice([0, boot])
        else: last = rng.randrange(W32)
        wd = rng.choice([1, 1, 0])
        evs = [('CFG', [boot, cyc, last, wd, 0], b'')]; tags = ['uptime', 'wd%d' % wd]
        if cyc in (999, 1000, 1001): tags.append('near-2^32ms')
        if cyc >= 999999: tags.append('near-2^32s')
        if boot > W32 - 120000000: tags.append('boot-near-wrap')
        for _ in range(rng.choice([3, 6, 12, 24])):
            r = rng.random()
            if r < 0.45:
                dt = rng.choice([1, 499, 500, 999, 1000, 1001, 999999, 1000000, 5000000, 9999999, 10000000, 10000001, 60000000,
                                 rng.randrange(1, 20000000), rng.randrange(1, 400000000)])
                if rng.random() < 0.06: dt = rng.choice([W32 - 1, W32, W32 + 1, 4295000000, 2 * W32 + 5])
                evs.append(('ADV', [dt], b''))
            elif r < 0.65: evs.append(('USEC', [], b''))
            elif r < 0.82: evs.append(('MSEC', [], b''))
            else: evs.append(('SEC', [], b''))
        evs += [('USEC', [], b''), ('MSEC', [], b''), ('SEC', [], b'')]
        return F.Case(cid, evs, tags)

    # Whole-second arithmetic on uptime_sec() (keep-alive ping, activity timeout, watchdog) makes the relative time of
    # those events depend on the sub-second phase of the raw counter (shift < 1 s) — a granularity effect, not a
    # wrap-around effect.  All boot values of one case therefore share the phase of the reference boot (boot = 1 mod 10^6);
    # the scenario itself is padded so that the chosen interval straddles the wrap.
    PHASE = (W32 - 1) % 1000000          # true-time phase (mod 1 s) at which the counter wraps when boot = 1 (mod 10^6)
    # second reference run: same phase as boot = 1, no wrap inside any scenario, but the counter is already above 200 ms at
    # init.  Runs with a wrap are compared with THIS run; boot = 1 vs REF2 isolates what depends only on "counter below
    # 200 ms at init" (known finding rs-report-grid-anchor: rs_cfg->last_comm_time starts at 0).
    REF2 = 1000001
    GRID_TAG = '[class=rs-report-grid-anchor]' 
    def wrap_boots(self, rng, marks, t_end, k, primary):
        boots = [self.REF2]
        def snap(w):
            w = max(w, 100000)
            q = (w - self.PHASE + 500000) // 1000000
            return max(0, q) * 1000000 + self.PHASE
        boots.append((W32 - snap(primary)) % W32)
        for _ in range(k - 1):
            r = rng.random()
            if r < 0.5 and marks: w = rng.choice(marks) + rng.choice([-40021, 7, 60011, 300007, 950003])
            elif r < 0.85: w = rng.randrange(100001, max(100002, t_end))
            else: w = rng.choice([1000003, 61000007, 30000001])
            boots.append((W32 - snap(w)) % W32)
        if rng.random() < 0.3: boots.append(rng.choice([30000001, 75000001, 200000001]))   # plain offsets, no wrap inside
        return boots
    def pad_for(self, rng, marks):
        """(pad_us, primary wrap time): shifts the scenario so that mark + delta sits exactly on the wrap phase"""
        if not marks: return 0, 1000000 + self.PHASE
        m = rng.choice(marks); d = rng.choice([-40021, -3, 7, 3337, 60011, 120013, 300007, 500017, 950003])
        pad = (self.PHASE - (m + d)) % 1000000
        return pad, m + d + pad

    def gen_dev(self, rng, cid, tier):
        kind = rng.choice(['shutter', 'shutter', 'relay', 'relay', 'silent', 'quiet-after-reg', 'autocal-stall', 'autocal-stall', 'cfg-button', 'action-trigger', 'server-chatty'])
        if rng.random() < 0.01: kind = 'rs-10min'
        if kind in self.SPECIAL: return self.SPECIAL[kind](self, rng, cid)
        tags = ['dev', 'dev:' + kind]
        if kind == 'shutter':
            c = C8.CHECK.gen_sys(rng, cid, tier, boot=1, legacy_buttons=True)
            cfg = list(c.evs[0][1])[:14] + [0, 0]; evs = list(c.evs[1:])
            marks = []; t = 0
            for (k, a, _) in evs:
                if k == 'ADV': t += a[0]
                else: marks.append(t)
        else:
            btn = rng.choice([0, 2, 4]) if kind == 'relay' else 0
            cfg = [1, rng.choice([0, 1]), 0, 1, 0, 0, 0, 3000, 3000, 0, 0, 2000, 2000, 0, btn, rng.choice([0, 0x10]) if btn == 2 else 0]
            evs = []; marks = []; t = 0
            def adv(dt):
                nonlocal t
                evs.append(('ADV', [dt], b'')); t += dt
            if kind == 'silent':
                adv(300000)
                if rng.random() < 0.5: evs.append(('CONNCB', [], b''))
                for _ in range(rng.choice([2, 4, 7])): adv(rng.choice([1000000, 10000000, 20000000, 3000000])); marks.append(t)
                adv(rng.choice([1000000, 30000000]))
            else:
                adv(300000); evs.append(('CONNCB', [], b'')); adv(300000); evs.append(('REGOK', [rng.choice([10, 30, 30])], b'')); adv(rng.choice([200000, 900000]))
                rr = 2
                if kind == 'quiet-after-reg':
                    for _ in range(rng.choice([2, 4, 6])): adv(rng.choice([5000000, 10000000, 15000000])); marks.append(t)
                else:
                    pressed = 0
                    for _ in range(rng.choice([4, 8, 12])):
                        r = rng.random()
                        if r < 0.4:
                            v = rng.choice([0, 1, 1]); dur = rng.choice([0, 0, 500, 1000, 2500, 5000])
                            evs.append(('SRV', [C8.CALL_SET_VALUE, rr], plain_set_value(v, dur))); rr += 1; marks.append(t)
                            if dur: marks.append(t + dur * 1000)
                        elif r < 0.65 and btn:
                            pressed = 1 - pressed; evs.append(('IN', [15, pressed], b'')); marks.append(t)
                            adv(rng.choice([30000, 150000, 300000, 1200000])); marks.append(t)
                            if btn == 2: pressed = 1 - pressed; evs.append(('IN', [15, pressed], b'')); adv(150000); marks.append(t)
                        else:
                            adv(rng.choice([100000, 400000, 1000000, 2600000, 5100000]))
                    adv(rng.choice([1000000, 6000000]))
        pad, primary = self.pad_for(rng, marks)
        if pad: evs = [('ADV', [pad], b'')] + evs; marks = [m + pad for m in marks]; t += pad
        boots = self.wrap_boots(rng, marks, max(t, 200000), rng.choice([2, 2, 3]), primary)
        if cfg[1] > 0: boots = [-1] + boots                       # intervention run, see monitor_dev
        cfg = cfg[:16] + boots
        cfg[0] = 1
        return F.Case(cid, [('CFG', cfg, b'')] + evs, tags)

    # ---- scenarios aimed at the elapsed-time comparisons that the generic ones do not reach across the wrap
    def finish(self, rng, cid, cfg, evs, marks, t, tags, primary_marks=None, ref1=1):
        pm = primary_marks or marks
        if pm:
            # odd offset: the marks of these scenarios sit on timer-tick instants (k * 20 ms after a press, ...); a wrap exactly on a
            # tick makes that tick read the counter as 0 and the whole run falls under the zero-sample exclusion
            m = rng.choice(pm) + rng.choice([1117, 3331, 7333, -2221, 10007]); pad = (self.PHASE - m) % 1000000; primary = m + pad
        else: pad, primary = 0, 1000000 + self.PHASE
        if pad: evs = [('ADV', [pad], b'')] + evs; marks = [x + pad for x in marks]; t += pad
        boots = self.wrap_boots(rng, marks, max(t, 200000), rng.choice([2, 3]), primary)
        if cfg[1] > 0 and ref1 == 1: boots = [-1] + boots        # intervention run, see monitor_dev
        cfg = cfg[:16] + boots; cfg[0] = ref1
        return F.Case(cid, [('CFG', cfg, b'')] + evs, tags)
    @staticmethod
    def preamble(evs, timeout=60):
        evs += [('ADV', [300000], b''), ('CONNCB', [], b''), ('ADV', [300000], b''), ('REGOK', [timeout], b''), ('ADV', [400000], b'')]
        return 1000000

    def gen_autocal(self, rng, cid):
        """auto-calibrated shutter (channel flag RS_AUTO_CALIBRATION, no manual times): the first task runs the calibration
        (up / down / up measured with the scripted motor), then moves during which the motor stalls (SENSOR -> never in move)
        or never starts; wrap before the start / inside the 300 ms filter / after start+300 ms / after the stall.
        Sites: rs_check_motor filter (t - start_time < 300 ms), power-detection window (t - start_time < 2 s),
        up_time/down_time accumulation, autocalibration time limits."""
        full = rng.choice([4000, 6000, 10000]); startup = rng.choice([0, 0, 200])
        cfg = [1, 1, 0, 1, 0, 0, 0, full, full, startup, 0x1000, 0, 0, 0, 0, 0]
        evs = []; t = self.preamble(evs); rr = 2; marks = []; pm = []
        def adv(dt):
            nonlocal t
            while dt > 0:
                d = min(dt, 20000000); evs.append(('ADV', [d], b'')); t += d; dt -= d
        def setv(v):
            nonlocal rr
            evs.append(('SRV', [C8.CALL_SET_VALUE, rr], C8.set_value(0, v))); rr += 1
        p0 = rng.choice([10, 20, 50])
        setv(10 + p0); marks.append(t)                       # task -> autocalibration -> position p0
        adv(3 * (full + startup) + 4 * 1100000 // 1 + full * 1000 * 0 + 3 * 400000 + (full * p0 // 100) * 1000 + 3 * full * 1000 + 2000000)
        pos = p0
        for _ in range(rng.choice([1, 2, 3])):
            target = rng.choice([90, 80, 0, 100, 30]) if pos < 50 else rng.choice([10, 0, 20, 60])
            if target == pos: target = 90 - pos
            dur = abs(target - pos) * full * 10            # us of travel
            mode = rng.choice(['stall', 'stall', 'never-starts', 'healthy'])
            if mode == 'never-starts': evs.append(('SENSOR', [0, 1], b''))
            t_move = t; setv(10 + target)
            marks += [t_move - 400000, t_move + 150000]
            if mode == 'stall':
                st = rng.choice([700000, 1500000, 3000000]); st = min(st, max(400000, dur - 300000))
                pm += [t_move + 300000 + max(50000, (st - 300000) // 2), t_move + 150000, t_move - 400000]
                adv(st); evs.append(('SENSOR', [0, 1], b'')); marks.append(t + 400000); pm.append(t + 400000)
                adv(max(0, dur - st) + 1500000)
            else:
                pm += [t_move + 150000, t_move + 1000000, t_move - 400000]
                adv(dur + 1500000)
            evs.append(('SENSOR', [0, 0], b''))
            adv(rng.choice([1200000, 2500000]))
            pos = target
        return self.finish(rng, cid, cfg, evs, marks + pm, t, ['dev', 'dev:autocal-stall'], pm)

    def gen_rs10min(self, rng, cid):
        """uncalibrated shutter driven for more than 10 minutes: the 600 s limit on up_time/down_time; server talks every 40 s"""
        cfg = [1, 1, 0, 1, 0, 0, 0, 3000, 3000, 0, 0, 0, 0, 0, 0, 0]
        evs = []; t = self.preamble(evs); marks = []
        evs.append(('SRV', [C8.CALL_SET_VALUE, 2], C8.set_value(0, rng.choice([1, 2])))); rr = 3
        for k in range(16):
            for _ in range(2): evs.append(('ADV', [20000000], b'')); t += 20000000
            evs.append(('SRV', [50, rr], bytes(16))); rr += 1; marks.append(t + 3000000)
        return self.finish(rng, cid, cfg, evs, marks, t, ['dev', 'dev:rs-10min'])

    def gen_cfgbtn(self, rng, cid):
        """configuration button: hold >= CFG_BTN_PRESS_TIME (monostable, on hold) or 10 toggles within 2 s steps (bistable, on
        toggle) enters config mode; a press later than 3 s after entering leaves it (restart).
        Sites: input.c last_state_change hold test, 2 s click window, cfgmode enter time + 3 s."""
        mono = rng.random() < 0.6
        cfg = [1, 0, 0, 1, 0, 0, 0, 3000, 3000, 0, 0, 2000, 2000, 0, 2 if mono else 4, 0x02 | (0x40 if mono else 0x20)]
        evs = []; t = self.preamble(evs); marks = []
        def adv(dt):
            nonlocal t
            evs.append(('ADV', [dt], b'')); t += dt
        if mono:
            evs.append(('IN', [15, 1], b'')); t0 = t
            hold = rng.choice([3000000, 4900000, 5200000, 6000000]); marks += [t0 + 200000, t0 + 2500000, t0 + 4800000]
            adv(hold); evs.append(('IN', [15, 0], b'')); marks.append(t0 + 5500000); adv(rng.choice([1000000, 3500000])); marks.append(t - 300000)
            evs.append(('IN', [15, 1], b'')); adv(200000); evs.append(('IN', [15, 0], b'')); adv(2000000)
        else:
            lvl = 0
            for k in range(rng.choice([9, 10, 12])):
                lvl = 1 - lvl; evs.append(('IN', [15, lvl], b'')); marks.append(t + 100000)
                adv(rng.choice([200000, 400000, 1900000, 2100000]) if rng.random() < 0.3 else 300000)
            adv(rng.choice([1000000, 3500000])); marks.append(t)
            lvl = 1 - lvl; evs.append(('IN', [15, lvl], b'')); adv(2000000)
        return self.finish(rng, cid, cfg, evs, marks, t, ['dev', 'dev:cfg-button'])

    def gen_at(self, rng, cid):
        """button in action-trigger (advanced) mode on AT channel 5: short press x1/x2, hold; the click counting window
        (BTN_MULTICLICK_TIME_MS) and the hold time (BTN_HOLD_TIME_MS) are measured from last_state_change.
        Sites: input.c advanced timer delta_time tests."""
        caps = (1 << 10) | (1 << 11) | (1 << 12) | (1 << 13)
        cfg = [1, 0, 0, 1, 0, 0, 0, 3000, 3000, 0, 0, 2000, 2000, 0, 2, caps << 8]
        evs = []; t = self.preamble(evs); marks = []
        evs.append(('SRV', [C8.CALL_CFG_RESULT, 2], struct.pack('<BiBHI', 5, 700, 0, 4, rng.choice([caps, (1 << 10) | (1 << 11), (1 << 11) | (1 << 12)]))))
        def adv(dt):
            nonlocal t
            evs.append(('ADV', [dt], b'')); t += dt
        adv(500000)
        for _ in range(rng.choice([2, 4, 6])):
            g = rng.choice(['click', 'double', 'hold', 'triple'])
            n = {'click': 1, 'double': 2, 'triple': 3, 'hold': 1}[g]
            for k in range(n):
                evs.append(('IN', [15, 1], b'')); marks.append(t + 50000)
                adv(1200000 if g == 'hold' else rng.choice([60000, 150000]))
                if g == 'hold': marks += [t - 600000, t - 450000]
                evs.append(('IN', [15, 0], b'')); marks.append(t + 150000)
                adv(rng.choice([120000, 200000]) if k < n - 1 else rng.choice([500000, 900000]))
        adv(1500000)
        return self.finish(rng, cid, cfg, evs, marks, t, ['dev', 'dev:action-trigger'])

    def gen_chatty(self, rng, cid):
        """the server talks every few seconds (unsolicited ping results: last_response stays fresh) while the device has nothing to
        send: the keep-alive ping is then due through last_sent alone (t1 window of timer1_cb).  Sites: devconn data_write
        last_sent stamp, timer1_cb t1."""
        cfg = [1, 0, 0, 1, 0, 0, 0, 3000, 3000, 0, 0, 2000, 2000, 0, 0, 0]
        evs = []; T = rng.choice([10, 10, 15]); t = self.preamble(evs, timeout=T); marks = []; rr = 2
        nloops = rng.choice([16, 20, 24])
        for j in range(nloops):
            dt = rng.choice([2000000, 3000000, 4000000]); evs.append(('ADV', [dt], b'')); t += dt
            evs.append(('SRV', [50, rr], bytes(16))); rr += 1
            if j < nloops // 3: marks.append(t + 500000)      # the wrap early: several ping periods must follow it
            # the next espconn_sent answers ESPCONN_INPROGRESS: the frame is staged and flushed by a later data_write (the other
            # place where last_sent is stamped)
            if rng.random() < 0.5: evs.append(('SENTRES', [-5], b''))        # ESPCONN_INPROGRESS
        evs.append(('ADV', [3000000], b'')); t += 3000000
        return self.finish(rng, cid, cfg, evs, marks, t, ['dev', 'dev:server-chatty'])

    SPECIAL = {'server-chatty': gen_chatty, 'autocal-stall': gen_autocal, 'rs-10min': gen_rs10min, 'cfg-button': gen_cfgbtn, 'action-trigger': gen_at}

    def gen_cases(self, rng, n, tier):
        cases = []
        for i in range(n):
            if rng.random() < self.DEV_SHARE: cases.append(self.gen_dev(rng, '%sd%d' % (tier[0], i), tier))
            else: cases.append(self.gen_uptime(rng, '%su%d' % (tier[0], i), tier))
        return cases

    # ---------------- comparison with the model: uptime cases only
    @staticmethod
    def is_uptime(case):
        return bool(case.evs) and case.evs[0][0] == 'CFG' and len(case.evs[0][1]) == 5 and case.evs[0][1][4] == 0
    def compare(self, case, mo, io):
        if not self.is_uptime(case): return None
        return F.PropCheck.compare(self, case, mo, io)
    def nontrivial(self, case, io): return any(o[0] in ('U', 'GPIO', 'WIRE') for o in io[1])

    # ---------------- monitor
    def monitor(self, case, status, outs):
        if status != 'ok': return []
        if self.is_uptime(case): return self.monitor_uptime(case, outs)
        return self.monitor_dev(case, outs)

    def monitor_uptime(self, case, outs):
        """per unit non-decreasing, as long as polled at least once per period (the property's condition) and, for the
        32-bit seconds, below 2^32 s"""
        cfg = case.evs[0][1]; wd = cfg[3]
        vals = [(a[0], a[1] * W32 + a[2]) for (k, a, _) in outs if k == 'U']
        gap = 0; gaps_ok = True; vi = 0; prev = {}; v = []
        for (k, a, _) in case.evs[1:]:
            if k == 'ADV': gap += a[0]
            elif k in ('USEC', 'MSEC', 'SEC'):
                if not wd and gap >= W32: gaps_ok = False
                gap = 0
                if vi >= len(vals): break
                kind, val = vals[vi]; vi += 1
                if not gaps_ok: continue
                if kind in prev and val < prev[kind]:
                    if kind == 4 and prev[kind] >= W32 - 5000: continue      # 32-bit seconds counter beyond 2^32 s (136 years): outside the claim
                    v.append('uptime in %s went backwards: %d after %d' % ({2: 'microseconds', 3: 'milliseconds', 4: 'seconds'}[kind], val, prev[kind]))
                prev[kind] = val
        return v[:2]

    @staticmethod
    def canon(line, boot):
        k, a, d = line
        if k == 'WIRE' and len(a) >= 2 and a[1] == CALL_PING and len(d) >= 8:
            sec, usec = struct.unpack_from('<qq', d, 0) if len(d) >= 16 else struct.unpack_from('<II', d, 0)
            return (k, a, b'rel:%d' % ((sec * 1000000 + usec - boot) % W32))
        return (k, a, bytes(d))
    def runs(self, outs):
        res = []; cur = None
        for o in outs:
            if o[0] == 'RUN': cur = dict(boot=o[1][1], comp=(len(o[1]) > 2 and o[1][2] == 1), lines=[], zero=False, crash=False); res.append(cur)
            elif cur is None: continue
            elif o[0] == 'ZEROSAMPLE': cur['zero'] = True
            elif o[0] == 'RUNCRASH': cur['crash'] = True
            else: cur['lines'].append(self.canon(o, cur['boot']))
        return res
    def describe(self, ref, r):
        i = 0
        while i < len(r['lines']) and i < len(ref['lines']) and r['lines'][i] == ref['lines'][i]: i += 1
        la = ref['lines'][i] if i < len(ref['lines']) else None; lb = r['lines'][i] if i < len(r['lines']) else None
        kinds = {x[0] for x in (la, lb) if x}
        if 'RESTART' in kinds: what = 'restart time'
        elif 'GPIO' in kinds: what = 'output switching time'
        elif kinds & {'CONNECT', 'DISCONNECT'}: what = 'connection handling'
        else: what = 'frames sent'
        w = (W32 - r['boot']) % W32
        return ('%s depends on the boot value of the counter: trace relative to boot differs between boot=%d and boot=%d (counter wraps at t=%d us): line %d is [%s] vs [%s]' %
                (what, ref['boot'], r['boot'], w, i, F.short(la) if la else 'end of trace', F.short(lb) if lb else 'end of trace'))
    @staticmethod
    def without_shutter_reports(lines, nsh):
        """drops the VALUE_CHANGED frames (call 100) of shutter channels 0..nsh-1 and the rr numbering of the other frames"""
        res = []
        for (k, a, d) in lines:
            if k == 'WIRE' and len(a) >= 3:
                if a[1] == 100 and len(d) >= 1 and d[0] < nsh: continue
                res.append((k, (a[0], a[1]), d))
            else: res.append((k, tuple(a), d))
        return res
    @staticmethod
    def same_up_to_frame_shift(a, b, tol=200000):
        """the non-frame lines (GPIO edges, connection events, restarts) are identical; the remaining frames are the same,
        in the same order, with the same payload, and their send times differ by less than tol (frames queued behind a
        position report leave one iterate earlier/later)"""
        na = [x for x in a if x[0] != 'WIRE']; nb = [x for x in b if x[0] != 'WIRE']
        if na != nb: return False
        wa = [x for x in a if x[0] == 'WIRE']; wb = [x for x in b if x[0] == 'WIRE']
        if len(wa) != len(wb): return False
        for (ka, aa, da), (kb, ab, db) in zip(wa, wb):
            if da != db or aa[1:] != ab[1:] or abs(aa[0] - ab[0]) >= tol: return False
        return True
    def monitor_dev(self, case, outs):
        allruns = self.runs(outs)
        rs = [r for r in allruns if not r['zero'] and not r['crash']]
        if len(rs) < 2: return []
        nsh = case.evs[0][1][1] if len(case.evs[0][1]) > 1 else 0
        ref1 = rs[0]; v = []
        refc = next((r for r in rs[1:] if r['comp']), None)
        ref2 = next((r for r in rs[1:] if r['boot'] == self.REF2 and not r['comp']), None)
        if ref2 is None:
            # no second reference (hand-written case): everything is compared with the first run
            for r in rs[1:]:
                if not r['comp'] and r['lines'] != ref1['lines']: v.append(self.describe(ref1, r)); break
            return v
        # runs with a wrap (or a large offset) against the reference whose counter is already past 200 ms at init
        for r in rs[1:]:
            if r is ref2 or r['comp']: continue
            if r['lines'] != ref2['lines']: v.append(self.describe(ref2, r)); break
        # boot = 1 against that reference: two runs without any wrap.  Known finding rs-report-grid-anchor is decided by
        # INTERVENTION: the boot = 1 run is repeated with rs_cfg->last_comm_time preset so that the first 200 ms report test
        # passes at the first timer tick (what happens by itself when the counter is past 200 ms at init).  If that run is
        # identical to the boot = 1000001 run, the whole difference — shifted reports and everything downstream of them:
        # frames queued behind a report, frames dropped by the 2-slot call queue, keep-alive seconds, the 600 s cut-off that
        # shares the 200 ms block — is caused by that one variable.  If not, what remains is another boot dependence.
        if ref1['lines'] != ref2['lines']:
            below1 = ref1['boot'] + 10000 < 200000; below2 = ref2['boot'] + 10000 < 200000
            if below1 != below2 and nsh > 0 and refc is not None and refc['lines'] == ref2['lines']:
                # NOT returned as an alarm (the framework's shrinker keeps "any alarm", it would shrink a genuine
                # boot-dependence into this one); handed to the verdict logic by extra_quick()
                self._grid_hits.setdefault(case.id, (case, self.describe(ref1, ref2) + ' ' + self.GRID_TAG))
            elif refc is not None and nsh > 0: v.append('(not explained by the report-grid anchor) ' + self.describe(refc, ref2))
            else: v.append(self.describe(ref1, ref2))
        return v
    _grid_hits = {}
    def extra_quick(self, ctx):
        for cid, (case, msg) in list(self._grid_hits.items()):
            if cid != 's': ctx['alarms'].append((case, msg))
        self._grid_hits.clear()
        ctx['extra']['known_class_rs_report_grid_anchor_cases'] = sum(1 for (c, m) in ctx['alarms'] if self.GRID_TAG in m)

    def finding_key(self, case, what):
        """rs-report-grid-anchor: the traces of the two wrap-free reference runs (boot = 1: counter below 200 ms at init;
        boot = 1000001: not) differ, and the boot = 1 run repeated with rs_cfg->last_comm_time compensated (the variable the
        finding names; see monitor_dev) is IDENTICAL to the boot = 1000001 run.  Anything else stays a violation."""
        return 'rs-report-grid-anchor' if self.GRID_TAG in what else None

CHECK = C19()
