"""C14 — configuration form: safe parsing, bounded validated fields, untouched when absent.
Generators, implementation-side monitor, two implementation builds (ASan+UBSan with stack-use-after-return,
and a plain -O0 build whose stack is filled with 0xAA before every callback so that reads of uninitialised
locals show in the observables; valgrind on the plain build in the thorough tier)."""
import hashlib, os, re, stat, subprocess, sys
import framework as F

VC = None
def consts():
    global VC
    if VC is None: VC = F.G.load('C14Vars')
    return VC

H = os.path.join(F.VERIF, 'harness')
DRV = os.path.join(H, 'drv', 'c14.c')
EXTRA = [os.path.join(H, 'wrap', 'c14_cfgmode_wrap.c'), os.path.join(H, 'doubles', 'c15_mqtt_board.c')]

TEXT_FIELDS = ('WIFI_SSID', 'WIFI_PWD', 'Server', 'Email', 'MqttTopicPrefix')
# which form names may legitimately change which field of the record
FIELD_NAMES = {
    'WIFI_SSID': ['sid'], 'WIFI_PWD': ['wpw'], 'Server': ['svr', 'mvr'], 'Email': ['eml', 'usr', 'pwd', 'mwd'],
    'LocationID': ['lid', 'prt'], 'LocationPwd': ['pwd', 'mwd'], 'CfgButtonType': ['cfg'], 'Button1Type': ['bt1'], 'Button2Type': ['bt2'],
    'StatusLedOff': ['led'], 'InputCfgTriggerOff': ['icf'], 'FirmwareUpdate': ['upd'], 'MotorUpsideDown': ['usd', 'us0', 'us1', 'us2', 'us3'],
    'Trigger': ['trg'], 'Flags': ['pro', 'tls', 'ret', 'mau'], 'MqttTopicPrefix': ['pfx'], 'MqttQoS': ['qos'],
    'OvercurrentThreshold1': ['th1'], 'OvercurrentThreshold2': ['th2'], 'MqttPoolPublicationDelay': ['ppd'],
    'StaircaseButtonType': ['sbt'], 'ButtonType': ['bp0', 'bp1', 'bp2', 'bp3'], 'ButtonMode': ['bm0', 'bm1', 'bm2', 'bm3'],
    'ButtonsUpsideDown': ['bud', 'bu0', 'bu1', 'bu2', 'bu3'], 'TiltControlType': ['tc0', 'tc1', 'tc2', 'tc3'],
    'AdditionalTimeMargin': ['tm0', 'tm1', 'tm2', 'tm3'],
}
ALL_FIELDS = ['TAG', 'GUID', 'AuthKey', 'Server', 'Email', 'LocationID', 'LocationPwd', 'WIFI_SSID', 'WIFI_PWD', 'CfgButtonType', 'Button1Type',
              'Button2Type', 'StatusLedOff', 'InputCfgTriggerOff', 'FirmwareUpdate', 'Test', 'MotorUpsideDown', 'Time1', 'Time2', 'Trigger',
              'Flags', 'MqttTopicPrefix', 'MqttQoS', 'OvercurrentThreshold1', 'OvercurrentThreshold2', 'MqttPoolPublicationDelay',
              'AutoCalOpenTime', 'AutoCalCloseTime', 'StaircaseButtonType', 'ButtonType', 'ButtonMode', 'CleanConfigSignature', 'Time3',
              'ButtonsUpsideDown', 'Tilt0Angle', 'Tilt100Angle', 'TiltControlType', 'AdditionalTimeMargin', 'zero']

def names():
    return [bytes(r[1:4]) for r in consts()['VARTAB']] + [b'pro']

def build_plain(name, drv_src, srcs, flags):
    """own copy of the framework's build helper for a sanitizer-free build (framework.build_c always adds ASan)"""
    os.makedirs(os.path.join(F.CACHE, 'obj'), exist_ok=True); os.makedirs(os.path.join(F.CACHE, 'bin'), exist_ok=True)
    th = F.tree_hash(); objs = []
    for s in list(srcs) + [drv_src]:
        k = hashlib.sha256((th + '|plain|' + ' '.join(flags) + '|' + s).encode()).hexdigest()[:32]
        o = os.path.join(F.CACHE, 'obj', k + '.o'); objs.append(o)
        if not os.path.exists(o):
            tmp = o + '.%d.tmp' % os.getpid()
            rc, out, err = F.sh(['clang'] + flags + ['-c', s, '-o', tmp], timeout=600)
            if rc != 0: return None, 'compile %s failed:\n%s' % (s, err[-3000:])
            os.replace(tmp, o)
    k = hashlib.sha256('|'.join(objs).encode()).hexdigest()[:32]
    exe = os.path.join(F.CACHE, 'bin', '%s_%s' % (name, k))
    if not os.path.exists(exe):
        tmp = exe + '.%d.tmp' % os.getpid()
        rc, out, err = F.sh(['clang'] + objs + ['-o', tmp, '-lm'], timeout=600)
        if rc != 0: return None, 'link failed:\n' + err[-4000:]
        os.replace(tmp, exe)
    return exe, ''

BOTH = r'''#!/usr/bin/env python3
# runs the ASan build and the plain stack-poisoned build of the C14 driver on the same cases and merges
# their outputs: lines of the plain build get the prefix P (PSEG, PCMD)
import subprocess, sys
A, B = %r, %r
data = sys.stdin.buffer.read()
ra = subprocess.run([A], input=data, capture_output=True)
rb = subprocess.run([B], input=data, capture_output=True)
sys.stderr.buffer.write(ra.stderr[-30000:]); sys.stderr.buffer.write(rb.stderr[-5000:])
def parse(out):
    res = {}; order = []; cur = None
    for line in out.decode(errors='replace').splitlines():
        if line.startswith('#CASE'): cur = line[5:].strip(); res[cur] = [[], 'missing']; order.append(cur)
        elif line.startswith('#STATUS'):
            if cur is not None: res[cur][1] = line[7:].strip()
        elif line == '#END': cur = None
        elif cur is not None: res[cur][0].append(line)
    return res, order
pa, order = parse(ra.stdout); pb, _ = parse(rb.stdout)
o = []
for cid in order:
    la, sa = pa[cid]; lb, sb = pb.get(cid, ([], 'missing'))
    o.append('#CASE ' + cid); o += la; o += ['P' + l for l in lb]
    o.append('#STATUS ' + (sa if sa != 'ok' else (sb if sb == 'ok' else 'crash plain-build ' + sb)))
    o.append('#END')
sys.stdout.write('\n'.join(o) + '\n')
'''

class C14(F.PropCheck):
    pid = 'C14'; gen_groups = ['C14Vars']; prop_file = 'Properties_C14'
    IN = {'CFG': 0, 'SEG': 1, 'NEWCONN': 2}
    OUT = {0: 'SEG', 1: 'CMD', 2: 'FAULT'}
    quick_cases = 900; thorough_cases = 8000
    trusted_extra = ['C14 driver harness/drv/c14.c + harness/wrap/c14_cfgmode_wrap.c (supla_esp_cfgmode.c compiled as is, accessor for the '
                     'private parser state); real connect/recv/disconnect callbacks, supla_esp_cfg_save on the flash double, MQTT build configuration; '
                     'segments are exact-size heap buffers; two builds: clang -O1 ASan+UBSan (stack-use-after-return on, -fwrapv, signed overflow '
                     'not trapped: cfg_str2int wraps as on the target) and clang -O0 without sanitizers with the stack filled with 0xAA before every callback',
                     'actions of the variables (which field a completed value sets) are transcribed by hand in coq/C14/Model.v (action) and validated by '
                     'the byte comparison; names, ids, buffer sizes, destinations, guards, offsets and limits are generated',
                     'plain `char` is signed on the host and unsigned on xtensa: the model takes the signedness as a parameter (only the rbt value is affected)']
    assumptions = ['the previous configuration has its text fields terminated inside their fields (wf: established by C13 for stored images and by this property for every save)',
                   'flash erase/write succeed (failed saves belong to C13)']
    rule = ('requests: forms with a random subset/order of the 55 recognised fields (text values of random, maximal and over-long lengths, %-escapes valid/invalid/at the '
            'last two bytes, +, numeric values inside/outside/around the limits, empty values), GET, other paths, mutated and random bytes x SUPLA/MQTT selection x '
            'random previous configurations (long password with overflow) x segmentations (one segment; header|body; random; every cut of short requests; cuts after '
            'pwd= / pro= / inside escapes) with the unsplit request replayed on a fresh connection for comparison; non-trivial = a response or a save happened; '
            'distinct by sha256 of the event text')

    # ---------------- builds
    def regen_guard(self):
        """another check may regenerate ALL translator groups from /repo between our translator run and our Coq build
        (shared gen.py: an empty group list means every group).  Re-run our groups; when a generated .v is newer than its
        .vo the proofs were checked against other constants: check them again."""
        F.run_gen(self.gen_groups)
        coq = os.path.join(F.VERIF, 'coq', 'Gen')
        stale = [g for g in self.gen_groups
                 if not os.path.exists(os.path.join(coq, g + '.vo')) or os.path.getmtime(os.path.join(coq, g + '.v')) > os.path.getmtime(os.path.join(coq, g + '.vo'))]
        if stale:
            cq = F.coq_build(self.prop_file)
            if not cq['ok']: return 'proofs do not hold for the constants regenerated from the tree under test (%s): %s' % (', '.join(stale), '; '.join(cq.get('errors', [])[:2]) or cq['log'][-400:])
        return None

    def build_impl(self):
        self._guard_problem = self.regen_guard()      # reported in extra_quick; the implementation is run in any case
        exe_a, log = F.build_c('c14', DRV, config='mqtt', exclude=('supla_esp_cfgmode',), extra_srcs=EXTRA,
                               extra_flags=['-fsanitize-address-use-after-return=always', '-fwrapv', '-fno-sanitize=signed-integer-overflow'])
        if exe_a is None: return None, log
        srcs = F.device_sources('mqtt', exclude=('supla_esp_cfgmode',)) + EXTRA
        flags = F.G.dev_flags(F.REPO, mqtt=True) + ['-gdwarf-4', '-O0', '-w', '-fwrapv', '-DC14_POISON']
        exe_b, log = build_plain('c14plain', DRV, srcs, flags)
        if exe_b is None: return None, log
        self.exe_plain = exe_b
        txt = BOTH % (exe_a, exe_b)
        p = os.path.join(F.CACHE, 'bin', 'c14both_%s.py' % hashlib.sha256(txt.encode()).hexdigest()[:16])
        if not os.path.exists(p):
            open(p + '.tmp%d' % os.getpid(), 'w').write(txt); os.chmod(p + '.tmp%d' % os.getpid(), 0o755); os.replace(p + '.tmp%d' % os.getpid(), p)
        return p, ''

    # ---------------- generators
    def rtext(self, rng, n, mode):
        if mode == 0: return bytes(rng.choice(b'abcdefghijklmnopqrstuvwxyzABCDEFGHIJKLMNOPQRSTUVWXYZ0123456789._-') for _ in range(n))
        if mode == 1: return bytes(rng.choice(b'abcxyz019%+&=@. -_\r\n') for _ in range(n))
        return bytes(rng.randrange(0, 256) for _ in range(n))

    def enc(self, rng, raw):
        """urlencode a raw value with random choices"""
        out = bytearray()
        for b in raw:
            if b == 32 and rng.random() < 0.7: out += b'+'
            elif b in b'&=%+\r\n' or b < 33 or b > 126 or rng.random() < 0.05: out += b'%%%02X' % b if rng.random() < 0.7 else b'%%%02x' % b
            else: out.append(b)
        return bytes(out)

    def value_for(self, rng, row):
        var, size, kind = row[0], row[4], row[5]
        nm = bytes(row[1:4])
        k = rng.random()
        if kind in (0, 2, 3):       # text
            if k < 0.08: return b''
            n = rng.choice([1, 3, 8, size - 2, size - 1, size, size + 1, size + 7, rng.randrange(1, size + 3)])
            if nm in (b'pwd', b'mwd'): n = rng.choice([1, 5, 31, 32, 33, 34, 60, 200, 254, 255, 256, 260, rng.randrange(1, 258)])
            n = max(0, n)
            raw = self.rtext(rng, n, rng.choice([0, 0, 0, 2]))
            if rng.random() < 0.15: raw = raw.replace(b'\0', b'x')
            v = self.enc(rng, raw)
            m = rng.random()
            if m < 0.06: v += rng.choice([b'%', b'%4', b'%zz', b'%4g', b'%%41'])      # broken escapes (at the end of the value)
            return v
        # numeric
        if nm == b'prt': return str(rng.choice([0, 1, 2, 80, 1883, 8883, 65534, 65535, 65536, 70000, -1, -1883, 2**31 - 1, 2**31, 2**32 + 1, 99999999999, rng.randrange(0, 70000)])).encode()
        if nm == b'qos': return rng.choice([b'0', b'1', b'2', b'3', b'9', b'-1', b'', b'25', b'a', b'\xff'])
        if nm in (b'tm0', b'tm1', b'tm2', b'tm3'): return str(rng.choice([-2, -1, 0, 1, 50, 99, 100, 101, 127, 128, 200, 255, 256, 300, -128, -129, 1000, rng.randrange(-5, 110)])).encode()
        if nm == b'ppd': return str(rng.choice([0, 1, 60, 255, 256, 3599, 3600, 3601, -1, 100000, rng.randrange(0, 4000)])).encode()
        if nm in (b'th1', b'th2'): return rng.choice([b'0', b'1', b'3.14', b'3,1', b'12.3456', b'.5', b'99999999', b'1.', b'a1b2', b'', b'4294967.30'])
        if nm == b'lid': return str(rng.choice([0, 1, 1234, -5, 2**31 - 1, 2**31, 12345678901, rng.getrandbits(31)])).encode()
        if nm == b'rbt': return rng.choice([b'0', b'0', b'0', b'1', b'2', b'3', b''])
        return rng.choice([b'0', b'1', b'2', b'', b'7', b'12', b'x', b'-1', b'123456789012345'])

    def gen_prev(self, rng):
        c = consts(); img = bytearray(rng.getrandbits(8) for _ in range(c['CFG_SIZE']))
        if rng.random() < 0.3: img = bytearray(c['CFG_SIZE'])
        for f in TEXT_FIELDS + ('LocationPwd',):
            o, s = c['O_' + f], c['Z_' + f]; k = rng.random()
            n = 0 if k < 0.15 else (s - 1 if k < 0.3 else rng.randrange(0, s))
            img[o:o + n] = bytes(rng.randrange(1, 256) for _ in range(n)) if rng.random() < 0.3 else self.rtext(rng, n, 0)
            img[o + n] = 0
            if rng.random() < 0.6:
                for i in range(o + n + 1, o + s): img[i] = 0
        if rng.random() < 0.3:      # long password
            o, s = c['O_LocationPwd'], c['Z_LocationPwd']; img[o:o + s] = self.rtext(rng, s, 0)
            eo, es = c['O_Email'], c['Z_Email']; k = bytes(img[eo:eo + es]).find(b'\0'); room = es - k - 2
            if room > 0:
                n = rng.choice([0, 1, room, rng.randrange(0, room + 1)]); img[eo + k + 1:eo + k + 1 + n] = self.rtext(rng, n, 0); img[eo + k + 1 + n] = 0
        o = c['O_Flags']; img[o:o + 4] = rng.randrange(0, 16).to_bytes(4, 'little')
        img[c['O_LocationID']:c['O_LocationID'] + 4] = rng.choice([0, 1883, 8883, rng.getrandbits(31)]).to_bytes(4, 'little')
        img[c['O_MqttQoS']] = rng.choice([0, 1, 2])
        for i in range(c['RS_COUNT']): img[c['O_AdditionalTimeMargin'] + i] = rng.choice([255, 0, 5, 100])
        for p in (c['O_Email'] + c['Z_Email'], c['O_Email'] + c['Z_Email'] + 1): img[p] = 0     # padding
        return bytes(img)

    def gen_request(self, rng):
        c = consts(); rows = c['VARTAB']; tags = []
        k = rng.random()
        if k < 0.04: tags.append('GET'); return b'GET / HTTP/1.1\r\nHost: 192.168.4.1\r\n\r\n', tags
        if k < 0.07: tags.append('other-path'); return rng.choice([b'POST /x HTTP/1.1\r\n\r\nsid=a&wpw=b&svr=c&eml=d', b'GET /favicon.ico HTTP/1.1\r\n\r\n', b'PUT / HTTP/1.1\r\n\r\n', b'POST  / HTTP/1.1\r\n\r\nsid=a&wpw=b&svr=c&eml=d']), tags
        if k < 0.11: tags.append('random-bytes'); return self.rtext(rng, rng.randrange(0, 200), 2), tags
        # a form
        mqtt = rng.random() < 0.5
        std = [b'sid', b'wpw', b'pro', b'svr', b'eml', b'mvr', b'prt', b'tls', b'mau', b'usr', b'mwd', b'pfx', b'qos', b'ret', b'ppd', b'rbt'] if rng.random() < 0.5 else []
        byname = {bytes(r[1:4]): r for r in rows}
        nrand = rng.choice([0, 1, 2, 3, 4, 6, 10, 20])
        chosen = [n for n in std if rng.random() < 0.85] + [bytes(rng.choice(rows)[1:4]) for _ in range(nrand)]
        if rng.random() < 0.4: rng.shuffle(chosen)
        if rng.random() < 0.25: chosen.append(rng.choice([b'pwd', b'mwd']))
        if rng.random() < 0.3 and b'pro' not in chosen: chosen.insert(rng.randrange(0, len(chosen) + 1), b'pro')
        parts = []
        for n in chosen:
            if n == b'pro': v = (b'1' if mqtt else b'0') if rng.random() < 0.85 else rng.choice([b'', b'2', b'11', b'x'])
            else: v = self.value_for(rng, byname[n])
            parts.append(n + b'=' + v)
        if rng.random() < 0.1: parts.insert(rng.randrange(0, len(parts) + 1), rng.choice([b'xyz=1', b'foo', b'=', b'ab=cd', b'sid', b'&&']))
        body = b'&'.join(parts)
        if rng.random() < 0.08: body += rng.choice([b'&pro=', b'&pwd=', b'&mwd=', b'&sid=', b'&pro', b'%', b'&prt=18'])
        tags.append('form:%s' % ('mqtt' if mqtt else 'supla')); tags.append('fields:%d' % min(len(parts), 20))
        hdr = b'POST / HTTP/1.1\r\nHost: 192.168.4.1\r\nContent-Type: application/x-www-form-urlencoded\r\nContent-Length: %d\r\n\r\n' % len(body)
        if rng.random() < 0.1: hdr = b'POST / HTTP/1.1\r\n\r\n'
        if rng.random() < 0.03: hdr = b'POST / HTTP/1.1\r\nCookie: sid=abc; rbt=0\r\n\r\n'; tags.append('header-with-equals')
        req = hdr + body
        if rng.random() < 0.06:       # mutate
            req = bytearray(req)
            for _ in range(rng.choice([1, 2, 5])):
                if not req: break
                i = rng.randrange(len(req)); m = rng.random()
                if m < 0.4: req[i] = rng.getrandbits(8)
                elif m < 0.7: del req[i]
                else: req.insert(i, rng.getrandbits(8))
            req = bytes(req); tags.append('mutated')
        return req, tags

    def cuts(self, rng, req, tier):
        n = len(req); k = rng.random()
        if n < 2 or k < 0.55: return [], 'one-segment'
        he = req.find(b'\r\n\r\n')
        if k < 0.65 and he >= 0: return [he + 4], 'split:header|body'
        if k < 0.72 and he > 12: return [rng.randrange(11, he + 1)], 'split:inside-headers'
        if k < 0.80:
            cand = [m.end() for m in re.finditer(rb'(pwd|mwd|pro|sid|wpw)=', req)] + [m.start() + d for m in re.finditer(rb'%[0-9A-Fa-f]{2}', req) for d in (1, 2)]
            cand = [x for x in cand if 0 < x < n]
            if cand: return [rng.choice(cand)], 'split:after-name-or-inside-escape'
        if k < 0.9: return [rng.randrange(1, n)], 'split:random-1'
        m = rng.randrange(2, 6); return sorted(set(rng.randrange(1, n) for _ in range(m))), 'split:random-n'

    def mk_case(self, cid, prev, req, cuts, tags):
        evs = [('CFG', [], prev)]
        prevc = 0
        for c in list(cuts) + [len(req)]:
            evs.append(('SEG', [], req[prevc:c])); prevc = c
        if cuts:     # the unsplit request on a fresh connection and the same previous configuration
            evs += [('NEWCONN', [], b''), ('CFG', [], prev), ('SEG', [], req)]
        return F.Case(cid, evs, tags)

    def gen_clean_form(self, rng, cid):
        """well-formed forms: text fields (one of them LAST, ending in an escape), numeric fields around their limits"""
        al = b'abcdefghijklmnopqrstuvwxyzABCDEFGHIJKLMNOPQRSTUVWXYZ0123456789._~-'
        def rtxt(n):
            out = bytearray()
            while len(out) < n:
                k = rng.random()
                if k < 0.75: out.append(rng.choice(al))
                elif k < 0.85: out += b'+'
                else: out += b'%%%02X' % rng.choice([0x20, 0x25, 0x26, 0x2B, 0x3D, 0x40, 0xC3, 0xA9, 0xE2, 0x82, 0xAC, 0x7F, 0x01, 0xFF]) if rng.random() < 0.8 else b'%%%02x' % rng.randrange(1, 256)
            return bytes(out)
        mqtt = rng.random() < 0.5
        sizes = {b'sid': 32, b'wpw': 64, b'svr': 100, b'mvr': 100, b'eml': 256, b'usr': 256, b'pfx': 50}
        texts = [b'sid', b'wpw', b'pfx'] + ([b'mvr', b'usr'] if mqtt else [b'svr', b'eml'])
        def tval(n, esc_end):
            L = rng.choice([1, 3, 8, 20, sizes[n] - 2, sizes[n] - 1, sizes[n], rng.randrange(1, sizes[n] + 2)])
            v = rtxt(L)
            if esc_end: v = v[:max(0, len(v) - 3)].rstrip(b'%') ; v = re.sub(rb'%[0-9A-Fa-f]?$', b'', v) + rng.choice([b'%C3%A9', b'%41', b'%e9', b'%2B', b'%7f'])
            return v
        def num(n):
            if rng.random() < 0.06: return rng.choice([b'123456789012', b'1234567890123', b'123456789012345', b'000000000000001', b'-12345678901234'])   # longer than intval
            if n == b'prt': return str(rng.choice([0, 1, 80, 1883, 65534, 65535, 65536, 65537, 70000, 131071, 131072 + 1883, 2**31 - 1, 2**31, 2**31 + 5, 2**32, 2**32 + 1, 2**32 + 1883,
                                                   -1, -1883, -65535, 99999999999, rng.randrange(0, 140000)])).encode() if rng.random() < 0.9 else rng.choice([b'01883', b'0000001883', b'00000', b'-0'])
            if n == b'qos': return rng.choice([b'0', b'1', b'2', b'3', b'9', b'10', b'25', b'-1', b'02', b'256', b'4294967297'])
            return str(rng.choice([-2, -1, 0, 1, 50, 99, 100, 101, 127, 128, 155, 200, 255, 256, 300, 355, 356, 357, 512 + 7, -128, -129, -255, -257, 65536, 2**32, 2**32 + 5, 2**31, rng.randrange(-300, 600)])).encode()
        order = [n for n in texts if rng.random() < 0.85]
        nums = [n for n in (b'prt', b'qos', b'tm0', b'tm1', b'tm2', b'tm3') if rng.random() < 0.6]
        fields = order + nums + [x for x in (b'led', b'tls', b'ret') if rng.random() < 0.5]
        rng.shuffle(fields)
        last = rng.choice(texts); fields = [f for f in fields if f != last] + [last]
        parts = [b'pro=' + (b'1' if mqtt else b'0')] if rng.random() < 0.85 else []
        for f in fields:
            if f in sizes: parts.append(f + b'=' + tval(f, f == last))
            elif f in (b'prt', b'qos', b'tm0', b'tm1', b'tm2', b'tm3'): parts.append(f + b'=' + num(f))
            else: parts.append(f + b'=' + rng.choice([b'0', b'1']))
        while len(parts) < 4: parts.insert(0, rng.choice([b'led=1', b'icf=0', b'trg=1']))
        body = b'&'.join(parts)
        hdr = b'POST / HTTP/1.1\r\nHost: 192.168.4.1\r\nContent-Type: application/x-www-form-urlencoded\r\nContent-Length: %d\r\n\r\n' % len(body)
        return F.Case(cid, [('CFG', [], self.gen_prev(rng)), ('SEG', [], hdr + body)],
                      ['clean-form:%s' % ('mqtt' if mqtt else 'supla'), 'last-field:%s' % last.decode(), 'one-segment'])

    def gen_two_step(self, rng, cid):
        """form A stores a long password (33..max), a later form B submits the password empty (or not at all) with a
        user name / e-mail of a different length"""
        al = b'abcdefghijklmnopqrstuvwxyzABCDEFGHIJKLMNOPQRSTUVWXYZ0123456789'
        def rs(n): return bytes(rng.choice(al) for _ in range(n))
        mqtt = rng.random() < 0.5
        hdr = b'POST / HTTP/1.1\r\nHost: 192.168.4.1\r\n\r\n'
        plen = rng.choice([33, 34, 40, 64, 100, 150, 200, 250, 255, 256, rng.randrange(33, 257)])
        n1 = rng.choice([0, 1, 5, 20, 60, 120, 200, 254, 255, 256, rng.randrange(0, 257)]); n2 = rng.choice([0, 1, 4, 21, 61, 100, 180, 240, 254, 255, rng.randrange(0, 256)])
        nm, pw = (b'usr', b'mwd') if mqtt else (b'eml', b'pwd')
        pro = b'pro=1&' if mqtt else b'pro=0&'
        fa = hdr + pro + b'sid=net&wpw=wifipass&' + (b'mvr=broker&' if mqtt else b'svr=s.org&') + nm + b'=' + rs(n1) + b'&' + pw + b'=' + rs(plen) + b'&rbt=0'
        k = rng.random()
        pwpart = (b'&' + pw + b'=') if k < 0.6 else (b'' if k < 0.85 else b'&' + pw + b'=&led=1')
        fb = hdr + pro + b'sid=net2&led=0&' + (b'mvr=broker2&' if mqtt else b'svr=t.org&') + nm + b'=' + rs(n2) + pwpart + (b'&rbt=0' if not pwpart.endswith(b'led=1') else b'')
        prev = self.gen_prev(rng)
        evs = [('CFG', [], prev), ('SEG', [], fa), ('NEWCONN', [], b''), ('SEG', [], fb)]
        return F.Case(cid, evs, ['two-step:long-password-then-empty:%s' % ('mqtt' if mqtt else 'supla'), 'one-segment'])

    def gen_cases(self, rng, n, tier):
        cases = []
        n2 = n // 8
        for i in range(n2): cases.append(self.gen_two_step(rng, '%st%d' % (tier[0], i)))
        n3 = n // 4
        for i in range(n3): cases.append(self.gen_clean_form(rng, '%sc%d' % (tier[0], i)))
        n = n - n2 - n3
        for i in range(n):
            prev = self.gen_prev(rng); req, tags = self.gen_request(rng)
            cuts, ct = self.cuts(rng, req, tier); tags = list(tags) + [ct]
            if rng.random() < 0.02:
                req = b'POST / HTTP/1.1' + b'\r\n' * rng.choice([3, 4, 5, 8]) + req[15:]; cuts = [15]; tags.append('crlf-run-after-cut')
            cases.append(self.mk_case('%s%d' % (tier[0], i), prev, req, cuts, tags))
        if tier == 'thorough':
            # every cut of a few short requests
            for j, body in enumerate([b'sid=ab&wpw=cd&svr=e.f&eml=g%40h&pwd=ij&pro=0', b'pro=1&sid=a+b&mvr=m&usr=u&mwd=%41%42&prt=1883&qos=1']):
                req = b'POST / HTTP/1.1\r\n\r\n' + body; prev = self.gen_prev(rng)
                for cpos in range(1, len(req)):
                    cases.append(self.mk_case('cut%d_%d' % (j, cpos), prev, req, [cpos], ['every-cut']))
        return cases

    # ---------------- monitor (implementation trace vs. the property; the Coq model is not involved)
    def occurs(self, segs, nm):
        pat = nm + b'='
        return any(pat in s for s in segs)

    def check_stream(self, label, prev, segs, outs, v):
        """segs: list of segment bytes of one connection; outs: the SEG outputs [(ints, image)] in order"""
        c = consts(); NM = names()
        before = prev; count = 0
        for si, (seg, (ints, img)) in enumerate(zip(segs, outs)):
            if len(ints) < 9 or len(img) != c['CFG_SIZE']: continue
            code1, code2, saves, same, restarts, matched = ints[:6]
            seen = segs[:si + 1]
            count += sum(len(re.findall(re.escape(nm + b'='), seg)) for nm in NM)
            changed = img != before
            if saves and not same: v.append('%ssegment %d: the flash sector differs from supla_esp_cfg after the save' % (label, si))
            if saves or changed:
                if not any(sg.startswith(b'POST / HTTP') for sg in seen):
                    v.append('%ssegment %d: configuration saved although the request is not a POST to /' % (label, si))
                elif count < 4:
                    v.append('%ssegment %d: configuration saved although only %d recognised fields were posted' % (label, si, count))
            if saves and len(segs) == 1: self.check_values(label, si, seg, before, img, v)
            if changed:
                # text settings stay terminated inside their field
                for f in TEXT_FIELDS:
                    o, s = c['O_' + f], c['Z_' + f]
                    if 0 in before[o:o + s] and 0 not in img[o:o + s]:
                        v.append('%ssegment %d: %s is no longer NUL-terminated inside its %d bytes' % (label, si, f, s))
                po, ps = c['O_LocationPwd'], c['Z_LocationPwd']; eo, es = c['O_Email'], c['Z_Email']
                e = img[eo:eo + es]; k = e.find(b'\0')
                if 0 not in img[po:po + ps] and 0 <= k < es - 1 and 0 not in e[k + 1:] and self.pwd_ok(before):
                    v.append('%ssegment %d: long password: the part stored behind the e-mail is not NUL-terminated inside the Email field' % (label, si))
                # settings that do not appear keep their previous values
                for f in ALL_FIELDS:
                    o, s = c['O_' + f], c['Z_' + f]
                    if img[o:o + s] == before[o:o + s]: continue
                    nms = [x.encode() for x in FIELD_NAMES.get(f, [])]
                    if not any(self.occurs(seen, nm) for nm in nms):
                        v.append('%ssegment %d: %s changed although none of its form fields (%s) appears in the request' %
                                 (label, si, f, ','.join(FIELD_NAMES.get(f, [])) or 'not settable'))
                # empty passwords keep the previous value
                for (f, nms) in (('LocationPwd', (b'pwd', b'mwd')), ('WIFI_PWD', (b'wpw',))):
                    o, s = c['O_' + f], c['Z_' + f]
                    if img[o:o + s] == before[o:o + s]: continue
                    occ = [m.end() for sg in seen for nm in nms for m in re.finditer(re.escape(nm + b'='), sg)]
                    if occ and all(self.empty_at(seen, nms)):
                        v.append('%ssegment %d: %s changed although it was submitted empty' % (label, si, f))
                # an absent or empty password keeps the effective password (Password field + the part behind the
                # e-mail/user-name terminator, as supla_esp_mqtt.c reassembles it), as long as it still fits behind the new name
                occ = [sg[m.end():m.end() + 1] for sg in [seg] for nm in (b'pwd', b'mwd') for m in re.finditer(re.escape(nm + b'='), sg)]
                if all(x in (b'', b'&') for x in occ) and self.pwd_ok(before):
                    eb, tb = self.effective_password(before); ea, ta = self.effective_password(img)
                    eo, es = c['O_Email'], c['Z_Email']; nl = img[eo:eo + es].find(b'\0')
                    if eb is not None and ea is not None and 0 <= nl and len(tb) <= es - 2 - nl and ea != eb:
                        v.append('%ssegment %d: the password was %s but the effective password (Password field + part behind the name) changed: '
                                 '%d -> %d characters%s' % (label, si, 'submitted empty' if occ else 'not submitted', len(eb), len(ea),
                                 '' if len(ea) != len(eb) else ', different contents'))
                # numeric ranges
                o = c['O_LocationID']
                if img[o:o + 4] != before[o:o + 4] and not self.occurs(seen, b'lid') and self.occurs(seen, b'prt'):
                    port = int.from_bytes(img[o:o + 4], 'little', signed=True)
                    if not (1 <= port <= 65535): v.append('%ssegment %d: port %d accepted (valid 1-65535)' % (label, si, port))
                o = c['O_MqttQoS']
                if img[o] != before[o] and not (0 <= img[o] <= 2): v.append('%ssegment %d: QoS %d accepted (valid 0-2)' % (label, si, img[o]))
                o = c['O_AdditionalTimeMargin']
                for i in range(4):
                    m = img[o + i] - 256 if img[o + i] >= 128 else img[o + i]
                    if img[o + i] != before[o + i] and not (-1 <= m <= 100): v.append('%ssegment %d: time margin %d accepted (valid -1..100)' % (label, si, m))
            before = img
        return before

    def empty_at(self, segs, nms):
        for sg in segs:
            for nm in nms:
                for m in re.finditer(re.escape(nm + b'='), sg):
                    yield m.end() >= len(sg) or sg[m.end():m.end() + 1] == b'&'

    TEXT_VARS = {b'sid': ('WIFI_SSID', None), b'wpw': ('WIFI_PWD', None), b'svr': ('Server', False), b'mvr': ('Server', True),
                 b'eml': ('Email', False), b'usr': ('Email', True), b'pfx': ('MqttTopicPrefix', None)}

    def parse_clean(self, seg):
        """an unsplit POST to / with '='-free headers and a well-formed urlencoded body: [(name, raw value)], else None"""
        if not seg.startswith(b'POST / HTTP') or seg.count(b'\r\n\r\n') != 1: return None
        he = seg.find(b'\r\n\r\n')
        if b'=' in seg[:he]: return None
        body = seg[he + 4:]
        if not body: return None
        pairs = []
        for part in body.split(b'&'):
            m = re.fullmatch(rb'([a-z0-9]{3})=((?:[A-Za-z0-9._~+\-]|%[0-9A-Fa-f]{2})*)', part)
            if not m: return None
            pairs.append((m.group(1), m.group(2)))
        return pairs

    @staticmethod
    def urldecode(v):
        out = bytearray(); i = 0
        while i < len(v):
            if v[i:i + 1] == b'%': out.append(int(v[i + 1:i + 3], 16)); i += 3
            elif v[i:i + 1] == b'+': out.append(32); i += 1
            else: out.append(v[i]); i += 1
        return bytes(out)

    def check_values(self, label, si, seg, before, img, v):
        """reference decoding of one unsplit, well-formed, saved form: text fields hold the percent-decoded value,
        numeric fields are accepted only inside their ranges (decided with unbounded integers from the request text)"""
        c = consts(); pairs = self.parse_clean(seg)
        if pairs is None: return
        names = [n for (n, _) in pairs]
        uniq = lambda n: names.count(n) == 1 and seg.count(n + b'=') == 1
        if b'pro' in names:
            if not uniq(b'pro'): return
            mqtt = dict(pairs)[b'pro'][:1] == b'1'
        else: mqtt = bool(before[c['O_Flags']] & 1)
        def cs(b): k = b.find(b'\0'); return b if k < 0 else b[:k]
        for (n, raw) in pairs:
            if not uniq(n): continue
            if n in self.TEXT_VARS:
                f, need = self.TEXT_VARS[n]
                if need is not None and need != mqtt: continue
                if need is not None and any(self.TEXT_VARS.get(x, (None, None))[0] == f and x != n and self.TEXT_VARS[x][1] == mqtt for x in names): continue
                o, sz = c['O_' + f], c['Z_' + f]
                exp = cs(self.urldecode(raw)[:sz - 1]); got = cs(img[o:o + sz])
                if n == b'wpw' and exp == b'': continue
                if got != exp:
                    d = next((i for i in range(min(len(got), len(exp))) if got[i] != exp[i]), min(len(got), len(exp)))
                    v.append('%ssegment %d: %s: the stored value is not the URL-decoded submitted value of %s= (lengths %d/%d, first difference at byte %d: stored %r, expected %r)' %
                             (label, si, f, n.decode(), len(got), len(exp), d, got[max(0, d - 8):d + 16], exp[max(0, d - 8):d + 16]))
            elif re.fullmatch(rb'-?[0-9]{1,11}', raw) and len(raw) <= 11:
                val = int(raw)
                if n == b'prt' and b'lid' not in names:
                    o = c['O_LocationID']; old = int.from_bytes(before[o:o + 4], 'little', signed=True); new = int.from_bytes(img[o:o + 4], 'little', signed=True)
                    if not (1 <= val <= 65535):
                        if new != old: v.append('%ssegment %d: prt=%d is outside 1-65535 but was accepted (stored port %d, before %d)' % (label, si, val, new, old))
                    elif len(raw) <= 9 and new != val: v.append('%ssegment %d: prt=%d (valid) was not stored (port %d)' % (label, si, val, new))
                elif n == b'qos':
                    o = c['O_MqttQoS']
                    if not (0 <= val <= 2):
                        if img[o] != before[o]: v.append('%ssegment %d: qos=%d is outside 0-2 but was accepted (stored %d)' % (label, si, val, img[o]))
                    elif len(raw) == 1 and img[o] != val: v.append('%ssegment %d: qos=%d (valid) was not stored (QoS %d)' % (label, si, val, img[o]))
                elif n in (b'tm0', b'tm1', b'tm2', b'tm3'):
                    o = c['O_AdditionalTimeMargin'] + int(n[2:3]); got = img[o] - 256 if img[o] >= 128 else img[o]
                    if not (-1 <= val <= 100):
                        if got != -1: v.append('%ssegment %d: %s=%d is outside -1..100 but was accepted (stored margin %d)' % (label, si, n.decode(), val, got))
                    elif len(raw) <= 9 and got != val: v.append('%ssegment %d: %s=%d (valid) was not stored (margin %d)' % (label, si, n.decode(), val, got))

    def effective_password(self, img):
        """(password, overflow part) as stored: Password field, and when it is full the string behind the name terminator inside the field; (None, b'') when the e-mail/user name is unterminated"""
        c = consts(); po, ps = c['O_LocationPwd'], c['Z_LocationPwd']; eo, es = c['O_Email'], c['Z_Email']
        p = img[po:po + ps]; k = p.find(b'\0')
        if k >= 0: return p[:k], b''
        e = img[eo:eo + es]; ul = e.find(b'\0')
        if ul < 0: return None, b''
        if ul >= es - 1: return p, b''
        tail = e[ul + 1:]; t = tail.find(b'\0')
        if t < 0: return p, b''          # (the MQTT client additionally ignores a part that ends in the last byte of the field)
        return p + tail[:t], tail[:t]

    def pwd_ok(self, img):
        """previous image: long password either absent or properly terminated behind the e-mail"""
        c = consts(); po, ps = c['O_LocationPwd'], c['Z_LocationPwd']; eo, es = c['O_Email'], c['Z_Email']
        e = img[eo:eo + es]; k = e.find(b'\0')
        return k >= 0 and (0 in img[po:po + ps] or k == es - 1 or 0 in e[k + 1:])

    def split_events(self, case):
        """[(prev image, [segments])] per connection"""
        conns = []; prev = bytes(consts()['CFG_SIZE']); cur = None
        for (k, ints, data) in case.evs:
            if k == 'CFG':
                prev = bytes(data) + bytes(max(0, consts()['CFG_SIZE'] - len(data)))
                if cur is not None and not cur[1]: cur[0] = prev
            elif k == 'NEWCONN': cur = [None, []]; conns.append(cur)
            elif k == 'SEG':
                if cur is None: cur = [prev, []]; conns.append(cur)
                cur[1].append(bytes(data))
        return conns

    def monitor(self, case, status, outs):
        v = []
        if status != 'ok':
            v.append('memory error while parsing the request (%s): access outside the segment / the settings record / a live object' % status)
        if any(k in ('PVOVERRUN', 'PPVOVERRUN') for (k, _, _) in outs):
            v.append('a numeric value was written past intval[12] of the parser state (on the 32-bit target: past the end of its allocation)')
        conns = self.split_events(case)
        for (kind, label) in (('SEG', ''), ('PSEG', '[plain build, stack filled with 0xAA] ')):
            so = [(ints, bytes(data)) for (k, ints, data) in outs if k == kind]
            pos = 0; finals = []
            for (prev, segs) in conns:
                o = so[pos:pos + len(segs)]; pos += len(segs)
                if len(o) < len(segs): finals.append(None); continue
                if prev is None:      # no CFG event since the previous connection: it starts from what that one left
                    prev = finals[-1][0] if finals and finals[-1] is not None else None
                    if prev is None: finals.append(None); continue
                finals.append((self.check_stream(label, prev, segs, o, v), sum(x[0][2] for x in o if len(x[0]) > 2)))
            # the saved result does not depend on the segmentation: connection 1 = split, connection 2 = the same bytes in one segment
            if len(conns) == 2 and len(conns[0][1]) > 1 and len(conns[1][1]) == 1 and b''.join(conns[0][1]) == conns[1][1][0] \
               and conns[0][0] == conns[1][0] and finals[0] is not None and finals[1] is not None:
                (fa, sa), (fb, sb) = finals
                if fa != fb or (sa > 0) != (sb > 0):
                    v.append('%ssegmentation: the configuration after the request split into %d segments differs from the unsplit request (%s)' %
                             (label, len(conns[0][1]), 'saved vs not saved' if (sa > 0) != (sb > 0) else 'different contents'))
        # de-duplicate the messages that both builds produce
        seen = set(); res = []
        for m in v:
            key = m.replace('[plain build, stack filled with 0xAA] ', '')
            if key in seen: continue
            seen.add(key); res.append(m)
        # report genuine single-request problems before the segmentation finding
        res.sort(key=lambda m: 'segmentation:' in m)
        return res

    def finding_key(self, case, what):
        """known class = the cuts for which split-independence is NOT a theorem (coq/C14/Split.v):
        benign cuts of a request with '='-free headers and one complete CRLFCRLF at `he` are
          11 <= c <= he            (inside the headers: C14_split_inside_headers) and
          he+4 <= c <= q-3         (headers | body, q = first '=' of the body: C14_split_headers_body);
        every other cut (request-line prefix, inside CRLFCRLF, inside a name/value, at a `&`) is in the class
        (C14_split_refuted has a witness for each kind), as is any request without such headers."""
        if 'segmentation:' not in what: return None
        conns = self.split_events(case)
        if not conns or len(conns[0][1]) < 2: return None
        req = b''.join(conns[0][1]); he = req.find(b'\r\n\r\n')
        if he < 0 or b'=' in req[:he]: return 'request-split-across-tcp-segments'
        q = req.find(b'=', he + 4); q = len(req) if q < 0 else q
        benign = lambda c: 11 <= c <= he or he + 4 <= c <= q - 3
        if any(not benign(c) for c in self.cut_positions(conns[0][1])): return 'request-split-across-tcp-segments'
        return None

    def cut_positions(self, segs):
        pos = 0; out = []
        for s in segs[:-1]: pos += len(s); out.append(pos)
        return out

    def compare(self, case, mo, io):
        (ms, ml), (is_, il) = mo, io
        if is_ != 'ok': return None
        if any(k == 'FAULT' for (k, _, _) in ml): return 'model reports a fault %s where the implementation ran through' % [i for (k, i, _) in ml if k == 'FAULT'][:1]
        for (kinds, label) in ((('SEG', 'CMD'), 'asan build'), (('PSEG', 'PCMD'), 'plain build')):
            a = [(k, i, d) for (k, i, d) in ml]
            b = [(k.lstrip('P') if k in ('PSEG', 'PCMD') else k, i, d) for (k, i, d) in il if k in kinds]
            if a != b:
                for j in range(max(len(a), len(b))):
                    x = a[j] if j < len(a) else None; y = b[j] if j < len(b) else None
                    if x != y:
                        extra = ''
                        if x and y and x[1] == y[1] and len(x[2]) == len(y[2]):
                            d = [q for q in range(len(x[2])) if x[2][q] != y[2][q]]; extra = ' first differing byte %d (%d bytes differ)' % (d[0], len(d))
                        return '%s output %d: model=%s impl=%s%s' % (label, j, F.short(x), F.short(y), extra)
        return None

    def nontrivial(self, case, io): return any(k == 'SEG' and len(i) > 2 and (i[0] or i[2]) for (k, i, d) in io[1])
    def sample(self, case, io):
        return dict(id=case.id, events=[F.fmt_line(*e)[:160] for e in case.evs[:6]], outputs=[F.fmt_line(*o)[:100] for o in io[1][:4]])

    # ---------------- valgrind on the plain build (thorough tier): uninitialised reads
    def extra_quick(self, ctx):
        if getattr(self, '_guard_problem', None): ctx['problems'].append('proof: ' + self._guard_problem)
        if ctx['tier'] != 'thorough' or not getattr(self, 'exe_plain', None): return
        cases = self.corpus_cases()[:40] + self.gen_cases(ctx['rng'], 40, 'valgrind')[:40]
        inp = F.render_cases(cases)
        env = dict(os.environ); env['C14_NOPOISON'] = '1'
        rc, out, err = F.sh(['valgrind', '-q', '--error-exitcode=97', '--track-origins=no', self.exe_plain], inp=inp, timeout=1500, env=env)
        res = F.parse_outputs(out)
        bad = [c for c in cases if res.get(c.id, ('missing', []))[0] == 'crash exit=97']
        ran = len([c for c in cases if c.id in res])
        if ran < len(cases): ctx['problems'].append('valgrind: only %d of %d cases ran (%s)' % (ran, len(cases), err.strip().splitlines()[-1][:120] if err.strip() else ''))
        ctx['extra']['valgrind_cases'] = ran; ctx['extra']['valgrind_reports'] = len(bad)
        for c in bad[:5]:
            ctx['alarms'].append((c, 'valgrind: conditional jump or read depends on uninitialised memory while parsing the request (plain build)'))

CHECK = C14()
