"""C10 — positioning tasks converge; the motor is never left powered indefinitely: generators, monitor, check definition."""
import os
import framework as F
import c09 as C09MOD

def known(p): return 100 <= p <= 10100
def rep(p): return (p - 100 + 50) // 100 if known(p) else -1

ST_FIELDS = ['pos', 'tilt', 'up_time', 'down_time', 'up_on', 'down_on', 'start_time', 'stop_time', 'delayed', 'task_state', 'task_dir',
             'task_pos', 'task_tilt', 'step', 'perform', 'button_req', 'detected', 'flags', 'time1', 'time2', 'aot', 'act']
FLAG_FAILED = 2

class C10(F.PropCheck):
    pid = 'C10'; gen_groups = ['RsConsts']; prop_file = 'Properties_C10'
    IN = {'CFG': 0, 'CB': 1, 'TASK': 2, 'RELAY': 3, 'RECAL': 4}
    OUT = {0: 'ST', 1: 'REPORT', 2: 'GPIO'}
    quick_cases = 600; thorough_cases = 1000            # thorough: 1000 cases through the framework + batches (extra_quick)
    thorough_batches = 22; batch_size = 500
    trusted_extra = ['C10 driver harness/drv/c10.c: real supla_esp_gpio_init, relay_hi, rs_set_relay + delayed-trigger os_timer (fired by the timer double), '
                     'add_task, rs_timer_cb (task processing, auto-calibration, 10-minute rule), supla_esp_calcfg_request; timer callback called directly '
                     'at scripted times, time burnt by os_delay_us inside an event is discarded at its end; motor sensor = harness board double',
                     'extraction: ExtrOCamlFloats + ExtrOCamlInt63, linked against coq-core.kernel (Float64, Uint63)']
    assumptions = ['one shutter; relays without restore flags; board CALCFG hook inert',
                   'FP facts of C09 for the accounting inside positioning; callback interval bounded by tau in the convergence theorems']
    rule = ('families: calibrated roller-shutter tasks (start x target x travel time x margin x sensor none/plausible), manual moves, uncalibrated 10-minute runs '
            '(coarse callbacks, counter wrap), auto-calibration with plausible / never / always / random sensor, interrupting and re-requested commands at '
            '10-20 ms resolution in the second after a stop, facade-blind tasks, recalibrate requests; non-trivial = an output was energised; '
            'distinct by sha256 of the event text')

    def build_impl(self):
        return F.build_c('c10', os.path.join(F.VERIF, 'harness', 'drv', 'c10.c'), exclude=('supla_esp_rs_fb',),
                         extra_srcs=[os.path.join(F.VERIF, 'harness', 'wrap', 'c09_rsfb_wrap.c')])

    # ---------------- generators
    def cfg(self, boot=1, tilt_ms=0, ttype=0, margin=-1, af=0, rf=0, pos0=0, tilt0=0, t1=0, t2=0, aot=0, act=0, init_now=1000, now0=100000, mu=0, md=0, ms=0):
        return ('CFG', [boot, tilt_ms, ttype, margin, af, rf, pos0, tilt0, t1, t2, aot, act, init_now, now0, mu, md, ms], b'')

    def ticks(self, rng, total_us, style, sensor, maxn=4000):
        out = []; t = 0
        while t < total_us and len(out) < maxn:
            if style == 'exact10': dt = 10000
            elif style == 'jitter': dt = 10000 + rng.choice([0, 0, 0, rng.randrange(0, 20001)])
            elif style == 'coarse': dt = rng.choice([250000, 200000, 249999, 100000])
            else: dt = rng.choice([10000, 10000, 10001, 30000, rng.randrange(1000, 60001)])
            sm = sensor if sensor in (0, 1, 2) else rng.randrange(2)
            out.append(('CB', [dt, sm], b'')); t += dt
        return out

    def fam_task_rs(self, rng, tier):
        full = rng.choice([500, 500, 2000, 2000, 17300, 1000, 3000, rng.randrange(500, 5000)] + ([60000] if tier == 'thorough' else []))
        margin = rng.choice([-1, 0, 5, 50, 100])
        start = rng.randrange(0, 101); target = rng.randrange(0, 101)
        pos0 = 100 + 100 * start if rng.random() < 0.7 else rng.randrange(100, 10101)
        sensor = rng.choice([0, 0, 2])
        style = rng.choice(['exact10', 'exact10', 'jitter'])
        boot = rng.choice([1, 1, rng.randrange(1, 2**32), 2**32 - rng.randrange(1, 3 * full * 1000 + 2000000)])
        evs = [self.cfg(boot=boot, margin=margin, pos0=pos0, t1=full, t2=full, mu=full, md=full, ms=rng.choice([0, 50, 200]))]
        evs += self.ticks(rng, rng.choice([20000, 1200000]), style, sensor)
        evs.append(('TASK', [target, -1], b''))
        need = abs(pos0 - 100 - 100 * target) * full * 10 // 100 + (full * 1000 * (110 if margin < 0 else margin) // 100) + 1500000
        evs += self.ticks(rng, need, style, sensor, maxn=6000)
        return evs, ['task-rs', 'full%d' % full, 'margin%d' % margin, 'sensor%d' % sensor, style]

    def fam_task_asym(self, rng, tier):
        """opening and closing times differ by a factor of 12: tasks to both end stops (and inside) must use the travel time and the
        end-stop margin of the direction actually travelled"""
        a, b = rng.choice([(24000, 2000), (2000, 24000), (60000, 5000), (5000, 60000), (12000, 1000), (1000, 12000)])
        margin = rng.choice([-1, -1, 0, 5, 50, 100])
        target = rng.choice([0, 100, 0, 100, rng.randrange(0, 101)])
        start = min(100, max(0, target + rng.choice([-1, 1]) * rng.randrange(3, 40)))
        if start == target: start = 50
        sensor = rng.choice([0, 0, 2]); style = rng.choice(['exact10', 'jitter'])
        evs = [self.cfg(margin=margin, pos0=100 + 100 * start, t1=a, t2=b, mu=a, md=b, ms=rng.choice([0, 50]))]
        evs += self.ticks(rng, 30000, 'exact10', sensor)
        evs.append(('TASK', [target, -1], b''))
        full = a if target < start else b
        need = abs(start - target) * full * 10 + max(a, b) * 1000 * (110 if margin < 0 else margin) // 100 + 1500000
        evs += self.ticks(rng, need, style, sensor, maxn=6000)
        return evs, ['task-rs', 'asymmetric-times', 'margin%d' % margin, 'to-end-stop' if target in (0, 100) else 'inside']

    def fam_resend(self, rng, tier):
        """the same direction is requested again and again (every 0.5 .. 1.9 s, for more than 11 minutes) while the motor sensor stays dead:
        a re-sent command for the output that is already energised must not postpone the 10-minute cut-off"""
        af = rng.choice([1, 1, 1, 0]); d = rng.choice([1, 2])
        evs = [self.cfg(af=af, rf=rng.randrange(2), pos0=0, boot=rng.choice([1, 1, rng.randrange(1, 2**32)]))] + [('CB', [10000, 0], b'')] * 3
        t = 0; tags = ['resend-same-direction', 'af%d' % af]
        while t < rng.choice([700_000_000, 660_000_000]):
            evs.append(('RELAY', [d, rng.randrange(2), 0], b''))
            gap = rng.randrange(500_000, 1_900_001); u = 0
            while u < gap:
                dt = min(rng.choice([250000, 200000, 100000]), gap - u); evs.append(('CB', [dt, 0], b'')); u += dt
            t += gap
        evs += self.ticks(rng, 5_000_000, 'coarse', 0)
        return evs, tags

    def fam_manual(self, rng, tier):
        full = rng.choice([500, 2000, 17300, rng.randrange(500, 5000)])
        margin = rng.choice([-1, 0, 5, 50, 100])
        pos0 = rng.choice([0, 100, 10100, rng.randrange(100, 10101)])
        evs = [self.cfg(margin=margin, pos0=pos0, t1=full, t2=full, boot=rng.choice([1, rng.randrange(1, 2**32)]))]
        evs += self.ticks(rng, 30000, 'exact10', 0)
        tags = ['manual', 'full%d' % full]
        for _ in range(rng.randrange(1, 6)):
            v = rng.choice([1, 2, 0, 1, 2])
            evs.append(('RELAY', [v, rng.randrange(2), rng.randrange(2)], b''))
            evs += self.ticks(rng, rng.choice([50000, 300000, 950000, 1100000, full * 1000 * 3]), rng.choice(['exact10', 'jitter', 'mixed']), rng.choice([0, 0, 2, 3]), maxn=1500)
        return evs, tags

    def fam_ten_minutes(self, rng, tier):
        af = rng.choice([0, 0, 1])
        wrap_at = rng.randrange(1_000_000, 598_000_000)
        boot = rng.choice([1, (2**32 - wrap_at) % 2**32, (2**32 - wrap_at) % 2**32])
        kind = rng.choice(['uncal', 'uncal', 'lost'])
        if kind == 'uncal': c = self.cfg(boot=boot, af=af, pos0=0)
        else: c = self.cfg(boot=boot, pos0=rng.choice([0, 5000]), t1=0, t2=rng.choice([0, 30000]))
        evs = [c] + self.ticks(rng, 30000, 'exact10', 0)
        evs.append(('RELAY', [rng.choice([1, 2]), 1, 0], b''))
        sensor = rng.choice([0, 1, 3])
        evs += self.ticks(rng, 612_000_000, 'coarse', sensor, maxn=3200)
        return evs, ['ten-minutes', kind, 'af%d' % af, 'sensor%d' % sensor] + (['wrap-during-run'] if boot != 1 else [])

    def fam_autocal(self, rng, tier):
        mu = rng.choice([600, 1500, 3000, 400, 2500]); md = rng.choice([mu, mu + 200, 450, 3000])
        ms = rng.choice([0, 100, 250])
        sensor = rng.choice([2, 2, 2, 0, 1, 3])
        evs = [self.cfg(af=1, rf=1, pos0=0, mu=mu, md=md, ms=ms, margin=rng.choice([-1, 5, 50]), boot=rng.choice([1, rng.randrange(1, 2**32)]))]
        evs += self.ticks(rng, 30000, 'exact10', 0)
        evs.append(rng.choice([('TASK', [rng.randrange(0, 101), -1], b''), ('RECAL', [0, 0, 0], b'')]))
        tags = ['autocal', 'sensor%d' % sensor]
        if sensor == 1:
            evs += self.ticks(rng, 3 * 595_000_000, 'coarse', 1, maxn=7500)
        else:
            evs += self.ticks(rng, (mu + md + mu + 3 * ms + 9000) * 1000, rng.choice(['exact10', 'jitter']), sensor, maxn=3000)
        if rng.random() < 0.3:
            evs.append(rng.choice([('RELAY', [rng.choice([0, 1, 2]), 1, 1], b''), ('TASK', [rng.randrange(0, 101), -1], b''), ('RECAL', [0, 0, 0], b'')]))
            evs += self.ticks(rng, 3000000, 'exact10', sensor, maxn=600); tags.append('interrupted')
        return evs, tags

    def stuck_script(self, rng, mu, md, ms, step, pre_us=30000):
        """callbacks for an auto-calibration whose sensor is plausible until the run of `step` (1..3) is under way and then reports movement
        for ever: 10 ms callbacks up to the switch (start delay 0.87 s after the trigger, 1.01 s before each reversal), coarse ones after it"""
        run = [mu + ms, md + ms, mu + ms]
        t_sw = 870 + sum(run[:step - 1]) + 1010 * (step - 1) + run[step - 1] // 2          # ms after the trigger
        evs = [('CB', [10000, 2], b'')] * (t_sw // 10)
        evs += self.ticks(rng, 612_000_000, 'coarse', 1, maxn=3200)
        return evs

    def fam_autocal_stuck(self, rng, tier):
        """the sensor gets stuck at "moving" during step 1, 2 or 3 of the auto-calibration: that step must end in the failure outcome"""
        mu = rng.choice([1500, 2500, 3000]); md = rng.choice([mu, mu + 200, 1700]); ms = rng.choice([0, 100, 250])
        step = rng.choice([3, 3, 2, 1])
        evs = [self.cfg(af=1, rf=1, pos0=0, mu=mu, md=md, ms=ms, margin=rng.choice([-1, 5, 50]))]
        evs += [('CB', [10000, 2], b'')] * 3
        evs.append(rng.choice([('TASK', [rng.randrange(0, 101), -1], b''), ('RECAL', [0, 0, 0], b'')]))
        evs += self.stuck_script(rng, mu, md, ms, step)
        return evs, ['autocal', 'sensor-stuck-in-step%d' % step]

    def fam_interrupt(self, rng, tier):
        """commands in the second after a stop at 10-20 ms resolution (start delay / delayed trigger), re-requested targets"""
        full = rng.choice([2000, 5000, 17300])
        window = rng.random() < 0.6
        pos0 = rng.randrange(3000, 7000) if window else rng.choice([100, 5100, 10100, rng.randrange(100, 10101)])
        evs = [self.cfg(margin=rng.choice([-1, 5]), pos0=pos0, t1=full, t2=full)]
        evs += self.ticks(rng, 30000, 'exact10', 0)
        evs.append(('TASK', [rng.randrange(0, 101), -1], b''))
        evs += self.ticks(rng, rng.choice([300000, 800000, 1500000]), 'exact10', 0)
        evs.append(('RELAY', [0, 1, rng.randrange(2)], b''))                      # stop at T0
        t0_gap = rng.choice([10, 20, 50, 200, 500, 880])
        evs += self.ticks(rng, t0_gap * 1000, 'exact10', 0)
        a = rng.choice([0, 100])
        evs.append(('TASK', [a if window else rng.choice([0, 100, rng.randrange(0, 101)]), -1], b''))   # target < 1 s after the stop: delayed start armed
        second = rng.choice(list(range(890, 1021, 10))) if window else rng.choice([900, 950, 1000, 1010, rng.randrange(0, 1200)])
        if second > t0_gap: evs += self.ticks(rng, (second - t0_gap) * 1000, 'exact10', 0)
        if window: evs.append(('TASK', [100 - a, -1], b''))                      # opposite direction inside [T0+0.9 s, T0+1 s]
        else: evs.append(rng.choice([('TASK', [rng.choice([0, 100, rng.randrange(0, 101)]), -1], b''), ('RELAY', [rng.choice([1, 2]), 1, 1], b'')]))
        evs += self.ticks(rng, full * 1000 * 2 + 2500000, 'exact10', 0, maxn=5000)
        return evs, ['interrupt-after-stop', 'full%d' % full] + (['opposite-target-in-start-delay-window'] if window else [])

    def fam_fb(self, rng, tier):
        full = rng.choice([10000, 17300, 5000, 3000]); ttype = rng.choice([1, 2, 3])
        tilt_ms = rng.choice([500, 1000, 2000, 1730])
        pos0 = rng.choice([100, 10100, rng.randrange(100, 10101)]); tilt0 = rng.choice([100, 10100, rng.randrange(100, 10101)])
        if ttype == 3 and pos0 != 10100: tilt0 = 100
        evs = [self.cfg(tilt_ms=tilt_ms, ttype=ttype, margin=rng.choice([-1, 5, 0, 50]), pos0=pos0, tilt0=tilt0, t1=full, t2=full)]
        evs += self.ticks(rng, 30000, 'exact10', 0)
        tags = ['fb-task', 'type%d' % ttype]
        for _ in range(rng.randrange(1, 3)):
            if rng.random() < 0.3:
                # fully (or nearly) closed with the slats (partly) open: the tilt target is reached by driving past the position target
                # and back; for type 2 the way down is clamped at the lower end stop
                evs.append(('TASK', [rng.choice([100, 100, 95, 85, rng.randrange(80, 101)]), rng.choice([0, 0, 50, rng.randrange(0, 61)])], b'')); tags.append('closed-slats-open')
            else:
                evs.append(('TASK', [rng.choice([-1, 0, 100, rng.randrange(0, 101)]), rng.choice([-1, 0, 100, rng.randrange(0, 101)])], b''))
            evs += self.ticks(rng, (full + 3 * tilt_ms) * 1000 * 2 + 3000000, rng.choice(['exact10', 'jitter']), 0, maxn=5500)
        return evs, tags

    def fam_autocal_pause_cmd(self, rng, tier):
        """a STOP / UP / DOWN command lands inside one of the two 1 s start-delay pauses between the steps of an auto-calibration
        (outputs off, delayed trigger armed); afterwards a percentage request: the calibration must end (aborted = step 0), and the new
        request must calibrate and move"""
        mu = rng.choice([1100, 1500, 2500]); md = rng.choice([1200, mu + 200, 1700]); ms = rng.choice([0, 100])
        evs = [self.cfg(af=1, rf=1, pos0=0, mu=mu, md=md, ms=ms, margin=rng.choice([-1, 5]))] + [('CB', [10000, 2], b'')] * 3
        evs.append(('TASK', [rng.randrange(0, 101), -1], b''))
        which = rng.choice([1, 2])                              # pause after step 1 / after step 2
        t_pause = 870 + (mu + ms) + (0 if which == 1 else 1010 + md + ms)      # ms after the trigger (cf. stuck_script)
        at = t_pause + rng.choice([50, 150, 300, 500, 700, 900, rng.randrange(20, 990)])
        evs += [('CB', [10000, 2], b'')] * (at // 10)
        evs.append(('RELAY', [rng.choice([0, 0, 1, 2]), 1, rng.randrange(2)], b''))
        evs += [('CB', [10000, 2], b'')] * rng.choice([500, 300])
        evs.append(('TASK', [rng.choice([30, 0, 100, rng.randrange(0, 101)]), -1], b''))
        evs += [('CB', [10000, 2], b'')] * ((2 * mu + md + 3 * ms + 3 * 1010 + mu + 3000) // 10)
        return evs, ['autocal', 'command-in-step-pause%d' % which]

    def fam_fb_retask(self, rng, tier):
        """facade blind (types 1, 2): a second request while the first task is in any of its phases (start delay, positioning, reversal,
        tilting up / down), including tilt-only (-1, t) and position-only (p, -1) requests"""
        full = rng.choice([10000, 17300, 5000]); ttype = rng.choice([1, 2]); tilt_ms = rng.choice([1000, 2000, 1730])
        pos0 = rng.choice([100, 10100, rng.randrange(100, 10101)]); tilt0 = rng.choice([100, 10100, rng.randrange(100, 10101)])
        evs = [self.cfg(tilt_ms=tilt_ms, ttype=ttype, margin=rng.choice([-1, 5, 50]), pos0=pos0, tilt0=tilt0, t1=full, t2=full)] + [('CB', [10000, 0], b'')] * 3
        p1, t1 = rng.choice([50, rng.randrange(0, 101)]), rng.choice([20, 80, rng.randrange(0, 101)])
        evs.append(('TASK', [p1, t1], b''))
        travel = abs(pos0 - 100 - 100 * p1) * full // 10000                   # ms
        # second request: inside the start delay / positioning / around the reversal and the tilting phase at 100 ms resolution
        at = rng.choice([rng.randrange(0, 1000), 1000 + rng.randrange(0, travel + 1), 1000 + travel + tilt_ms + rng.randrange(0, 1200 + tilt_ms),
                         1000 + travel + tilt_ms + 1000 + rng.choice([100, 300, 500, 800])])
        evs += [('CB', [10000, 0], b'')] * (at // 10 + 1)
        kind = rng.random()
        if kind < 0.4: evs.append(('TASK', [-1, rng.choice([60, 0, 100, rng.randrange(0, 101)])], b''))
        elif kind < 0.6: evs.append(('TASK', [rng.randrange(0, 101), -1], b''))
        else: evs.append(('TASK', [rng.randrange(0, 101), rng.randrange(0, 101)], b''))
        evs += self.ticks(rng, (full + 3 * tilt_ms) * 1000 * 2 + 5000000, 'exact10', 0, maxn=6000)
        return evs, ['fb-task', 'type%d' % ttype, 're-tasked-while-running']

    def fam_random(self, rng, tier):
        """unstructured command sequences for model/implementation correspondence"""
        ttype = rng.choice([0, 0, 1, 2, 3]); tilt_ms = 0 if ttype == 0 else rng.choice([0, 500, 2000])
        full1 = rng.choice([0, 500, 2000, 5000]); full2 = rng.choice([full1, full1, 0, 3000])
        if ttype == 2 and (full1 == 0 or full2 == 0): full1 = full2 = 2000     # integer division by a zero travel time in task_processing
        af = rng.randrange(2)
        evs = [self.cfg(boot=rng.choice([1, rng.randrange(1, 2**32), 2**32 - rng.randrange(1, 20_000_000)]), tilt_ms=tilt_ms, ttype=ttype,
                        margin=rng.choice([-1, 0, 5, 50, 100, rng.randrange(0, 101)]), af=af, rf=rng.randrange(2),
                        pos0=rng.choice([0, 100, 10100, rng.randrange(100, 10101)]), tilt0=rng.choice([0, 100, 10100, rng.randrange(100, 10101)]),
                        t1=full1, t2=full2, aot=rng.choice([0, 0, 1500]) if af else 0, act=rng.choice([0, 0, 1600]) if af else 0,
                        mu=rng.choice([500, 2000]), md=rng.choice([500, 2000]), ms=rng.choice([0, 100]))]
        for _ in range(rng.randrange(2, 12)):
            k = rng.random()
            if k < 0.35: evs.append(('TASK', [rng.choice([-1, 0, 100, rng.randrange(0, 101), 120]), rng.choice([-1, -1, 0, 100, rng.randrange(0, 101)])], b''))
            elif k < 0.7: evs.append(('RELAY', [rng.choice([0, 1, 2]), rng.randrange(2), rng.randrange(2)], b''))
            elif k < 0.8: evs.append(('RECAL', [rng.randrange(2), rng.choice([0, 2000, 3000]), rng.choice([0, 2000, 3000])], b''))
            evs += self.ticks(rng, rng.choice([20000, 200000, 1000000, 3000000]), rng.choice(['exact10', 'jitter', 'mixed']), rng.choice([0, 1, 2, 3]), maxn=400)
        return evs, ['random', 'type%d' % ttype]

    def extra_quick(self, ctx):
        if ctx['tier'] != 'thorough' or ctx['iexe'] is None: return
        import random
        def maker(b): return lambda: self.gen_cases(random.Random(ctx['seed'] * 7919 + 104729 * (b + 1)), self.batch_size, 'thorough', prefix='b%d_' % b)
        makers = [maker(b) for b in range(self.thorough_batches)]
        ex = self.exhaustive_pairs()
        def chunk(lo): return lambda: [self.pair_case(*a) for a in ex[lo:lo + 1000]]
        makers += [chunk(lo) for lo in range(0, len(ex), 1000)]
        C09MOD.run_batches(self, ctx, makers, 'batched_thorough')

    def gen_cases(self, rng, n, tier, prefix=''):
        fams = [(self.fam_task_rs, 30), (self.fam_task_asym, 6), (self.fam_resend, 2), (self.fam_manual, 12), (self.fam_ten_minutes, 3), (self.fam_autocal, 12), (self.fam_autocal_stuck, 2), (self.fam_autocal_pause_cmd, 3), (self.fam_fb_retask, 5), (self.fam_interrupt, 12),
                (self.fam_fb, 10), (self.fam_random, 21)]
        tot = sum(w for _, w in fams); cases = []
        for i in range(n):
            x = rng.randrange(tot)
            for f, w in fams:
                if x < w: break
                x -= w
            evs, tags = f(rng, tier)
            cases.append(F.Case('%s%s%d' % (prefix, tier[0], i), evs, tags))
        return cases

    def exhaustive_pairs(self):
        """all (start, target) pairs 0..100 x 0..100 on a 2 s shutter with exact 10 ms callbacks, and a 7 x 7 grid for the other travel
        times / margins (17.3 s, 60 s with 30 ms callbacks to keep the case length bounded); thorough tier, in chunks"""
        r = []
        for full, dt, margins, grid in ((2000, 10000, (5,), range(0, 101)), (500, 10000, (-1, 0, 50), range(0, 101, 16)),
                                        (17300, 10000, (-1, 0, 5, 50, 100), range(0, 101, 16)), (60000, 30000, (5, 100), range(0, 101, 25))):
            for m in margins:
                for a in grid:
                    for b in grid: r.append((full, dt, m, a, b))
        return r

    def pair_case(self, full, dt, m, a, b):
        evs = [self.cfg(margin=m, pos0=100 + 100 * a, t1=full, t2=full)] + [('CB', [dt, 0], b'')] * 3 + [('TASK', [b, -1], b'')]
        need = abs(a - b) * full * 10 + full * 1000 * (110 if m < 0 else max(m, 5)) // 100 + 1300000
        evs += [('CB', [dt, 0], b'')] * (need // dt + 3)
        return F.Case('tX%d_%d_%d_%d' % (full, m, a, b), evs, ['exhaustive-pairs', 'full%d' % full, 'margin%d' % m])

    # ---------------- monitor: the property text on the implementation trace (GPIO edges, stored/reported position, flags)
    def timeline(self, case, outs):
        """[(event, t_after_us, [gpio edges (t, which, level)], state dict)] for the events after CFG"""
        cfg = case.evs[0][1] if case.evs and case.evs[0][0] == 'CFG' else None
        if cfg is None: return None, []
        groups = []; cur = []
        for o in outs:
            if o[0] == 'ST': groups.append((cur, dict(zip(ST_FIELDS, o[1])))); cur = []
            else: cur.append(o)
        t = cfg[13]; tl = []
        for e, (pre, st) in zip(case.evs[1:], groups):
            if e[0] == 'CB': t += e[1][0]
            tl.append((e, t, [(g[1][0], g[1][1], g[1][2]) for g in pre if g[0] == 'GPIO'], st))
        return cfg, tl

    def monitor(self, case, status, outs):
        if status != 'ok':
            return ['implementation crashed (%s): undefined behaviour or memory error inside the shutter module' % status]
        cfg, tl = self.timeline(case, outs)
        if cfg is None or not tl: return []
        v = []
        (boot, tilt_ms, ttype, margin, af, rf, pos0, tilt0, t1, t2, aot0, act0, init_now, now0, mu, md, ms) = cfg
        # ---- (1) bounded power: no output stays energised longer than the bound after the last command
        rise = {1: None, 2: None}; last_cmd = now0; maxdt = 0; info = {1: None, 2: None}
        prev = dict(pos=pos0, tilt=tilt0, time1=t1, time2=t2, aot=aot0, act=act0, step=0, up_on=0, down_on=0, task_state=0, flags=0)
        def judge(which, t_end, still_on):
            since = t_end - max(rise[which], last_cmd)
            kn, need, ae = info[which]
            # uncalibrated / auto-calibration: ten minutes + one reporting period (200 ms) + callback granularity (C10_bounded_power_uncalibrated);
            # calibrated: travel time to the end stop + max(end-stop margin, one position unit + 2 us) (C10_bounded_power_calibrated),
            # + callback granularity on both ends + the 10.02 ms busy-wait of the relay operation that stamps the falling edge
            bound = max(600_000_000 + 200_000 + 2 * maxdt, need + 2 * maxdt + 20_040)
            if since > bound:
                v.append('output %s energised for %d us without a new command%s (bound %d us) [calibrated=%d autocal_enabled=%d excess=%d maxdt=%d]' %
                         ('up' if which == 2 else 'down', since, ', still on at the end of the trace' if still_on else '', bound, int(kn), int(ae), since - bound, maxdt))
        for (e, t, edges, st) in tl:
            if e[0] == 'CB': maxdt = max(maxdt, e[1][0])
            for (tg, which, lev) in edges:
                if which in (1, 2):
                    if lev == 1:
                        rise[which] = tg
                        full = (prev['time1'] if which == 2 else prev['time2']) or (prev['aot'] if which == 2 else prev['act'])
                        kn = known(prev['pos']) and full > 0 and prev['step'] == 0
                        rem = (prev['pos'] - 100) if which == 2 else (10100 - prev['pos'])
                        km = 110 if not (0 <= margin <= 100) else margin          # supla_esp_gpio_rs_set_time_margin
                        info[which] = (kn, (rem * full * 1000 // 10000 + max(1000 * (full * km // 100), full * 1000 // 10000 + 2)) if kn else 0,
                                       bool(af and prev['time1'] == 0 and prev['time2'] == 0))
                    elif rise[which] is not None:
                        judge(which, tg, False); rise[which] = None
            # a command restarts the clock of the bound only if it may legitimately restart the run-time counter: a RELAY request for the
            # direction that is already energised leaves counter, stamps and output alone (C10_set_relay_is_substep) and does not
            same_dir = e[0] == 'RELAY' and ((e[1][0] == 2 and prev['up_on']) or (e[1][0] == 1 and prev['down_on'])) and not edges
            if e[0] != 'CB' and not same_dir: last_cmd = t
            prev = st
        for which in (1, 2):
            if rise[which] is not None: judge(which, tl[-1][1], True)
        # ---- (2) auto-calibration outcome (no command between its start and its end)
        started = None; cmd_since = False
        prev_step = 0
        for (e, t, edges, st) in tl:
            if e[0] != 'CB': cmd_since = True
            if prev_step == 0 and st['step'] > 0: started = t; cmd_since = False
            # the step counter only grows 1 -> 2 -> 3 while a calibration runs: any decrease inside a callback is its end (also when a new
            # calibration is started in the same callback because the stored times are not usable)
            if prev_step > 0 and st['step'] < prev_step and e[0] == 'CB' and started is not None and not cmd_since:
                ok_times = 500 <= st['aot'] <= 590000 and 500 <= st['act'] <= 590000
                good = ok_times and st['pos'] == 100 and not st['up_on'] and not st['down_on'] and not (st['flags'] & FLAG_FAILED)
                failed = (st['flags'] & FLAG_FAILED) and not st['up_on'] and not st['down_on'] and st['aot'] == 0 and st['act'] == 0 and not known(st['pos'])
                # A new calibration running at the end of the same callback: either the module aborted the running one itself (abort path of
                # set_relay, e.g. the end-stop time-out of move_position on a stale known position: times 0/0 and position unknown) and the
                # pending task re-requested it - "aborted and re-requested", judged when the new one ends - or step 3 completed (position
                # fully open, opening time stored) and its result was not usable: that is neither outcome.
                restarted = st['step'] > 0
                aborted = restarted and st['aot'] == 0 and st['act'] == 0 and not known(st['pos'])
                if restarted: good = False
                if aborted: started = t; prev_step = st['step']; continue
                if not (good or failed):
                    v.append('auto-calibration ended at %d us with times %d/%d, position %d, flags %#x, outputs %d%d%s: neither the success nor the failure outcome' %
                             (t, st['aot'], st['act'], st['pos'], st['flags'], st['up_on'], st['down_on'], ', and a new calibration started at once' if st['step'] > 0 else ''))
            prev_step = st['step']
        # ---- (2b) an auto-calibration in progress always has an output energised or its delayed trigger pending (the pauses between the
        # steps are bridged by the trigger); "step > 0, both outputs off, nothing pending" after a callback can never end: stuck
        stuck_since = None
        for (e, t, edges, st) in tl:
            if e[0] == 'CB' and st['step'] > 0 and not st['up_on'] and not st['down_on'] and not st['delayed']:
                if stuck_since is None: stuck_since = t
            else: stuck_since = None
        if stuck_since is not None and tl[-1][1] - stuck_since > 1_200_000:
            last = tl[-1][3]
            v.append('auto-calibration stuck in step %d since %d us: both outputs off, no delayed trigger pending, flags %#x, task state %d: it can neither finish nor fail' %
                     (last['step'], stuck_since, last['flags'], last['task_state']))
        # ---- (3) convergence of a positioning task on a calibrated roller shutter (last TASK of the case, no command after it)
        idx = [i for i, x in enumerate(tl) if x[0][0] != 'CB']
        # A tilt target on a roller shutter (tilt not supported) is outside the quantifier of the property ("tilt targets for blinds";
        # supla_esp_channel_set_value passes -1 unless value[1] is 10..110).  add_task stores it all the same, a later task inherits it,
        # and task_processing then "tilts" by driving down to the end stop (docs/reports/C10.md, observation) — not judged here.
        rs_tilt_target = any(x[0][0] == 'TASK' and x[0][1][1] != -1 for x in tl)
        if ttype == 0 and not rs_tilt_target and idx and tl[idx[-1]][0][0] == 'TASK' and idx[-1] > 0:
            i0 = idx[-1]; (e, t_task, _, st0) = tl[i0]; before = tl[i0 - 1][3]
            target = min(e[1][0], 100)
            full_o, full_c = before['time1'], before['time2']
            busy = before['up_on'] or before['down_on'] or before['delayed']     # re-requested target while moving / while a delayed start is pending
            if (0 <= target <= 100 and known(before['pos']) and before['step'] == 0
                    and 500 <= full_o <= 600000 and 500 <= full_c <= 600000 and before['aot'] == 0 and before['act'] == 0):
                raw0 = before['pos'] - 100
                full = full_o if target * 100 < raw0 else full_c
                travel = abs(raw0 - target * 100) * full * 1000 // 10000
                tau = max([x[0][1][0] for x in tl[i0 + 1:] if x[0][0] == 'CB'] or [0])
                sensed = any(x[0][0] == 'CB' and x[0][1][1] != 0 for x in tl[i0 + 1:])
                # Time allowance = what the code legitimately adds to the travel time (C10_converges_rs; exact, term by term):
                #   1.001 s start delay after a recent stop (RS_START_DELAY + 1 ms), also after switching the opposite output off;
                #   waiting at an end stop while the task margin lasts: min(end-stop margin of move_position, task margin of
                #   task_processing) - only when the run ends at an end stop (target 0 / 100 or a coarse tick overshooting to it);
                #   one position unit + 2 us of carried time; callback granularity: the task is picked up by the next callback, the
                #   first callback accounts a whole interval, the stop is decided at a callback (3 tau); + 1 tau of drift when the task
                #   arrives while the motor runs or a trigger is pending.
                km = 110 if not (0 <= margin <= 100) else margin
                tm = km if km < 110 else 5
                if sensed and km < 50: tm = 50
                at_end = target in (0, 100) or tl[-1][3]['pos'] in (100, 10100)
                wait = min(1000 * (full * km // 100), tm * 10 * full) if at_end else 0
                #   10.04 ms: the two relay operations of the final switch-off stamp the falling edge after their busy-waits.
                allow = travel + wait + (full * 1000 // 10000 + 2) + 1_001_000 + 3 * tau + 3 + (tau if busy else 0) + 10_040
                # supla_esp_gpio_rs_add_task returns at once when the requested position equals the current reported one, also
                # while another task is still pending or running: the earlier task goes on (classified separately)
                ign = int(before['task_state'] != 0 and rep(before['pos']) == target)
                t_last = tl[-1][1]; last = tl[-1][3]
                falls = [tg for (_, _, edges, _) in tl[i0:] for (tg, which, lev) in edges if which in (1, 2) and lev == 0]
                settled = not last['up_on'] and not last['down_on'] and last['delayed'] == 0
                if not settled:
                    if t_last - t_task > allow:
                        v.append('task to %d %% from raw position %d (travel time %d ms): after %d us the outputs are %d%d (delayed start pending %d), position %d (allowed %d us) [tau=%d full=%d ignored=%d]' %
                                 (target, raw0, full, t_last - t_task, last['up_on'], last['down_on'], last['delayed'], last['pos'], allow, tau, full, ign))
                else:
                    t_end = max(falls) if falls else t_task
                    if t_end - t_task > allow:
                        v.append('task to %d %% from raw position %d ended after %d us, allowed %d us [tau=%d full=%d ignored=%d]' % (target, raw0, t_end - t_task, allow, tau, full, ign))
                    if abs(rep(last['pos']) - target) > 1:
                        v.append('task to %d %% from raw position %d ended at position %d (reported %d): more than one point off [tau=%d full=%d ignored=%d]' %
                                 (target, raw0, last['pos'], rep(last['pos']), tau, full, ign))
        # ---- (4) convergence of a task on a facade blind (tilt types 1..3), last command of the case (from rest or while a task runs).
        # Judged against the target add_task stored (it rewrites the request for type 3 and inherits -1 fields): the task ends
        # (outputs off, no trigger pending, task state inactive), the reported tilt is within one point of the tilt target and the
        # reported position within one point + the travel that tilting costs (100 * tilt time / travel time points) of the position target.
        # Outside the clause: AdditionalTimeMargin 0 (set_relay refuses to start towards an end stop the shutter already reports, so a
        # tilt correction there is impossible by design); a tilt time below 200 callback intervals is the coarse-tick class.
        if ttype in (1, 2, 3) and tilt_ms > 0 and margin != 0 and idx and tl[idx[-1]][0][0] == 'TASK' and idx[-1] > 0:
            i0 = idx[-1]; (e, t_task, _, st0) = tl[i0]; before = tl[i0 - 1][3]
            full_o, full_c = before['time1'], before['time2']
            rest = not (before['up_on'] or before['down_on'] or before['delayed']) and before['task_state'] == 0
            if (st0['task_state'] != 0 and known(before['pos']) and known(before['tilt']) and before['step'] == 0
                    and 500 <= full_o <= 600000 and 500 <= full_c <= 600000 and tilt_ms < min(full_o, full_c) and before['aot'] == 0 and before['act'] == 0):
                tpos, ttilt = st0['task_pos'], st0['task_tilt']
                fullm = max(full_o, full_c)
                tau = max([x[0][1][0] for x in tl[i0 + 1:] if x[0][0] == 'CB'] or [0])
                km = 110 if not (0 <= margin <= 100) else margin
                travel = (abs(before['pos'] - 100 - tpos * 100) * fullm * 1000 // 10000) if tpos != -1 else 0
                # position run (tilting first) + one reversal + tilt run, each with its start delay; end-stop margin; callback granularity
                allow = travel + 3 * tilt_ms * 1000 + 1000 * (fullm * km // 100) + 2 * 1_001_000 + 8 * tau + 20_080
                # request while the motor / an earlier task is running: one more reversal (stop, 1.001 s, way back over what was travelled
                # in the wrong direction meanwhile: at most one tilt run + one callback)
                if not rest: allow += 1_001_000 + 2 * tilt_ms * 1000 + 2 * tau
                t_last = tl[-1][1]; last = tl[-1][3]
                if t_last - t_task > allow:
                    if last['up_on'] or last['down_on'] or last['delayed'] or last['task_state'] != 0:
                        v.append('facade-blind task (%d, %d) (type %d) from (%d, %d): after %d us (allowed %d) the outputs are %d%d, trigger pending %d, task state %d, position %d, tilt %d' %
                                 (tpos, ttilt, ttype, before['pos'], before['tilt'], t_last - t_task, allow, last['up_on'], last['down_on'], last['delayed'], last['task_state'], last['pos'], last['tilt']))
                    else:
                        if ttilt != -1 and abs(rep(last['tilt']) - ttilt) > 1:
                            v.append('facade-blind task (%d, %d) (type %d) from (%d, %d) ended at tilt %d (reported %d): more than one point off [tau=%d full=%d ignored=0]' %
                                     (tpos, ttilt, ttype, before['pos'], before['tilt'], last['tilt'], rep(last['tilt']), tau, tilt_ms))
                        ptol = 1 + (100 * tilt_ms + fullm - 1) // fullm
                        if tpos != -1 and abs(rep(last['pos']) - tpos) > ptol:
                            v.append('facade-blind task (%d, %d) (type %d) from (%d, %d) ended at position %d (reported %d): more than %d points (one + tilting travel) off [tau=%d full=%d ignored=0]' %
                                     (tpos, ttilt, ttype, before['pos'], before['tilt'], last['pos'], rep(last['pos']), ptol, tau, min(full_o, full_c)))
        return v[:4]

    def nontrivial(self, case, io):
        return any(o[0] == 'GPIO' for o in io[1])

    def finding_key(self, case, what):
        import re
        m = re.search(r'\[tau=(\d+) full=(\d+) ignored=(\d)\]', what)
        if m and m.group(3) == '1': return 'retarget-to-current-position-ignored'
        if m and ('more than one point off' in what or 'tilting travel) off' in what):
            tau, full = int(m.group(1)), int(m.group(2))
            # one callback interval is worth more than half a point of travel: 10000 * tau / (full * 1000) > 50
            if tau * 10 > 50 * full: return 'task-tick-coarser-than-half-point'
            return None
        m = re.search(r'\[calibrated=(\d) autocal_enabled=(\d) excess=(\d+) maxdt=(\d+)\]', what)
        if m and 'still on' not in what:
            # auto-calibration enabled, no movement sensed in the first 2 s: the run-time counter starts 2 s late
            # exactly: the callbacks of the first 2 s after the start stamp are not counted -> at most 2 s late (+ the relay busy-wait of the edge stamp)
            if m.group(1) == '0' and m.group(2) == '1' and int(m.group(3)) <= 2_000_000 + 20_040: return 'autocal-power-detect-delays-cutoff-2s'
        return None

CHECK = C10()
C09MOD.install_float_extraction()
