"""C16 — MQTT receive path: generators, implementation-side monitor (reference MQTT 3.1.1 stream parser), check definition."""
import os, struct, sys
import framework as F

MC = None
def consts():
    global MC
    if MC is None: MC = F.G.load('MqttConsts')
    return MC

def build_mqtt(name, extra_flags=()):
    srcs = [s for s in F.device_sources('mqtt') if not s.endswith('/supla_esp_mqtt.c')]
    srcs += [os.path.join(F.VERIF, 'harness', 'wrap', 'c16_mqtt_wrap.c'), os.path.join(F.VERIF, 'harness', 'doubles', 'c16_mqtt_board.c')]
    return F.build_c(name, os.path.join(F.VERIF, 'harness', 'drv', name + '.c'), config='mqtt', sources=srcs, extra_flags=list(extra_flags))

# ---------------- MQTT 3.1.1 encoders (broker side)
def enc_rl(n):
    out = bytearray()
    while True:
        b = n & 0x7F; n >>= 7
        if n: out.append(b | 0x80)
        else: out.append(b); return bytes(out)
def pkt(ctype, flags, body, rl=None):
    return bytes([(ctype << 4) | (flags & 15)]) + enc_rl(len(body) if rl is None else rl) + body
def publish(topic, payload, qos=0, pid=1, dup=0, retain=0, tlen=None, rl=None):
    body = struct.pack('>H', len(topic) if tlen is None else tlen) + topic
    if qos > 0: body += struct.pack('>H', pid)
    return pkt(3, (dup << 3) | (qos << 1) | retain, body + payload, rl)
def connack(code=0, sp=0): return pkt(2, 0, bytes([sp, code]))
def pubxxx(t, pid, flags=None): return pkt(t, (2 if t == 6 else 0) if flags is None else flags, struct.pack('>H', pid))
def suback(pid, codes=(0,)): return pkt(9, 0, struct.pack('>H', pid) + bytes(codes))
def pingresp(): return pkt(13, 0, b'')
def enc_rl_n(n, nbytes):
    """remaining length n encoded with exactly nbytes bytes (non-minimal when longer than needed)"""
    out = bytearray()
    for i in range(nbytes):
        b = n & 0x7F; n >>= 7
        out.append(b | (0x80 if i < nbytes - 1 else 0))
    return bytes(out)

def connect_size():
    c = consts()
    prefix = len('supla/devices/') + len(c['DEVICE_NAME']) + 7
    rl = 10 + (2 + 22) + (2 + prefix + len('/state/connected')) + (2 + 5) + (2 + 4) + (2 + 2)
    return 1 + len(enc_rl(rl)) + rl

# ---------------- reference parser (independent of the Coq model and of MQTT-C)
REQ_FLAGS = {2: 0, 4: 0, 5: 0, 6: 2, 7: 0, 9: 0, 11: 0, 13: 0}
def ref_parse1(s):
    """returns (kind, info, consumed):  kind in  inc | malformed | foreign | packet
       malformed carries 'complete' = the receiver has all the bytes it may legitimately wait for"""
    if len(s) < 1: return ('inc', None, 0)
    ct, fl = s[0] >> 4, s[0] & 15
    rl = 0; i = 1
    while True:
        if i > 4: return ('malformed', dict(why='remaining length longer than 4 bytes', complete=True), 0)
        if i >= len(s): return ('inc', None, 0)
        rl |= (s[i] & 0x7F) << (7 * (i - 1)); i += 1
        if not (s[i - 1] & 0x80): break
    h = i; complete = len(s) >= h + rl
    def bad(why): return ('malformed', dict(why=why, complete=complete), 0)
    if ct in (0, 15): return bad('reserved control type %d' % ct)
    if ct in (1, 8, 10, 12, 14): return ('foreign', dict(complete=complete), 0)
    if ct != 3 and fl != REQ_FLAGS[ct]: return bad('wrong flags %d for type %d' % (fl, ct))
    if ct == 3 and ((fl >> 1) & 3) == 3: return bad('PUBLISH with QoS 3')
    if ct in (2, 4, 5, 6, 7, 11) and rl != 2: return bad('type %d with remaining length %d' % (ct, rl))
    if ct == 13 and rl != 0: return bad('PINGRESP with remaining length %d' % rl)
    if ct == 9 and rl < 3: return bad('SUBACK with remaining length %d' % rl)
    if ct == 3:
        qos = (fl >> 1) & 3
        if rl < 2: return bad('PUBLISH with remaining length %d' % rl)
        if len(s) >= h + 2:
            tl = (s[h] << 8) | s[h + 1]
            if 2 + tl + (2 if qos else 0) > rl: return bad('PUBLISH topic length %d does not fit remaining length %d' % (tl, rl))
    if not complete: return ('inc', dict(total=h + rl), 0)
    body = s[h:h + rl]
    if ct == 3:
        qos = (fl >> 1) & 3; tl = (body[0] << 8) | body[1]; o = 2 + tl
        pid = None
        if qos: pid = (body[o] << 8) | body[o + 1]; o += 2
        return ('packet', dict(ct=3, qos=qos, dup=fl >> 3, retain=fl & 1, topic=bytes(body[2:2 + tl]), payload=bytes(body[o:]), pid=pid, total=h + rl), h + rl)
    if ct == 2: return ('packet', dict(ct=2, sp=body[0], code=body[1], total=h + rl), h + rl)
    if ct == 9: return ('packet', dict(ct=9, pid=(body[0] << 8) | body[1], codes=bytes(body[2:]), total=h + rl), h + rl)
    if ct == 13: return ('packet', dict(ct=13, total=h + rl), h + rl)
    return ('packet', dict(ct=ct, pid=(body[0] << 8) | body[1], total=h + rl), h + rl)

class RefQueue:
    """the monitor's own bookkeeping of the send queue (occupancy only): entries [type, id, size, sent, acked]"""
    def __init__(self, sendbuf, qsz): self.q = []; self.SB = sendbuf; self.QSZ = qsz
    def complete(self, e): return e[4] or (e[3] and e[0] in (4, 7, 14))
    def currsz(self, q=None):
        q = self.q if q is None else q
        lim = self.SB - (len(q) + 1) * self.QSZ; used = sum(e[2] for e in q)
        return 0 if lim <= used else lim - used
    def clean(self):
        i = 0
        while i < len(self.q) and self.complete(self.q[i]): i += 1
        self.q = self.q[i:]
    def pack(self, t, pid, sz):
        if sz > self.currsz():
            self.clean()
            if sz > self.currsz(): return False
        self.q.append([t, pid, sz, False, False]); return True
    def send(self):
        for e in self.q:
            if not e[3] and not e[4]: e[3] = True
    def ack(self, t, pid=None):
        for e in self.q:
            if e[0] == t and ((pid is None and not self.complete(e)) or (pid is not None and e[1] == pid)): e[4] = True; return True
        return False

class C16(F.PropCheck):
    pid = 'C16'; gen_groups = ['MqttConsts']; prop_file = 'Properties_C16'
    IN = {'START': 0, 'SEG': 1, 'TICK': 2, 'SUB': 3, 'PING': 4, 'PUB': 5, 'RELINK': 6}
    OUT = {0: 'BOOT', 1: 'MSG', 2: 'SENT', 3: 'QUEUED', 4: 'DROPPED', 5: 'ERR', 6: 'RECONNECT', 7: 'FAULT'}
    quick_cases = 3000; thorough_cases = 120000
    trusted_extra = ['C16 driver harness/drv/c16.c + wrapper harness/wrap/c16_mqtt_wrap.c (supla_esp_mqtt.c included unchanged) + board '
                     'callbacks harness/doubles/c16_mqtt_board.c; real mqtt.c; session set up through the real dns-found / reconnect / '
                     'on_connect path; TICK = the first two statements of supla_esp_mqtt_iterate; SUB/PING call the real mqtt_subscribe/'
                     'mqtt_ping after positioning client.pid_lfsr',
                     'espconn_sent always succeeds; no virtual time passes inside a session (no resend timeout, no keep-alive ping); '
                     'sizeof(struct mqtt_queued_message) is the host value (40; 32 on the target): the send queue fills later on the device']
    assumptions = ['one broker session up to its first protocol error; device-originated PUBLISH packets with QoS > 0 are outside the model',
                   'segmentation theorems: the send queue is never compacted while receiving (d_tight = false)']
    rule = ('broker streams of 1-12 packets (CONNACK, PUBLISH QoS 0/1/2 with topic/payload lengths 0..buffer size, QoS 2 retransmissions at aimed points, every ack type x remaining length 0..4 x matching/non-matching id x followed by nothing/stale byte/PUBLISH, multi-session histories (RELINK after partial packet / malformed packet / clean), SUBACK/PINGRESP/PUBACK for '
            'outstanding and unknown requests (device SUBSCRIBE/PINGREQ/QoS 1 PUBLISH), PUBREL, unknown acknowledgements; single-field corruptions of type, flags, remaining length, '
            'topic length; random bytes) x segmentations (whole, 1-byte, 10+rest, random cuts, coalesced up to 1460 bytes) x TICK interleaving; '
            'non-trivial = at least one MSG or ERR observed; distinct by sha256 of the event text')

    def build_impl(self): return build_mqtt('c16')

    # ---------------- generators
    def gen_stream(self, rng):
        """returns list of (device_events_before, packet_bytes), tags"""
        c = consts(); RB = c['RECVBUF']
        items = []; tags = []
        npk = rng.choice([1, 2, 2, 3, 3, 4, 5, 6, 8, 12])
        bad_at = rng.randrange(npk) if rng.random() < 0.4 else -1
        next_dev_pid = [rng.randrange(1, 500)]; qos2_open = []; qos2_orig = {}
        def rbytes(n): return bytes(rng.getrandbits(8) for _ in range(n))
        def topic(n):
            if rng.random() < 0.5: return (b'supla/devices/x/channels/0/set/on' * (n // 30 + 1))[:n]
            return rbytes(n)
        if rng.random() < 0.85: items.append(([], connack(0))); tags.append('connack')
        bpid = rng.randrange(3000, 60000)
        for i in range(npk):
            k = rng.random(); dev = []
            if i == bad_at:
                m = rng.randrange(13)
                if m == 12: p = connack(0); tags.append('bad:second-connack')
                elif m == 0: p = pkt(rng.choice([0, 15]), rng.randrange(16), rbytes(rng.randrange(0, 6))); tags.append('bad:reserved-type')
                elif m == 1:
                    t = rng.choice([2, 4, 5, 6, 7, 9, 11, 13]); fl = rng.choice([f for f in range(16) if f != REQ_FLAGS[t]])
                    body = {2: b'\0\0', 9: b'\0\1\0', 13: b''}.get(t, b'\0\1'); p = pkt(t, fl, body); tags.append('bad:flags')
                elif m == 2: p = publish(topic(rng.randrange(0, 20)), rbytes(rng.randrange(0, 20)), qos=3, pid=bpid); tags.append('bad:qos3')
                elif m == 3:
                    t = topic(rng.randrange(0, 40)); pl = rbytes(rng.randrange(0, 60)); q = rng.randrange(3)
                    real = 2 + len(t) + (2 if q else 0) + len(pl)
                    tl = rng.choice([real - 1, real, real + 1, 1000, 65535, len(t) + len(pl) + 1, len(t) + len(pl) + 3, real - (2 if q else 0) + 1])
                    p = publish(t, pl, qos=q, pid=bpid, tlen=max(0, min(65535, tl))); tags.append('bad:topic-length')
                elif m == 4:
                    t = rng.choice([2, 4, 5, 6, 7, 11, 13, 9]); rl = rng.choice([0, 1, 3, 4, 5]) if t != 13 else rng.choice([1, 2, 5])
                    if t == 9: rl = rng.choice([0, 1, 2])
                    if t != 13 and t != 9 and rl == 2: rl = 3
                    p = pkt(t, REQ_FLAGS[t], rbytes(rl)); tags.append('bad:fixed-length')
                elif m == 5: p = bytes([0x30 | rng.randrange(16)]) + bytes([0x80 | rng.randrange(128) for _ in range(4)]) + rbytes(rng.randrange(0, 4)); tags.append('bad:rl-5-bytes')
                elif m == 6: p = pubxxx(rng.choice([4, 5, 7, 11]), rng.randrange(1, 65536)); tags.append('bad:ack-unknown')
                elif m == 7: p = suback(rng.randrange(1, 65536)); tags.append('bad:suback-unknown')
                elif m == 8: p = pingresp(); tags.append('bad:pingresp-unknown')
                elif m == 9: p = rbytes(rng.randrange(1, 60)); tags.append('bad:random')
                elif m == 10: p = publish(topic(rng.randrange(0, 3)), b'', qos=rng.randrange(3), pid=bpid, rl=rng.choice([0, 1, 2, 3])); tags.append('bad:publish-short-rl')
                else: p = pubxxx(6, rng.randrange(1, 65536)); tags.append('bad:pubrel-unknown')
                items.append((dev, p)); continue
            if k < 0.62:
                q = rng.choice([0, 0, 1, 1, 2]); z = rng.random()
                if z < 0.1: tl, pln = rng.choice([(0, 0), (1, 0), (0, 1), (2, 0), (1, 1)])
                elif z < 0.7: tl, pln = rng.randrange(1, 60), rng.randrange(0, 40)
                elif z < 0.85:
                    total = rng.choice([RB - 1, RB, RB, RB + 1, RB - 2, 127 + 2, 128 + 2, 129 + 3]); over = 2 + (1 if total - 2 < 128 else 2) + (2 if q else 0)
                    rest = max(0, total - over - (0 if total - 2 < 128 else 1)); tl = rng.randrange(0, rest + 1); pln = rest - tl
                else: tl, pln = rng.randrange(0, 600), rng.randrange(0, 600)
                bpid += 1
                tp, pl, rt = topic(tl), rbytes(pln), rng.choice([0, 1])
                p = publish(tp, pl, qos=q, pid=bpid, dup=rng.choice([0, 0, 0, 1]), retain=rt)
                if q == 2:
                    qos2_open.append(bpid); qos2_orig[bpid] = (tp, pl, rt)
                    if rng.random() < 0.25:      # retransmission coalesced right behind the original
                        p += publish(tp, pl, qos=2, pid=bpid, dup=1, retain=rt); tags.append('publish-qos2-retransmit-coalesced')
                tags.append('publish-qos%d' % q)
            elif k < 0.66 and qos2_open:
                # retransmission of a QoS 2 PUBLISH whose PUBREL has not been sent yet (same id, DUP set)
                rp = rng.choice(qos2_open); tp, pl, rt = qos2_orig[rp]
                p = publish(tp, pl, qos=2, pid=rp, dup=1, retain=rt); tags.append('publish-qos2-retransmit')
                if rng.random() < 0.5: dev.append(('TICK', [], b''))    # own segment, after our PUBREC went out
            elif k < 0.72:
                pid = next_dev_pid[0]; next_dev_pid[0] += rng.randrange(1, 5)
                dev.append(('SUB', [pid, 10], b'')); p = suback(pid, [rng.choice([0, 0, 0, 1, 2, 0x80])]); tags.append('suback')
            elif k < 0.8:
                dev.append(('PING', [], b'')); p = pingresp(); tags.append('pingresp')
            elif k < 0.86:
                # the device publishes with QoS 1 (real mqtt_publish); the broker acknowledges it (sometimes twice, sometimes a wrong id)
                pid = next_dev_pid[0]; next_dev_pid[0] += rng.randrange(1, 5)
                dev.append(('PUB', [1, pid, 10], b'')); dev.append(('TICK', [], b''))
                z = rng.random(); p = pubxxx(4, pid) if z < 0.75 else pubxxx(4, pid) + pubxxx(4, pid) if z < 0.85 else pubxxx(4, pid + 1000)
                tags.append('puback-of-device-publish' if z < 0.85 else 'bad:puback-wrong-id')
            elif k < 0.9 and qos2_open:
                pid = qos2_open.pop(rng.randrange(len(qos2_open))); p = pubxxx(6, pid); tags.append('pubrel')
                dev.append(('TICK', [], b''))    # a broker sends PUBREL only after it has seen the PUBREC: own segment
            else:
                bpid += 1; p = publish(b'a', b'', qos=rng.choice([0, 1]), pid=bpid); tags.append('publish-tiny')
            items.append((dev, p))
        if bad_at < 0: tags.append('valid')
        return items, tags

    def segment(self, rng, s, tag):
        n = len(s); k = rng.random()
        if n < 2 or k < 0.15: cuts = []; tag.append('seg:whole')
        elif k < 0.3 and n <= 300: cuts = list(range(1, n)); tag.append('seg:1-byte')
        elif k < 0.45: cuts = [c for c in (10,) if c < n]; tag.append('seg:10+rest')
        elif k < 0.55: cuts = list(range(1460, n, 1460)); tag.append('seg:mss')
        else: cuts = sorted(set(rng.randrange(1, n) for _ in range(rng.randrange(1, 8)))); tag.append('seg:random')
        out = []; prev = 0
        for c in cuts + [n]:
            if c > prev: out.append(s[prev:c]); prev = c
        return out

    def gen_cases(self, rng, n, tier):
        cases = []
        for i in range(n):
            items, tags = self.gen_stream(rng)
            evs = [('START', [connect_size(), 0], b'')]
            # device events must precede the segment that completes their acknowledgement: group packets into runs
            run = b''; tickp = rng.choice([0.0, 0.0, 0.2, 0.6])
            def flush():
                nonlocal run
                if run:
                    for p in self.segment(rng, run, tags):
                        evs.append(('SEG', [], p))
                        if rng.random() < tickp: evs.append(('TICK', [], b''))
                    run = b''
            for dev, p in items:
                if dev: flush(); evs.extend(dev)
                run += p
                if rng.random() < 0.3: flush()
            flush()
            if rng.random() < 0.5: evs.append(('TICK', [], b''))
            if rng.random() < 0.25:
                # the session ends (error before, partial packet pending, or simply here), reconnect, a second valid session
                z = rng.random()
                if z < 0.4: evs.append(('SEG', [], publish(b'cut/off', b'x' * 40, qos=1, pid=77)[:rng.randrange(1, 30)])); tags.append('relink:partial-pending')
                elif z < 0.6: evs.append(('SEG', [], bytes([0x00, 0x02, 1, 2, 0x30]))); tags.append('relink:after-malformed')
                else: tags.append('relink')
                evs.append(('RELINK', [connect_size()], b''))
                s2 = connack() + publish(b't/after', b'reconnect', qos=rng.choice([0, 1]), pid=4242)
                for p2 in self.segment(rng, s2, []): evs.append(('SEG', [], p2))
                evs.append(('TICK', [], b''))
            cases.append(F.Case('%s%d' % (tier[0], i), evs, sorted(set(tags))))
        cases += self.special_cases(rng, tier)
        return cases

    def special_cases(self, rng, tier):
        cases = []; cs = connect_size()
        # many tiny QoS 1 publishes in one segment: the send queue fills up
        for m in (60, 100, 140):
            s = connack() + b''.join(publish(b'', b'', qos=1, pid=100 + j) for j in range(m))
            cases.append(F.Case('sendq%d' % m, [('START', [cs, 0], b''), ('SEG', [], s[:1024]), ('SEG', [], s[1024:]), ('TICK', [], b'')], ['send-queue']))
        # QoS 2 retransmissions (same id, DUP set) at aimed points: same segment, next segment, after a tick, split, after PUBREL
        S = ('START', [cs, 0], b''); T = ('TICK', [], b'')
        for j, (tp, pl) in enumerate(((b't/1', b'on'), (b'supla/devices/x/channels/0/execute_action', b'toggle'), (b'a', b''), (b'tt', b'x' * 300))):
            o = publish(tp, pl, qos=2, pid=40 + j); d = publish(tp, pl, qos=2, pid=40 + j, dup=1); rel = pubxxx(6, 40 + j)
            nxt = publish(b'n/1', b'z', qos=1, pid=90 + j)
            seqs = {'same': [connack() + o + d], 'next': [connack() + o, d], 'tick': [connack() + o, T, d], 'twice': [connack() + o, d, d + nxt],
                    'split': [connack() + o + d[:len(d) // 2], d[len(d) // 2:] + nxt], 'rel': [connack() + o + d, T, rel, nxt],
                    'midrel': [connack() + o, d, rel, T, nxt], 'afterrel': [connack() + o, rel, T, d]}
            for name, seq in seqs.items():
                cases.append(F.Case('q2dup_%s_%d' % (name, j), [S] + [x if isinstance(x, tuple) else ('SEG', [], x) for x in seq] + [T], ['qos2-retransmit-aimed']))
        # multi-session: what session 1 leaves in the buffer must not reach session 2
        RL = ('RELINK', [cs, 0], b''); pfull = publish(b'supla/devices/x/channels/0/set/on', b'1', qos=1, pid=21)
        good2 = [('SEG', [], connack()), ('SUB', [321, 10], b''), T, ('SEG', [], suback(321) + publish(b't/2', b'second', qos=1, pid=22)), T]
        for name, tail in (('partial', [('SEG', [], connack() + pfull[:11])]), ('partial1', [('SEG', [], connack()), ('SEG', [], pfull[:1])]),
                           ('malformed', [('SEG', [], connack() + bytes([0x00, 0x00]))]), ('malformed_behind', [('SEG', [], connack() + pfull + bytes([0xF0, 0x01, 0x55]))]),
                           ('unknownack', [('SEG', [], connack() + pubxxx(4, 999))]), ('clean', [('SEG', [], connack() + pfull)]),
                           ('noconnack', [('SEG', [], pfull[:20])])):
            cases.append(F.Case('relink_%s' % name, [S] + tail + [RL] + good2, ['multi-session']))
            cases.append(F.Case('relink2_%s' % name, [S] + tail + [RL] + tail + [RL] + good2, ['multi-session']))
        # every acknowledgement type with every remaining length 0..4, matching / non-matching id, alone / + stale byte / + PUBLISH
        behind = publish(b'b/1', b'behind', qos=0)
        for t in (2, 4, 5, 6, 7, 9, 11, 13):
            for rl in range(0, 5):
                for match in (0, 1):
                    for follow in (b'', b'\x80', b'\x00', behind):
                        pre = [('SEG', [], connack())] if t != 2 else []
                        pid_ = 600 + t
                        if t == 9 and match: pre.append(('SUB', [pid_, 10], b''))
                        if t == 4 and match: pre += [('PUB', [1, pid_, 10], b''), T]
                        if t == 13 and match: pre.append(('PING', [], b''))
                        if t == 6 and match: pre += [('SEG', [], publish(b'q/2', b'x', qos=2, pid=pid_)), T]
                        body = (struct.pack('>H', pid_ if match else pid_ + 1) + b'\x00\x00\x00')[:rl] if t != 2 else b'\x00\x00\x00\x00\x00'[:rl]
                        cases.append(F.Case('acklen_t%d_rl%d_m%d_f%d' % (t, rl, match, len(follow)), [S] + pre + [('SEG', [], pkt(t, REQ_FLAGS[t], body) + follow), T], ['ack-lengths']))
        # long sessions: many QoS 1 publishes (and QoS 2 exchanges) over many segments with ticks: the queue must drain
        for name, per in (('q1', 10), ('q1b', 3)):
            evs = [S, ('SEG', [], connack())]
            for j in range(0, 130, per):
                evs.append(('SEG', [], b''.join(publish(b'l', b'', qos=1, pid=1000 + i) for i in range(j, j + per)))); evs.append(T)
            cases.append(F.Case('longsession_%s' % name, evs, ['long-session']))
        evs = [S, ('SEG', [], connack())]
        for j in range(60):
            evs += [('SEG', [], publish(b'l2', b'x', qos=2, pid=2000 + j)), T, ('SEG', [], pubxxx(6, 2000 + j)), T]
        cases.append(F.Case('longsession_q2', evs, ['long-session']))
        # non-minimal remaining-length encodings (2, 3, 4 bytes for a small packet) and a fifth length byte
        for nb in (1, 2, 3, 4, 5):
            for q in (0, 1):
                body = struct.pack('>H', 3) + b'n/m' + (struct.pack('>H', 70 + nb) if q else b'') + b'pay'
                p = bytes([0x30 | (q << 1)]) + enc_rl_n(len(body), nb) + body
                cases.append(F.Case('rlenc_%d_q%d' % (nb, q), [S, ('SEG', [], connack() + p + behind), T], ['rl-encoding']))
                cases.append(F.Case('rlenc_%d_q%d_split' % (nb, q), [S, ('SEG', [], connack() + p[:nb]), ('SEG', [], p[nb:] + behind), T], ['rl-encoding']))
        # every first byte (type x flags) with a plausible body, a PUBLISH behind it
        for b0 in range(256):
            t = b0 >> 4
            body = {2: b'\x00\x00', 9: b'\x00\x01\x00', 13: b'', 12: b'', 14: b''}.get(t, b'\x00\x01')
            if t == 3: body = struct.pack('>H', 1) + b'h' + (struct.pack('>H', 5) if b0 & 6 else b'') + b'v'
            pre = [] if t == 2 else [('SEG', [], connack())]
            cases.append(F.Case('hdr_%02x' % b0, [S] + pre + [('SEG', [], bytes([b0]) + enc_rl(len(body)) + body + behind), T], ['header-bytes']))
        # CONNACK flag/code values, SUBACK return codes
        for sp in (0, 1, 2, 0x80, 0xFF):
            for code in (0, 1, 2, 3, 4, 5, 6, 255):
                cases.append(F.Case('connack_%d_%d' % (sp, code), [S, ('SEG', [], connack(code, sp) + behind), T], ['connack-values']))
        for j, codes in enumerate(([0], [1], [2], [0x80], [3], [0x7F], [0, 0x80], [0x80, 0], [0] * 5, [2, 1, 0])):
            cases.append(F.Case('subcodes_%d' % j, [S, ('SEG', [], connack()), ('SUB', [700, 10], b''), T, ('SEG', [], suback(700, codes) + behind), T], ['suback-codes']))
        # ids that almost match an outstanding request (width/narrowing, byte order)
        for j, d in enumerate((1, -1, 256, -256, 0x100 ^ 0, 0x8000)):
            base = 0x1234
            near = (base + d) & 0xFFFF
            swp = ((base & 0xFF) << 8) | (base >> 8)
            for nid in (near, swp):
                cases.append(F.Case('nearid_sub_%d_%d' % (j, nid), [S, ('SEG', [], connack()), ('SUB', [base, 10], b''), T, ('SEG', [], suback(nid) + behind), T], ['near-ids']))
                cases.append(F.Case('nearid_pub_%d_%d' % (j, nid), [S, ('SEG', [], connack()), ('PUB', [1, base, 10], b''), T, ('SEG', [], pubxxx(4, nid) + behind), T], ['near-ids']))
                cases.append(F.Case('nearid_rel_%d_%d' % (j, nid), [S, ('SEG', [], connack() + publish(b'q/2', b'x', qos=2, pid=base)), T, ('SEG', [], pubxxx(6, nid) + behind), T], ['near-ids']))
        # receive buffer filled exactly / one short / one over by a segment behind a pending partial packet
        RBsz = consts()['RECVBUF']
        for k in (1, 5, 300, RBsz - 5, RBsz - 2, RBsz - 1):
            for d in (-1, 0, 1):
                big = publish(b'big', b'B' * (RBsz - 3 - 5), qos=0)        # exactly RBsz bytes (1 + 2 length bytes + 2 + 3 + payload)
                assert len(big) == RBsz
                st = big + publish(b'nx', b'N' * 40, qos=1, pid=55) + behind
                cut2 = max(k + 1, min(len(st), RBsz + d))
                cases.append(F.Case('fill_%d_%d' % (k, d), [S, ('SEG', [], connack()), ('SEG', [], st[:k]), ('SEG', [], st[k:cut2]), ('SEG', [], st[cut2:]), T], ['buffer-fill']))
        # exhaustive two-cut segmentations of a short stream
        s = connack() + publish(b't/1', b'on', qos=1, pid=7) + publish(b'ab', b'', qos=2, pid=9) + pubxxx(6, 9)
        lim = len(s) if tier == 'thorough' else 12
        for a in range(1, lim):
            for b in range(a + 1, len(s) if tier == 'thorough' else min(len(s), a + 6)):
                cases.append(F.Case('x%d_%d' % (a, b), [('START', [cs, 0], b''), ('SEG', [], s[:a]), ('SEG', [], s[a:b]), ('SEG', [], s[b:])], ['exhaustive-cuts']))
        return cases

    # ---------------- monitor (implementation trace vs. the property; no model involved)
    def monitor(self, case, status, outs):
        if status != 'ok':
            if 'sig=14' in status: return ['the receive path did not return within 5 s (endless loop) for this history']
            return ['implementation crashed (%s) while receiving: memory-safety clause' % status]
        if not case.evs or case.evs[0][0] != 'START': return []
        # sessions: START ... [RELINK ...]*; outputs are cut at the BOOT lines
        sess = []; cur = None
        for e in case.evs:
            if e[0] in ('START', 'RELINK'):
                if e[0] == 'START' and cur is not None: continue
                cur = [('START', e[1], e[2])]; sess.append(cur)
            elif cur is not None: cur.append(e)
        souts = []; co = None
        for o in outs:
            if o[0] == 'BOOT': co = [o]; souts.append(co)
            elif co is not None: co.append(o)
        for i, evs in enumerate(sess):
            if i >= len(souts): break
            v = self.monitor_session(F.Case(case.id, evs), souts[i])
            if v: return [('session %d after a reconnect: ' % (i + 1) if i else '') + x for x in v]
        return []

    def monitor_session(self, case, outs):
        c = consts(); RB = c['RECVBUF']
        v = []
        # --- observed
        msgs = []; acks = []; err = None; reconnect = False
        for (k, ints, data) in outs:
            if k == 'MSG':
                dup, qos, retain, toff, tlen, poff, plen, valid = ints[:8]
                if toff < 0 or toff + tlen > valid or poff < 0 or poff + plen > valid:
                    v.append('callback with a slice outside the received data: topic [%d,+%d) payload [%d,+%d), %d bytes received' % (toff, tlen, poff, plen, valid)); return v
                msgs.append((bytes(data[:tlen]), bytes(data[tlen:tlen + plen]), qos, dup, retain))
            elif k == 'SENT' and ints and ints[0] in (4, 5, 6, 7) and len(data) >= 4: acks.append((ints[0], (data[2] << 8) | data[3]))
            elif k == 'ERR' and err is None: err = ints[0]
            elif k == 'RECONNECT': reconnect = True
            elif k == 'FAULT': v.append('FAULT')
        # --- expected, by the reference parser
        exp = []; exp_acks = []; end = None     # end: None | ('malformed', why, must_report) | ('legit', why)
        q2_this_seg = set()
        pubs = set(); pubacked = set(); dup_pids = set(); dup_msgs = {}
        pend = b''; subs = set(); subacked = set(); pings = 0; connacked = False; q2_open = set(); q2_seen = set()
        optional_from = None
        rq = RefQueue(c['SENDBUF'], c['QSZ']); full_at = None
        for (k, ints, data) in case.evs:
            if end: break
            if k == 'START': rq.pack(1, 0, ints[0]); rq.send()
            elif k == 'SUB':
                subs.add(ints[0])
                if not rq.pack(8, ints[0], ints[1]): end = ('legit', 'device request does not fit the send queue')
            elif k == 'PUB':
                pubs.add(ints[1])
                if not rq.pack(3, ints[1], ints[2]): end = ('legit', 'device request does not fit the send queue')
            elif k == 'PING':
                pings += 1
                if not rq.pack(12, 0, 2): end = ('legit', 'device request does not fit the send queue')
            elif k == 'TICK': rq.send(); rq.clean()
            elif k == 'SEG':
              rest = bytes(data); q2_this_seg = set(); first = True
              while (rest or first) and not end:
                first = False
                n = min(len(rest), RB - len(pend))
                if n == 0 and rest: end = ('legit', 'receive buffer full'); break
                pend += rest[:n]; rest = rest[n:]
                while not end:
                    kind, info, used = ref_parse1(pend)
                    if kind == 'inc':
                        if info and info['total'] > RB: end = ('legit', 'packet larger than the receive buffer')
                        break
                    if kind == 'malformed': end = ('malformed', info['why'], info['complete']); break
                    if kind == 'foreign': end = ('legit', 'client-to-server packet type'); break
                    pend = pend[used:]
                    if info['total'] > RB: end = ('legit', 'packet larger than the receive buffer'); break
                    ct = info['ct']
                    if ct == 3:
                        if info['qos'] == 2:
                            if info['pid'] in q2_open and info['dup'] == 1:
                                # retransmission before PUBREL: the same message, must not be passed to the handler again
                                dup_pids.add(info['pid']); dup_msgs[(info['topic'], info['payload'], 2, 1, info['retain'])] = info['pid']; continue
                            if info['pid'] in q2_seen: end = ('legit', 'QoS 2 packet id used again'); break
                            if not rq.pack(5, info['pid'], 4): full_at = len(exp); end = ('legit', 'send queue full'); break
                            q2_seen.add(info['pid']); q2_open.add(info['pid']); exp_acks.append((5, info['pid'])); q2_this_seg.add(info['pid'])
                        elif info['qos'] == 1:
                            if not rq.pack(4, info['pid'], 4): full_at = len(exp); end = ('legit', 'send queue full'); break
                            exp_acks.append((4, info['pid']))
                        exp.append((info['topic'], info['payload'], info['qos'], info['dup'], info['retain']))
                    elif ct == 2:
                        if connacked: end = ('malformed', 'CONNACK for a CONNECT that was already acknowledged', True)
                        elif info['sp'] > 1 or info['code'] != 0: end = ('legit', 'CONNACK refusing or with undefined fields')
                        connacked = True; rq.ack(1)
                    elif ct == 9:
                        if info['pid'] in subacked: end = ('legit', 'second SUBACK')
                        elif info['pid'] not in subs: end = ('malformed', 'SUBACK for a SUBSCRIBE never sent (id %d)' % info['pid'], True)
                        elif info['codes'][0] == 0x80: end = ('legit', 'subscription refused')
                        subacked.add(info['pid']); rq.ack(8, info['pid'])
                    elif ct == 13:
                        if pings == 0: end = ('malformed', 'PINGRESP without PINGREQ', True)
                        pings -= 1; rq.ack(12)
                    elif ct == 6:
                        if info['pid'] in q2_this_seg:
                            end = ('legit', 'PUBREL in the same segment as its PUBLISH (PUBREC not yet sent)')
                            exp_acks = exp_acks[:exp_acks.index((5, info['pid']))]
                        elif info['pid'] in q2_open:
                            q2_open.discard(info['pid']); rq.ack(5, info['pid'])
                            if not rq.pack(7, info['pid'], 4): end = ('legit', 'send queue full at a PUBREL'); break
                            exp_acks.append((7, info['pid']))
                        elif info['pid'] in q2_seen: end = ('legit', 'second PUBREL')
                        else: end = ('malformed', 'PUBREL for a PUBLISH never received (id %d)' % info['pid'], True)
                    elif ct == 4 and info['pid'] in pubs:
                        if info['pid'] in pubacked: end = ('legit', 'second PUBACK')
                        pubacked.add(info['pid']); rq.ack(3, info['pid'])
                    else: end = ('malformed', 'acknowledgement type %d of something never sent (id %d)' % (ct, info['pid']), True)
                if not end: rq.send()
        # send-queue-full (known finding) only where the monitor's own queue bookkeeping says the acknowledgement had no room
        sendfull = (err == c['E_SEND_BUFFER_IS_FULL']) and full_at is not None and len(msgs) == full_at
        legit = bool(end)
        if end and end[0] == 'malformed' and end[2] and len(msgs) > len(exp) and msgs[:len(exp)] == exp:
            return ['a packet behind a malformed packet (%s) was still passed to the handler (topic %d bytes)' % (end[1], len(msgs[len(exp)][0]))]
        if legit: msgs = msgs[:len(exp)]; acks = acks[:len(exp_acks)]   # what happens after an ambiguous point is left to the model comparison
        # --- compare
        # a second PUBREC for a retransmission is allowed (MQTT-4.3.3), not required
        seen5 = set(); acks2 = []
        for a in acks:
            if a[0] == 5 and a[1] in seen5 and a[1] in dup_pids: continue
            if a[0] == 5: seen5.add(a[1])
            acks2.append(a)
        acks = acks2
        for i, m in enumerate(msgs):
            if (i >= len(exp) or m != exp[i]) and m in dup_msgs and not (i < len(exp) and False):
                v.append('retransmitted QoS 2 PUBLISH (id %d, DUP set, PUBREL not yet received) was passed to the handler a second time' % dup_msgs[m]); return v
            if i >= len(exp):
                v.append('callback #%d (topic %d bytes, payload %d bytes) is not a PUBLISH of the stream (%d well-formed PUBLISH before %s)' %
                         (i, len(m[0]), len(m[1]), len(exp), end[1] if end else 'the end of the stream')); return v
            if m != exp[i]:
                v.append('callback #%d differs from PUBLISH #%d of the stream: topic %s vs %s, payload %d vs %d bytes, qos %d vs %d' %
                         (i, i, m[0][:16].hex(), exp[i][0][:16].hex(), len(m[1]), len(exp[i][1]), m[2], exp[i][2])); return v
        for i, a in enumerate(acks):
            if i >= len(exp_acks) or a != exp_acks[i]:
                v.append('acknowledgement #%d (type %d id %d) does not match the stream (expected %s)' % (i, a[0], a[1], exp_acks[i] if i < len(exp_acks) else 'none')); return v
        if sendfull and msgs == exp[:len(msgs)]:
            v.append('well-formed PUBLISH #%d of the stream was dropped without callback and acknowledgement: the send queue could not take its acknowledgement (SEND_BUFFER_IS_FULL, %d messages queued, %d bytes free), session reset' % (full_at, len(rq.q), rq.currsz())); return v
        if not sendfull and len(msgs) < len(exp):
            # every well-formed PUBLISH before the end point must have been delivered (all its bytes were handed over)
            v.append('well-formed PUBLISH #%d of the stream (topic %d bytes, payload %d bytes, qos %d) was not passed to the handler%s' %
                     (len(msgs), len(exp[len(msgs)][0]), len(exp[len(msgs)][1]), exp[len(msgs)][2], ' (protocol error %d instead)' % err if err is not None else '')); return v
        if not sendfull and err is None and len(acks) < len(exp_acks):
            v.append('PUBLISH/PUBREL with id %d was not acknowledged' % exp_acks[len(acks)][1]); return v
        if end and end[0] == 'malformed' and end[2] and not sendfull:
            if err is None: v.append('malformed packet (%s) did not lead to a protocol error' % end[1])
            elif not reconnect: v.append('protocol error %d after a malformed packet (%s) was not followed by a reconnect' % (err, end[1]))
        return v

    def finding_key(self, case, what):
        # class: a QoS 1/2 PUBLISH arrives while the send queue has no room for its acknowledgement
        if 'send queue could not take its acknowledgement' in what: return 'send-queue-full'
        return None
    def nontrivial(self, case, io): return any(o[0] in ('MSG', 'ERR') for o in io[1])

CHECK = C16()
