"""C11 — inputs: glitches are ignored and every real actuation acts exactly once.
Generators (pulse trains x phase x lateness x input types/flags x enabled triggers), implementation-side
monitor (reads only the C trace and the case), check definition."""
import os, sys
import framework as F

IC = None
def K():
    global IC
    if IC is None: IC = F.G.load('InputConsts')
    return IC

MS = 1000
MODEL_KINDS = ('NOTIFY', 'ACTIVE', 'INACTIVE', 'GPIO', 'TRIG', 'VALUE', 'TRIGSET', 'CFGMODE', 'FINAL', 'FAULT')

class C11(F.PropCheck):
    pid = 'C11'; gen_groups = ['InputConsts']; prop_file = 'Properties_C11'
    IN = {'CFG': 0, 'ADV': 1, 'BUSY': 2, 'IN': 3, 'TRIG': 4, 'REG': 5}
    OUT = {0: 'NOTIFY', 1: 'ACTIVE', 2: 'INACTIVE', 3: 'GPIO', 4: 'TRIG', 5: 'VALUE', 6: 'TRIGSET', 7: 'CFGMODE', 8: 'FINAL', 9: 'FAULT'}
    quick_cases = 2500; thorough_cases = 60000
    trusted_extra = [
        'C11 driver harness/drv/c11.c: whole real device on the doubles, one input (GPIO5) and one plain relay (GPIO4); '
        'harness/wrap/c11_input_wrap.c compiles the unchanged supla_esp_input.c with SUPLA_DEBUG (the maintainers\' own log line at the entry of '
        'supla_esp_input_notify_state_change is the NOTIFY observation point) and renames its calls into gpio/devconn/cfgmode to logging forwarders; '
        '-Wl,--wrap=supla_esp_channel_value_changed',
        'timer double: repeating timers re-armed at due+period, fired in (due, seq) order; BUSY = os_delay_us (time passes, nothing fires)',
        'hand-copied literals: os_delay_us(10) twice in supla_esp_gpio_relay_hi, 2000*1000 in the legacy handler, +100 ms of the motion-sensor start-up timer, relay channel 0',
    ]
    assumptions = [
        'every input edge is delivered to the interrupt handler (the model and the double do; on hardware an edge inside the interrupt-masked ~10 ms of supla_esp_gpio_relay_hi is lost: runtime behaviour not covered, property partial)',
        'no timer callback runs more than J < 20 ms after it is due (hypothesis `late s <= J` of the theorems; the ~10 ms spent inside relay_hi counts)',
        'one input wired to at most one plain relay, no roller shutter, device not in configuration mode',
    ]
    rule = ('pulse trains (widths/gaps 1 ms..3 s, log-uniform and aimed at 99/100/101/119/120/121/139/140/141 ms and at the hold / multi-click limits), '
            'contact-bounce bursts, phase 0..19.999 ms against the running sampler, BUSY lateness 0..9 ms, boot counter incl. wrap, '
            'types sensor/mono/bistable/motion x pull-up x trigger-on-press x cfg-button flags x relay wired or not x all subsets of capability bits; '
            'non-trivial = at least one effective NOTIFY after the silent period; distinct by sha256 of the event text')

    def build_impl(self):
        return F.build_c('c11', os.path.join(F.VERIF, 'harness', 'drv', 'c11.c'), config='devcfg',
                         exclude=('supla_esp_input',),
                         extra_srcs=[os.path.join(F.VERIF, 'harness', 'wrap', 'c11_input_wrap.c')],
                         libs=['-Wl,--wrap=supla_esp_channel_value_changed'])

    def compare(self, case, mo, io):
        (ms, ml), (is_, il) = mo, io
        if is_ != 'ok': return 'implementation status %s' % is_
        il = [o for o in il if o[0] in MODEL_KINDS]
        if ml != il:
            for i in range(max(len(ml), len(il))):
                a = ml[i] if i < len(ml) else None; b = il[i] if i < len(il) else None
                if a != b: return 'output %d: model=%s impl=%s' % (i, F.short(a), F.short(b))
        return None

    def nontrivial(self, case, io):
        return any(o[0] == 'NOTIFY' and o[1][0] > K()['SILENT_MS'] * MS and o[1][1] != o[1][2] for o in io[1])

    # ------------------------------------------------------------------ generators
    def gen_cfg(self, rng):
        k = K()
        typ = rng.choice([1, 2, 2, 2, 4, 4, 8])
        flags = 0
        if rng.random() < 0.4: flags |= k['FLAG_PULLUP']
        if rng.random() < 0.5: flags |= k['FLAG_TRIGGER_ON_PRESS']
        if rng.random() < 0.12:
            flags |= k['FLAG_CFG_BTN']
            if rng.random() < 0.4: flags |= k['FLAG_CFG_ON_TOGGLE']
            if rng.random() < 0.3: flags |= k['FLAG_CFG_ON_HOLD']
        relay = 1 if rng.random() < 0.8 else 0
        channel = 1 if rng.random() < 0.85 else 255
        mono_caps = [k['CAP_HOLD']] + [k['CAP_PRESS_x%d' % i] for i in range(1, 6)]
        bi_caps = [k['CAP_TURN_ON'], k['CAP_TURN_OFF']] + [k['CAP_TOGGLE_x%d' % i] for i in range(1, 6)]
        if typ == 2: pool = mono_caps
        elif typ == 4: pool = bi_caps
        elif typ == 8: pool = [k['CAP_TURN_ON'], k['CAP_TURN_OFF']]
        else: pool = []
        r = rng.random()
        if not pool or r < 0.25: cap = 0
        elif r < 0.8: cap = sum(pool)
        elif r < 0.9: cap = sum(b for b in pool if rng.random() < 0.5)
        else: cap = sum(b for b in mono_caps + bi_caps if rng.random() < 0.5)
        b = rng.random()
        if b < 0.5: boot = 1
        elif b < 0.75: boot = (2**32 - rng.randrange(0, 6000000)) & 0xFFFFFFFF
        else: boot = rng.getrandbits(32)
        level0 = rng.choice([0, 0, 1])
        return dict(boot=boot, typ=typ, flags=flags, relay=relay, channel=channel, cap=cap, level0=level0)

    def width(self, rng):
        k = K(); r = rng.random()
        cyc = k['CYCLE_MS'] * MS; n = k['MIN_CYCLE_COUNT']
        if r < 0.30:
            base = rng.choice([cyc * n, cyc * (n + 1), cyc * (n + 2), cyc * n - MS, cyc * (n + 2) + MS])
            return max(1, base + rng.choice([-1000, -1, 0, 1, 1000, rng.randrange(-3000, 3000)]))
        if r < 0.40:
            base = rng.choice([k['HOLD_MS'] * MS, k['MULTICLICK_MS'] * MS, k['MULTICLICK_MS'] * MS - cyc * (n + 1), k['HOLD_MS'] * MS - cyc * (n + 1)])
            return max(1, base + rng.randrange(-25000, 25000))
        if r < 0.55: return rng.randrange(150 * MS, 290 * MS)       # a comfortable click
        if r < 0.62: return rng.randrange(900 * MS, 3000 * MS)
        # log-uniform 1 ms .. 3 s
        import math
        return int(math.exp(rng.uniform(math.log(1 * MS), math.log(3000 * MS))))

    def gen_timeline(self, rng, cfg, tier):
        """returns a list of (abs_time_us, kind, arg) sorted by time; kind in IN/TRIG/REG/BUSY"""
        k = K(); tl = []
        t = 0
        caps = [1 << i for i in range(16) if cfg['cap'] >> i & 1]
        def mask():
            r = rng.random()
            if r < 0.15: return 0
            if r < 0.45: return cfg['cap']
            return sum(b for b in caps if rng.random() < 0.5) | (rng.getrandbits(16) if rng.random() < 0.1 else 0)
        if rng.random() < 0.75: tl.append((rng.choice([200 * MS, 250 * MS, 450 * MS, 620 * MS]), 'REG', 0))
        start_quiet = rng.random() < 0.8
        t = rng.randrange(600 * MS, 900 * MS) if start_quiet else rng.randrange(0, 500 * MS)
        if cfg['cap'] and rng.random() < 0.85:
            tl.append((rng.choice([t - 50 * MS, rng.randrange(0, max(1, t))]) if rng.random() < 0.8 else t + rng.randrange(0, 2000 * MS), 'TRIG', mask()))
        level = cfg['level0']
        ntr = rng.choice([1, 2, 3, 4, 6]) if tier != 'thorough' else rng.choice([1, 2, 3, 5, 8, 12])
        for _ in range(ntr):
            t += rng.randrange(0, k['CYCLE_MS'] * MS)                # phase
            style = rng.random()
            if style < 0.18:      # a clean gesture from rest: n comfortable clicks or one long press, then silence
                t += rng.randrange(450 * MS, 700 * MS)
                if rng.random() < 0.3:
                    level ^= 1; tl.append((t, 'IN', level)); t += rng.randrange(800 * MS, 1600 * MS)
                    level ^= 1; tl.append((t, 'IN', level))
                else:
                    n = rng.choice([1, 1, 2, 2, 3, 3, 4, 5, 6])
                    for i in range(2 * n):
                        level ^= 1; tl.append((t, 'IN', level)); t += rng.randrange(140 * MS, 230 * MS)
                    t -= 140 * MS
                t += rng.randrange(600 * MS, 900 * MS)
            elif style < 0.50:    # a gesture of n clicks
                n = rng.choice([1, 1, 2, 2, 3, 4, 5, 6, 7, 11])
                w = self.width(rng) if rng.random() < 0.5 else rng.randrange(150 * MS, 280 * MS)
                g = rng.choice([w, rng.randrange(130 * MS, 285 * MS), self.width(rng)])
                for i in range(2 * n):
                    level ^= 1; tl.append((t, 'IN', level))
                    if rng.random() < 0.3: t = self.bounce(rng, tl, t, level)
                    t += (w if i % 2 == 0 else g) if rng.random() < 0.8 else self.width(rng)
                t += rng.choice([rng.randrange(0, 400 * MS), rng.randrange(500 * MS, 1500 * MS)])
            elif style < 0.85:    # arbitrary pulse train
                for i in range(rng.choice([1, 2, 2, 3, 5, 9])):
                    level ^= 1; tl.append((t, 'IN', level))
                    if rng.random() < 0.35: t = self.bounce(rng, tl, t, level)
                    t += self.width(rng)
            else:                 # pure bounce burst that returns to the old level
                for i in range(rng.choice([2, 4, 6, 10])):
                    level ^= 1; tl.append((t, 'IN', level)); t += rng.randrange(100, 20 * MS)
                t += rng.choice([self.width(rng), rng.randrange(150 * MS, 400 * MS)])
            if cfg['cap'] and rng.random() < 0.3:
                # server action-trigger configuration between gestures: new, or the same again (as after a reconnect)
                last = [m for (_, kk, m) in tl if kk == 'TRIG']
                m = last[-1] if (last and rng.random() < 0.45) else mask()
                tl.append((t - rng.randrange(0, 300 * MS), 'TRIG', m))
                if rng.random() < 0.3: tl.append((t - rng.randrange(0, 50 * MS), 'TRIG', m))
        t += rng.choice([rng.randrange(0, 300 * MS), rng.randrange(500 * MS, 900 * MS), 1200 * MS])
        # lateness
        if rng.random() < 0.5:
            for _ in range(rng.randrange(1, 12)):
                tl.append((rng.randrange(0, max(1, t)), 'BUSY', rng.choice([rng.randrange(1, 9 * MS), rng.randrange(1, 2 * MS), 9 * MS])))
        tl = [(max(0, a), b, c) for (a, b, c) in tl]
        tl.sort(key=lambda x: x[0])
        return tl, t

    def bounce(self, rng, tl, t, level):
        n = rng.choice([1, 2, 3, 5])
        for _ in range(n):
            t += rng.randrange(50, 4 * MS); tl.append((t, 'IN', level ^ 1))
            t += rng.randrange(50, 4 * MS); tl.append((t, 'IN', level))
        return t

    def to_events(self, cfg, tl, tend):
        evs = [('CFG', [cfg['boot'], cfg['typ'], cfg['flags'], cfg['relay'], cfg['channel'], cfg['cap'], cfg['level0']], b'')]
        now = 0
        for (t, kind, arg) in tl:
            if t > now: evs.append(('ADV', [t - now], b'')); now = t
            if kind == 'BUSY': evs.append(('BUSY', [arg], b'')); now += arg
            elif kind == 'REG': evs.append(('REG', [], b''))
            else: evs.append((kind, [arg], b''))
        if tend > now: evs.append(('ADV', [tend - now], b''))
        else: evs.append(('ADV', [0], b''))
        return evs

    def gen_cases(self, rng, n, tier):
        cases = []
        for i in range(n):
            cfg = self.gen_cfg(rng)
            tl, tend = self.gen_timeline(rng, cfg, tier)
            k = K()
            tags = ['type%d' % cfg['typ'], 'flags%#x' % cfg['flags'], 'relay%d' % cfg['relay'], 'cap' if cfg['cap'] else 'nocap',
                    'boot-wrap' if cfg['boot'] > 2**32 - 6000000 else 'boot-other']
            if any(kind == 'BUSY' for (_, kind, _) in tl): tags.append('lateness')
            cases.append(F.Case('%s%d' % (tier[0], i), self.to_events(cfg, tl, tend), tags))
        cases += self.relconn_cases(rng, max(20, n // 12))
        cases += self.redeliver_cases(rng, max(24, n // 12))
        cases += self.startup_cases(rng, max(24, n // 12))
        cases += self.cfg_cases(rng, max(24, n // 12))
        cases += self.matrix_cases()
        if tier != 'search': cases += self.sweep_cases(tier) + self.spike_cases(tier)
        return cases

    def redeliver_cases(self, rng, n):
        """the server delivers the UNCHANGED action-trigger configuration (as after every reconnect) while a gesture is
        pending: single click inside its multi-click window, long press before HOLD, double click between the clicks"""
        k = K(); cases = []
        for i in range(n):
            typ = rng.choice([2, 2, 2, 4])
            if typ == 2:
                cap = k['CAP_HOLD'] + sum(k['CAP_PRESS_x%d' % j] for j in range(1, 6))
                mask = rng.choice([k['CAP_PRESS_x2'] | k['CAP_HOLD'], k['CAP_PRESS_x2'], k['CAP_PRESS_x1'] | k['CAP_PRESS_x2'] | k['CAP_HOLD'], k['CAP_PRESS_x3'] | k['CAP_HOLD']])
            else:
                cap = 3 + sum(k['CAP_TOGGLE_x%d' % j] for j in range(1, 6))
                mask = rng.choice([k['CAP_TOGGLE_x2'], k['CAP_TOGGLE_x1'] | k['CAP_TOGGLE_x2'], k['CAP_TOGGLE_x3'] | 3])
            flags = rng.choice([0, 1]); lvl = 0
            evs = [('CFG', [rng.choice([1, rng.getrandbits(32)]), typ, flags, rng.choice([1, 1, 0]), 1, cap, 0], b''),
                   ('ADV', [250 * MS], b''), ('REG', [], b''), ('ADV', [400 * MS], b''), ('TRIG', [mask], b''),
                   ('ADV', [rng.randrange(450 * MS, 600 * MS)], b'')]
            kind = rng.choice(['click', 'hold', 'double'] if typ == 2 else ['click', 'double'])
            w = rng.randrange(150 * MS, 240 * MS)
            if kind == 'click':
                d = rng.randrange(140 * MS, 380 * MS)       # after the release edge: recognised at +120 ms, window ends at +420..440 ms
                evs += [('IN', [1], b''), ('ADV', [w], b''), ('IN', [0], b''), ('ADV', [d], b''), ('TRIG', [mask], b''), ('ADV', [900 * MS], b'')]
                if typ == 4: evs = evs[:-5] + [('IN', [1], b''), ('ADV', [d], b''), ('TRIG', [mask], b''), ('ADV', [900 * MS], b'')]
            elif kind == 'hold':
                d = rng.randrange(140 * MS, 780 * MS)
                evs += [('IN', [1], b''), ('ADV', [d], b''), ('TRIG', [mask], b''), ('ADV', [1500 * MS - d], b''), ('IN', [0], b''), ('ADV', [900 * MS], b'')]
            else:
                g1 = rng.randrange(130 * MS, 250 * MS); d = rng.randrange(10 * MS, g1)
                if typ == 2:
                    evs += [('IN', [1], b''), ('ADV', [w], b''), ('IN', [0], b''), ('ADV', [d], b''), ('TRIG', [mask], b''), ('ADV', [g1 - d], b''),
                            ('IN', [1], b''), ('ADV', [w], b''), ('IN', [0], b''), ('ADV', [900 * MS], b'')]
                else:
                    evs += [('IN', [1], b''), ('ADV', [d + 125 * MS], b''), ('TRIG', [mask], b''), ('ADV', [g1], b''), ('IN', [0], b''), ('ADV', [900 * MS], b'')]
            cases.append(F.Case('rd%d' % i, evs, ['config-redelivered', 'type%d' % typ, kind]))
        return cases

    def matrix_cases(self):
        """single clicks over the configuration matrix: input type x trigger-on-press x pull-up x relay wired x
        action-trigger mode off / on with x1 enabled / on with x1 disabled (roller-shutter relays are outside this driver)"""
        k = K(); cases = []
        for typ in (2, 4, 8):
            if typ == 2: cap = k['CAP_HOLD'] + sum(k['CAP_PRESS_x%d' % j] for j in range(1, 6)); x1 = k['CAP_PRESS_x1']; x2 = k['CAP_PRESS_x2']
            elif typ == 4: cap = 3 + sum(k['CAP_TOGGLE_x%d' % j] for j in range(1, 6)); x1 = k['CAP_TOGGLE_x1']; x2 = k['CAP_TOGGLE_x2']
            else: cap = 3; x1 = 3; x2 = 1
            for top in (0, k['FLAG_TRIGGER_ON_PRESS']):
                for pu in (0, 1):
                    for relay in (1, 0):
                        for mode, mask in (('plain', None), ('at-x1', x1 | x2), ('at-nox1', x2), ('at-hold', k['CAP_HOLD'] if typ == 2 else 2)):
                            lvl0 = pu   # idle level
                            evs = [('CFG', [1, typ, top | pu, relay, 1, cap if mask is not None else 0, lvl0], b''),
                                   ('ADV', [250 * MS], b''), ('REG', [], b''), ('ADV', [400 * MS], b'')]
                            if mask is not None: evs.append(('TRIG', [mask], b''))
                            evs.append(('ADV', [500 * MS], b''))
                            for w in (180 * MS, 260 * MS):
                                evs += [('IN', [lvl0 ^ 1], b''), ('ADV', [w], b''), ('IN', [lvl0], b''), ('ADV', [800 * MS], b'')]
                            cases.append(F.Case('mx_%d_%d_%d_%d_%s' % (typ, top, pu, relay, mode), evs, ['matrix', 'type%d' % typ, mode]))
        return cases

    def cfg_cases(self, rng, n):
        """configuration-button inputs: the 5 s hold (+-), 8..11 quick toggles around CFG_BTN_PRESS_COUNT, one gap around the
        2 s toggle-count reset, in plain and in action-trigger mode"""
        k = K(); cases = []; CP = k['CFG_PRESS_MS'] * MS; CN = k['CFG_PRESS_COUNT']
        for i in range(n):
            typ = rng.choice([2, 2, 4, 8])
            flags = k['FLAG_CFG_BTN'] | rng.choice([0, 1]) | rng.choice([0, k['FLAG_TRIGGER_ON_PRESS']])
            if typ == 2: flags |= rng.choice([0, 0, k['FLAG_CFG_ON_TOGGLE'], k['FLAG_CFG_ON_TOGGLE'] | k['FLAG_CFG_ON_HOLD']])
            if typ == 2: cap = k['CAP_HOLD'] + sum(k['CAP_PRESS_x%d' % j] for j in range(1, 6))
            elif typ == 4: cap = 3 + sum(k['CAP_TOGGLE_x%d' % j] for j in range(1, 6))
            else: cap = 3
            at = rng.random() < 0.5
            evs = [('CFG', [rng.choice([1, rng.getrandbits(32)]), typ, flags, 1, 1, cap if at else 0, 0], b''), ('ADV', [250 * MS], b''), ('REG', [], b''),
                   ('ADV', [400 * MS], b'')]
            if at:
                bits = [1 << j for j in range(16) if cap >> j & 1]
                evs.append(('TRIG', [rng.choice([cap, sum(b for b in bits if rng.random() < 0.5) or bits[0]])], b''))
            evs.append(('ADV', [rng.randrange(450 * MS, 600 * MS)], b''))
            kind = rng.choice(['hold', 'count', 'gap'] if typ == 2 else ['count', 'gap'])
            lvl = 0
            if kind == 'hold':
                w = CP + rng.choice([-130 * MS, -121 * MS, -120 * MS, -100 * MS, -20 * MS, 0, 20 * MS, rng.randrange(-200 * MS, 200 * MS)])
                evs += [('IN', [1], b''), ('ADV', [w], b''), ('IN', [0], b''), ('ADV', [800 * MS], b'')]
            else:
                nfl = rng.choice([CN - 2, CN - 1, CN, CN + 1]) * (2 if typ == 2 else 1)
                gapat = rng.randrange(2, nfl) if kind == 'gap' else -1
                for j in range(nfl):
                    lvl ^= 1; evs.append(('IN', [lvl], b''))
                    d = rng.randrange(140 * MS, 230 * MS)
                    if j == gapat: d = 2000 * MS + rng.choice([-140 * MS, -121 * MS, -120 * MS, -100 * MS, 0, 20 * MS, rng.randrange(-200 * MS, 100 * MS)])
                    evs.append(('ADV', [d], b''))
                evs.append(('ADV', [800 * MS], b''))
            cases.append(F.Case('cb%d' % i, evs, ['cfg-button', 'type%d' % typ, kind, 'at' if at else 'plain']))
        return cases

    def startup_cases(self, rng, n):
        """motion sensor with a relay: a short excursion (spike / drop-out) around the start-up relay synchronisation
        (silent period + 100 ms after gpio init)"""
        k = K(); cases = []; T = k['MOTION_INIT_MS'] * MS
        for i in range(n):
            flags = rng.choice([0, 1]); level0 = rng.choice([0, 1])
            width = rng.choice([3, 19, 40, 77, 95, rng.randrange(1, 99)]) * MS
            if rng.random() < 0.75: start = rng.randrange(max(1, T - width + 1), T)        # covers the instant
            else: start = rng.choice([rng.randrange(1, T - width), rng.randrange(T + MS, T + 300 * MS)])
            evs = [('CFG', [rng.choice([1, rng.getrandbits(32)]), 8, flags, 1, 1, rng.choice([0, 0, 3]), level0], b'')]
            t = 0
            if rng.random() < 0.5 and start > 260 * MS: evs += [('ADV', [250 * MS], b''), ('REG', [], b'')]; t = 250 * MS
            evs += [('ADV', [start - t], b''), ('IN', [level0 ^ 1], b''), ('ADV', [width], b''), ('IN', [level0], b''), ('ADV', [700 * MS], b'')]
            if rng.random() < 0.5: evs += [('IN', [level0 ^ 1], b''), ('ADV', [300 * MS], b''), ('IN', [level0], b''), ('ADV', [400 * MS], b'')]
            cases.append(F.Case('su%d' % i, evs, ['motion-startup', 'covers' if start < T < start + width else 'beside']))
        return cases

    def sweep_cases(self, tier):
        """width x phase sweep around the acceptance thresholds, sampler idle and sampler running"""
        k = K(); cases = []; cyc = k['CYCLE_MS'] * MS
        widths = [99 * MS, 100 * MS - 1, 100 * MS, 100 * MS + 1, 101 * MS, 110 * MS, 119 * MS, 120 * MS - 1, 120 * MS, 120 * MS + 1, 139 * MS, 140 * MS, 141 * MS]
        phases = range(0, cyc, 1000 if tier == 'thorough' else 4000)
        for typ, flags, cap in ((2, 0x10, 0), (4, 0, 0), (2, 0, 0xFC00)):
            for w in widths:
                for ph in phases:
                    for running in (0, 1):
                        evs = [('CFG', [1, typ, flags, 1, 1, cap, 0], b''), ('ADV', [700 * MS + ph], b'')]
                        if cap: evs.insert(2, ('TRIG', [cap], b''))
                        if running:   # a 1 ms blip starts the sampler `ph` before the pulse
                            evs += [('IN', [1], b''), ('ADV', [1000], b''), ('IN', [0], b''), ('ADV', [7 * MS + ph], b'')]
                        evs += [('IN', [1], b''), ('ADV', [w], b''), ('IN', [0], b''), ('ADV', [900 * MS], b'')]
                        cases.append(F.Case('sw_%d_%d_%d_%d_%d' % (typ, cap, w, ph, running), evs, ['sweep', 'sweep-running' if running else 'sweep-idle']))
        return cases

    def spike_cases(self, tier):
        """two/three short spikes: the first starts the sampler, the others sit at 1 ms resolution around the ticks k*20 ms"""
        k = K(); cases = []; cyc = k['CYCLE_MS'] * MS
        cfgs = [(1, 0, 0), (2, 0x10, 0), (2, 0, 0), (4, 0, 0), (8, 0, 0), (2, 0, 0xFC00), (4, 1, 0x7F)]
        offs = [-2 * MS, -1 * MS, -1, 0, 1, 1 * MS] if tier == 'thorough' else [-1 * MS, 0, 1 * MS]
        for (typ, flags, cap) in cfgs:
            for kk in range(1, 8):
                for off in offs:
                    for w1, w2 in ((1 * MS, 3 * MS), (3 * MS, 2 * MS), (3 * MS, 30 * MS)):
                        t0 = 700 * MS
                        # second spike covers [t0 + kk*cyc + off - 1ms, ... + w2)
                        s2 = kk * cyc + off - 1 * MS
                        if s2 <= w1: continue
                        evs = [('CFG', [1, typ, flags, 1, 1, cap, 0], b''), ('ADV', [t0], b'')]
                        if cap: evs.append(('TRIG', [cap], b''))
                        evs += [('IN', [1], b''), ('ADV', [w1], b''), ('IN', [0], b''), ('ADV', [s2 - w1], b''),
                                ('IN', [1], b''), ('ADV', [w2], b''), ('IN', [0], b'')]
                        if kk <= 3:   # a third spike one tick later
                            evs += [('ADV', [cyc - w2], b''), ('IN', [1], b''), ('ADV', [w2], b''), ('IN', [0], b'')]
                        evs.append(('ADV', [900 * MS], b''))
                        cases.append(F.Case('sp_%d_%d_%d_%d_%d_%d' % (typ, cap, kk, off, w1, w2), evs, ['spikes']))
        # in-phase 1 ms spikes on every tick (50 Hz pick-up): the aliasing witness
        for typ in (2, 4):
            evs = [('CFG', [1, typ, 0x10, 1, 1, 0, 0], b''), ('ADV', [700 * MS], b''), ('IN', [1], b''), ('ADV', [1000], b''), ('IN', [0], b''), ('ADV', [18500], b'')]
            for i in range(7): evs += [('IN', [1], b''), ('ADV', [1000], b''), ('IN', [0], b''), ('ADV', [19000], b'')]
            evs.append(('ADV', [900 * MS], b''))
            cases.append(F.Case('alias_%d' % typ, evs, ['spikes', 'alias']))
        return cases

    def relconn_cases(self, rng, n):
        """server configs (x1 enabled) -> the same again -> (x2 only | nothing) -> single clicks: local action must come back"""
        k = K(); cases = []
        for i in range(n):
            typ = rng.choice([2, 2, 4, 8])
            if typ == 2: cap = k['CAP_HOLD'] + sum(k['CAP_PRESS_x%d' % j] for j in range(1, 6)); x1 = k['CAP_PRESS_x1']; x2 = k['CAP_PRESS_x2']
            elif typ == 4: cap = 3 + sum(k['CAP_TOGGLE_x%d' % j] for j in range(1, 6)); x1 = k['CAP_TOGGLE_x1']; x2 = k['CAP_TOGGLE_x2']
            else: cap = 3; x1 = 3; x2 = rng.choice([1, 2])
            flags = rng.choice([0, 1, 0x10, 0x11])
            evs = [('CFG', [rng.choice([1, rng.getrandbits(32)]), typ, flags, 1, 1, cap, 0], b''), ('ADV', [250 * MS], b''), ('REG', [], b''), ('ADV', [450 * MS], b'')]
            lvl = 0
            def click(evs, lvl, w, g):
                evs += [('IN', [lvl ^ 1], b''), ('ADV', [w], b''), ('IN', [lvl], b''), ('ADV', [g], b'')]
            seq = [x1 | rng.choice([0, k['CAP_HOLD'] if typ == 2 else 0])]
            for _ in range(rng.choice([1, 1, 2, 3])): seq.append(seq[0])
            seq.append(rng.choice([x2, 0, 0]))
            if rng.random() < 0.4: seq.append(seq[-1])
            for m in seq:
                evs.append(('TRIG', [m], b''))
                if rng.random() < 0.5: click(evs, lvl, rng.randrange(150 * MS, 280 * MS), rng.randrange(500 * MS, 800 * MS))
                else: evs.append(('ADV', [rng.randrange(0, 200 * MS)], b''))
            for _ in range(rng.choice([1, 2, 3])): click(evs, lvl, rng.randrange(150 * MS, 280 * MS), rng.randrange(500 * MS, 800 * MS))
            cases.append(F.Case('rc%d' % i, evs, ['relay-reconnect', 'type%d' % typ]))
        return cases

    # ------------------------------------------------------------------ monitor
    # Reads only the case and the implementation trace.  Clauses (each is skipped where timer lateness
    # (BUSY, the ~10 ms of relay_hi) could make the verdict depend on the schedule):
    #  G  a changing notify (new != last_state, after the silent period) to v needs the pin at v's level now and
    #     continuously for >= 100 ms - lateness before                      [glitches ignored]
    #  A  a level stable for >= 140 ms is the recognised state 140 ms after the edge, and at most one changing
    #     notify happens while it stays                                      [recognised exactly once]
    #  P  plain mode (no trigger enabled, no cfg button): the notify moves the wired relay exactly as the type says
    #  T  action-trigger mode, clear-cut gestures only: at most one click-count/hold trigger, the right one,
    #     local action only for a single click; frames on the wire = calls
    def parse(self, case, outs):
        k = K()
        cfgints = case.evs[0][1] if case.evs and case.evs[0][0] == 'CFG' else [1, 2, 0, 1, 255, 0, 0]
        cfg = dict(boot=cfgints[0], typ=cfgints[1], flags=cfgints[2], relay=cfgints[3], channel=cfgints[4], cap=cfgints[5], level0=cfgints[6])
        masks = [e[1][0] for e in case.evs if e[0] == 'TRIG']
        L = [(o[0], o[1]) for o in outs]
        return cfg, masks, L

    def lateness(self, busy, relsw, a, b):
        tot = 0
        for (t, dt) in busy:
            if t <= b and t + dt >= a: tot += dt
        for t in relsw:
            if t - 10020 <= b and t >= a: tot += 10020
        return tot

    def monitor(self, case, status, outs):
        if status != 'ok': return ['implementation crashed (%s)' % status]
        k = K(); v = []
        cfg, masks, L = self.parse(case, outs)
        if cfg['typ'] not in (1, 2, 4, 8) or cfg['flags'] & k['FLAG_DISABLE_INTR']: return []
        SIL = k['SILENT_MS'] * MS; CYC = k['CYCLE_MS'] * MS
        GL = 100 * MS; ST = 140 * MS                       # the numbers of the property text
        act_level = 0 if cfg['flags'] & k['FLAG_PULLUP'] else 1
        def lvl_of(st): return act_level if st == 1 else 1 - act_level
        edges = [(0, 1 if cfg['level0'] else 0)] + [(o[1][0], o[1][1]) for o in L if o[0] == 'EDGE']
        busy = [(o[1][0], o[1][1]) for o in L if o[0] == 'BUSYAT']
        relsw = [o[1][0] for o in L if o[0] == 'VALUE' and o[1][1] == 0 and cfg['relay']]
        fin = [o[1][0] for o in L if o[0] == 'FINAL']; cfgm = [o[1][0] for o in L if o[0] == 'CFGMODE']
        tend = cfgm[0] if cfgm else (fin[0] if fin else 0)
        notifs = [(o[1][0], o[1][1], o[1][2], o[1][3]) for o in L if o[0] == 'NOTIFY']
        # walk the trace in output order: level and time of the last edge at every notify
        lev = 1 if cfg['level0'] else 0; le = 0; eidx = 0
        ann = []            # (t, new, prev, level at the call, time of the last edge, index of the last edge)
        for (kind, ints) in L:
            if kind == 'EDGE': lev = ints[1]; le = ints[0]; eidx += 1
            elif kind == 'NOTIFY': ann.append((ints[0], ints[1], ints[2], lev, le, eidx))
        # ---- G
        for (t, new, prev, lv, e, ei) in ann:
            if new == prev or t < SIL: continue
            if lv != lvl_of(new):
                v.append('G: notify(%d) at %d us while the pin is at the other level' % (new, t)); break
            late = self.lateness(busy, relsw, e - CYC, t)
            if ei > 0 and t - e < GL - late:
                v.append('G: a level change that had lasted only %d us (< 100 ms) was recognised at %d us (state %d)' % (t - e, t, new)); break
        # ---- A
        for i, (e, l) in enumerate(edges):
            nxt = edges[i + 1][0] if i + 1 < len(edges) else tend
            if cfgm and e + ST > cfgm[0]: break
            if nxt - e < ST: continue
            if self.lateness(busy, relsw, e - CYC, e + ST) >= CYC: continue
            rec = 0
            for (t, new, prev, lv, le_, ei) in ann:
                if ei < i or (ei == i and t <= e + ST): rec = new
            if rec != (1 if l == act_level else 0):
                v.append('A: level %d stable since %d us is not the recognised state 140 ms later' % (l, e)); break
            n = sum(1 for (t, new, prev, lv, le_, ei) in ann if new != prev and ei == i)
            if n > 1:
                v.append('A: the change at %d us was recognised %d times' % (e, n)); break
        # ---- active triggers over the output order
        cur_act = 0; mi = 0; seq = []        # seq: lines annotated with the active mask in force
        for (kind, ints) in L:
            if kind == 'TRIGSET':
                cur_act = cfg['cap'] & masks[mi] if mi < len(masks) else ints[1]; mi += 1
            seq.append((kind, ints, cur_act))
        cfgbtn = bool(cfg['flags'] & k['FLAG_CFG_BTN'])
        # ---- Z  nothing may act before the pin changed for the first time (no actuation - no action); the motion start-up
        #         synchronisation is judged by S
        for (kind, ints, a) in seq:
            if kind == 'EDGE': break
            if kind in ('ACTIVE', 'INACTIVE', 'TRIG') or (kind in ('GPIO', 'VALUE') and not (cfg['typ'] == 8 and ints[0] >= k['MOTION_INIT_MS'] * MS)):
                v.append('Z: %s at %d us although the pin has not changed since boot' % (kind, ints[0])); break
        # ---- R  every relay edge belongs to a recognised actuation (or to the motion start-up synchronisation)
        MCW = (k['MULTICLICK_MS'] + 4 * k['CYCLE_MS']) * MS + sum(dt for (_, dt) in busy)
        chg_t = [i[0] for (kd, i, a) in seq if kd == 'NOTIFY' and i[1] != i[2]]
        loc_t = set(i[0] for (kd, i, a) in seq if kd in ('ACTIVE', 'INACTIVE'))
        for (kd, i, a) in seq:
            if kd != 'GPIO': continue
            tg = i[0] - 10
            if cfg['typ'] == 8 and tg >= k['MOTION_INIT_MS'] * MS and tg not in loc_t: continue
            if not any(tg - MCW <= t <= tg for t in chg_t):
                v.append('R: relay edge at %d us without a recognised change of the input in the %d ms before' % (i[0], MCW // MS)); break
        # ---- P
        if True:
            relay = 0
            for idx, (kind, ints, a) in enumerate(seq):
                if kind == 'GPIO': relay = ints[1]
                if kind != 'NOTIFY' or ints[1] == ints[2] or ints[0] < SIL or a != 0: continue
                t, new = ints[0], ints[1]
                rb = relay; g = []; vals = []; trg = 0
                entered = False
                for (k2, i2, a2) in seq[idx + 1:]:
                    if k2 == 'CFGMODE' and i2[0] == t: entered = True
                    if k2 in ('NOTIFY', 'TRIGSET', 'FINAL', 'CFGMODE') or i2[0] > t + 10020 + 40: break
                    if k2 == 'GPIO': g.append(i2[1])
                    elif k2 == 'VALUE': vals.append((i2[1], i2[2]))
                    elif k2 == 'TRIG': trg += 1
                if entered: continue          # this toggle entered configuration mode (C12's subject)
                if trg: v.append('P: action trigger sent in plain mode at %d us' % t); break
                typ = cfg['typ']
                if typ == 1:
                    exp_v = [(cfg['channel'], new)] if cfg['channel'] != 255 else []
                    if g or vals != exp_v: v.append('P: sensor change at %d us reported as %s, expected %s' % (t, vals, exp_v)); break
                elif not cfg['relay']:
                    if g: v.append('P: relay moved although no relay is wired to the input (%d us)' % t); break
                else:
                    if typ == 2: exp = [1 - rb] if (new == 1) == bool(cfg['flags'] & k['FLAG_TRIGGER_ON_PRESS']) else []
                    elif typ == 4: exp = [1 - rb]
                    else: exp = [new] if rb != new else []
                    if g != exp:
                        v.append('P: plain mode, type %d, state %d recognised at %d us: relay edges %s, expected %s' % (typ, new, t, g, exp)); break
        # ---- S  motion sensor start-up: the relay is synchronised with the RECOGNISED state (a level change shorter than
        #         100 ms that happens to be in progress then must not reach the relay)
        if cfg['typ'] == 8 and cfg['relay']:
            rec = 0; lastloc = None
            for (kind, ints, a) in seq:
                if kind == 'NOTIFY': rec = ints[1]
                elif kind in ('ACTIVE', 'INACTIVE'): lastloc = ints[0]
                elif kind == 'VALUE' and ints[1] == 0:
                    t = ints[0] - 10020
                    if lastloc == t: lastloc = None; continue          # the action of a notify (logged by input.c)
                    if t >= k['MOTION_INIT_MS'] * MS and ints[2] != rec:
                        v.append('S: start-up synchronisation at %d us set the relay to %d while the recognised state is %d' % (t, ints[2], rec)); break
        # ---- O  bistable / motion inputs in action-trigger mode: every recognised change is reported by exactly one
        #         TURN_ON / TURN_OFF when the server enabled it (not judged while the click counter is parked at -1)
        if cfg['typ'] in (4, 8) and cfg['channel'] != 255:
            for idx, (kind, ints, a) in enumerate(seq):
                if kind != 'NOTIFY' or ints[1] == ints[2] or ints[0] < SIL or a == 0 or ints[3] == -1: continue
                t, new = ints[0], ints[1]; bit = k['CAP_TURN_ON'] if new == 1 else k['CAP_TURN_OFF']
                got = 0; entered = False
                for (k2, i2, a2) in seq[idx + 1:]:
                    if k2 == 'CFGMODE': entered = True
                    if k2 in ('NOTIFY', 'TRIGSET', 'FINAL', 'CFGMODE') or i2[0] > t: break
                    if k2 == 'TRIG' and i2[2] == bit: got += 1
                if entered: continue
                if got != (1 if a & bit else 0):
                    v.append('O: state %d recognised at %d us: %d %s triggers, expected %d' % (new, t, got, 'TURN_ON' if new == 1 else 'TURN_OFF', 1 if a & bit else 0)); break
        # ---- T
        if cfg['typ'] in (2, 4):
            v += self.monitor_at(cfg, seq, busy, relsw, tend)
        return v[:3]

    def monitor_at(self, cfg, seq, busy, relsw, tend):
        k = K(); v = []
        SIL = k['SILENT_MS'] * MS; MC = k['MULTICLICK_MS'] * MS; HOLD = k['HOLD_MS'] * MS; CYC = k['CYCLE_MS'] * MS
        REST = MC + 5 * CYC; QUICK = MC - 3 * CYC
        mono = cfg['typ'] == 2
        fam = [k['CAP_HOLD']] + [k['CAP_PRESS_x%d' % i] for i in range(1, 6)] + [k['CAP_TOGGLE_x%d' % i] for i in range(1, 6)]
        xbit = (lambda n: k['CAP_PRESS_x%d' % n]) if mono else (lambda n: k['CAP_TOGGLE_x%d' % n])
        ch = [(i[0], i[1], a) for (kd, i, a) in seq if kd == 'NOTIFY' and i[1] != i[2] and i[0] >= SIL]   # changing notifies
        trigsets = []; pa = 0           # times of configurations that CHANGE the active mask (an unchanged one must not matter)
        for (kd, i, a) in seq:
            if kd == 'TRIGSET' and a != pa: trigsets.append(i[0])
            pa = a
        trigs = [(i[0], i[2]) for (kd, i, a) in seq if kd == 'TRIG' and i[2] in fam]
        wats = [(i[0], i[2]) for (kd, i, a) in seq if kd == 'WAT' and i[2] in fam]
        actives = [i[0] for (kd, i, a) in seq if kd in ('ACTIVE', 'INACTIVE')]
        regd = [i[0] for (kd, i, a) in seq if kd == 'REGD' and i[1] == 1]
        silent_notifs = [i[0] for (kd, i, a) in seq if kd == 'NOTIFY' and i[1] != i[2] and i[0] < SIL]
        i = 0
        while i < len(ch):
            t0, st0, a = ch[i]
            prev_t = ch[i - 1][0] if i > 0 else (silent_notifs[-1] if silent_notifs else 0)
            if a == 0 or (mono and st0 != 1) or t0 - prev_t < REST: i += 1; continue
            # collect the gesture
            j = i; ok = True
            while j + 1 < len(ch) and (ch[j + 1][0] - ch[j][0] < REST or (mono and ch[j][1] == 1)):   # a press always ends with its release
                gap = ch[j + 1][0] - ch[j][0]
                release_gap = (not mono) or ch[j][1] == 0
                if release_gap and gap > QUICK: ok = False
                j += 1
            g = ch[i:j + 1]; last_t = g[-1][0]
            nxt = ch[j + 1][0] if j + 1 < len(ch) else tend
            i = j + 1
            if not ok or nxt - last_t < REST: continue
            if any(x[2] != a for x in g): continue
            w0, w1 = t0 - REST, last_t + REST
            if any(t0 <= t <= w1 for t in trigsets): continue      # (a configuration before the gesture leaves the machine at rest)
            if self.lateness(busy, relsw, w0, w1) >= CYC: continue
            if mono and (len(g) % 2 != 0 or g[-1][1] != 0): continue
            other = sum(k['CAP_TOGGLE_x%d' % n] for n in range(1, 6)) if mono else sum(k['CAP_PRESS_x%d' % n] for n in range(1, 6)) | k['CAP_HOLD']
            if a & other: continue        # capability bits of the other button family enabled: not a configuration the text speaks about
            relc = bool(cfg['relay']) and not (a & xbit(1))
            M = max([n for n in range(1, 6) if a & xbit(n)] + [0])
            cfgb = bool(cfg['flags'] & k['FLAG_CFG_BTN'])
            on_toggle = cfgb and (not mono or bool(cfg['flags'] & k['FLAG_CFG_ON_TOGGLE']))
            on_hold = cfgb and mono and (not (cfg['flags'] & k['FLAG_CFG_ON_TOGGLE']) or bool(cfg['flags'] & k['FLAG_CFG_ON_HOLD']))
            if on_toggle: M = max(M, k['CFG_PRESS_COUNT'])
            if on_toggle and (len(g) // 2 if mono else len(g)) >= k['CFG_PRESS_COUNT'] - 1: continue       # at the door of configuration mode
            if on_hold and any(g[q + 1][0] - g[q][0] > k['CFG_PRESS_MS'] * MS - 3 * CYC for q in range(0, len(g) - 1, 2)): continue
            got = [x for (t, x) in trigs if t0 <= t <= w1]
            loc = sum(1 for t in actives if t0 <= t <= w1)
            if mono:
                N = len(g) // 2; first = g[1][0] - g[0][0]
                if first > HOLD - 3 * CYC:
                    if not (N == 1 and first >= HOLD + 3 * CYC): continue
                    exp = [k['CAP_HOLD']] if (a & k['CAP_HOLD']) and cfg['channel'] != 255 else []; exploc = 0; what = 'long press'
                else:
                    if M <= 1 and N > 1: continue
                    n = min(N, M) if M >= 2 else 1
                    exp = [xbit(n)] if n <= 5 and (a & xbit(n)) and cfg['channel'] != 255 and not (n == 1 and relc) else []
                    exploc = 1 if (N == 1 or M <= 1) and relc else 0; what = '%d quick clicks' % N
            else:
                N = len(g)
                if M <= 1 and N > 1: continue
                n = min(N, M) if M >= 2 else 1
                exp = [xbit(n)] if n <= 5 and (a & xbit(n)) and cfg['channel'] != 255 and not (n == 1 and relc) else []
                exploc = 1 if (N == 1 or M <= 1) and relc else 0; what = '%d quick flips' % N
            if len(got) > 1:
                v.append('T: %s at %d us produced %d triggers %s (at most one allowed)' % (what, t0, len(got), got)); break
            if got != exp:
                v.append('T: %s at %d us (enabled %#x, highest multiplicity %d): triggers %s, expected %s' % (what, t0, a, M, got, exp)); break
            if loc != exploc:
                v.append('T: %s at %d us: %d local relay actions, expected %d' % (what, t0, loc, exploc)); break
            redges = sum(1 for (kd, i, a2) in seq if kd == 'GPIO' and t0 <= i[0] <= w1)
            if redges != exploc:       # the local action of a single click toggles the wired relay exactly once, nothing else moves it
                v.append('T: %s at %d us: %d relay edges, expected %d' % (what, t0, redges, exploc)); break
        # the frames on the wire are the calls made while registered, in order
        if regd and not v:
            allt = [(i[0], i[2]) for (kd, i, a) in seq if kd == 'TRIG']
            allw = [i[2] for (kd, i, a) in seq if kd == 'WAT']
            calls = [(t, x) for (t, x) in allt if t >= regd[0]]
            # devconn sends one queued frame per iterate (100 ms), so under load the tail may still be queued at the end
            # and a full srpc queue drops calls (C02's business): every frame must stem from a call, in order
            it = iter([x for (t, x) in calls])
            if not all(any(y == w for y in it) for w in allw):
                v.append('T: action-trigger frames on the wire %s differ from the calls made while registered %s' % (allw[:8], [x for (t, x) in calls[:8]]))
        return v

    # ------------------------------------------------------------------ known finding / fix bookkeeping
    KEY = 'debounce-edges-ignored-while-sampling'
    explained = frozenset()

    def extra_quick(self, ctx):
        """disagreements: are they exactly the behaviour of the code before docs/fixes/C11_debounce_restart.diff?
        (the model run with the variant selector 1 = unrepaired code must then agree with the implementation)"""
        dis = ctx['disagreements']
        if not dis or ctx['mexe'] is None or ctx['iexe'] is None: return
        import hashlib
        cases = [c for (c, d) in dis if c.evs and c.evs[0][0] == 'CFG'][:6000]
        old = [F.Case(c.id, [(c.evs[0][0], list(c.evs[0][1][:7]) + [1], c.evs[0][2])] + list(c.evs[1:]), c.tags) for c in cases]
        mres, _ = F.run_batch(ctx['mexe'], old, self.IN, self.OUT)
        ires, _ = F.run_batch(ctx['iexe'], cases)
        ex = set()
        for c in cases:
            if self.compare(c, mres.get(c.id, ('missing', [])), ires.get(c.id, ('missing', []))) is None:
                ex.add(hashlib.sha256(F.case_text(c).encode()).hexdigest())
        self.explained = frozenset(ex)
        ctx['extra']['disagreements_matching_the_unrepaired_model'] = '%d of %d' % (len(ex), len(cases))
        if len(ex) == len(cases):
            ctx['notes'].append('all %d disagreements are reproduced by the model of the code before C11_debounce_restart.diff (rst = false)' % len(cases))

    def finding_key(self, case, what):
        import hashlib
        if what.startswith('G: a level change that had lasted only'): return self.KEY
        if what.startswith('disagreement') and hashlib.sha256(F.case_text(case).encode()).hexdigest() in self.explained: return self.KEY
        return None

CHECK = C11()
