"""C20 — fallback DNS resolver: generators, implementation-side monitor, check definition.

Events (see harness/drv/c20.c): RESOLVE : name | CONNCB | DISCCB | RECONCB err | RECV : reply | SENTRES r | CONNRES r | ADV us | DUMP.
The generator puts a DUMP in front of every RESOLVE and at the end of a case, so that the STATE lines cut the
implementation trace into one segment per resolve request (the monitor needs to attribute callbacks to requests)."""
import os, struct, sys
import framework as F

DC = None
def consts():
    global DC
    if DC is None: DC = F.G.load('DnsConsts')
    return DC

# ------------------------------------------------------------------ independent DNS helpers (python side only)
def c_name(name):
    """the C string the resolver sees"""
    i = name.find(b'\0')
    return name if i < 0 else name[:i]

def req_len(name):
    """length of the request the resolver builds for this name; None when the name is refused (too short).
    Limits and structure sizes come from the translator (gen/grp_c20.py), not from this file."""
    c = consts()
    n = min(len(c_name(name)), c['DOMAIN_MAX'])
    return None if n < c['DOMAIN_MIN'] else c['PREFIX_SIZE'] + c['HEADER_SIZE'] + n + 2 + c['QSUFFIX_SIZE']

def qname(labels):
    return b''.join(bytes([len(l)]) + l for l in labels) + b'\0'

def question_echo(name):
    """a question section of exactly the size the resolver's own request has (name cut to 63 characters)"""
    n = c_name(name)[:consts()['DOMAIN_MAX']]
    return _enc_like(n) + b'\x00\x01\x00\x01'

def _enc_like(n):
    """dl+2 bytes: label encoding of n when it is a regular name, otherwise filler of the right size"""
    labels = n.split(b'.')
    if all(0 < len(l) < 64 for l in labels):
        e = qname(labels)
        if len(e) == len(n) + 2: return e
    return bytes([1]) * (len(n) + 1) + b'\0'

def rr(name_field, typ, cls, ttl, rdata, rdlen=None):
    return name_field + struct.pack('>HHIH', typ, cls, ttl, len(rdata) if rdlen is None else rdlen) + rdata

def reply(name, answers, rcode=0, ancount=None, prefix=None, ident=1, flags_hi=0x81, tail=b'', flags_lo=None):
    body = struct.pack('>HBBHHHH', ident, flags_hi, (0x80 | (rcode & 15)) if flags_lo is None else flags_lo, 1, len(answers) if ancount is None else ancount, 0, 0)
    body += question_echo(name) + b''.join(answers) + tail
    return struct.pack('>H', (len(body) if prefix is None else prefix) & 0xFFFF) + body

def first_answer_address(rep, dl, walk):
    """address of the first answer of `rep` (answer section assumed at offset dl) when the reply is acceptable
    in the sense of the property, else None.  walk = 'labels' (RFC 1035 label walk) or 'scan' (first 0 / pointer byte)."""
    L = len(rep)
    if L < dl or L < 14: return None
    if struct.unpack_from('>H', rep, 0)[0] != L - 2: return None
    if rep[5] & 0x0F: return None
    if struct.unpack_from('>H', rep, 8)[0] < 1: return None
    i = dl
    while True:
        if i >= L: return None
        c = rep[i]
        if c >= 0xC0: i += 2; break
        if c == 0: i += 1; break
        if walk == 'labels':
            if c >= 64: return None
            i += 1 + c
        else:
            i += 1
    if i + 14 > L: return None
    typ, cls, ttl, rdl = struct.unpack_from('>HHIH', rep, i)
    if (typ, cls, rdl) != (1, 1, 4): return None
    return bytes(rep[i + 10:i + 14])

def justified(addr, rep, dls):
    for dl in dls:
        for w in ('labels', 'scan'):
            if first_answer_address(rep, dl, w) == addr: return True
    return False

QUIET_US = 21_000_000     # > 4 timeouts + 4 retry delays: a request left alone this long must have completed

class C20(F.PropCheck):
    pid = 'C20'; gen_groups = ['DnsConsts']; prop_file = 'Properties_C20'
    IN = {'RESOLVE': 0, 'CONNCB': 1, 'DISCCB': 2, 'RECONCB': 3, 'RECV': 4, 'SENTRES': 5, 'ADV': 6, 'DUMP': 7, 'CONNRES': 8, 'DISCRES': 9}
    OUT = {0: 'CB', 1: 'CONNECT', 2: 'DISCONNECT', 3: 'SENT', 4: 'SENTNULL', 5: 'STATE', 6: 'FAULT', 7: 'FUEL', 8: 'HANG'}
    quick_cases = 5000; thorough_cases = 200000
    trusted_extra = ['C20 driver harness/drv/c20.c + wrapper harness/wrap/c20_dns_wrap.c (real supla_esp_dns_client.c, accessors only); '
                     'replies and names are handed over in exact-size heap blocks so that ASan sees every access outside them',
                     'timer double: one-shot timers fire exactly when due, in (due, arming order); espconn_* doubles only record calls']
    assumptions = ['timers fire when due (virtual clock of the doubles); the time bound counts 0.2 s per network callback delivered',
                   'no second supla_esp_dns_resolve before the first completes (a superseded request loses its callback by design)',
                   'the result callback does not re-enter supla_esp_dns_resolve; domain != NULL; malloc does not fail',
                   'the reply is handed to the receive callback in one piece (as the code assumes); len < 65536']
    rule = ('1-3 resolve requests per case (names 0..100 chars: regular host names, boundary lengths 3/4/62/63/64/65/100, dots anywhere, '
            'random bytes) x per-server outcome scripts {espconn_connect returns an error (-4/-1/-15/...), no connect, sent fails, disconnect, timeout, bad reply, CNAME-first, good reply '
            'with/without disconnect} x replies {valid A compressed/uncompressed, every single-field corruption, truncation at every '
            'offset, owner names of 200..600 bytes free of 0x00/>=0xC0 (boundaries 255/256/257) with/without terminator + A record, random bytes 0..1500, 65535 bytes} x random timer advances, plus the exhaustive sweep of both header flag bytes (0..255 each, all 16 RCODEs) over a perfect A answer, plus unstructured event soups; '
            'non-trivial = at least one result callback observed; distinct by sha256 of the event text')

    def build_impl(self):
        V = F.VERIF
        return F.build_c('c20', os.path.join(V, 'harness', 'drv', 'c20.c'),
                         sources=[os.path.join(V, 'harness', 'wrap', 'c20_dns_wrap.c'),
                                  os.path.join(V, 'harness', 'doubles', 'doubles.c'),
                                  os.path.join(V, 'harness', 'doubles', 'libc_doubles.c')],
                         libs=['-Wl,--wrap=espconn_connect', '-Wl,--wrap=espconn_disconnect'])    # the driver scripts their return values

    # ---------------- generators
    def gen_name(self, rng):
        k = rng.random()
        ab = b'abcdefghijklmnopqrstuvwxyz0123456789-'
        def label(n): return bytes(rng.choice(ab) for _ in range(n))
        if k < 0.12:
            n = rng.choice([0, 0, 1, 2, 3, 3]); s = bytes(rng.choice(ab + b'.') for _ in range(n)); tag = 'name:short'
        elif k < 0.5:
            s = b'.'.join(label(rng.randrange(1, 12)) for _ in range(rng.randrange(1, 5))); tag = 'name:regular'
            if len(s) < 4: s += b'.org'
        elif k < 0.7:
            n = rng.choice([4, 5, 61, 62, 63, 64, 65, 66, 99, 100]); parts = []
            while sum(len(p) + 1 for p in parts) < n: parts.append(label(rng.randrange(1, 20)))
            s = b'.'.join(parts)[:n]
            if rng.random() < 0.5 and n >= 64: s = s[:63] + rng.choice([b'.', b'x']) + s[64:]
            tag = 'name:boundary%d' % n
        elif k < 0.85:
            n = rng.randrange(0, 101); s = bytes(rng.choice(b'ab.') for _ in range(n)); tag = 'name:dots'
        else:
            n = rng.randrange(0, 101); s = bytes(rng.randrange(1, 256) for _ in range(n)); tag = 'name:random'
        return s, tag

    def gen_reply(self, rng, name, want):
        """want in good|cname|bad|random"""
        ipb = bytes(rng.getrandbits(8) for _ in range(4))
        nm = c_name(name)[:consts()['DOMAIN_MAX']]
        def namefield():
            k = rng.random()
            if k < 0.55: return b'\xc0\x0c'
            if k < 0.85:
                labels = [l for l in nm.split(b'.') if 0 < len(l) < 64] or [b'a']
                return qname(labels)
            if k < 0.93: return qname([b'www', b'example']) [:-1] + b'\xc0\x0c'       # labels then pointer
            return b'\0'                                                                 # root
        if want == 'longname':
            # owner name longer than 255 bytes without 0 / pointer bytes in its first 255/256/257/300... bytes
            clean = rng.choice([200, 254, 255, 256, 257, 258, 300, 320, 511, 512, 600])
            style = rng.random()
            if style < 0.5:       # 63-byte labels (a structurally regular, over-long name)
                nf = b''
                while len(nf) < clean: nf += bytes([63]) + bytes(rng.choice(b'abcdefghijklmnopqrstuvwxyz0123456789-') for _ in range(63))
                nf = nf[:clean]
            else:                 # printable run
                nf = bytes(rng.randrange(1, 0xC0) for _ in range(clean))
            end = rng.choice([b'\0', b'\xc0\x0c', b'', b''])
            recs = [rr(nf + end, 1, 1, 60, ipb)] if (end and rng.random() < 0.8) else [nf + end + bytes(rng.randrange(1, 0xC0) for _ in range(rng.choice([0, 5, 14, 40])))]
            return reply(name, recs), 'reply:longname%d%s' % (clean, '+end' if end else '')
        if want == 'good':
            extra = [rr(b'\xc0\x0c', 1, 1, 60, bytes(rng.getrandbits(8) for _ in range(4))) for _ in range(rng.choice([0, 0, 1, 3]))]
            tail = bytes(rng.getrandbits(8) for _ in range(rng.choice([0, 0, 0, 1, 11])))
            return reply(name, [rr(namefield(), 1, 1, rng.getrandbits(32), ipb)] + extra, tail=tail), 'reply:good'
        if want == 'cname':
            cn = qname([b'alias', b'example', b'net'])
            return reply(name, [rr(namefield(), 5, 1, 300, cn), rr(b'\xc0\x2b', 1, 1, 60, ipb)]), 'reply:cname-first'
        if want == 'random':
            n = rng.choice([0, 1, 2, 3, 9, 10, 13, 14, 23, 24, 25, rng.randrange(0, 100), rng.randrange(0, 1501), 1500])
            b = bytearray(rng.getrandbits(8) for _ in range(n))
            if n >= 2 and rng.random() < 0.6: b[0:2] = struct.pack('>H', (n - 2) & 0xFFFF)
            if n >= 10 and rng.random() < 0.6: b[5] &= 0xF0; b[8:10] = b'\x00\x01'
            return bytes(b), 'reply:random'
        # single corruption of a good reply
        m = rng.randrange(14)
        good = reply(name, [rr(namefield(), 1, 1, 60, ipb)])
        if m == 0: return reply(name, [rr(namefield(), 1, 1, 60, ipb)], prefix=len(good) - 2 + rng.choice([-2, -1, 1, 2, 256, -256])), 'bad:prefix'
        if m == 1: return reply(name, [rr(namefield(), 1, 1, 60, ipb)], rcode=rng.randrange(1, 16)), 'bad:rcode'
        if m == 2: return reply(name, [rr(namefield(), 1, 1, 60, ipb)], ancount=0), 'bad:ancount0'
        if m == 3: return reply(name, [], ancount=rng.choice([0, 1, 7])), 'bad:no-answer-bytes'
        if m == 4: return reply(name, [rr(namefield(), rng.choice([0, 2, 5, 28, 256, 257]), 1, 60, ipb)]), 'bad:type'
        if m == 5: return reply(name, [rr(namefield(), 1, rng.choice([0, 2, 3, 255, 256]), 60, ipb)]), 'bad:class'
        if m == 6:
            n = rng.choice([0, 1, 3, 5, 16]); return reply(name, [rr(namefield(), 1, 1, 60, bytes(n), rdlen=n)]), 'bad:rdlength'
        if m == 7: return reply(name, [rr(namefield(), 1, 1, 60, ipb, rdlen=rng.choice([0, 3, 5, 0x0400, 65535]))]), 'bad:rdlength-lie'
        if m == 8:   # truncation anywhere, prefix made consistent or left
            cut = rng.randrange(0, len(good)); b = bytearray(good[:cut])
            if cut >= 2 and rng.random() < 0.7: b[0:2] = struct.pack('>H', cut - 2)
            return bytes(b), 'bad:truncated'
        if m == 9:   # name without terminator up to the end
            n = rng.randrange(1, 40); return reply(name, [bytes([1 + rng.randrange(62)]) * n]), 'bad:name-unterminated'
        if m == 10:  # pointer as the very last byte(s)
            return reply(name, [rng.choice([b'\xc0', b'\xc0\x0c', b'\xff', b'\x03abc\xc0'])]), 'bad:pointer-at-end'
        if m == 11:  # exotic name bytes (0 or >= 0xC0 inside a label)
            nf = bytes([4]) + bytes([rng.choice([0, 0xC0, 0xFF]), 65, 66, 67]) + b'\0'
            return reply(name, [rr(nf, 1, 1, 60, ipb)]), 'bad:exotic-name'
        if m == 12:  # shorter than the request / header only
            return good[:rng.choice([2, 12, 13, 14, 20, 23])], 'bad:short'
        b = bytearray(good); j = rng.randrange(len(b)); b[j] ^= 1 << rng.randrange(8)
        return bytes(b), 'bad:bitflip'

    def adv(self, rng, base):
        return ('ADV', [max(0, base + rng.choice([0, 0, 0, -1, 1, -1000, 1000, 100000]))], b'')

    CONN_ERRS = [-4, -1, -15, -12, -7, 1]      # ESPCONN_RTE, _MEM, _ISCONN, _ARG, _INPROGRESS, any non-zero

    def gen_try(self, rng, name, tags, connfailed=False):
        """events of one connection attempt, ending with enough time for the next attempt to start.
        connfailed: espconn_connect returned an error for this attempt -> (mostly) no callback ever comes for it"""
        o = rng.choice(['noconn', 'sentfail', 'disc', 'timeout', 'bad', 'bad', 'random', 'cname', 'good', 'good', 'good-nodisc', 'longname'])
        if connfailed and rng.random() < 0.8: o = 'connfail'
        tags.append('try:' + o); evs = []
        if o == 'connfail':
            return [self.adv(rng, 5000000), self.adv(rng, 200000)]
        if o == 'noconn':
            if rng.random() < 0.5: evs.append(('RECONCB', [rng.choice([-11, -8, -4])], b''))
            evs += [self.adv(rng, 5000000), self.adv(rng, 200000)]
        elif o == 'sentfail':
            evs += [('SENTRES', [rng.choice([-1, -4, -12, 1])], b''), ('CONNCB', [], b''), ('SENTRES', [0], b''), self.adv(rng, 200000)]
        elif o == 'disc':
            evs += [('CONNCB', [], b''), self.adv(rng, rng.choice([0, 1000, 300000])), ('DISCCB', [], b''), self.adv(rng, 200000)]
        elif o == 'timeout':
            evs += [('CONNCB', [], b''), self.adv(rng, 5000000)]
            if rng.random() < 0.5: evs.append(('DISCCB', [], b''))
            evs.append(self.adv(rng, 200000))
        else:
            want = {'bad': 'bad', 'random': 'random', 'cname': 'cname', 'longname': 'longname'}.get(o, 'good')
            r, t = self.gen_reply(rng, name, want); tags.append(t)
            evs += [('CONNCB', [], b''), self.adv(rng, rng.choice([0, 20000, 150000])), ('RECV', [], r)]
            if o != 'good-nodisc' and rng.random() < 0.8: evs.append(('DISCCB', [], b''))
            if rng.random() < 0.2:
                r2, t2 = self.gen_reply(rng, name, rng.choice(['bad', 'good', 'random'])); tags.append('second-' + t2); evs.append(('RECV', [], r2))
            evs += [self.adv(rng, rng.choice([200000, 200000, 5000000])), self.adv(rng, 200000)]
        return evs

    def gen_request(self, rng, tags, complete):
        name, t = self.gen_name(rng); tags.append(t)
        evs = [('DUMP', [], b'')]
        def connres():
            """result of the next espconn_connect call (the call for attempt k is made by RESOLVE or by the retry timer)"""
            r = rng.choice(self.CONN_ERRS) if rng.random() < 0.25 else 0
            return r, [('CONNRES', [r], b'')]
        if rng.random() < 0.15: evs.append(('DISCRES', [rng.choice([-12, -11, -1, 0])], b'')); tags.append('discres')
        r, ce = connres(); evs += ce + [('RESOLVE', [], name)]
        for _ in range(rng.choice([1, 2, 4, 4, 5])):
            t = self.gen_try(rng, name, tags, connfailed=(r != 0))
            r, ce = connres()
            evs += t[:-1] + ce + t[-1:]          # set before the advance that lets the retry timer start the next attempt
        if complete: evs.append(('ADV', [QUIET_US], b''))
        else: tags.append('superseded')
        return evs

    def gen_soup(self, rng, tags):
        tags.append('soup'); evs = []; name = b'example.org'
        for _ in range(rng.randrange(5, 40)):
            k = rng.random()
            if k < 0.12:
                name, t = self.gen_name(rng); evs += [('DUMP', [], b''), ('RESOLVE', [], name)]
            elif k < 0.3: evs.append(('CONNCB', [], b''))
            elif k < 0.42: evs.append(('DISCCB', [], b''))
            elif k < 0.45: evs.append(('RECONCB', [-11], b''))
            elif k < 0.7: evs.append(('RECV', [], self.gen_reply(rng, name, rng.choice(['good', 'bad', 'random', 'cname', 'longname']))[0]))
            elif k < 0.72: evs.append(('SENTRES', [rng.choice([0, 0, -1, -12])], b''))
            elif k < 0.74: evs.append(('CONNRES', [rng.choice([0, 0, -4, -1, -15])], b''))
            elif k < 0.75: evs.append(('DISCRES', [rng.choice([0, -12, -11, -1])], b''))
            elif k < 0.95: evs.append(('ADV', [rng.choice([0, 1, 100000, 199999, 200000, 200001, 1000000, 4800000, 5000000, 5200000, 30000000, rng.randrange(0, 6000000)])], b''))
            else: evs.append(('DUMP', [], b''))
        return evs

    def gen_cases(self, rng, n, tier):
        cases = []
        for i in range(n):
            tags = []; evs = []
            if rng.random() < 0.2:
                evs = self.gen_soup(rng, tags)
            else:
                nreq = rng.choice([1, 1, 2, 2, 3])
                for j in range(nreq):
                    evs += self.gen_request(rng, tags, complete=(j == nreq - 1 or rng.random() < 0.8))
            if rng.random() < 0.01:
                evs.insert(rng.randrange(len(evs) + 1), ('RECV', [], bytes(rng.getrandbits(8) for _ in range(65535)))); tags.append('reply:65535')
            evs.append(('DUMP', [], b''))
            cases.append(F.Case('%s%d' % (tier[0], i), evs, sorted(set(tags))))
        return cases + self.flag_sweep() + self.boundary_sweep()

    def flag_sweep(self):
        """exhaustive: every value 0..255 of each of the two header flag bytes (QR/Opcode/AA/TC/RD and RA/Z/RCODE), the rest
        of the reply a perfect A answer: the address may be reported exactly when the low nibble of the second byte is 0"""
        cases = []; name = b'svr1.supla.org'; ipb = bytes([10, 20, 30, 40])
        for which in (0, 1):
            for v in range(256):
                r = reply(name, [rr(b'\xc0\x0c', 1, 1, 60, ipb)], flags_hi=(v if which == 0 else 0x81), flags_lo=(v if which == 1 else 0x80))
                evs = [('DUMP', [], b''), ('RESOLVE', [], name), ('CONNCB', [], b''), ('RECV', [], r), ('DISCCB', [], b''),
                       ('ADV', [QUIET_US], b''), ('DUMP', [], b'')]
                cases.append(F.Case('x%d_%d' % (which, v), evs, ['exhaustive:flags-byte%d' % (2 + which)]))
        return cases

    def boundary_sweep(self):
        """exhaustive small families on the comparisons of the parser (each bound -1/0/+1), independent of the random part"""
        cases = []; name = b'svr1.supla.org'; ipb = bytes([10, 20, 30, 40]); rl = req_len(name)
        def case(cid, rep, tag):
            evs = [('DUMP', [], b''), ('RESOLVE', [], name), ('CONNCB', [], b''), ('RECV', [], rep), ('DISCCB', [], b''),
                   ('ADV', [QUIET_US], b''), ('DUMP', [], b'')]
            cases.append(F.Case(cid, evs, [tag]))
        def fixp(b): return struct.pack('>H', (len(b) - 2) & 0xFFFF) + b[2:] if len(b) >= 2 else b
        # ANCOUNT: both bytes matter (big-endian), 0 refused
        for an in (0, 1, 2, 255, 256, 257, 0x8000, 65535):
            case('ban%d' % an, reply(name, [rr(b'\xc0\x0c', 1, 1, 60, ipb)], ancount=an), 'exhaustive:ancount')
        # the tail of the answer: cut 0..16 bytes off a perfect reply (a+10 and a+14 against len), for three kinds of owner name
        for ni, nf in enumerate([b'\xc0\x0c', qname([b'svr1', b'supla', b'org']), b'\0']):
            good = reply(name, [rr(nf, 1, 1, 60, ipb)])
            for k in range(0, 17):
                case('bt%d_%d' % (ni, k), fixp(good[:len(good) - k]), 'exhaustive:tail-cut')
            for k in (1, 2, 7):     # and extra bytes behind it
                case('bx%d_%d' % (ni, k), fixp(good + bytes(k)), 'exhaustive:tail-extra')
        # total length against the request length: rl-2 .. rl+2 with a consistent prefix
        good = reply(name, [rr(b'\xc0\x0c', 1, 1, 60, ipb)])
        for d in (-2, -1, 0, 1, 2):
            case('bl%d' % (d + 2), fixp(good[:rl + d]), 'exhaustive:len-vs-request')
        # length prefix off by -2..+2, +-256
        for d in (-256, -2, -1, 1, 2, 256):
            case('bp%d' % (d + 256), reply(name, [rr(b'\xc0\x0c', 1, 1, 60, ipb)], prefix=len(good) - 2 + d), 'exhaustive:prefix')
        # TYPE / CLASS / RDLENGTH: each byte of each field
        for i, (t, c, l) in enumerate([(0, 1, 4), (2, 1, 4), (0x0100, 1, 4), (0x0101, 1, 4), (1, 0, 4), (1, 2, 4), (1, 0x0100, 4), (1, 0x0101, 4),
                                       (1, 1, 0), (1, 1, 3), (1, 1, 5), (1, 1, 0x0400), (1, 1, 0x0104)]):
            case('bf%d' % i, reply(name, [rr(b'\xc0\x0c', t, c, 60, ipb + bytes(8), rdlen=l)]), 'exhaustive:type-class-rdlength')
        # first byte of the owner name around the pointer test (two top bits) and the terminator
        for b0 in (0x00, 0x01, 0x3F, 0x40, 0x7F, 0x80, 0xBF, 0xC0, 0xC1, 0xFF):
            case('bn%d' % b0, reply(name, [rr(bytes([b0]) + b'\x0c', 1, 1, 60, ipb)]), 'exhaustive:name-first-byte')
        # name lengths around DOMAIN_MIN / DOMAIN_MAX with a matching perfect reply
        c = consts()
        for n in (c['DOMAIN_MIN'] - 1, c['DOMAIN_MIN'], c['DOMAIN_MIN'] + 1, c['DOMAIN_MAX'] - 1, c['DOMAIN_MAX'], c['DOMAIN_MAX'] + 1, 100):
            nm = (b'abcdefg.' * 13)[:n]
            evs = [('DUMP', [], b''), ('RESOLVE', [], nm), ('CONNCB', [], b''), ('RECV', [], reply(nm, [rr(b'\xc0\x0c', 1, 1, 60, ipb)])),
                   ('DISCCB', [], b''), ('ADV', [QUIET_US], b''), ('DUMP', [], b'')]
            cases.append(F.Case('bd%d' % n, evs, ['exhaustive:name-length']))
        # every result code of the doubles, alone, on a request that is otherwise left alone
        for i, (ev, r) in enumerate([(e, r) for e in ('CONNRES', 'SENTRES', 'DISCRES') for r in (-1, -4, -7, -8, -11, -12, -15, -16, 1, 127, -128)]):
            evs = [('DUMP', [], b''), (ev, [r], b''), ('RESOLVE', [], name), ('CONNCB', [], b''), ('ADV', [QUIET_US], b''), ('DUMP', [], b'')]
            cases.append(F.Case('br%d' % i, evs, ['exhaustive:double-result-codes']))
        return cases

    # ---------------- comparison: a crash of the implementation must be a FAULT of the model and vice versa
    HUNG = ('crash sig=24', 'crash sig=14', 'crash sig=9')     # SIGXCPU / SIGALRM / hard CPU limit: a callback did not return
    def compare(self, case, mo, io):
        (ms, ml), (is_, il) = mo, io
        mfault = any(k == 'FAULT' for (k, _, _) in ml); mhang = any(k == 'HANG' for (k, _, _) in ml)
        if is_ in self.HUNG:
            return None if mhang else 'implementation did not return from a callback (%s) but the model terminates' % is_
        if mhang: return 'model says the name-skip loop does not end, implementation returned'
        if is_ != 'ok':
            return None if mfault else 'implementation crashed (%s) but the model reports no access outside an object' % is_
        if mfault: return 'model reports an access outside an object, implementation ran on'
        return F.PropCheck.compare(self, case, mo, io)

    def nontrivial(self, case, io): return any(k == 'CB' for (k, _, _) in io[1])

    # ---------------- monitor (implementation trace vs. the property text, no model involved)
    def monitor(self, case, status, outs):
        if status in self.HUNG:
            return ['a resolver callback did not return within 1 s of CPU time (%s): the request can never complete' % status]
        if status != 'ok':
            return ['implementation crashed (%s): the resolver left the received buffer / an object (memory-safety clause)' % status]
        v = []
        # cut events at DUMP and outputs at STATE: segment k of the events produced segment k of the outputs
        esegs = [[]]; osegs = [[]]
        for e in case.evs:
            if e[0] == 'DUMP': esegs.append([])
            else: esegs[-1].append(e)
        for o in outs:
            if o[0] == 'STATE': osegs.append([])
            else: osegs[-1].append(o)
        if len(esegs) != len(osegs): return v            # cannot attribute (should not happen)
        seen_dls = {0}; open_prev = 0      # open_prev: a request of an earlier segment may still be waiting for its callback
        for es, os_ in zip(esegs, osegs):
            nres = sum(1 for e in es if e[0] == 'RESOLVE')
            cbs = [o for o in os_ if o[0] == 'CB']
            credit = nres + open_prev; was_open = open_prev
            if len(cbs) > credit:
                v.append('%d completion callbacks for %d resolve request(s) that could still be waiting for one' % (len(cbs), credit))
            open_next = 1 if credit - len(cbs) >= 1 else 0
            if nres == 0:
                open_prev = open_next; continue
            open_prev = open_next
            if len(cbs) > credit: continue
            # position of the last RESOLVE; events after it belong to that request
            li = max(i for i, e in enumerate(es) if e[0] == 'RESOLVE')
            name = bytes(es[li][2]); after = es[li + 1:]
            rl = req_len(name)
            for e in es:
                if e[0] == 'RESOLVE' and req_len(bytes(e[2])) is not None: seen_dls.add(req_len(bytes(e[2])))
            if nres == 1 and not was_open:
                # the retry schedule runs over the built-in servers: every connection made for this request goes to one of them,
                # to each at most once, at most SERVER_COUNT in all  (observe_at: espconn_connect target addresses)
                servers = [bytes(x) for x in consts()['SERVERS']]
                # outputs after the RESOLVE: the CONNECT lines of this segment that follow the (li+1)-th group are not separable
                # from earlier ones without event tags, so only segments that start with the RESOLVE are judged
                if li == 0 or all(e[0] in ('SENTRES', 'CONNRES', 'DISCRES') for e in es[:li]):
                    targets = [bytes(o[2]) for o in os_ if o[0] == 'CONNECT']
                    for t in targets:
                        if t not in servers:
                            v.append('connection to %s, which is not one of the built-in DNS servers' % '.'.join(map(str, t))); break
                    else:
                        if len(targets) > len(servers):
                            v.append('%d connection attempts for one resolve request (the schedule has %d servers)' % (len(targets), len(servers)))
                        elif len(set(targets)) != len(targets):
                            v.append('the same DNS server is tried twice for one resolve request (%s)' % ' '.join('.'.join(map(str, t)) for t in targets))
            if nres == 1:
                # exactly once, when the request was left alone long enough at the end of its segment
                quiet = 0
                for e in reversed(after):
                    if e[0] == 'ADV': quiet += e[1][0] if e[1] else 0
                    elif e[0] in ('SENTRES', 'CONNRES', 'DISCRES', 'RECONCB'): continue
                    else: break
                if quiet >= QUIET_US and len(cbs) == 0:
                    v.append('resolve request for a %d-character name never completed: no callback after %d us without network events' % (len(c_name(name)), quiet))
                # an address is reported only for an acceptable reply received for this request
                for cb in ([] if was_open else cbs):     # with an older request possibly open the callback cannot be attributed
                    if cb[1] and cb[1][0] == 1:
                        addr = bytes(cb[2])
                        recvs = [bytes(e[2]) for e in after if e[0] == 'RECV']
                        dls = [rl] if rl is not None else sorted(seen_dls | set(range(24, 84)))
                        if not any(justified(addr, r, dls) for r in recvs):
                            # would it be acceptable but for the response code (low nibble of the second flags byte, RFC 1035)?
                            rc = [r[5] & 0x0F for r in recvs if len(r) > 5 and (r[5] & 0x0F) and justified(addr, r[:5] + bytes([r[5] & 0xF0]) + r[6:], dls)]
                            if rc:
                                v.append('address %s reported from a reply whose response code is %d, not 0 (no error)' % ('.'.join(map(str, addr)), rc[0])); continue
                            v.append('address %s reported for a %d-character name without an acceptable reply (%d replies received for this request)'
                                     % ('.'.join(map(str, addr)), len(c_name(name)), len(recvs)))
        return v

    def finding_key(self, case, what):
        """fallback when the repair docs/fixes/C20_short_name_stale_state.diff is not applied: failures of cases in which
        supla_esp_dns_resolve is called with a name shorter than DOMAIN_MIN_LEN (result() then runs on the stale
        success / try_counter of the previous request)"""
        if any(e[0] == 'RESOLVE' and req_len(bytes(e[2])) is None for e in case.evs):
            if what.startswith(('implementation crashed', 'address ', 'disagreement', 'resolve request')): return 'short-name-stale-state'
        return None

CHECK = C20()
