"""C08 — roller-shutter outputs interlocked, restarts/reversals spaced: generators, monitor, check definition.

Two kinds of cases go through the same driver binary (harness/drv/c08.c):
  unit : most-general-client stream against the real supla_esp_gpio_rs_set_relay (compared line by line
         with the extracted Coq model),
  sys  : whole-device scenarios (server values, tasks, buttons, recalibration, channel-config swaps, motor
         sensor modes) — monitor only (implementation-side oracle: interlock + 0.9 s spacing on the GPIO log).
"""
import os, struct, sys
import framework as F

SPACING_US = 900000          # the property text: "at least 0.9 s"
W32 = 1 << 32

# ---- server message builders (payloads of SRV events) ----
CALL_SET_VALUE = 110; CALL_CALCFG = 460; CALL_CFG_RESULT = 690; CALL_SET_CFG = 682
FNC_RS = 110; FNC_FB = 900
def set_value(ch, v, tilt=0, duration=0, sender=7):
    val = bytes([v & 255, tilt & 255, 0, 0, 0, 0, 0, 0])
    return struct.pack('<iBI', sender, ch, duration) + val
def calcfg_recalibrate(ch, authorized=1):
    return struct.pack('<iiibiI', 9, ch, 8000, authorized, 0, 0)
def rs_config(ch, motor=0, buttons=0, margin=0, ct=0, ot=0, func=FNC_RS):
    cfg = struct.pack('<iiBBbB', ct, ot, motor, buttons, margin, 0) + bytes(32)
    return struct.pack('<BiBH', ch, func, 0, len(cfg)) + cfg

def fb_config(ch, motor=0, buttons=0, margin=0, ct=0, ot=0, tt=0, tilt_type=0):
    cfg = struct.pack('<iiiBBbHHBB', ct, ot, tt, motor, buttons, margin, 0, 180, tilt_type, 0) + bytes(32)
    return struct.pack('<BiBH', ch, FNC_FB, 0, len(cfg)) + cfg
def at_config(ch, mask): return struct.pack('<BiBHI', ch, 700, 0, 4, mask)
AT_CAPS = (1 << 10) | (1 << 11) | (1 << 12)          # HOLD, SHORT_PRESS_x1, SHORT_PRESS_x2

def pin_of(idx, which): return 1 + 2 * idx + which
def btn_pin(idx, which): return 9 + 2 * idx + which

class C08(F.PropCheck):
    pid = 'C08'; gen_groups = ['RsSpacingConsts']; prop_file = 'Properties_C08'
    IN = {'CFG': 0, 'RS': 1, 'SWAP': 2, 'ADV': 3, 'POS': 4,
          'SRV': 10, 'IN': 11, 'REGOK': 12, 'CONNCB': 13, 'DISCCB': 14, 'SENSOR': 15, 'ITER': 16, 'WIFI': 17,
          'SENTRES': 18, 'REGFAIL': 19, 'RECV': 20, 'POLL': 21}
    OUT = {0: 'GPIO', 1: 'ARM', 2: 'ZERO'}
    quick_cases = 3000; thorough_cases = 100000
    SYS_SHARE = 0.2
    trusted_extra = ['C08 driver harness/drv/c08.c + harness/wrap/c08_rs_wrap.c (os_timer_arm of supla_esp_rs_fb.c routed through a logging shim; '
                     'system_get_time wrapped at link time to report reads of exactly 0); unit mode disarms the 10 ms position timer',
                     'board: relays without RELAY_FLAG_LO_LEVEL_TRIGGER/RESTORE, both relays of a shutter on the shutter channel (wf_board)']
    assumptions = ['C08_spacing: no sampled stamp equals 0 (the property\'s own exclusion) — an explicit hypothesis `no_zero`',
                   'C08_routing: wf_board (distinct relay gpios, no gpio 255, both relays of a shutter carry the same channel)',
                   'the model follows the tree after docs/fixes/C08_rs_wrap.diff (CURRENT_OG = false); the unchanged code is C08_old_code_refuted']
    rule = ('unit: 1-4 shutters x boot (1 / random / wrap placed inside the activity / stamp exactly 0) x timer lateness x random '
            'set_relay(value 0..2 (rarely other), cancel, stop_delay) / swap / position-limit / advance streams with gaps around '
            '100 ms, 500 ms, 900 ms, 1000 ms; sys: whole device with server SET_VALUE 0..5, 10..110, 255, buttons (mono/bistable), '
            'recalibrate, channel config (motor/buttons upside down), motor sensor modes; non-trivial = at least one GPIO edge; '
            'distinct by sha256 of the event text')

    def build_impl(self):
        return F.build_c('c08', os.path.join(F.VERIF, 'harness', 'drv', 'c08.c'), config='devcfg',
                         extra_srcs=[os.path.join(F.VERIF, 'harness', 'wrap', 'c08_rs_wrap.c')],
                         exclude=('supla_esp_rs_fb',), libs=('-Wl,--wrap=system_get_time',))

    # ---------------- generators
    GAPS = [1, 10, 1000, 9990, 10000, 30000, 99000, 100000, 101000, 250000, 399000, 401000, 489000, 499000, 500000, 501000,
            700000, 880000, 889000, 890000, 899000, 900000, 901000, 905000, 980000, 989000, 990000, 999000, 1000000, 1001000,
            1011000, 1500000, 2000000, 5000000]

    def gen_unit(self, rng, cid, tier):
        n = rng.choice([1, 1, 1, 2, 3, 4])
        late = rng.choice([0, 0, 0, 1, 500, 3000, 20000])
        evs = []; tags = ['unit', 'n%d' % n]
        t_est = 0
        lead = rng.choice([0, 1000, 500000, 950000, 1200000, 3000000])
        if lead: evs.append(('ADV', [lead], b'')); t_est += lead
        L = rng.choice([4, 8, 8, 16, 30, 60])
        marks = []
        for _ in range(L):
            k = rng.random(); i = rng.randrange(n)
            if k < 0.50:
                v = rng.choice([0, 0, 1, 1, 2, 2, 1, 2, rng.choice([0, 1, 2, 3, 255])])
                evs.append(('RS', [i, v, rng.randrange(2), rng.choice([0, 1, 1, rng.choice([0, 1, 2])])], b'')); t_est += 10020
                marks.append(t_est)
            elif k < 0.85:
                dt = rng.choice(self.GAPS) if rng.random() < 0.8 else rng.randrange(1, 3000000)
                if rng.random() < 0.01: dt = rng.choice([W32 - 5, W32, W32 + 700000, 2 * W32 + 3])
                evs.append(('ADV', [dt], b'')); t_est += dt
            elif k < 0.92:
                evs.append(('SWAP', [i, rng.choice([1, 2, 2, 1, 0, 3])], b''))
            else:
                evs.append(('POS', [i, rng.choice([0, 0, 1, 2])], b''))
        evs.append(('ADV', [rng.choice([1200000, 2500000])], b''))
        k = rng.random()
        if k < 0.25: boot = 1; tags.append('boot:1')
        elif k < 0.40: boot = rng.randrange(W32); tags.append('boot:random')
        elif k < 0.92:
            # the counter wraps at true time w somewhere inside the activity
            w = rng.randrange(0, max(1, min(t_est, W32 - 1)) + 1) if rng.random() < 0.5 or not marks else max(1, rng.choice(marks) + rng.choice([-10020, -10, 0, 5, 60000, 120000, 500000]))
            boot = (W32 - w) % W32; tags.append('boot:wrap-inside')
        else:
            # a stamp sampled at the entry of some relay_hi is exactly 0 (excluded by the property; model says ZERO)
            w = (rng.choice(marks) - 10020) if marks else 0
            boot = (W32 - max(0, w)) % W32; tags.append('boot:zero-stamp-aimed')
        return F.Case(cid, [('CFG', [boot, n, late, 0], b'')] + evs, tags)

    def gen_sys(self, rng, cid, tier, boot=None, legacy_buttons=False):
        n = rng.choice([1, 1, 2, 3, 4, 4])
        btn = rng.choice([0, 2, 2, 4, 4])
        bflags = rng.choice([0, 0x10]) if btn == 2 else 0
        mmode = rng.choice([0, 0, 0, 1, 2]); up_ms = rng.choice([1500, 3000, 8000]); down_ms = rng.choice([1500, 3000, 8000])
        rsflags = rng.choice([0, 0, 0x1000]); t1 = rng.choice([0, 2000, 5000]); t2 = t1 if rng.random() < 0.7 else rng.choice([0, 2000, 5000])
        # which relays have a button: INPUT_MAX_COUNT = 7 < 8 relays of a full board, so the pairs go to three shutters chosen by
        # a mask (the last shutter — relay table slots 6 and 7 — is in the mask in most 4-shutter cases) + one single extra button
        mask = 0; extra = 0; pins = {}
        if btn:
            if n == 4 and not legacy_buttons:
                mask = rng.choice([0b1110, 0b1110, 0b1101, 0b1011, 0b0111])
                missing = [i for i in range(4) if not mask >> i & 1][0]
                extra = 1 + 2 * missing + rng.randrange(2) if rng.random() < 0.7 else 0
            else: mask = (1 << min(n, 3)) - 1
            k = 0
            for i in range(n):
                if mask >> i & 1 and k < 3: pins[(i, 0)] = 9 + 2 * k; pins[(i, 1)] = 10 + 2 * k; k += 1
            if extra: pins[((extra - 1) // 2, (extra - 1) % 2)] = 15
        # a share of the monostable boards has action-trigger capable buttons: the server enables some triggers (advanced input mode);
        # a HOLD that is not an active trigger then drives the shutter through supla_esp_input_send_action_trigger
        atcap = AT_CAPS if (btn == 2 and not legacy_buttons and rng.random() < 0.35) else 0
        tags = ['sys', 'n%d' % n, 'btn%d' % btn, 'motor%d' % mmode, 'autocal' if rsflags else 'manual', 'calibrated' if t1 else 'uncalibrated']
        if n == 4 and ((3, 0) in pins or (3, 1) in pins): tags.append('button-on-last-slots')
        # espconn_connect happens 200 ms after boot; the register call leaves at 500 ms; the first watchdog tick is at 1 s
        evs = [('ADV', [300000], b''), ('CONNCB', [], b''), ('ADV', [300000], b''), ('REGOK', [rng.choice([30, 30, 10])], b''), ('ADV', [rng.choice([100000, 600000, 1100000])], b'')]
        t_est = 600000 + evs[-1][1][0]; rr = 2; marks = []
        L = rng.choice([6, 10, 16, 24])
        if atcap:
            tags.append('at-buttons')
            kk = 0
            for i2 in range(n):
                if mask >> i2 & 1 and kk < 3:
                    for w2 in (0, 1):
                        evs.append(('SRV', [CALL_CFG_RESULT, rr], at_config(5 + 2 * kk + w2, rng.choice([1 << 12, (1 << 11) | (1 << 12), 1 << 12])))); rr += 1
                    kk += 1
            evs.append(('ADV', [200000], b'')); t_est += 200000
        pressed = {}
        def press(p, hold):
            nonlocal t_est
            lvl = 0 if pressed.get(p) else 1
            evs.append(('IN', [p, lvl], b'')); pressed[p] = lvl
            evs.append(('ADV', [hold], b'')); t_est += hold; marks.append(t_est)
            if btn == 2 or rng.random() < 0.5:
                evs.append(('IN', [p, 1 - lvl], b'')); pressed[p] = 1 - lvl
                evs.append(('ADV', [150000], b'')); t_est += 150000; marks.append(t_est)
        for _ in range(L):
            k = rng.random(); i = rng.randrange(n) if rng.random() < 0.7 else n - 1
            if k < 0.12 and pins:
                # one output is driven (server command or button), then the button of the OPPOSITE output is used while it is on
                (j, w) = rng.choice(sorted(pins))
                if rng.random() < 0.6 or (j, 1 - w) not in pins:
                    evs.append(('SRV', [CALL_SET_VALUE, rr], set_value(j, 2 if w == 1 else 1))); rr += 1
                else: press(pins[(j, 1 - w)], 150000)
                dt = rng.choice([1150000, 1500000, 2200000]); evs.append(('ADV', [dt], b'')); t_est += dt; marks.append(t_est)
                press(pins[(j, w)], rng.choice([150000, 300000, 1300000]))
            elif k < 0.40:
                v = rng.choice([0, 1, 2, 3, 4, 5, 0, 1, 2, rng.randrange(10, 111), 255, rng.choice([6, 9, 111, 200])])
                evs.append(('SRV', [CALL_SET_VALUE, rr], set_value(i, v, tilt=rng.choice([0, 255, rng.randrange(10, 111)])))); rr += 1
                marks.append(t_est)
            elif k < 0.55 and pins:
                cand = [q for q in sorted(pins) if q[0] == i] or sorted(pins)
                press(pins[rng.choice(cand)], rng.choice([30000, 150000, 150000, 300000, 700000, 1300000]))
            elif k < 0.58:
                evs.append(('SRV', [CALL_CALCFG, rr], calcfg_recalibrate(i, rng.choice([1, 1, 0])))); rr += 1
            elif k < 0.60 and not legacy_buttons:
                # connection lost and re-established in the middle of the activity (reconnect, registration again)
                evs += [('DISCCB', [], b''), ('ADV', [rng.choice([300000, 2500000])], b''), ('CONNCB', [], b''), ('ADV', [300000], b''), ('REGOK', [30], b'')]
                t_est += 3000000; tags.append('reconnect')
            elif k < 0.70:
                ch = i if i < 3 else rng.randrange(3)   # ButtonsUpsideDown on channel >= 3 is the out-of-bounds defect of C03, not ours
                if rng.random() < 0.3 and not legacy_buttons:
                    # facade-blind function: supla_esp_gpio_fb_apply_new_config (own copy of the motor swap), tilting time / type
                    evs.append(('SRV', [rng.choice([CALL_CFG_RESULT, CALL_SET_CFG]), rr],
                                fb_config(ch, motor=rng.choice([0, 1, 2, 2]), buttons=rng.choice([0, 1, 2]), margin=rng.choice([0, -1, 1]),
                                          ct=rng.choice([0, t2]), ot=rng.choice([0, t1]), tt=rng.choice([0, 500, 1500]), tilt_type=rng.choice([0, 1, 2, 3])))); rr += 1
                    tags.append('fb-config'); continue
                evs.append(('SRV', [rng.choice([CALL_CFG_RESULT, CALL_SET_CFG]), rr],
                            rs_config(ch, motor=rng.choice([0, 1, 2, 2]), buttons=rng.choice([0, 1, 2]), margin=rng.choice([0, -1, 1, 30]),
                                      ct=rng.choice([0, t2]), ot=rng.choice([0, t1])))); rr += 1
            elif k < 0.74:
                evs.append(('SENSOR', [i, rng.randrange(3)], b''))
            else:
                dt = rng.choice(self.GAPS) if rng.random() < 0.7 else rng.randrange(1000, 6000000)
                evs.append(('ADV', [dt], b'')); t_est += dt
        evs.append(('ADV', [rng.choice([1500000, 4000000])], b''))
        if boot is None:
            k = rng.random()
            if k < 0.3: boot = 1; tags.append('boot:1')
            elif k < 0.4: boot = rng.randrange(1, 60000000); tags.append('boot:small')
            else:
                w = (rng.randrange(200000, max(200001, t_est)) if rng.random() < 0.5 or not marks else max(200000, rng.choice(marks) + rng.choice([5, 3337, 60011, 120013, 500017, 950003]))) | 1
                boot = (W32 - w) % W32; tags.append('boot:wrap-inside')
        # running clock: each read of the counter costs 1 us (as on the chip, time passes inside a call) in a share of the cases
        tick = 0 if legacy_buttons else rng.choice([0, 1, 1])
        if tick: tags.append('running-clock')
        cfg = [boot, n, 0, 1, btn, bflags, mmode, up_ms, down_ms, rng.choice([0, 300]), rsflags, t1, t2, 0, mask if n == 4 and not legacy_buttons else 0, extra, tick, atcap]
        return F.Case(cid, [('CFG', cfg, b'')] + evs, tags)

    def gen_cases(self, rng, n, tier):
        cases = []
        for i in range(n):
            if rng.random() < self.SYS_SHARE: cases.append(self.gen_sys(rng, '%ss%d' % (tier[0], i), tier))
            else: cases.append(self.gen_unit(rng, '%su%d' % (tier[0], i), tier))
        return cases

    # ---------------- comparison: unit cases only, ZERO/ZEROSAMPLE lines are out of band
    @staticmethod
    def is_unit(case):
        return bool(case.evs) and case.evs[0][0] == 'CFG' and len(case.evs[0][1]) >= 4 and case.evs[0][1][3] == 0
    def compare(self, case, mo, io):
        if not self.is_unit(case): return None
        (ms, ml), (is_, il) = mo, io
        ml = [o for o in ml if o[0] not in ('ZERO',)]; il = [o for o in il if o[0] not in ('ZEROSAMPLE', 'DEBUG')]
        return F.PropCheck.compare(self, case, (ms, ml), (is_, il))
    def nontrivial(self, case, io): return any(o[0] == 'GPIO' for o in io[1])

    # ---------------- monitor: the property text on the GPIO log of the implementation
    def edges(self, case, outs):
        """[(idx, t, which, level)] from either output format"""
        res = []
        for (k, a, _) in outs:
            if k != 'GPIO': continue
            if len(a) == 4: res.append((a[0], a[1], a[2], a[3]))
            elif len(a) == 3:
                t, pin, lvl = a
                if 1 <= pin <= 8: res.append(((pin - 1) // 2, t, (pin - 1) % 2, lvl))
        return res
    def monitor(self, case, status, outs):
        if status != 'ok': return []          # no memory-safety clause in C08
        zero = any(o[0] == 'ZEROSAMPLE' for o in outs)
        on = {}; fall = {}; v = []
        for (idx, t, w, lvl) in self.edges(case, outs):
            a = on.setdefault(idx, [0, 0])
            if lvl == 1:
                if a[1 - w]:
                    v.append('shutter %d: both outputs energised at t=%d us (pin %d raised while pin %d is on)' % (idx, t, pin_of(idx, w), pin_of(idx, 1 - w)))
                if idx in fall and t - fall[idx] < SPACING_US and not zero:
                    v.append('shutter %d: output pin %d switched on at t=%d us, only %d us after the outputs were switched off at t=%d us (< 0.9 s)' %
                             (idx, pin_of(idx, w), t, t - fall[idx], fall[idx]))
                a[w] = 1
            else:
                a[w] = 0; fall[idx] = t
        return v[:3]

CHECK = C08()
