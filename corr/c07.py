"""C07 — countdown / staircase timers: generators, implementation-side monitor, check definition."""
import os, sys
import framework as F

RC = None
def consts():
    global RC
    if RC is None: RC = F.G.load('RelayConsts')
    return RC

GPIOS = [1, 2, 3, 4, 5, 12, 13, 14, 15, 0]
RELAY_OP_US = None
def relay_op_us():
    return 10 + consts()['DOUBLE_TRY_US'] + 10

def build_driver(name):
    W = os.path.join(F.VERIF, 'harness', 'wrap')
    return F.build_c(name, os.path.join(F.VERIF, 'harness', 'drv', name + '.c'), wrap=('srpc', 'proto'),
                     exclude=('devconn', 'supla_esp_countdown_timer'),
                     extra_srcs=[os.path.join(W, 'c07_devconn_wrap.c'), os.path.join(W, 'c07_cdt_wrap.c')])

def cfg_event(boot, boot2, sbt, lateflags, relays, time2, late, rest=()):
    ints = [boot, boot2, sbt, 1 if lateflags else 0, len(relays)]
    for r in relays: ints += list(r)
    ints += [len(time2)] + list(time2) + [len(late)] + list(late) + list(rest)
    return ('CFG', ints, b'')

def parse_cfg(ints):
    it = iter(ints); nx = lambda: next(it, 0)
    boot, boot2, sbt, lf, n = nx(), nx(), nx(), nx(), nx()
    relays = [(nx(), nx(), nx(), nx()) for _ in range(n)]
    t2 = [nx() for _ in range(nx())]; late = [nx() for _ in range(nx())]
    return dict(boot=boot, boot2=boot2, sbt=sbt, lateflags=lf, relays=relays, time2=(t2 + [0] * 8)[:8], late=late, rest=list(it))

def chcfg_time(ints):
    """CHCFG ch func cfgtype cfgsize TimeMS -> (channel, staircase time the message carries) or None when it says nothing about a relay"""
    ch, fn, ct, cs, ms = (list(ints) + [0] * 5)[:5]
    K = consts()
    if fn > 0 and ct == 0 and cs == 0: return None
    if fn not in (K['FNC_STAIRCASE'], K['FNC_POWERSWITCH'], K['FNC_LIGHTSWITCH']): return None
    if not 0 <= ch < K['T2_COUNT']: return None
    return ch, ((ms & 0xffffffff) if fn == K['FNC_STAIRCASE'] and ct == 0 and cs == K['SIZEOF_STAIR_CFG'] else 0)

def aged_boot(rng):
    """counter value + preset wrap count of an aged device: uptime straddles or lies beyond 2^32 ms (49.7 days)"""
    k = rng.random()
    if k < 0.5: return 999 * 2**32 + (2**32 - rng.choice([1, 50000, 400000, 1500000, 3000000, rng.randrange(1, 8000000)]))   # 2^32 ms passed after the next wrap
    if k < 0.8: return 1000 * 2**32 + rng.choice([0, 1, 999, 1001, rng.getrandbits(31)])
    return rng.choice([1001, 1500, 4000]) * 2**32 + rng.getrandbits(32)

class C07(F.PropCheck):
    pid = 'C07'; gen_groups = ['RelayConsts']; prop_file = 'Properties_C07'
    IN = {'CFG': 0, 'SET': 1, 'SW': 2, 'ADV': 3, 'CRASH': 4, 'TIME2': 5, 'FLAGS': 6, 'CHCFG': 7}
    OUT = {0: 'GPIO', 1: 'REBOOT', 2: 'SAVED', 3: 'ST', 4: 'FUEL', 5: 'UNKNOWN-EVENT'}
    quick_cases = 2500; thorough_cases = 60000
    JMAX_PROPERTY = 49000       # the property's "scheduling slack": callbacks late by less than 50 ms
    trusted_extra = ['C07 driver harness/include/c07_core.h: device booted in user_init order from the flash double; commands injected by direct '
                     'calls of supla_esp_channel_set_value / supla_esp_gpio_relay_switch; devconn initialised but offline, its watchdog disarmed; '
                     'CRASH = execv of the driver keeping only the two flash sectors',
                     'timer double of harness/doubles/doubles.c ((due,seq) order, cyclic lateness script, periodic re-arm at due+period)',
                     'gen/grp_c07.py: literals 10/50/1000 and the tail call of countdown() extracted by regular expressions']
    assumptions = ['no wrap of the 32-bit microsecond counter inside a run for the timing theorems (H_nowrap); the model itself follows uptime.c through wraps',
                   'relay channel numbers and gpios of a board are pairwise different, channels < 8, gpios < 16 (wf_cfg)',
                   'upper bound under H_gap S: consecutive evaluations of a running slot are at most (armed period + S) apart']
    rule = ('boards of 1-8 relays (flag combinations restore/force/reset/lo-level, countdown capability, staircase times, button type, late channel flags) x '
            '5-40 events {timed/untimed set 0/1/other, local switch, advance (0, short, aimed at the expiry +-, long), crash, staircase change} x '
            'lateness scripts (none / <=30 ms / large) x counter start (1 / near the 32-bit wrap); non-trivial = at least one switch-back or restore observed')

    def build_impl(self): return build_driver('c07')

    # ---------------- generator
    def gen_board(self, rng, tier):
        n = rng.choice([1, 1, 2, 2, 3, 4, 8]); gp = rng.sample(GPIOS, n)
        chans = list(range(n))
        if rng.random() < 0.25: chans = rng.sample(range(8), n)
        cd = consts()['CHFLAG_COUNTDOWN']
        relays = []
        for i in range(n):
            f = rng.choice([0, 0, 2, 2, 4, 1, 16, 18, 20, 2 | 16, 4 | 16, 6])
            relays.append((gp[i], chans[i], f, cd if rng.random() < 0.55 else 0))
        t2 = [0] * 8
        for i in range(n):
            if rng.random() < 0.3: t2[chans[i]] = rng.choice([100, 300, 499, 500, 510, 1500, 3000, 12000])
        k = rng.random()
        if k < 0.5: late = []
        elif k < 0.9: late = [rng.choice([0, 0, 1000, 5000, 20000, 30000, rng.randrange(30001)]) for _ in range(rng.randrange(1, 9))]
        else: late = [rng.choice([0, 60000, 200000, rng.randrange(400000)]) for _ in range(rng.randrange(1, 5))]
        boot = 1 if rng.random() < 0.8 else rng.choice([0, 999, 2**32 - rng.randrange(1, 5000000), rng.getrandbits(32)])
        if rng.random() < 0.07: boot = aged_boot(rng)
        boot2 = rng.choice([1, 1, 1, 5000, rng.getrandbits(31)])
        return dict(boot=boot, boot2=boot2, sbt=rng.choice([0, 0, 1]), lateflags=rng.random() < 0.08, relays=relays, time2=t2, late=late)

    def gen_case(self, rng, cid, tier):
        b = self.gen_board(rng, tier); rel = b['relays']; tags = []
        evs = [cfg_event(b['boot'], b['boot2'], b['sbt'], b['lateflags'], rel, b['time2'], b['late'])]
        if b['lateflags']:
            tags.append('lateflags')
            if rng.random() < 0.8: evs.append(('FLAGS', [], b''))
        if b['late']: tags.append('jitter-big' if max(b['late']) > self.JMAX_PROPERTY else 'jitter')
        if b['boot'] >= 2**32: tags.append('aged')
        elif b['boot'] > 2**31: tags.append('counter-wrap')
        t2now = list(b['time2'])
        pend = {}      # relay index -> rough remaining ms, to aim advances
        nev = rng.choice([5, 8, 12, 20, 40]); crash = False
        for _ in range(nev):
            k = rng.random(); i = rng.randrange(len(rel)); g, ch, f, cf = rel[i]
            if k < 0.34:
                v = rng.choice([0, 1, 1, 1, 0, 1, 2, -1, 255 - 256, 127])
                d = rng.choice([0, 0, 1, 2, 49, 50, 51, 99, 100, 300, 499, 500, 501, 509, 510, 1000, 2500, 9999, 10000, 10010, 60000,
                                rng.randrange(1, 700), rng.randrange(1, 5000), rng.randrange(1, 200000)])
                if rng.random() < 0.02: d = rng.choice([3600000, 2**31 - 1, 2**31, 2**32 - 1])
                evs.append(('SET', [ch, v, d, rng.choice([0, 7, 123456, -5])], b'')); pend[i] = d
                tags.append('set-timed' if d else 'set')
            elif k < 0.44:
                evs.append(('SW', [g, rng.choice([255, 255, 1, 0])], b'')); tags.append('switch'); pend[i] = b['time2'][ch] if ch < 8 else 0
            elif k < 0.9:
                m = rng.random()
                if m < 0.1: dt = 0
                elif m < 0.3: dt = rng.choice([1, 999, 1000, 10000, 40000, 50000, 100000])
                elif m < 0.7 and pend:
                    j = rng.choice(list(pend)); base = pend[j] * 1000
                    dt = max(0, base + rng.choice([-60000, -10030, -1000, -1, 0, 1, 1000, 50000, 99999, 100001, 160000, 400000]))
                    dt = min(dt, 400000000)
                elif m < 0.95: dt = rng.randrange(0, 3000000)
                else: dt = rng.choice([10000000, 60000000, 120000000])
                evs.append(('ADV', [dt], b''))
            elif k < 0.955:
                evs.append(('CRASH', [], b'')); crash = True; tags.append('crash')
                if b['lateflags'] and rng.random() < 0.7: evs.append(('FLAGS', [], b''))
            elif k < 0.97:
                c2 = ch if ch < 8 else 0; ms = rng.choice([0, 100, 700, 5000])
                evs.append(('TIME2', [c2, ms], b'')); tags.append('time2'); t2now[c2] = ms
            elif k < 0.985:
                evs.append(self.gen_chcfg(rng, ch, t2now)); tags.append('chcfg')
                r = chcfg_time(evs[-1][1])
                if r: t2now[r[0]] = r[1]
            else:
                evs.append(('FLAGS', [], b''))
        evs.append(('ADV', [rng.choice([0, 200000, 1500000, 3000000])], b''))
        return F.Case(cid, evs, sorted(set(tags)))

    def gen_chcfg(self, rng, ch, t2now):
        """a channel config message: mostly a relay function, value unchanged / changed, sometimes malformed or for another function"""
        K = consts(); c2 = ch if rng.random() < 0.9 else rng.choice([0, 7, 8, 200])
        cur = t2now[c2] if 0 <= c2 < 8 else 0
        k = rng.random()
        if k < 0.45:     # unchanged (what the server sends after every registration)
            return ('CHCFG', [c2, K['FNC_STAIRCASE'], 0, K['SIZEOF_STAIR_CFG'], cur], b'') if cur > 0 else \
                   ('CHCFG', [c2, rng.choice([K['FNC_POWERSWITCH'], K['FNC_LIGHTSWITCH']]), 0, rng.choice([4, 8, 12]), rng.choice([0, 700])], b'')
        if k < 0.75: return ('CHCFG', [c2, K['FNC_STAIRCASE'], 0, K['SIZEOF_STAIR_CFG'], rng.choice([0, 100, 300, 700, 5000, cur + 1])], b'')
        if k < 0.85: return ('CHCFG', [c2, rng.choice([K['FNC_POWERSWITCH'], K['FNC_LIGHTSWITCH']]), 0, rng.choice([4, 8]), 0], b'')
        return ('CHCFG', [c2, rng.choice([0, 20, K['FNC_STAIRCASE'], K['FNC_POWERSWITCH']]), rng.choice([0, 0, 1]), rng.choice([0, 0, 3, 8]), rng.choice([0, 500])], b'')

    def gen_special(self, rng, cid):
        """(1) a config message in the middle of a countdown, (2) an aged device (uptime around / beyond 2^32 ms), (3) power loss long after
        a timed / cancelling command that left the relay level unchanged"""
        K = consts(); cd = K['CHFLAG_COUNTDOWN']
        kind = rng.random()
        if kind < 0.3:
            n = rng.choice([1, 2]); gp = rng.sample(GPIOS, n)
            rel = [(gp[i], i, rng.choice([2, 4, 2 | 16, 6]), cd if rng.random() < 0.5 else 0) for i in range(n)]
            t2 = [0] * 8; i = rng.randrange(n)
            if rng.random() < 0.25: t2[i] = rng.choice([20000, 60000])
            evs = [cfg_event(1, 1, 0, False, rel, t2, [])]
            d = rng.choice([20000, 60000]); on = lambda: rng.choice([('SET', [i, 1, 0, 5], b''), ('SW', [gp[i], 1], b'')])
            if rng.random() < 0.5:      # A: relay already on, then "on for d"
                evs += [on(), ('ADV', [rng.choice([1300000, 2500000])], b''), ('SET', [i, 1, d, 6], b'') if not t2[i] or rng.random() < 0.5 else ('SW', [gp[i], 1], b'')]
            else:                       # B: "on for d", then a plain "on" cancels
                evs += [('SET', [i, 1, d, 6], b''), ('ADV', [rng.choice([1300000, 2500000])], b''), on()]
            evs += [('ADV', [rng.choice([1400000, 3000000, 5000000])], b''), ('CRASH', [], b''), ('ADV', [d * 1000 + 2000000], b'')]
            return F.Case(cid, evs, ['power-loss'])
        if kind < 0.65:
            n = rng.choice([1, 2, 3]); gp = rng.sample(GPIOS, n)
            rel = [(gp[i], i, rng.choice([0, 0, 16, 2]), cd if rng.random() < 0.5 else 0) for i in range(n)]
            t2 = [0] * 8; i = rng.randrange(n)
            stair = rng.random() < 0.5
            if stair: t2[i] = rng.choice([800, 1500, 3000])
            evs = [cfg_event(1, 1, rng.choice([0, 1]), False, rel, t2, rng.choice([[], [], [0, 10000]]))]
            d = t2[i] if stair else rng.choice([900, 2000, 4000])
            evs.append(('SET', [i, 1, 0 if stair and rng.random() < 0.5 else d, 5], b'') if rng.random() < 0.8 or not stair else ('SW', [gp[i], 1], b''))
            evs.append(('ADV', [rng.choice([100000, 300000, d * 500])], b''))
            for _ in range(rng.choice([1, 1, 2])):
                evs.append(self.gen_chcfg(rng, i, t2))
                r = chcfg_time(evs[-1][1])
                if r: t2[r[0]] = r[1]
                evs.append(('ADV', [rng.choice([0, 50000, 200000])], b''))
            evs.append(('ADV', [d * 1000 + rng.choice([200000, 1000000])], b''))
            return F.Case(cid, evs, ['chcfg-running'])
        n = rng.choice([1, 2, 4]); gp = rng.sample(GPIOS, n)
        rel = [(gp[i], i, rng.choice([0, 0, 16, 2]), cd if rng.random() < 0.5 else 0) for i in range(n)]
        evs = [cfg_event(aged_boot(rng), 1, 0, False, rel, [0] * 8, rng.choice([[], [], [0, 10000]]))]
        for i in range(n):
            evs.append(('SET', [i, 1, rng.choice([300, 1200, 5000, 60000]), 3], b'')); evs.append(('ADV', [rng.choice([0, 20000, 400000])], b''))
        evs.append(('ADV', [rng.choice([1100000, 3000000, 6000000])], b''))
        if rng.random() < 0.3: evs += [('CRASH', [], b''), ('ADV', [2000000], b'')]
        evs.append(('ADV', [rng.choice([0, 61000000])], b''))
        return F.Case(cid, evs, ['aged'])

    def gen_overlap(self, rng, cid):
        """many channels expiring together / command storms: aims at the shared timer"""
        n = rng.choice([4, 6, 8]); gp = rng.sample(GPIOS, n); cd = consts()['CHFLAG_COUNTDOWN']
        rel = [(gp[i], i, rng.choice([0, 0, 16, 2]), cd if rng.random() < 0.5 else 0) for i in range(n)]
        evs = [cfg_event(1, 1, 0, False, rel, [0] * 8, rng.choice([[], [0, 10000], [20000]]))]
        kind = rng.choice(['together', 'storm', 'stagger', 'alive'])
        if kind == 'alive':
            # 5..8 plain relays (no countdown capability), 5..n "on for d" alive at the same time, in any order, then past all deadlines
            n = rng.choice([5, 6, 7, 8]); gp = rng.sample(GPIOS, n)
            rel = [(gp[i], i, rng.choice([0, 0, 16]), 0) for i in range(n)]
            evs = [cfg_event(1, 1, 0, False, rel, [0] * 8, rng.choice([[], [], [0, 10000]]))]
            for rnd in range(rng.choice([1, 1, 2])):
                order = rng.sample(range(n), rng.randrange(5, n + 1)); dmax = 0
                for i in order:
                    d = rng.randrange(400, 3000); dmax = max(dmax, d)
                    evs.append(('SET', [i, 1, d, 10 + i], b'')); evs.append(('ADV', [rng.choice([0, 1000, 12000, 30000])], b''))
                evs.append(('ADV', [dmax * 1000 + rng.choice([400000, 1000000])], b''))
            return F.Case(cid, evs, ['overlap-alive'])
        if kind == 'together':
            base = rng.choice([120, 301, 480, 777, 2000]); step = rng.choice([10, 10, 9, 11, 0])
            for i in range(n):
                evs.append(('SET', [i, 1, max(1, base - step * i), i], b''))
                if rng.random() < 0.3: evs.append(('ADV', [0], b''))
            evs.append(('ADV', [base * 1000 + 600000], b''))
        elif kind == 'storm':
            evs.append(('SET', [0, 1, rng.choice([600, 1000, 3000]), 1], b''))
            for k in range(rng.choice([10, 30, 60])):
                evs.append(('ADV', [rng.choice([20000, 30000, 39000])], b''))
                evs.append(('SET', [1, 1, rng.choice([400, 20000]) if rng.random() < 0.3 else (400 if k % 2 == 0 else 20000), 2], b''))
            evs.append(('ADV', [4000000], b''))
        else:
            for i in range(n):
                evs.append(('SET', [i, 1, rng.randrange(100, 1500), i], b'')); evs.append(('ADV', [rng.randrange(0, 120000)], b''))
            evs.append(('ADV', [2500000], b''))
        return F.Case(cid, evs, ['overlap-' + kind])

    def gen_cases(self, rng, n, tier):
        cases = []
        for i in range(n):
            if i % 12 == 11: cases.append(self.gen_overlap(rng, '%s%d' % (tier[0], i)))
            elif i % 12 == 5: cases.append(self.gen_special(rng, '%s%d' % (tier[0], i)))
            else: cases.append(self.gen_case(rng, '%s%d' % (tier[0], i), tier))
        if tier == 'thorough': cases += self.every_ms_cases()
        return cases

    def every_ms_cases(self):
        """short timers: command phase swept over every 1/4 ms of a period, crash at every 10 ms of a running timer"""
        cd = consts()['CHFLAG_COUNTDOWN']; cases = []
        for d in (1, 49, 50, 51, 120, 499, 500, 501, 777):
            for ph in range(0, 50000, 250):
                evs = [cfg_event(1, 1, 0, False, [(4, 0, 2, cd), (5, 1, 2, cd)], [0] * 8, []), ('SET', [0, 1, 5000, 1], b''), ('ADV', [ph], b''),
                       ('SET', [1, 1, d, 2], b''), ('ADV', [d * 1000 + 300000], b'')]
                cases.append(F.Case('ph%d_%d' % (d, ph), evs, ['sweep-phase']))
        for tcr in range(1000, 4000, 10):
            evs = [cfg_event(1, 1, 0, False, [(4, 0, 2, cd), (5, 1, 6, 0)], [0, 2500] + [0] * 6, []), ('SET', [0, 0, 3000, 1], b''), ('SW', [5, 255], b''),
                   ('ADV', [tcr * 1000], b''), ('CRASH', [], b''), ('ADV', [4000000], b'')]
            cases.append(F.Case('cr%d' % tcr, evs, ['sweep-crash']))
        return cases

    # ---------------- monitor: the property text evaluated on the implementation trace (no model involved)
    def monitor(self, case, status, outs):
        if not case.evs or case.evs[0][0] != 'CFG': return []      # (shrinking may drop the board line: not a case)
        if status != 'ok': return ['implementation crashed (%s)' % status]
        cfg = parse_cfg(case.evs[0][1]); rel = cfg['relays']; nrel = len(rel)
        if len(set(r[0] for r in rel)) != nrel or len(set(r[1] for r in rel)) != nrel: return []     # ambiguous boards are left to the comparison
        jmax = max(cfg['late']) if cfg['late'] else 0
        OP = relay_op_us(); LO = consts()['FLAG_LO_LEVEL']; RST = consts()['FLAG_RESTORE'] | consts()['FLAG_RESTORE_FORCE']
        # split the outputs into segments, one per ST line: segment 0 = first boot, segment k = event k
        segs = []; cur = []
        for o in outs:
            cur.append(o)
            if o[0] == 'ST': segs.append(cur); cur = []
        evs = case.evs[1:]
        if len(segs) < 1 or any(o[0] in ('FUEL', 'UNKNOWN-EVENT') for o in outs): return []
        v = []
        def st_of(seg):
            ints = seg[-1][1]; per = ints[3:]
            return dict(t=ints[0], delay=ints[1], armed=ints[2], rem=[per[4 * i] for i in range(nrel)], t2l=[per[4 * i + 1] for i in range(nrel)],
                        rel=[per[4 * i + 2] for i in range(nrel)], pin=[per[4 * i + 3] for i in range(nrel)])
        pinidx = {r[0]: i for i, r in enumerate(rel)}; chidx = {r[1]: i for i, r in enumerate(rel)}
        pending = [None] * nrel        # (t_from for 'not earlier', t_from for 'not later', dur_ms, level_after_cmd)
        weird = [False] * nrel         # last command carried a value other than 0/1: outside the statement, nothing is checked
        time2 = list(cfg['time2'])
        busy = []                      # (t_start, t_end) of every relay operation seen (a GPIO edge or a command)
        saved = ([0] * 8, [0] * 8)     # flash image of Relay[], Time2Left[]
        cancelled = [False] * nrel     # the channel's timer was cancelled by a command and no newer one armed: nothing may remain of it, here or in flash
        prev = st_of(segs[0]); tprev = 0
        RSTF = consts()['FLAG_RESET']
        def reset_clause(s_, when):
            for i in range(nrel):
                g, ch, f, cf = rel[i]
                if (f & RSTF) and not (f & RST) and s_['pin'][i] != (1 if f & LO else 0):
                    v.append('RESET-FLAG %s relay gpio %d (RELAY_FLAG_RESET, no restore) is on' % (when, g))
        reset_clause(prev, 'after the first boot')
        by_cmd = [False] * nrel        # the pending timer was armed by a server command / local switch (the same handler drives the relay and schedules the state save)
        cancel_cmd = [False] * nrel    # ... cancelled by one
        lastop = prev['t']             # latest time at which a relay operation may have (re)started the delayed state save
        SAVE_US = consts()['SAVE_DELAY_MS'] * 1000 + jmax + 300000
        flags_known = not cfg['lateflags']      # channel_flags filled (board fills them in gpio_init, or FLAGS event since the last boot)
        lastrem = list(prev['rem']); lastt2 = list(prev['t2l'])
        for k, seg in enumerate(segs[1:]):
            if k >= len(evs): break
            e = evs[k]; t0 = prev['t']; s = st_of(seg)
            target = None
            if e[0] == 'SET' and (e[1][0] & 255) in chidx: target = chidx[e[1][0] & 255]
            if e[0] == 'SW' and e[1][0] in pinidx: target = pinidx[e[1][0]]
            cc = chcfg_time(e[1]) if e[0] == 'CHCFG' else None
            if cc is not None and cc[1] != time2[cc[0]]:          # a CHANGED staircase time is a command on that channel: the timer is set up anew
                time2[cc[0]] = cc[1]
                if cc[0] in chidx: target = chidx[cc[0]]
            crashed = e[0] == 'CRASH'
            if crashed: flags_known = not cfg['lateflags']
            if e[0] == 'FLAGS': flags_known = True
            img = saved
            for o in seg[:-1]:
                if o[0] == 'SAVED':
                    saved = (o[1][1:9], o[1][9:17])
                    for i in range(nrel):
                        if cancelled[i] and rel[i][1] < 8 and saved[1][rel[i][1]] != 0:
                            v.append('CANCEL-KEPT the state sector written at %d us still holds %d ms of remaining time for gpio %d whose timer was cancelled by a command' % (o[1][0], saved[1][rel[i][1]], rel[i][0]))
                            cancelled[i] = False
                if o[0] != 'GPIO': continue
                t, p, lv = o[1]
                if p not in pinidx: continue
                i = pinidx[p]; busy.append((t - 10, t - 10 + OP)); lastop = max(lastop, t)
                if crashed or i == target: continue          # the command's own switching / restore at boot
                if weird[i]: continue
                pd = pending[i]
                if pd is None:
                    v.append('relay gpio %d changed to %d at %d us without a command and without a pending timer (cancelled or already fired switch-back)' % (p, lv, t)); continue
                tlo, tc, d, lvl = pd; pending[i] = None
                if lv == lvl: continue
                el = t - tc
                if t - tlo <= (d - 1) * 1000:
                    v.append('switch-back of gpio %d came %d us after the command, earlier than its duration of %d ms' % (p, t - tlo, d))
                elif el > d * 1000 + 100000 and jmax <= self.JMAX_PROPERTY:
                    # time in which the CPU sat in the busy-wait of other relay operations between expiry and this edge
                    bz = sum(max(0, min(b1, t - 10) - max(b0, tc + d * 1000)) for (b0, b1) in busy[:-1])
                    if el - bz <= d * 1000 + 100000:
                        v.append('LATE-BUSY switch-back of gpio %d came %d us after a command with duration %d ms (more than d+100 ms); %d us of that were busy-waits of other relay operations' % (p, el, d, bz))
                    else:
                        v.append('LATE switch-back of gpio %d came %d us after a command with duration %d ms (more than d+100 ms, only %d us of busy-wait)' % (p, el, d, bz))
            if target is not None: busy.append((t0, t0 + OP))
            # after the event: what is pending now?
            if not crashed and (any(prev['rem'][i] > 0 and s['rem'][i] == 0 for i in range(nrel)) or e[0] != 'ADV'): lastop = max(lastop, s['t'])
            if crashed:
                settled = t0 >= lastop + SAVE_US          # the last delayed save has certainly been written before the power loss
                lastop = s['t']
                for i in range(nrel):
                    g, ch, f, cf = rel[i]; pd0 = pending[i]; wasc = cancel_cmd[i]; wasb = by_cmd[i]
                    cancel_cmd[i] = False; by_cmd[i] = False
                    if settled and (f & RST) and ch < 8 and not weird[i]:
                        lv0 = prev['pin'][i] ^ (1 if f & LO else 0)
                        if pd0 is not None and wasb and t0 < pd0[1] + (pd0[2] - 1) * 1000 and s['rem'][i] == 0 and \
                           not (time2[ch] > 0 and lv0 == 0) and not (lv0 == 0 and not (cf & consts()['CHFLAG_COUNTDOWN'])):
                            v.append('RESTORE-LOST after the restart no timer is pending for gpio %d although a timer of %d ms was started %d us before the power loss (level %d), long after the delayed state save' %
                                     (g, pd0[2], t0 - pd0[1], lv0))
                        if prev['rel'][i] in (0, 1) and s['pin'][i] != prev['pin'][i]:
                            v.append('RESTORE-LEVEL after the restart relay gpio %d is at pin level %d, before the power loss (long after the delayed state save) it was at %d' % (g, s['pin'][i], prev['pin'][i]))
                        if wasc and pd0 is None and time2[ch] == 0 and s['rem'][i] > 0:
                            v.append('CANCEL-RESTORED after the restart a timer of %d ms runs for gpio %d although its timer had been cancelled by a command more than the state-save delay before the power loss' % (s['rem'][i], g))
                reset_clause(s, 'after the restart')
                for i in range(nrel):
                    g, ch, f, cf = rel[i]; pending[i] = None; cancelled[i] = False
                    if not (f & RST) or ch >= 8 or weird[i]: continue
                    want = img[0][i]; lvl = (1 if want == 1 else 0) ^ (1 if f & LO else 0)
                    if want in (0, 1) and s['pin'][i] != lvl:
                        v.append('after the restart relay gpio %d is at level %d but the saved state says %d' % (g, s['pin'][i], want))
                    if img[1][ch] > 0 and want in (0, 1):
                        stair = time2[ch] > 0
                        # saved "off" + remaining time on a channel without countdown capability is no "off for d" (not offered there): it is the
                        # switch-off timer a staircase config armed while the relay was off; there is nothing to restore
                        if s['rem'][i] == 0 and not (stair and want == 0) and not (want == 0 and not (cf & consts()['CHFLAG_COUNTDOWN'])):
                            v.append('RESTORE-LOST after the restart no timer is pending for gpio %d although %d ms were saved as remaining (saved level %d)' % (g, img[1][ch], want))
                        elif s['rem'][i] != 0 and not (img[1][ch] - (nrel * OP) // 1000 - 1 <= s['rem'][i] <= img[1][ch]):
                            v.append('after the restart the remaining time of gpio %d is %d ms, the saved one was %d ms' % (g, s['rem'][i], img[1][ch]))
                    if img[1][ch] == 0 and s['rem'][i] > 0 and time2[ch] == 0:
                        v.append('RESTORE-INVENTED after the restart a timer of %d ms runs for gpio %d although no remaining time was saved' % (s['rem'][i], g))
                    if s['rem'][i] > 0: pending[i] = (t0, s['t'], s['rem'][i], s['pin'][i])     # not later: counted from the end of the boot
                lastrem = list(s['rem']); lastt2 = list(s['t2l'])
            else:
                if e[0] == 'TIME2' and 0 <= e[1][0] < 8: time2[e[1][0]] = e[1][1]
                if target is not None:
                    had = pending[target] is not None and not weird[target]
                    weird[target] = e[0] == 'SET' and e[1][1] not in (0, 1)
                    d_exp = s['rem'][target]
                    # a command that leaves no timer cancels the pending one for good: nothing of it may stay behind (it would be saved and
                    # started again after a restart)
                    if had and d_exp == 0 and not weird[target]:
                        if s['t2l'][target] != 0:
                            v.append('CANCEL-KEPT the command cancelled the timer of gpio %d but %d ms of remaining time stay in the persisted state (Time2Left)' % (rel[target][0], s['t2l'][target]))
                        else: cancelled[target] = True
                    else: cancelled[target] = False
                    cancel_cmd[target] = had and d_exp == 0 and not weird[target] and e[0] in ('SET', 'SW')
                    if d_exp == 0 and e[0] == 'SET' and not weird[target]:
                        # the device shows no timer; does the statement demand one?  "on for d" always arms (staircase: its configured
                        # time unless the same remaining time is being restored), "off for d" arms on a channel whose countdown
                        # capability is known
                        g_, ch_, f_, cf_ = rel[target]; vv, dd = e[1][1], e[1][2]
                        stair = ch_ < 8 and time2[ch_] > 0
                        if vv == 1 and (0 < dd < 2**31 or stair): d_exp = max(dd if dd < 2**31 else 0, time2[ch_]) if stair else dd
                        elif vv == 0 and 0 < dd < 2**31 and not stair and (cf_ & consts()['CHFLAG_COUNTDOWN']) and flags_known: d_exp = dd
                    if e[0] == 'CHCFG':
                        # set_duration_timer(ch, 1, 0, 0): a timer that will switch OFF; no edge will come when the relay is off already
                        weird[target] = False
                        on = s['pin'][target] != (1 if rel[target][2] & LO else 0)
                        if not on: d_exp = 0
                    if e[0] == 'SW' and d_exp == 0 and s['t2l'][target] != 0 and not weird[target]:
                        v.append('CANCEL-KEPT after the local switch of gpio %d no timer runs but %d ms of remaining time stay in the persisted state (Time2Left)' % (rel[target][0], s['t2l'][target]))
                    if e[0] == 'SET' and not weird[target]:
                        # the duration the statement gives the timer (plain channels; "off for d" where it is offered): the published remaining time
                        # must be that duration minus the time the handler itself took
                        g_, ch_, f_, cf_ = rel[target]; vv, dd = e[1][1], e[1][2]
                        if ch_ < 8 and time2[ch_] == 0 and 0 < dd < 2**31 and (vv == 1 or ((cf_ & consts()['CHFLAG_COUNTDOWN']) and flags_known)):
                            if not (dd - (s['t'] - t0) // 1000 - 1 <= s['rem'][target] <= dd):
                                v.append('REMAINING-WRONG after "%s for %d ms" on gpio %d the published remaining time is %d ms' % ('on' if vv == 1 else 'off', dd, g_, s['rem'][target]))
                            d_exp = dd
                    pending[target] = (t0, t0, d_exp, s['pin'][target]) if d_exp > 0 and not weird[target] else None
                    by_cmd[target] = pending[target] is not None and e[0] in ('SET', 'SW') and s['rem'][target] > 0
                    lastrem[target] = s['rem'][target]; lastt2[target] = s['t2l'][target]
                for i in range(nrel):
                    if i == target: continue
                    if s['rem'][i] > lastrem[i]:
                        v.append('published remaining time of gpio %d rose from %d to %d ms without a command' % (rel[i][0], lastrem[i], s['rem'][i]))
                    lastrem[i] = s['rem'][i]
                    if e[0] not in ('SET', 'SW') and s['t2l'][i] > lastt2[i]:
                        v.append('persisted remaining time (Time2Left) of gpio %d rose from %d to %d ms without a command' % (rel[i][0], lastt2[i], s['t2l'][i]))
                    lastt2[i] = s['t2l'][i]
                # missing switch-back: time advanced beyond the deadline and the relay still waits
                if e[0] == 'ADV' and jmax <= self.JMAX_PROPERTY:
                    for i in range(nrel):
                        pd = pending[i]
                        if pd is None: continue
                        tlo, tc, d, lvl = pd
                        # the advance itself must have reached d+100 ms before its last ~relay operations; be exact: the clock at the end of the event
                        if s['t'] - nrel * OP > tc + d * 1000 + 100000 and s['pin'][i] == lvl:
                            v.append('LATE no switch-back of gpio %d %d us after a command with duration %d ms (clock is beyond d+100 ms)' % (rel[i][0], s['t'] - tc, d))
                            pending[i] = None; weird[i] = True      # reported once; nothing more is checked for this timer
            prev = s
        return v[:6]

    def finding_key(self, case, what):
        if what.startswith('LATE-BUSY'): return 'relay-busy-wait-delays-switch-back'
        if what.startswith('LATE ') and any(t == 'overlap-storm' for t in getattr(case, 'tags', ())): pass
        if what.startswith('RESTORE-LOST'):
            try:
                if parse_cfg(case.evs[0][1])['lateflags']: return 'restore-off-for-d-needs-channel-flags-at-init'
            except Exception: pass
        return None

    def nontrivial(self, case, io):
        return any(o[0] in ('GPIO', 'REBOOT') for o in io[1])

CHECK = C07()
