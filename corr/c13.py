"""C13 — stored configuration/state round-trip, identity through resets / migrations / failed saves:
generators, implementation-side monitor, check definition."""
import os, struct, sys
import framework as F

_L = None
def L():
    global _L
    if _L is None: _L = F.G.load('C13Layout')
    return _L

DRV = os.path.join(F.VERIF, 'harness', 'drv', 'c13.c')
WRAP = os.path.join(F.VERIF, 'harness', 'wrap', 'c13_cfgmode_wrap.c')

def rb(rng, n): return bytes(rng.getrandbits(8) for _ in range(n))
def nz(rng, n):
    while True:
        b = rb(rng, n)
        if any(b): return b
def put(img, off, v): return img[:off] + bytes(v) + img[off + len(v):]
def sl(img, off, n): return bytes(img[off:off + n])

# ------------------------------------------------------------------------------------------
# record images
def email(rng, kind=None):
    l = L(); n = l['EMAIL_SIZE']
    kind = kind or rng.choice(['ok', 'ok', 'ok', 'noat', 'nodot', 'empty', 'full'])
    if kind == 'empty': s = b''
    elif kind == 'full': return bytes(rng.choice(b'abcxyz@.') for _ in range(n))      # no terminator inside the field
    else:
        a = bytes(rng.choice(b'abcdefghijklmnopqrstuvwxyz0123456789') for _ in range(rng.randrange(1, 20)))
        b = bytes(rng.choice(b'abcdefghijklmnop') for _ in range(rng.randrange(1, 12)))
        s = a + (b'' if kind == 'noat' else b'@') + b + (b'' if kind == 'nodot' else b'.pl')
    rest = rb(rng, n - len(s) - 1) if rng.random() < 0.3 else bytes(n - len(s) - 1)
    return s + b'\0' + rest

def identity(rng, mode):
    l = L(); g = nz(rng, l['GUID_SIZE']); k = nz(rng, l['AUTHKEY_SIZE'])
    if mode in ('zg', 'zz'): g = bytes(len(g))
    if mode in ('zk', 'zz'): k = bytes(len(k))
    return g, k

def img_v7(rng, idmode='ok', tag=None):
    l = L(); img = rb(rng, l['CFG_SIZE'])
    g, k = identity(rng, idmode)
    img = put(img, l['O7_TAG'], bytes(l['TAG7']) if tag is None else tag)
    img = put(img, l['O7_GUID'], g); img = put(img, l['O7_AUTHKEY'], k)
    if rng.random() < 0.5: img = put(img, l['O7_EMAIL'], email(rng))
    return img

def img_v7_clean(rng):
    """a record as the device itself writes it: terminated strings (the configuration page prints them with strlen)"""
    l = L(); img = bytes(l['CFG_SIZE']); g, k = identity(rng, 'ok')
    img = put(img, 0, bytes(l['TAG7'])); img = put(img, l['O7_GUID'], g); img = put(img, l['O7_AUTHKEY'], k)
    for f, n in (('SERVER', 'SERVER_SIZE'), ('LOCATIONPWD', 'LOCPWD_SIZE'), ('WIFI_SSID', 'SSID_SIZE'), ('WIFI_PWD', 'WPWD_SIZE')):
        img = put(img, l['O7_' + f], bytes(rng.choice(b'abcdefghijklmnopqrstuvwxyz.-0123456789') for _ in range(rng.randrange(0, l[n] - 1))))
    img = put(img, l['O7_EMAIL'], email(rng, 'ok')[:l['EMAIL_SIZE'] - 1])
    img = put(img, l['O7_TIME1'], rb(rng, 16))
    return img

def img_v7_maxfields(rng):
    """a clean record whose text fields are filled to the last byte (no terminator inside the field): long MQTT password in
    LocationPwd/Password, 256-byte Email/Username, ... — the corners of the long-password workaround of the configuration page"""
    l = L(); img = img_v7_clean(rng); full = []
    def fillf(f, n):
        nonlocal img
        img = put(img, l['O7_' + f], bytes(rng.choice(b'abcdefghijklmnopqrstuvwxyz0123456789') for _ in range(l[n]))); full.append(f)
    if rng.random() < 0.85: fillf('LOCATIONPWD', 'LOCPWD_SIZE')
    if rng.random() < 0.7: fillf('EMAIL', 'EMAIL_SIZE')
    elif rng.random() < 0.5:      # name + terminator + overflow part of a long password behind it
        n = rng.randrange(1, 200); img = put(img, l['O7_EMAIL'], bytes(rng.choice(b'abcxyz') for _ in range(n)) + b'\0' + bytes(rng.choice(b'PQRS') for _ in range(l['EMAIL_SIZE'] - n - 1 - rng.choice([0, 0, 1, 5]))))
    for f, n in (('SERVER', 'SERVER_SIZE'), ('WIFI_SSID', 'SSID_SIZE'), ('WIFI_PWD', 'WPWD_SIZE')):
        if rng.random() < 0.3: fillf(f, n)
    return img

def img_v6(rng, idmode='ok'):
    l = L(); img = rb(rng, l['V6_SIZE'])
    g, k = identity(rng, idmode)
    img = put(img, 0, bytes(l['TAG7'][:5]) + b'\x06'); img = put(img, l['O6_GUID'], g); img = put(img, l['O6_AUTHKEY'], k)
    if rng.random() < 0.6: img = put(img, l['O6_EMAIL'], email(rng))
    if rng.random() < 0.6: img = img[:l['O6_TRIGGER'] + 1] + bytes(l['V6_SIZE'] - l['O6_TRIGGER'] - 1)    # zero[200] really zero
    return img

def img_v5(rng, layout, idmode='ok'):
    """layout 'A' or 'B'; always contains a terminator after both e-mail fields (the C code would otherwise read
    outside the record — see the report)"""
    l = L(); P = 'O5A_' if layout == 'A' else 'O5B_'; size = l['V5A_SIZE' if layout == 'A' else 'V5B_SIZE']
    style = rng.choice(['random', 'real', 'real'])
    img = rb(rng, size) if style == 'random' else bytes(size)
    g, k = identity(rng, idmode)
    img = put(img, 0, bytes(l['TAG7'][:5]) + b'\x05')
    if style == 'real':
        for f, n in (('SERVER', 'SERVER_SIZE'), ('LOCATIONPWD', 'LOCPWD_SIZE'), ('WIFI_SSID', 'SSID_SIZE'), ('WIFI_PWD', 'WPWD_SIZE')):
            s = bytes(rng.choice(b'abcdefghijklmnopqrstuvwxyz.-0123456789') for _ in range(rng.randrange(0, l[n] - 1)))
            img = put(img, l[P + f], s + bytes(l[n] - len(s)))
        img = put(img, l[P + 'LOCATIONID'], struct.pack('<I', rng.getrandbits(31)))
        for f in ('CFGBUTTONTYPE', 'BUTTON1TYPE', 'BUTTON2TYPE', 'STATUSLEDOFF', 'INPUTCFGTRIGGEROFF', 'FIRMWAREUPDATE', 'TEST', 'UPSIDEDOWN'):
            img = put(img, l[P + f], bytes([rng.randrange(3)]))
        for f in (('FULLOPENINGTIME', 'FULLCLOSINGTIME') if layout == 'A' else ('TIME1', 'TIME2')):
            img = put(img, l[P + f], struct.pack('<II', rng.getrandbits(rng.choice([8, 16, 32])), rng.getrandbits(rng.choice([8, 16, 32]))))
        if layout == 'B': img = put(img, l['O5B_TRIGGER'], bytes([rng.randrange(2)]))
    img = put(img, l[P + 'GUID'], g); img = put(img, l[P + 'EMAIL'], email(rng, None if style == 'random' else rng.choice(['ok', 'ok', 'ok', 'empty', 'noat'])))
    img = put(img, l[P + 'AUTHKEY'], k)
    img = img[:size - 1] + b'\0'
    return img

def v5_class(img):
    """the layout supla_esp_cfg_init will assume for a v5 record ('A'/'B'), or None when a strchr would leave the record"""
    l = L(); rec = (bytes(img) + b'\xff' * l['CFG_SIZE'])[:l['CFG_SIZE']]
    def has(off, ch):
        for b in rec[off:]:
            if b == ch: return True
            if b == 0: return False
        return None
    if sl(rec, l['O5B_AUTHKEY'], l['AUTHKEY_SIZE']) == bytes(l['AUTHKEY_SIZE']): return 'A'
    for off, ch, onfalse in ((l['O5A_EMAIL'], 64, 'B'), (l['O5A_EMAIL'], 46, 'B'), (l['O5B_EMAIL'], 64, 'A'), (l['O5B_EMAIL'], 46, 'A')):
        r = has(off, ch)
        if r is None: return None
        if not r: return onfalse
    return 'B'

def valid7(img):
    l = L()
    return (len(img) >= l['CFG_SIZE'] and sl(img, 0, 6) == bytes(l['TAG7']) and any(sl(img, l['O7_GUID'], l['GUID_SIZE']))
            and any(sl(img, l['O7_AUTHKEY'], l['AUTHKEY_SIZE'])))

def classify(flashc):
    """what the property demands of a boot from a sector starting with `flashc` (CFG_SIZE bytes):
    ('exact', img) | ('reject', identity bytes that must not survive) | ('keep', [(new off, n, expected bytes)]) | None (no demand)"""
    l = L(); c = bytes(flashc); T = bytes(l['TAG7'])
    if c[:5] != T[:5] or c[5] not in (5, 6, 7):
        return ('reject', (sl(c, l['O7_GUID'], l['GUID_SIZE']), sl(c, l['O7_AUTHKEY'], l['AUTHKEY_SIZE'])))
    if c[5] == 7:
        if valid7(c): return ('exact', c[:l['CFG_SIZE']])
        return ('reject', (sl(c, l['O7_GUID'], l['GUID_SIZE']), sl(c, l['O7_AUTHKEY'], l['AUTHKEY_SIZE'])))
    keepnames = [('GUID', 'GUID_SIZE'), ('AUTHKEY', 'AUTHKEY_SIZE'), ('SERVER', 'SERVER_SIZE'), ('WIFI_SSID', 'SSID_SIZE'),
                 ('WIFI_PWD', 'WPWD_SIZE'), ('EMAIL', 'EMAIL_SIZE')]
    if c[5] == 6:
        P = 'O6_'; t1 = l['O6_TIME1']
    else:
        cl = v5_class(c)
        if cl is None: return None
        P = 'O5A_' if cl == 'A' else 'O5B_'; t1 = l['O5A_FULLOPENINGTIME'] if cl == 'A' else l['O5B_TIME1']
    g = sl(c, l[P + 'GUID'], l['GUID_SIZE']); k = sl(c, l[P + 'AUTHKEY'], l['AUTHKEY_SIZE'])
    if not any(g) or not any(k): return ('reject', (g, k))
    keep = [(l['O7_' + f], l[n], sl(c, l[P + f], l[n])) for f, n in keepnames]
    keep.append((l['O7_TIME1'], 2 * l['INT_SIZE'], sl(c, t1, 2 * l['INT_SIZE'])))      # the first two timing values
    return ('keep', keep)

def looks_fresh(cfg, forbidden):
    """defaults with a newly generated identity: everything but GUID/AuthKey as factory defaults + current TAG, identity non-zero and new"""
    l = L(); d = bytes(l['DEFAULTS_IMG']); c = bytes(cfg)
    g = sl(c, l['O7_GUID'], l['GUID_SIZE']); k = sl(c, l['O7_AUTHKEY'], l['AUTHKEY_SIZE'])
    ref = put(put(put(d, 0, bytes(l['TAG7'])), l['O7_GUID'], g), l['O7_AUTHKEY'], k)
    if c != ref: return 'record is not the factory-default record'
    if not any(g) or not any(k): return 'generated identity is zero'
    fg, fk = forbidden
    if any(fg) and g == fg: return 'GUID of the rejected sector survived'
    if any(fk) and k == fk: return 'AuthKey of the rejected sector survived'
    return None

def http_post(rng, kind='full'):
    def val(n): return bytes(rng.choice(b'abcdefghijklmnopqrstuvwxyz0123456789') for _ in range(rng.randrange(1, n)))
    f = [b'pwd=' + val(20), b'sid=' + val(30), b'wpw=' + val(40), b'svr=' + val(30) + b'.org', b'eml=' + val(12) + b'%40' + val(8) + b'.pl']
    if rng.random() < 0.5: f.append(b'lid=%d' % rng.randrange(1, 99999))
    if rng.random() < 0.3: f.append(b'led=%d' % rng.randrange(0, 3))
    if rng.random() < 0.3: f.append(b'upd=1')
    if kind == 'blankpwd':           # password field blank or absent ("keep the stored password"); other fields sometimes blank too
        f[0] = b'pwd='
        if rng.random() < 0.3: f[2] = b'wpw='
        if rng.random() < 0.3: f[4] = b'eml=' + bytes(rng.choice(b'abc') for _ in range(rng.choice([1, 254, 255, 256, 300]))) 
    rng.shuffle(f)
    if kind == 'blankpwd' and f[-1] == b'pwd=': f[0], f[-1] = f[-1], f[0]
    if kind == 'get': return b'GET / HTTP/1.1\r\nHost: 192.168.4.1\r\n\r\n'
    if kind == 'few': f = f[:rng.randrange(1, 4)]            # fewer than four recognised fields: nothing may be saved or committed
    body = b'&'.join(f)
    if kind == 'other': return b'POST /x HTTP/1.1\r\nHost: 192.168.4.1\r\nContent-Length: %d\r\n\r\n' % len(body) + body
    return b'POST / HTTP/1.1\r\nHost: 192.168.4.1\r\nContent-Length: %d\r\n\r\n' % len(body) + body

class C13(F.PropCheck):
    pid = 'C13'; gen_groups = ['C13Layout']; prop_file = 'Properties_C13'
    IN = {'ENV': 0, 'FLASHIMG': 1, 'INIT': 2, 'SETCFG': 3, 'SETSTATE': 4, 'SAVECFG': 5, 'SAVESTATE': 6, 'TIMER': 7, 'FAIL': 8,
          'CRASH': 9, 'FACTORY': 10, 'POST': 11, 'DUMP': 12}
    OUT = {0: 'FLASH', 1: 'CRASH', 2: 'R', 3: 'CFG', 4: 'STATE', 5: 'FLASHC', 6: 'FLASHS', 7: 'SUBMIT', 8: 'SAVERET', 9: 'FAULT',
           13: 'CFGU', 14: 'STATEU', 15: 'FLASHCU', 16: 'FLASHSU', 17: 'SUBMITU'}
    quick_cases = 2500; thorough_cases = 20000
    trusted_extra = ['C13 driver harness/drv/c13.c + harness/wrap/c13_cfgmode_wrap.c: real supla_esp_cfg.c, real supla_esp_recv_callback with the '
                     'supla_esp_cfg_save call routed through a printing spy; power loss = longjmp out of the flash hook before an erase/write',
                     'flash double: an erase/write either happens completely or not at all (failure code ERR/TIMEOUT: not at all); reads never fail',
                     'new_cfg produced by the HTTP request parser is taken from an implementation pre-run (parsing is the subject of C14)',
                     'bytes the 6->7 migration leaves uninitialised are masked in the comparison (model marks them indeterminate)']
    assumptions = ['fault granularity = one erase / one write (no torn writes)', 'v5 records contain a terminator after their e-mail fields',
                   'identity generator inputs (MAC, clock, chip id) as provided by the doubles; random bytes from the counter double']
    rule = ('random bytes in every field of v7/v6/v5A/v5B records (plus realistic v5 records), blank/foreign/half-zero-identity sectors, '
            'x ERR/TIMEOUT failure or power loss at each erase/write of config and state saves, migration saves, factory reset and config-page '
            'commit x 1-3 save/boot cycles; non-trivial = at least one flash operation or boot observed; distinct by sha256 of the event text')
    _exe = None; _env = None

    def build_impl(self):
        if self._exe is None:
            self._exe = F.build_c('c13', DRV, exclude=('supla_esp_cfgmode',), extra_srcs=[WRAP])
        return self._exe

    def env_event(self):
        if self._env is None:
            exe, _ = self.build_impl()
            self._env = ('ENV', [2651462], bytes([0xA0, 0xA1, 0xA2, 0xA3, 0xA4, 0xA5] * 2))
            if exe:
                r, _ = F.run_batch(exe, [F.Case('envq', [('ENVQ', [], b'')])], shards=1)
                for (k, ints, data) in r.get('envq', ('', []))[1]:
                    if k == 'ENVIS': self._env = ('ENV', [ints[0]], bytes(data))
        return self._env

    # ---------------- generators
    def fault(self, rng, maxk=4):
        k = rng.randrange(1, maxk + 1)
        return [('CRASH', [k], b'')] if rng.random() < 0.4 else [('FAIL', [k, rng.choice([1, 2])], b'')]

    def gen_one(self, rng):
        l = L(); evs = [self.env_event()]; tags = []
        D = ('DUMP', [], b''); r0 = lambda: rng.randrange(256)
        def boot(): return [('INIT', [r0()], b''), D]
        sc = rng.choice(['roundtrip', 'roundtrip', 'faults', 'faults', 'faults', 'migrate', 'migrate', 'foreign', 'foreign', 'factory', 'post', 'mixed', 'resave', 'resave'])
        tags.append(sc)
        state_img = rb(rng, l['STATE_SIZE']) if rng.random() < 0.8 else None
        def start_v7(clean=False):
            e = [('FLASHIMG', [0], img_v7_clean(rng) if clean else img_v7(rng))]
            if state_img is not None: e.append(('FLASHIMG', [1], state_img + (rb(rng, 40) if rng.random() < 0.2 else b'')))
            return e + boot()
        if sc in ('roundtrip', 'faults', 'mixed'):
            evs += start_v7() if rng.random() < 0.85 else boot() + [('TIMER', [], b''), D]
            for cyc in range(rng.randrange(1, 4)):
                for _ in range(rng.randrange(1, 4)):
                    what = rng.choice(['cfg', 'cfg', 'state', 'state0', 'factory'] if sc == 'mixed' else ['cfg', 'cfg', 'state', 'state0'])
                    if sc != 'roundtrip' and rng.random() < 0.7:
                        f = self.fault(rng); evs += f; tags.append('fault:%s%d%s' % (f[0][0].lower(), f[0][1][0], '' if f[0][0] == 'CRASH' else 'c%d' % f[0][1][1]))
                    if what == 'cfg':
                        evs += [('SETCFG', [], img_v7(rng, rng.choice(['ok'] * 8 + ['zg', 'zk']))), ('SAVECFG', [], b''), D]; tags.append('save:cfg')
                    elif what == 'state0':
                        evs += [('SETSTATE', [], rb(rng, l['STATE_SIZE'])), ('SAVESTATE', [0], b''), D]; tags.append('save:state')
                    elif what == 'state':
                        evs += [('SETSTATE', [], rb(rng, l['STATE_SIZE'])), ('SAVESTATE', [rng.choice([1, 200, 1000])], b'')]
                        if rng.random() < 0.8: evs += [('TIMER', [], b'')]
                        evs += [D]; tags.append('save:state-delayed')
                    else:
                        evs += [('FACTORY', [rng.randrange(2)], b''), D]
                if rng.random() < 0.25 and sc != 'roundtrip': evs += self.fault(rng, 2)
                evs += boot()
                if rng.random() < 0.3: evs += [('TIMER', [], b''), D]
        elif sc == 'resave':
            # fault SEQUENCES with repeated identical saves: a save fails at its erase or its write (ERR/TIMEOUT; no power loss, the
            # device stays up), the same record is saved again with a healthy flash (nothing reloaded in between), restart, load
            evs += start_v7()
            for cyc in range(rng.randrange(1, 3)):
                S = rb(rng, l['STATE_SIZE'])
                if rng.random() < 0.8: evs += [('SETSTATE', [], S)]
                if rng.random() < 0.5: evs += [('SETCFG', [], img_v7(rng))]
                def save_state():
                    if rng.random() < 0.6: return [('SAVESTATE', [0], b'')]
                    return [('SAVESTATE', [rng.choice([1, 200])], b''), ('TIMER', [], b'')]
                def maybe_dump(p=0.4): return [D] if rng.random() < p else []
                if rng.random() < 0.3: evs += save_state() + maybe_dump(); tags.append('resave:healthy-first')
                which = rng.choice(['state', 'state', 'state', 'cfg', 'both'])
                k = rng.choice([1, 2]); code = rng.choice([1, 2]); tags.append('resave:%s-fail-op%d' % (which, k))
                if which in ('state', 'both'):
                    evs += [('FAIL', [k, code], b'')] + save_state() + maybe_dump()
                if which in ('cfg', 'both'):
                    evs += [('FAIL', [rng.choice([1, 2]), rng.choice([1, 2])], b''), ('SAVECFG', [], b'')] + maybe_dump()
                for _ in range(rng.randrange(0, 3)):                                  # healthy saves of other things in between
                    if rng.random() < 0.5: evs += [('SAVECFG', [], b'')] + maybe_dump(0.2)
                    else: evs += [('SETCFG', [], img_v7(rng)), ('SAVECFG', [], b'')]
                for _ in range(rng.randrange(1, 3)):                                  # the same records again, flash healthy
                    if which in ('state', 'both') or rng.random() < 0.5: evs += save_state()
                    if which in ('cfg', 'both') or rng.random() < 0.3: evs += [('SAVECFG', [], b'')]
                evs += maybe_dump(0.5) + boot()
        elif sc == 'migrate':
            lay = rng.choice(['6', '6', 'A', 'B']); idm = rng.choice(['ok'] * 6 + ['zg', 'zk', 'zz'])
            img = img_v6(rng, idm) if lay == '6' else img_v5(rng, lay, idm)
            tail = rb(rng, rng.randrange(0, 400)) if rng.random() < 0.3 else b''
            tags.append('layout:v' + ('6' if lay == '6' else '5' + lay)); tags.append('id:' + idm)
            evs += [('FLASHIMG', [0], img + tail)]
            if state_img is not None: evs += [('FLASHIMG', [1], state_img)]
            if rng.random() < 0.5:
                f = self.fault(rng); evs += f; tags.append('migration-fault')
            evs += [D] + boot() + boot()
            if rng.random() < 0.5: evs += [('SETSTATE', [], rb(rng, l['STATE_SIZE'])), ('SAVESTATE', [0], b''), ('SAVECFG', [], b''), D] + boot()
        elif sc == 'foreign':
            k = rng.choice(['blank', 'random', 'tagbit', 'ver', 'zg', 'zk', 'zz', 'short'])
            tags.append('foreign:' + k)
            if k == 'blank': img = b''
            elif k == 'random': img = rb(rng, rng.choice([16, 956, 4096]))
            elif k == 'tagbit':
                img = img_v7(rng); j = rng.randrange(6); img = put(img, j, bytes([img[j] ^ (1 << rng.randrange(8))]))
            elif k == 'ver': img = img_v7(rng, tag=bytes(l['TAG7'][:5]) + bytes([rng.choice([0, 1, 2, 3, 4, 8, 9, 255])]))
            elif k == 'short': img = img_v7(rng)[:rng.choice([6, 22, 30, 38])]
            else: img = img_v7(rng, k)
            evs += [('FLASHIMG', [0], img)]
            if state_img is not None: evs += [('FLASHIMG', [1], state_img)]
            if rng.random() < 0.4: evs += self.fault(rng, 3); tags.append('first-save-fault')
            evs += [D] + boot()
            if rng.random() < 0.6: evs += [('TIMER', [], b''), D]
            evs += boot()
            if rng.random() < 0.5:      # a second rejected sector in the same history: the identity must be generated anew
                evs += [('FLASHIMG', [0], rng.choice([b'', rb(rng, 64), img_v7(rng, rng.choice(['zg', 'zk']))])), D] + boot(); tags.append('foreign:twice')
        elif sc == 'factory':
            evs += start_v7()
            if rng.random() < 0.5: evs += self.fault(rng); tags.append('reset-fault')
            sv = rng.choice([0, 1, 1, 1])
            evs += [('FACTORY', [sv], b''), D] + boot()
            if sv == 0: evs += [('SAVECFG', [], b''), D] + boot()
        elif sc == 'post':
            mx = rng.random() < 0.35
            if mx: evs += [('FLASHIMG', [0], img_v7_maxfields(rng))] + boot(); tags.append('post:maxfields')
            else: evs += start_v7(True) if rng.random() < 0.8 else boot()
            for _ in range(rng.randrange(1, 3)):
                if rng.random() < (0.75 if mx else 0.6): evs += self.fault(rng, 3); tags.append('post-fault')
                req = http_post(rng, rng.choice(['blankpwd'] * 3 + ['full'] if mx else ['full'] * 4 + ['blankpwd', 'few', 'get', 'other']))
                evs += [('POST', [len(req)], req), D]
            evs += boot()
        return evs, tags

    def learn_posts(self, cases):
        """fills the POST events with the record the implementation's request parser produced (second half of the bytes)"""
        withpost = [c for c in cases if any(e[0] == 'POST' for e in c.evs)]
        exe, _ = self.build_impl()
        if not withpost or not exe: return
        res, _ = F.run_batch(exe, withpost)
        for c in withpost:
            outs = res.get(c.id, ('missing', []))[1]; segs = self.segments(c.evs, outs)
            for i, e in enumerate(c.evs):
                if e[0] != 'POST' or i >= len(segs): continue
                sub = [o for o in segs[i] if o[0] == 'SUBMIT']
                c.evs[i] = ('POST', [e[1][0]], bytes(e[2][:e[1][0]]) + (bytes(sub[0][2]) if sub else b''))

    def gen_cases(self, rng, n, tier):
        cases = []
        for i in range(n):
            evs, tags = self.gen_one(rng)
            cases.append(F.Case('%s%d' % (tier[0], i), evs, tags))
        self.learn_posts(cases)
        return cases

    def corpus_cases(self):
        return F.load_corpus(self.pid)

    # ---------------- comparison: indeterminate bytes are masked, an implementation crash is a disagreement
    @staticmethod
    def segments(evs, outs):
        """outputs per event: every event ends with an R line, or with CRASH when power was lost inside it"""
        segs = []; cur = []
        for o in outs:
            cur.append(o)
            if o[0] in ('R', 'CRASH', 'FAULT'): segs.append(cur); cur = []
        if cur: segs.append(cur)
        return segs

    def compare(self, case, mo, io):
        (ms, ml), (is_, il) = mo, io
        if is_ != 'ok':
            if any(o[0] == 'FAULT' for o in ml): return None     # read outside the record: predicted by the model
            return 'implementation crashed (%s)' % is_
        m2 = []; masks = {}
        for o in ml:
            if o[0].endswith('U') and o[0][:-1] in ('CFG', 'STATE', 'FLASHC', 'FLASHS', 'SUBMIT'):
                masks[len(m2) - 1] = o[2]
            else: m2.append(o)
        if len(m2) != len(il):
            return 'output count: model=%d impl=%d (first extra: %s)' % (len(m2), len(il), F.short((m2 + il)[min(len(m2), len(il))]) if max(len(m2), len(il)) > min(len(m2), len(il)) else '')
        for i, (a, b) in enumerate(zip(m2, il)):
            if i in masks and a[0] == b[0] and len(a[2]) == len(b[2]) == len(masks[i]):
                mk = masks[i]; b = (b[0], b[1], bytes(0 if mk[j] else x for j, x in enumerate(b[2])))
            if (a[0], list(a[1]), bytes(a[2])) != (b[0], list(b[1]), bytes(b[2])):
                d = ''
                if a[0] == b[0] and len(a[2]) == len(b[2]):
                    j = next((j for j in range(len(a[2])) if a[2][j] != b[2][j]), None)
                    if j is not None: d = ' first differing byte at offset %d (model %02x impl %02x)' % (j, a[2][j], b[2][j])
                return 'output %d: model=%s impl=%s%s' % (i, F.short(a), F.short(b), d)
        return None

    # ---------------- monitor: the property text on the implementation trace (no model involved)
    def monitor(self, case, status, outs):
        if status != 'ok': return []          # C13 has no memory-safety clause; crashes are reported through compare()
        l = L(); v = []; segs = self.segments(case.evs, outs)
        ram_cfg = None; ram_sta = None            # RAM records when known
        flashc = None; flashs = None              # sector starts as last dumped / preloaded, None = not known
        fail_at = 0; crash_at = 0
        saved = {}                                # kind 'cfg'|'state' -> (record, reported_ok, prev_flash) awaiting a DUMP
        booted = None                             # (classification of flashc before boot, flashc, flashs, ret) awaiting a DUMP
        ident = None                              # (GUID, AuthKey) before a factory reset, awaiting a DUMP
        expect_sta = None                         # state record of the last state save that was not reported failed (sector not touched since)
        expect_cfg = None                         # configuration record of the last save that returned success (sector not touched since)
        post_keep = None                          # RAM configuration before a request that saved nothing, awaiting a DUMP
        fact = None                               # (cfg saved ok?, state saved ok?) by factory_defaults(1), awaiting a DUMP
        fresh_ids = []                            # (r0, GUID, AuthKey) generated by boots from rejected sectors
        powered = True
        def ops(seg):
            """per FLASH line: 'ok' | 'fail' | 'crash' according to the script"""
            nonlocal fail_at, crash_at
            res = []
            for o in seg:
                if o[0] != 'FLASH': continue
                if crash_at > 0:
                    crash_at -= 1
                    if crash_at == 0: res.append((o[1][0], o[1][1], 'crash')); break
                if fail_at > 0:
                    fail_at -= 1
                    if fail_at == 0: res.append((o[1][0], o[1][1], 'fail')); continue
                res.append((o[1][0], o[1][1], 'ok'))
            return res
        CFGADDR = l['CFG_SECTOR_'] * l['SEC_SIZE']
        for i, e in enumerate(case.evs):
            if i >= len(segs): break
            seg = segs[i]; k = e[0]; last = seg[-1]
            crashed = last[0] == 'CRASH'
            if k == 'FAIL': fail_at = e[1][0]; continue
            if k == 'CRASH': crash_at = e[1][0]; continue
            if k == 'ENV': continue
            if k == 'FLASHIMG':
                img = (bytes(e[2]) + b'\xff' * l['SEC_SIZE'])[:l['SEC_SIZE']]
                if e[1][0] == 0: flashc = img[:l['CFG_SIZE']]; expect_cfg = None
                else: flashs = img[:l['STATE_SIZE']]; expect_sta = None
                saved.pop('cfg' if e[1][0] == 0 else 'state', None); continue
            if k == 'DUMP':
                d = {o[0]: bytes(o[2]) for o in seg}
                fcn, fsn = d.get('FLASHC'), d.get('FLASHS')
                for kind, (rec, ok, prev) in list(saved.items()):
                    cur = fcn if kind == 'cfg' else fsn
                    if cur is None: continue
                    if ok and cur != rec:
                        j = next(j for j in range(len(rec)) if cur[j] != rec[j])
                        v.append('%s save %s but the sector does not hold the saved record (first difference at offset %d)' %
                                 (kind, 'reported success' if kind == 'cfg' else 'was not reported failed (no flash operation of it failed)', j))
                    elif not ok and prev is not None and cur not in (prev, b'\xff' * len(rec), rec):
                        v.append('after a failed/interrupted %s save the sector is neither the old record, nor erased, nor the new record' % kind)
                saved = {}
                if booted is not None and 'CFG' in d:
                    cls, fc0, fs0, ret = booted; c = d['CFG']
                    if ret[2] is not None and valid7(ret[2]) and c != ret[2]:
                        j = next(j for j in range(len(c)) if c[j] != ret[2][j])
                        v.append('configuration loaded after restart differs at offset %d from the configuration the device saved last (that save returned success)' % j)
                    if cls is not None:
                        if cls[0] == 'exact':
                            if c != cls[1]:
                                j = next(j for j in range(len(c)) if c[j] != cls[1][j]); v.append('configuration loaded after restart differs from the stored one at offset %d' % j)
                            elif fs0 is not None and any(b != 255 for b in fs0) and d.get('STATE') != fs0:
                                v.append('state loaded after restart differs from the stored one')
                            elif ret[1] is not None and d.get('STATE') != ret[1]:
                                v.append('state loaded after restart differs from the state the device saved last (that save was not reported failed)')
                        elif cls[0] == 'reject':
                            why = looks_fresh(c, cls[1])
                            if why: v.append('blank/foreign/zero-identity sector was not replaced by defaults with a new identity: ' + why)
                            else:
                                g = sl(c, l['O7_GUID'], l['GUID_SIZE']); kk = sl(c, l['O7_AUTHKEY'], l['AUTHKEY_SIZE'])
                                for (r0o, go, ko) in fresh_ids:
                                    if r0o != ret[3] and (go == g or ko == kk):
                                        v.append('identity is not newly generated: two boots from rejected sectors with different random input produced the same %s' % ('GUID' if go == g else 'AuthKey')); break
                                fresh_ids.append((ret[3], g, kk))
                        elif cls[0] == 'exact-unknown':
                            if ret[0] == 1 and valid7(c) and ret[1] is not None and d.get('STATE') != ret[1]:
                                v.append('state loaded after restart differs from the state the device saved last (that save was not reported failed)')
                        elif cls[0] == 'keep':
                            for (off, n, exp) in cls[1]:
                                if sl(c, off, n) != exp: v.append('migration lost the field at offset %d of the new record' % off); break
                    booted = None
                if ident is not None and 'CFG' in d:
                    c = d['CFG']
                    if (sl(c, l['O7_GUID'], l['GUID_SIZE']), sl(c, l['O7_AUTHKEY'], l['AUTHKEY_SIZE'])) != ident:
                        v.append('factory reset changed the device identity')
                    ident = None
                if post_keep is not None and 'CFG' in d and d['CFG'] != post_keep:
                    v.append('configuration in RAM changed although the request saved nothing')
                post_keep = None
                fact = None      # (what factory_defaults hands to the save is not observable: no sector-vs-RAM clause for it)
                if 'CFG' in d: ram_cfg = d['CFG']; ram_sta = d.get('STATE')
                flashc, flashs = fcn, fsn
                continue
            if k == 'INIT':
                r = ops(seg); powered = not crashed
                booted = None; saved = {}; ident = None; ram_cfg = None; ram_sta = None; post_keep = None; fact = None
                if not crashed and flashc is not None and last[0] == 'R':
                    booted = (classify(flashc), flashc, flashs, (last[1][0], expect_sta, expect_cfg, e[1][0]))
                elif not crashed and last[0] == 'R' and r == [] and (expect_sta is not None or expect_cfg is not None):
                    # sector contents not dumped before the boot; the boot itself wrote nothing => an accepted record was loaded
                    booted = (('exact-unknown',), None, None, (last[1][0], expect_sta, expect_cfg, e[1][0]))
                elif not crashed and last[0] == 'R' and expect_cfg is not None:
                    booted = (None, None, None, (last[1][0], None, expect_cfg, e[1][0]))
                flashc = None; flashs = None; expect_sta = None; expect_cfg = None
                continue
            if last[0] == 'R' and last[1] and last[1][0] == -1: continue      # not powered
            if k == 'SETCFG': ram_cfg = (bytes(e[2]) + bytes(l['CFG_SIZE']))[:l['CFG_SIZE']]; booted = None; ident = None; post_keep = None; fact = None; continue
            if k == 'SETSTATE': ram_sta = (bytes(e[2]) + bytes(l['STATE_SIZE']))[:l['STATE_SIZE']]; booted = None; continue
            r = ops(seg)
            if k == 'SAVECFG':
                ok = (not crashed) and last[1][0] == 1
                saved.pop('cfg', None)
                if ram_cfg is not None: saved['cfg'] = (ram_cfg, ok, flashc)
                expect_cfg = ram_cfg if ok else None
                flashc = None
            elif k in ('SAVESTATE', 'TIMER'):
                # the state save ran in this event (immediately, or the delayed one fired); it has no return value: it counts as
                # failed only when one of its flash operations failed or power was lost - also when it issued no operation at all
                invoked = (k == 'SAVESTATE' and e[1][0] <= 0) or (k == 'TIMER' and last[0] == 'R' and last[1][0] == 1) or bool(r)
                if invoked:
                    ok = (not crashed) and all(x[2] == 'ok' for x in r)
                    prev = saved.get('state')
                    saved.pop('state', None)
                    if ram_sta is not None:
                        # no operation issued: the sector is still what it was before (keep an earlier pending 'old sector' value)
                        saved['state'] = (ram_sta, ok, flashs if (r or prev is None) else prev[2])
                    expect_sta = ram_sta if ok else None
                    if r: flashs = None
            elif k == 'FACTORY':
                if ram_cfg is not None: ident = (sl(ram_cfg, l['O7_GUID'], l['GUID_SIZE']), sl(ram_cfg, l['O7_AUTHKEY'], l['AUTHKEY_SIZE']))
                ram_cfg = None; ram_sta = None; saved = {}; booted = None; post_keep = None
                STADDR = (l['CFG_SECTOR_'] + l['STATE_SECTOR_OFFSET_']) * l['SEC_SIZE']
                rc = [x for x in r if x[1] == CFGADDR]; rs = [x for x in r if x[1] == STADDR]
                fact = (len(rc) == 2 and all(x[2] == 'ok' for x in rc) and not crashed, len(rs) == 2 and all(x[2] == 'ok' for x in rs) and not crashed)
                if rc: flashc = None; expect_cfg = None
                if rs: flashs = None; expect_sta = None
            elif k == 'POST':
                sub = [o for o in seg if o[0] == 'SUBMIT']; after = [o for o in seg if o[0] == 'CFG']; sr = [o for o in seg if o[0] == 'SAVERET']
                if sub:
                    w = [x for x in r if x[0] == 1 and x[1] == CFGADDR]
                    write_ok = bool(w) and w[-1][2] == 'ok'
                    if after and ram_cfg is not None:
                        a = bytes(after[0][2])
                        if not write_ok and a != ram_cfg: v.append('configuration in RAM was replaced although the flash write did not succeed')
                        if write_ok and a != bytes(sub[0][2]) and a != ram_cfg: v.append('configuration in RAM is neither the old nor the submitted one')
                    saved['cfg'] = (bytes(sub[0][2]), bool(sr) and sr[0][1][0] == 1, flashc)
                    expect_cfg = bytes(sub[0][2]) if (sr and sr[0][1][0] == 1) else None
                    flashc = None; booted = None; ident = None; post_keep = None; fact = None
                    ram_cfg = bytes(after[0][2]) if after else None
                elif not crashed and ram_cfg is not None and not r:
                    post_keep = ram_cfg
            if crashed: powered = False; ram_cfg = None; ram_sta = None; ident = None
        return v

    def finding_key(self, case, what):
        return None

CHECK = C13()
