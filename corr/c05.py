"""C05 — keep-alive, silent-server reconnect and watchdog restart: generators (time sweeps), implementation-side monitor,
check definition.  Uses the C04 driver and the C04 model (coq/C05/Extract.v extracts C04.Model.main_wire)."""
import os, struct, sys
import framework as F
import c04
from c04 import K, frame, reg_result, ping_result, sat_result, chstate_req

S = 1000000

class C05(F.PropCheck):
    pid = 'C05'; gen_groups = ['ProtoConsts', 'C04Consts']; prop_file = 'Properties_C05'
    IN = dict(c04.C04.IN); OUT = dict(c04.C04.OUT)
    quick_cases = 400; thorough_cases = 6000
    trusted_extra = c04.C04.trusted_extra + [
        'server responder of the harness (SERVER <delay>): every ping frame that reaches the wire is answered by a ping result delivered '
        'by an SDK timer <delay> us later (same timer queue as the device timers, modelled as a ninth timer)']
    assumptions = ['lateness of timer callbacks <= J (J < 1 s) for the bounds', 'H_slot: a free out-queue slot at a timer1 tick while the idle time is in [T-2, T]',
                   'uptime seconds < 2^32; uptime polled at least once per wrap of the 32-bit microsecond counter',
                   'not in configuration mode / firmware update', 'espconn_sent accepts data on a healthy link (keep-alive clause)']
    rule = ('time sweeps: granted timeout T in 0..255 (register result and set-activity-timeout result with any min/max bytes, grant different from the register value), phase of the uptime second vs. the '
            '1 s timers 0..999 ms, timer lateness scripts, server answering every ping after 0..900 ms / late / silent from an arbitrary time, '
            'local traffic none / periodic 1-4 s / bursts, stalled link, aged devices (uptime across 2^32 ms); non-trivial = registered at least once; '
            'distinct by sha256 of the event text')
    def build_impl(self): return c04.build_driver()
    def compare(self, case, mo, io): return c04.CHECK.compare(case, mo, io)
    def nontrivial(self, case, io): return any(o[0] == 'WIRE' and o[1][2] == K()['CALL_PING'] for o in io[1]) or any(o[0] == 'RESTART' for o in io[1])

    # ---------------- monitor (implementation trace only)
    def monitor(self, case, status, outs):
        v = []
        if status != 'ok': return v
        c = K(); evs = case.evs
        cfg = evs[0][1] if evs and evs[0][0] == 'CFG' else [0, -12, 0, 0]
        J = max(cfg[4:] or [0])
        # --- timeline of what the server side did, from the events that the SDK model delivered (RX lines) and the responder (SRVRX lines)
        rx = []            # (t, conn, bytes) every delivery of server bytes
        for (k, ints, data) in outs:
            if k == 'RX':
                i = ints[2]
                if 0 <= i < len(evs) and evs[i][0] == 'RECV': rx.append((ints[0], ints[1], bytes(evs[i][2])))
            elif k == 'SRVRX': rx.append((ints[0], ints[1], ping_result(1)))
        rx.sort(key=lambda x: x[0])
        tend = 0
        for (k, ints, _) in outs:
            if ints and k in ('FRESH', 'WIRE', 'RX', 'SRVRX', 'DISCD', 'CONNECT', 'DISCONNECT', 'RESTART', 'STATE', 'WIFISTART', 'JUNK'): tend = max(tend, ints[0])
        restart_t = [ints[0] for (k, ints, _) in outs if k == 'RESTART']
        disc_t = [ints[0] for (k, ints, _) in outs if k == 'DISCONNECT']
        wifi_t = [ints[0] for (k, ints, _) in outs if k == 'WIFISTART']
        # per connection: complete server frames with arrival times
        mon = c04.CHECK
        conns = {}
        for (k, ints, _) in outs:
            if k == 'FRESH': conns[ints[1]] = dict(t0=ints[0])
        # --- silent-server clause.  tau = time of the last complete message received (any connection); 0 when none (last_response = 0 at boot)
        msgs = []          # (t, conn, call, payload)
        for n in conns:
            for (t, call, pay) in mon.server_frames([(t, b) for (t, cn, b) in rx if cn == n]): msgs.append((t, n, call, pay))
        msgs.sort(key=lambda m: m[0])
        boot = cfg[0]; cycles = cfg[3] if len(cfg) > 3 else 0
        wd = c['WATCHDOG_TIMEOUT_S']
        # every silence is judged: after each complete message (and after start-up, last_response = uptime at boot) until the next one
        # (a partial / malformed tail after a complete message makes the device restart through the parser: not this property's business)
        marks = [(0, -1)] + [(m[0], i) for i, m in enumerate(msgs)]
        for idx, (tau, k) in enumerate(marks):
            nxt = marks[idx + 1][0] if idx + 1 < len(marks) else None
            if nxt is not None and nxt == tau: continue
            horizon = nxt if nxt is not None else tend + 1        # the silence is known to last until here
            # watchdog: restart once uptime_sec - last_response > 60 at a watchdog tick: no later than 62 s (+J) after tau
            lim_restart = tau + (wd + 2) * S + J
            if horizon > lim_restart + (0 if nxt is not None else 0) and not [t for t in restart_t if t <= lim_restart]:
                # reconnects do not excuse the restart (last_response is not refreshed by them)
                v.append('nothing received after %d us, no restart by %d us (watchdog bound %d s)' % (tau, lim_restart, wd + 2)); break
            # reconnect: registered with granted timeout T at tau
            st = self.session_at(msgs[:k + 1], tau, conns, outs) if k >= 0 else None
            if st is not None:
                n, T = st
                if 0 < T and T + 11 <= wd + 2:
                    lim = tau + (T + 11) * S + J
                    if horizon > lim:
                        d = [t for t in disc_t if tau < t <= lim]; w = [t for t in wifi_t if tau < t <= lim]
                        early_restart = [t for t in restart_t if t <= lim]
                        if not early_restart and (not d or not w):
                            v.append('registered with timeout %d s, nothing received after %d us, connection not closed and reconnect not started by %d us' % (T, tau, lim)); break
        # --- keep-alive clause: intervals in which the device is registered, granted T in 5..58, the link is healthy and every ping is answered promptly
        v += self.keepalive(case, outs, msgs, conns, J)
        return v

    def session_at(self, msgs, tau, conns, outs):
        """(conn, T) when at time tau the device is registered on a connection that is still open; else None"""
        c = K(); last = None
        ends = {}          # conn -> end time
        cur = None
        for (k, ints, _) in outs:
            if k == 'FRESH': cur = ints[1]
            elif k in ('DISCD', 'DISCONNECT', 'CONNECT', 'RESTART') and cur is not None and cur not in ends: ends[cur] = ints[0]
        reg = {}           # conn -> (t_ok, T)
        for (t, n, call, pay) in msgs:
            if call == c['SRV_REGISTER_RESULT'] and len(pay) == c['SZ_REGISTER_RESULT']:
                code = struct.unpack_from('<i', pay, c['OFF_RESULT_CODE'])[0]
                if code == c['RESULTCODE_TRUE']: reg[n] = (t, pay[c['OFF_RESULT_TIMEOUT']])
                else: reg.pop(n, None); ends.setdefault(n, t)            # refused: the stop follows; no keep-alive obligations
            elif call == c['SRV_VERSIONERROR']: reg.pop(n, None); ends.setdefault(n, t)
            elif call == c['SRV_SET_ACTIVITY_TIMEOUT_RESULT'] and len(pay) == c['SZ_SET_ACTIVITY_TIMEOUT_RESULT'] and n in reg:
                reg[n] = (reg[n][0], pay[c['OFF_SAT_RESULT_TIMEOUT']])
        if not msgs: return None
        n = msgs[-1][1]
        if n in reg and (n not in ends or ends[n] > tau): return (n, reg[n][1])
        return None

    def keepalive(self, case, outs, msgs, conns, J):
        """keep-alive clause, judged per session (connection with an accepted registration) on the interval in which the events of the
        case make its premises true: responder on with a delay < 1 s when the registration is accepted, and from then on no disturbance
        (DISCCB / WIFI event, failing espconn_sent, responder switched off or slowed down); every ping of the interval answered within 1 s"""
        v = []; c = K(); evs = case.evs
        boot = evs[0][1][0] if evs and evs[0][0] == 'CFG' and evs[0][1] else 0
        lo = max(5, c['PING_WINDOW_MINUS']); hi = min(c['WATCHDOG_TIMEOUT_S'], c['WATCHDOG_SOFT_TIMEOUT_S'] - 1) - 2      # 5..58
        D = c['RECONNECT_DELAY_MS'] * 1000
        te = []; t = 0                                  # nominal time at which event i is handled (never later than the true one)
        for (k, ints, _) in evs:
            te.append(t)
            if k == 'ADV' and ints and ints[0] > 0: t += ints[0]
        rxi = {}                                        # (time, conn) of a delivery -> index of the RECV event
        for (k, ints, _) in outs:
            if k == 'RX': rxi.setdefault((ints[0], ints[1]), ints[2])
        tend = max([ints[0] for (k, ints, _) in outs if ints and k in ('STATE', 'RESTART')] or [0])
        discd = sorted(ints[0] for (k, ints, _) in outs if k == 'DISCD')
        wifistart = sorted(ints[0] for (k, ints, _) in outs if k == 'WIFISTART')
        def excused(t):
            """a delayed reconnect (armed by the disconnect callback, 2 s) that no later start() cancelled is due at t"""
            return any(td < t <= td + D + J and not any(td < w < t for w in wifistart) for td in discd)
        # sessions: first accepted register result of each connection
        sess = {}
        for (t, n, call, pay) in msgs:
            if call == c['SRV_REGISTER_RESULT'] and len(pay) == c['SZ_REGISTER_RESULT']:
                ok = struct.unpack_from('<i', pay, c['OFF_RESULT_CODE'])[0] == c['RESULTCODE_TRUE']
                if n not in sess: sess[n] = dict(tok=t, T=pay[c['OFF_RESULT_TIMEOUT']], ok=ok, refused=not ok)
                elif not ok: sess[n]['refused'] = True
            elif call == c['SRV_SET_ACTIVITY_TIMEOUT_RESULT'] and len(pay) == c['SZ_SET_ACTIVITY_TIMEOUT_RESULT'] and n in sess and sess[n]['ok']:
                sess[n]['T'] = pay[c['OFF_SAT_RESULT_TIMEOUT']] if t <= sess[n]['tok'] + S else -1      # re-negotiation later in the session: not judged
            elif call == c['SRV_VERSIONERROR'] and n in sess: sess[n]['refused'] = True
        for cn in sorted(sess):
            d = sess[cn]; tok = d['tok']; T = d['T']
            if not d['ok'] or d['refused'] or not (lo <= T <= hi): continue
            i_ok = rxi.get((tok, cn))
            if i_ok is None: continue
            # the connection of this session must have been opened on a link that is healthy from its connect callback on
            fresh_t = conns.get(cn, {}).get('t0')
            if fresh_t is None: continue
            # responder state when the connection was opened / the registration accepted, espconn_sent results
            resp = None; bad_send = False; i_conn = None
            for i, (k, ints, _) in enumerate(evs[:i_ok]):
                if k == 'SERVER': resp = ints[0]
                elif k == 'SENTMODE': bad_send = ints[0] != 0
                elif k == 'SENTRES': bad_send = bad_send or any(x != 0 for x in ints)
                elif k == 'CONNCB' and te[i] <= fresh_t: i_conn = i
            if resp is None or not (0 <= resp < S) or bad_send: continue
            if any(k == 'SERVER' and not (0 <= ints[0] < S) for (k, ints, _) in evs[(i_conn or 0):i_ok]): continue
            if any(k == 'SENTRES' for (k, ints, _) in evs[:i_ok]): continue       # a result script may still be pending
            # first disturbance after the acceptance
            t_dist = tend
            for i in range(i_ok + 1, len(evs)):
                k, ints, _ = evs[i]
                if k in ('DISCCB', 'WIFI', 'CONNCB') or (k in ('SENTMODE', 'SENTRES') and any(x != 0 for x in ints)) or \
                   (k == 'SERVER' and not (0 <= ints[0] < S)) or (k == 'RECV' and self.disturbing(evs[i][2], te[i] <= tok + S)):
                    t_dist = min(t_dist, te[i]); break
            if t_dist <= tok: continue
            # every ping of the interval answered promptly: each WIRE ping at p has a server delivery in [p, p + 1 s]
            pings = [ints[0] for (k, ints, _) in outs if k == 'WIRE' and ints[1] == cn and ints[2] == c['CALL_PING'] and tok <= ints[0] < t_dist]
            deliveries = sorted(t for (t, n, call, pay) in msgs if n == cn)
            if any(p + S <= t_dist and not any(p <= t <= p + S for t in deliveries) for p in pings): continue
            # (1) never reconnects or restarts
            bad = False
            for (k, ints, _) in outs:
                if k in ('DISCONNECT', 'WIFISTART', 'RESTART') and tok < ints[0] < t_dist and not excused(ints[0]):
                    msg = 'keep-alive: %s at %d us although registered on connection %d (timeout %d s) and every ping was answered promptly' % (k, ints[0], cn, T)
                    v.append(msg + self.starved(outs, cn, T, J, deliveries, ints[0], boot)); bad = True; break
            if bad: break
            # (2) a frame in every window of T seconds (from the registration answer on)
            sends = sorted(ints[0] for (k, ints, _) in outs if k == 'WIRE' and ints[1] == cn and tok <= ints[0] < t_dist)
            closed = [ints[0] for (k, ints, _) in outs if k in ('DISCONNECT', 'DISCD', 'RESTART') and tok <= ints[0] < t_dist]
            prev = tok
            for t in sends + [min([t_dist] + closed)]:
                if t - prev > T * S + J:
                    v.append('keep-alive: no frame on the wire between %d and %d us (connection %d, timeout %d s)' % (prev, t, cn, T)); bad = True; break
                prev = t
            if bad: break
        return v
    def disturbing(self, data, sat_ok=False):
        """server bytes that end the healthy interval of a session: anything but whole ping results / channel-state requests
        (a refusal, a version error, a new timeout later than 1 s after the acceptance, malformed bytes change what the device has to do)"""
        c = K(); fr = c04.CHECK.server_frames([(0, bytes(data))]); n = 0
        for (_, call, pay) in fr:
            if call not in (c['SRV_PING_RESULT'], c['SRV_GET_CHANNEL_STATE']) and not (sat_ok and call == c['SRV_SET_ACTIVITY_TIMEOUT_RESULT']): return True
            n += c['SDP_SIZE'] - c['MAX_DATA_SIZE'] + len(pay) + len(bytes(c['TAG']))
        return n != len(data)

    def starved(self, outs, cn, T, J, deliveries, t_d, boot=0):
        """signature of the known finding: after the last response no ping reached the wire, and at every timer1 tick of the ping window
        the 2-slot out queue was full (two other frames reach the wire in the two iterates, 200 ms, that follow the tick)"""
        c = K()
        if J != 0: return ''
        r = max([t for t in deliveries if t < t_d] or [0])
        wires = [(ints[0], ints[2]) for (k, ints, _) in outs if k == 'WIRE' and ints[1] == cn]
        if any(call == c['CALL_PING'] and r < t <= t_d for (t, call) in wires): return ''
        tw = max([ints[0] for (k, ints, _) in outs if k == 'WIFISTART' and ints[0] < t_d] or [0])
        sec = lambda t: (boot + t) // S
        M = c['PING_WINDOW_MINUS']
        ticks = [x for x in range(tw + S, t_d, S) if T - M <= sec(x) - sec(r) <= T]
        if len(ticks) < M: return ''
        for x in ticks:
            if sum(1 for (t, call) in wires if x <= t <= x + 200000 and call != c['CALL_PING']) < 2: return ''
        return ' [ping starved: no ping reached the wire after the last response at %d us; the out queue was full at all %d timer1 ticks of the ping window]' % (r, len(ticks))
    def finding_key(self, case, what):
        if 'keep-alive' in what and '[ping starved:' in what: return 'ping-starved-by-full-out-queue'
        return None

    # ---------------- generators
    def up_and_register(self, rng, T, grant=None, first_adv=None):
        """wifi up, TCP connect, register result with timeout T, set-activity-timeout result granting `grant`"""
        evs = [('ADV', [first_adv if first_adv is not None else rng.choice([100000, 250000, 300000, 999000, 1500000])], b''), ('WIFI', [5], b''),
               ('ADV', [rng.choice([200000, 250000, 400000])], b''), ('CONNCB', [], b''), ('ADV', [rng.choice([100000, 300000, 450000, 700000])], b''),
               ('RECV', [], reg_result(3, T, 1))]
        if T != K()['ACTIVITY_TIMEOUT_DEFAULT']:
            g = T if grant is None else grant
            evs += [('ADV', [rng.choice([150000, 300000])], b''), ('RECV', [], sat_result(g, 2, *self.minmax(rng, g)))]
        return evs
    def minmax(self, rng, g):
        """min / max bytes of the set-activity-timeout result: the device must ignore them"""
        return rng.choice([(5, 240), (5, 240), (0, 255), (g + 1, 240), (5, max(g - 1, 0)), (255, 0), (77, 3)])
    def local_traffic(self, rng, total_us, mode):
        """events covering total_us of time with the given local traffic pattern"""
        evs = []; t = 0
        if mode == 'none':
            while t < total_us:
                d = min(5 * S, total_us - t); evs.append(('ADV', [d], b'')); t += d
        elif mode == 'periodic':
            per = rng.choice([1, 2, 3, 4]) * S + rng.choice([0, 0, 137000, -250000]); api = rng.choice([0, 0, 1, 2, 3, 5])
            while t < total_us:
                evs.append(('ADV', [per], b'')); evs.append(('LOCAL', [api, 0, (t // S) & 1], b'')); t += per
        elif mode == 'burst':
            while t < total_us:
                d = rng.choice([900000, 950000, 1000000, 2000000, 3000000]); evs.append(('ADV', [d], b'')); t += d
                for _ in range(rng.choice([1, 2, 3, 4])): evs.append(('LOCAL', [rng.randrange(0, 6), 0, 1], b''))
        else:
            while t < total_us:
                d = rng.choice([100000, 400000, 1000000, 2500000, 5000000]); evs.append(('ADV', [d], b'')); t += d
                if rng.random() < 0.5: evs.append(('LOCAL', [rng.randrange(0, 9), 0, 1], b''))
        return evs
    def cfg(self, rng, tags, aged=False):
        lat = []
        if rng.random() < 0.3: lat = [rng.choice([0, 0, 1000, 20000, 100000, 400000, 900000]) for _ in range(rng.randrange(1, 6))]; tags.add('lateness')
        boot = rng.randrange(0, 1000) * 1000 + rng.choice([0, 1, 999]); cycles = 0
        if aged:
            boot = 2**32 - rng.choice([2, 5, 12, 20, 33, 47]) * S - rng.randrange(0, S); cycles = rng.choice([999, 999, 1000, 998, 0]); tags.add('aged')
        return ('CFG', [boot, -12, rng.randrange(0, 3), cycles] + lat, b'')
    def gen_case(self, rng, cid):
        tags = set(); k = rng.random(); aged = rng.random() < 0.15
        evs = [self.cfg(rng, tags, aged)]
        fast = 200000 if aged else None      # an aged device must hear from the server within its first second (last_response = 0 at boot)
        def reg(T, grant=None):
            if aged: return [('WIFI', [5], b''), ('ADV', [200000], b''), ('CONNCB', [], b''), ('RECV', [], reg_result(3, T, 1))] + \
                            ([('ADV', [150000], b''), ('RECV', [], sat_result(T if grant is None else grant, 2, *self.minmax(rng, T)))] if T != 10 else [])
            return self.up_and_register(rng, T, grant)
        if k < 0.10 and not aged:
            # registration REFUSED (or version error): the firmware stops (stop_with_delay, started = 0); with a server that stays silent
            # afterwards the watchdog restart 61 s later is the only way out: the 62 s clause is judged in the stopped state as well
            tags.add('refused-silent')
            code = rng.choice([4, 8, 13, 5, 6, 7, 10, 14, 15, 17, 19, 20, 37, 0, 2, 99, 259, -1, 'verr'])
            refusal = c04.version_error(1) if code == 'verr' else reg_result(code, rng.choice([0, 10]), 1)
            evs.append(('SERVER', [rng.choice([-1, 100000])], b''))
            if rng.random() < 0.4:                                   # an accepted session first, the server closes, the next registration is refused
                tags.add('refused-after-accepted'); T = rng.choice([10, 20, 30])
                evs += self.up_and_register(rng, T); evs += self.local_traffic(rng, rng.choice([3, 8, 15]) * S, rng.choice(['none', 'periodic']))
                evs += [('DISCCB', [], b''), ('ADV', [2300000], b''), ('WIFI', [5], b''), ('ADV', [400000], b''), ('CONNCB', [], b''), ('ADV', [300000], b'')]
            else:
                evs += [('ADV', [300000], b''), ('WIFI', [5], b''), ('ADV', [250000], b''), ('CONNCB', [], b''), ('ADV', [rng.choice([100000, 400000])], b'')]
            evs.append(('RECV', [], refusal)); evs.append(('SERVER', [-1], b''))
            k2 = rng.random()
            if k2 < 0.3: evs += [('ADV', [rng.choice([1000, 6000, 500000])], b''), ('DISCCB', [], b'')]   # the server closes the socket after refusing
            evs += self.local_traffic(rng, rng.choice([70, 90, 130]) * S, rng.choice(['none', 'none', 'random']))
            if rng.random() < 0.3: evs += [('WIFI', [rng.choice([5, 1, 0])], b''), ('ADV', [5 * S], b'')]
        elif k < 0.22 and not aged:
            # two interruptions in sequence: silence (or the server closes the socket), recovery and re-registration, second silence 5..70 s later:
            # the T+11 s bound must hold after EACH silence (next_wd_soft_timeout_challenge must not rate-limit the activity-timeout reconnect)
            T = rng.choice([10, 10, 15, 20, 30, 40, 50, rng.randrange(10, 51)]); tags.add('multi-outage'); tags.add('T<=50')
            d = rng.choice([0, 100000, 500000])
            evs.append(('SERVER', [d], b'')); evs += reg(T)
            evs += self.local_traffic(rng, rng.choice([2, 6, 12]) * S, rng.choice(['none', 'periodic']))
            for outage in range(rng.choice([2, 2, 3])):
                if outage > 0 or rng.random() < 0.6:
                    tags.add('outage:silence'); evs.append(('SERVER', [-1], b''))
                    evs += self.local_traffic(rng, (T + 13) * S, rng.choice(['none', 'none', 'periodic']))
                else:
                    tags.add('outage:server-closed'); evs += [('DISCCB', [], b''), ('ADV', [2300000], b'')]
                if outage == 2 or (outage == 1 and rng.random() < 0.4): break
                evs += [('SERVER', [d], b''), ('ADV', [300000], b''), ('WIFI', [5], b''), ('ADV', [rng.choice([250000, 400000])], b''), ('CONNCB', [], b''),
                        ('ADV', [rng.choice([100000, 300000])], b''), ('RECV', [], reg_result(3, T, 1))]
                if T != 10: evs += [('ADV', [150000], b''), ('RECV', [], sat_result(T, 2))]
                evs += self.local_traffic(rng, rng.choice([5, 8, 15, 25, 40, 55, 70]) * S + rng.randrange(0, S), rng.choice(['none', 'periodic', 'random']))
            evs += self.local_traffic(rng, rng.choice([3, 20]) * S, 'none')
        elif k < 0.30 and not aged:
            # the server goes silent and then drops the TCP connection delta < 2 s BEFORE the device's own activity-timeout reconnect (first
            # timer1 tick with T+10 whole seconds of silence): the disconnect callback arms the 2 s delayed reconnect, the device's own
            # stop()/start() must cancel it; the link comes back fast (registered again ~0.5 s later, prompt server): the new session is
            # healthy and must not be torn down by the stale one-shot timer.  Other deltas: the drop after the device's reconnect / long before
            T = rng.choice([10, 10, 15, 20, 30, 45, rng.randrange(10, 51)]); tags.add('drop-before-own-reconnect'); tags.add('T<=50')
            boot = evs[0][1][0]
            a, b, c_ = rng.choice([100000, 250000, 300000]), rng.choice([200000, 250000, 400000]), rng.choice([100000, 300000, 450000])
            evs += [('SERVER', [-1], b''), ('ADV', [a], b''), ('WIFI', [5], b''), ('ADV', [b], b''), ('CONNCB', [], b''), ('ADV', [c_], b''), ('RECV', [], reg_result(3, T, 1))]
            tR = a + b + c_; t = tR
            if T != 10: evs += [('ADV', [150000], b''), ('RECV', [], sat_result(T, 2))]; tR += 150000; t = tR
            # device's own reconnect: first whole-second tick k*S (timer1 armed at start-up, period 1 s) with sec(k*S) - sec(tR) >= T + 10
            kk = tR // S + 1
            while (boot + kk * S) // S - (boot + tR) // S < T + 10: kk += 1
            tk = kk * S
            delta = rng.choice([200000, 400000, 700000, 1000000, 1200000, rng.randrange(100000, 1300000), rng.randrange(100000, 1300000), rng.choice([1700000, 1950000, 2500000, -300000])])
            td = tk - delta
            evs += self.local_traffic(rng, td - t, 'none') if td > t else []
            evs.append(('DISCCB', [], b''))
            # (the 200 ms status poll must see CONNECTING once after the device's wifi_station_connect before the environment reports GOT_IP)
            t2 = max(tk, td) + rng.choice([230000, 250000, 300000])
            evs.append(('ADV', [t2 - td], b''))
            d = rng.choice([0, 50000, 100000])
            evs += [('SERVER', [d], b''), ('WIFI', [5], b''), ('ADV', [rng.choice([250000, 300000])], b''), ('CONNCB', [], b''), ('ADV', [rng.choice([110000, 150000])], b''),
                    ('RECV', [], reg_result(3, T, 1))]
            if T != 10: evs += [('ADV', [100000], b''), ('RECV', [], sat_result(T, 2))]
            evs += self.local_traffic(rng, (T + rng.choice([8, 15, 30])) * S, rng.choice(['none', 'none', 'periodic']))
        elif k < 0.45:
            # granted timeout T over the whole range of the theorem (5..58); when the register result carries another value T0 the device
            # asks for 10 and the set-activity-timeout result grants T (any min / max bytes): the schedule must follow the granted value
            T = rng.choice([10, 10, 11, 15, 20, 30, 45, 50, 5, 6, 9, 51, 55, 58, rng.randrange(5, 59)]); tags.add('keepalive'); tags.add('T<=50' if T <= 50 else 'T<=58')
            evs.append(('SERVER', [rng.choice([0, 1000, 50000, 300000, 600000, 900000, 999000])], b''))
            if T != 10 and rng.random() < 0.5:
                T0 = rng.choice([30, 120, 240, 0, 3, 200, 11]); T0 = T0 if T0 != T else 60; tags.add('negotiated'); evs += reg(T0, grant=T)
            else: evs += reg(T)
            mode = rng.choice(['none', 'none', 'periodic', 'periodic', 'burst', 'random']); tags.add('traffic:' + mode)
            evs += self.local_traffic(rng, (2 * T + rng.choice([8, 15, 25])) * S, mode)
        elif k < 0.80:
            T = rng.choice([10, 20, 30, 50, 51, 52, 55, 60, 120, 240, 0, 5, rng.randrange(10, 241)]); tags.add('silent'); tags.add('T<=50' if T <= 50 else 'T>50')
            evs.append(('SERVER', [rng.choice([0, 100000, 500000])], b''))
            evs += reg(T, grant=rng.choice([None, None, 10, 30]))
            mode = rng.choice(['none', 'periodic', 'random'])
            evs += self.local_traffic(rng, rng.choice([0, 3, 7, 12, 25]) * S + rng.randrange(0, S), mode)
            evs.append(('SERVER', [-1], b''))                      # the server stops answering here
            evs += self.local_traffic(rng, rng.choice([30, 64, 64, 70]) * S, rng.choice(['none', 'none', 'periodic', 'random']))
            if rng.random() < 0.3:                                   # wifi comes back: the connect sequence runs again, still silent
                evs += [('WIFI', [5], b''), ('ADV', [400000], b''), ('CONNCB', [], b''), ('ADV', [30 * S], b''), ('ADV', [35 * S], b'')]
        elif k < 0.90:
            T = rng.choice([10, 20, 30]); tags.add('late-responses')
            evs.append(('SERVER', [rng.choice([1100000, 2500000, 4000000, 9000000])], b''))
            evs += reg(T)
            for _ in range(rng.randrange(2, 6)):
                evs += self.local_traffic(rng, rng.choice([10, 20]) * S, rng.choice(['none', 'periodic']))
                evs.append(('SERVER', [rng.choice([0, 500000, 1500000, 6000000, 12000000, -1])], b''))
            evs += self.local_traffic(rng, 30 * S, 'none')
        else:
            tags.add('never-registered')
            if rng.random() < 0.5: evs += [('ADV', [300000], b''), ('WIFI', [5], b''), ('ADV', [250000], b''), ('CONNCB', [], b'')]
            evs += self.local_traffic(rng, 66 * S, rng.choice(['none', 'random']))
        return F.Case(cid, evs, sorted(tags))
    def gen_cases(self, rng, n, tier):
        cases = [self.gen_case(rng, '%s%d' % (tier[0], i)) for i in range(n)]
        if tier == 'thorough': cases += self.sweep()
        return cases
    def sweep(self):
        """all T in 10..60 step 1 and a grid of phases, silent server right after the registration / answering server"""
        cases = []
        for T in list(range(10, 61)) + [90, 120, 240]:
            for ph in (0, 137, 500, 863, 999):
                evs = [('CFG', [ph * 1000, -12, 1, 0], b''), ('SERVER', [100000], b'')] + \
                      [('ADV', [300000], b''), ('WIFI', [5], b''), ('ADV', [250000], b''), ('CONNCB', [], b''), ('ADV', [300000], b''), ('RECV', [], reg_result(3, T, 1))]
                if T != 10: evs += [('ADV', [150000], b''), ('RECV', [], sat_result(T, 2))]
                cases.append(F.Case('sw_silent_%d_%d' % (T, ph), evs + [('SERVER', [-1], b'')] + [('ADV', [5 * S], b'')] * 14, ['silent', 'sweep']))
                if T <= 50:
                    cases.append(F.Case('sw_keep_%d_%d' % (T, ph), evs + [('ADV', [5 * S], b'')] * ((3 * T) // 5 + 2), ['keepalive', 'sweep']))
        return cases

CHECK = C05()
