"""C02 — outgoing calls reach the wire intact, in order, exactly once or not at all:
generators, implementation-side monitor, check definition."""
import os, struct, sys
import framework as F

PC = None; CC = None
def consts():
    global PC, CC
    if PC is None:
        PC = F.G.load('ProtoConsts'); CC = F.G.load('C02Consts')
    return PC
def cconsts():
    consts(); return CC

OK, INPROGRESS, MAXNUM = 0, -5, -7
# every other result code of espconn.h, the neighbours of the two transient codes, and the ends of the sint8 range
HARD_CODES = [-1, -3, -4, -6, -8, -9, -10, -11, -12, -14, -15, -28, -61, 1, 5, 7, -128, 127]

def frame(rr, call, payload, ver=None):
    c = consts()
    ver = c['DEVICE_PROTO_VERSION'] if ver is None else ver
    tag = bytes(c['TAG'])
    return tag + bytes([ver & 255]) + struct.pack('<III', rr & 0xFFFFFFFF, call & 0xFFFFFFFF, len(payload)) + payload + tag

def is_subsequence(a, b):
    """a is a (not necessarily contiguous) subsequence of b"""
    i = 0; n = len(a)
    if n == 0: return True
    for x in b:
        if x == a[i]:
            i += 1
            if i == n: return True
    return False

def ds_expect(row, img):
    """what typed entry point `row` must issue for struct image img: (call_id, size) or (0, 0) when the wrapper refuses"""
    k, cid, sz, base, unit, voff, vw, vmin, vmax = row
    if vw == 0: return cid, base
    v = int.from_bytes(img[voff:voff + vw], 'little')
    if v < vmin or v > vmax: return 0, 0
    return cid, base + unit * v

def ev_call(e):
    """(call_id, payload, sure) of a CALL/DS event; sure=False when only the python table says the wrapper refuses"""
    k, ints, data = e
    if k == 'CALL': return ints[0], bytes(data), True
    if k == 'DS':
        if ints[1] == 0: return 0, b'', False
        return ints[1], bytes(data[:ints[2]]), True
    return None

class C02(F.PropCheck):
    pid = 'C02'; gen_groups = ['ProtoConsts', 'C02Consts']; prop_file = 'Properties_C02'
    IN = {'CALL': 0, 'ITER': 1, 'DS': 2, 'BOOTRR': 3}
    OUT = {0: 'RET', 1: 'WIRE', 2: 'HARDERR', 3: 'SENDBUFEXCEEDED', 4: 'OUTBUFOVERFLOW', 5: 'RESTART'}
    quick_cases = 3000; thorough_cases = 120000
    trusted_extra = ['C02 driver harness/drv/c02.c + harness/include/c02_calls.h: real srpc_async_call, srpc_ds_async_*/srpc_dcs_async_*, '
                     'srpc_iterate, proto.c, supla_esp_data_write, supla_esp_devconn_iterate; espconn_sent scripted per ITER event',
                     'call ids >= 65536 are taken to be refused by srpc_call_allowed (the probe scans 0..65535 of the switch)',
                     'malloc/realloc never fail; lck_* are no-ops; no incoming data while sending (IN half of srpc_iterate is idle)']
    assumptions = ['no bytes are received during the history (the IN half of srpc_iterate can end an iteration early or restart; that is C01/C03)',
                   'espconn_sent result 0 = the bytes were taken by the TCP layer; INPROGRESS/MAXNUM = none were taken',
                   'RET is the returned id read as unsigned (the C return type is a signed 32-bit int)',
                   'a restart (supla_system_restart after srpc_iterate fails) counts as the report of an out-buffer overflow']
    rule = ('1-12 calls (generic srpc_async_call with allowed/unknown ids and the 21 typed device->server entry points; payload 0, small, '
            '256-byte frame boundaries, 477/478 (500-byte send buffer +-1), 719..729 after a 1536 (2048-byte out buffer +-5), 1531..1537, random) '
            'x bursts without iterate (2-slot queue) x ITER events with 3 scripted espconn_sent results from {0, INPROGRESS, MAXNUM} '
            '(runs of refusals) and, in ~12% of cases, hard errors (every espconn.h code, neighbours of -5/-7, sint8 ends); most cases end with '
            'enough all-OK iterations to drain; 7% slow-fill histories (up to 23 small frames against a refusing network: every fill level of '
            'the 500-byte retry buffer incl. exactly 500 and one frame beyond); 6% start the id counter near 2^32 or 2^31; '
            'non-trivial = at least one WIRE output; distinct by sha256 of the event text')

    def build_impl(self):
        wrap = os.path.join(F.VERIF, 'harness', 'wrap')
        srcs = [os.path.join(wrap, 'c02_proto_wrap.c') if s == os.path.join(wrap, 'proto_wrap.c') else s
                for s in F.device_sources('dev')]
        return F.build_c('c02', os.path.join(F.VERIF, 'harness', 'drv', 'c02.c'), sources=srcs)

    # ---------------- generators
    def payload_len(self, rng, prev_len):
        c = consts(); MAXD = c['MAX_DATA_SIZE']; HDR = c['SDP_SIZE'] - MAXD; T = c['TAG_SIZE']
        k = rng.random()
        if k < 0.12: return 0
        if k < 0.40: return rng.randrange(1, 64)
        if k < 0.52: return max(0, rng.choice([256, 512, 768, 1024]) - HDR - T + rng.choice([-1, 0, 1]))
        if k < 0.60: return c['SEND_BUFFER'] - HDR - T + rng.choice([-1, 0, 1, -256, -255])
        if k < 0.72: return rng.choice([MAXD - 5, MAXD - 1, MAXD, MAXD, MAXD + 1])
        if k < 0.82 and prev_len is not None and prev_len >= 1024:
            # out buffer boundary: (prev frame - 256) + HDR + n  around BUFFER_MAX
            return max(0, c['BUFFER_MAX'] - (prev_len + HDR + T - c['SRPC_BUFFER']) - HDR + rng.randrange(-7, 3))
        if k < 0.9: return rng.randrange(600, 900)
        return rng.randrange(0, MAXD + 1)

    def gen_call(self, rng, prev_len):
        cc = cconsts()
        if rng.random() < 0.25:
            row = rng.choice(cc['DSCALLS']); k, cid, sz, base, unit, voff, vw, vmin, vmax = row
            img = bytearray(rng.getrandbits(8) for _ in range(sz))
            if vw:
                vmaxrep = (1 << (8 * vw)) - 1
                r = rng.random()
                if r < 0.5: v = rng.randrange(vmin, min(vmax, vmin + 6) + 1)
                elif r < 0.7: v = rng.choice([vmin, vmax, max(0, vmax - 1)])
                elif r < 0.85: v = rng.choice([max(0, vmin - 1), min(vmaxrep, vmax + 1), vmaxrep])
                else: v = rng.randrange(0, vmaxrep + 1) if vw < 4 else rng.choice([rng.getrandbits(32), rng.randrange(0, vmax + 1)])
                img[voff:voff + vw] = v.to_bytes(vw, 'little')
            if k == 13: img[cc['OFFLINE_OFF_B']] &= 1
            if k == 14: img[cc['OFFLINE_OFF_C']] &= 1
            if k == 20: img = bytearray(sz)      # ping carries the clock, which is 0 in the driver
            ecid, esz = ds_expect(row, bytes(img))
            return ('DS', [k, ecid, esz], bytes(img)), (esz if ecid else None), 'typed'
        n = self.payload_len(rng, prev_len)
        r = rng.random()
        if r < 0.9: cid = rng.choice(cc['ALLOWED_CALLS'])
        else: cid = rng.choice([0, 1, 11, 65535, 65536, 2**31, 2**32 - 1, rng.getrandbits(32)])
        data = bytes(rng.getrandbits(8) for _ in range(n)) if rng.random() < 0.85 else (b'SUPLA' * (n // 5 + 1))[:n]
        return ('CALL', [cid], data), n, 'generic'

    def gen_results(self, rng, mode):
        if rng.random() < 0.05:      # short script: the remaining sends succeed
            return self.gen_results(rng, mode)[:rng.randrange(3)]
        if mode == 'ok': return [OK, OK, OK]
        if mode == 'refuse': return [rng.choice([INPROGRESS, MAXNUM]) for _ in range(3)]
        if mode == 'mixed': return [rng.choice([OK, OK, INPROGRESS, MAXNUM]) for _ in range(3)]
        # hard
        rs = [rng.choice([OK, INPROGRESS, MAXNUM]) for _ in range(3)]
        rs[rng.randrange(3)] = rng.choice(HARD_CODES)
        return rs

    def gen_slow_fill(self, rng):
        """many small frames, each handed to a network layer that keeps refusing: the retry buffer fills in small steps up to
        exactly SEND_BUFFER_SIZE (and one frame beyond), then drains; exercises every fill level of esp_send_buffer_len"""
        c = consts(); cc = cconsts(); HT = c['SDP_SIZE'] - c['MAX_DATA_SIZE'] + c['TAG_SIZE']
        fl = rng.choice([25, 50, 100, 125, 250, 23, 24, 26, 167])          # 25/50/100/125/250 divide 500 exactly
        k = c['SEND_BUFFER'] // fl + rng.choice([-1, 0, 1, 2])
        evs = []
        for j in range(max(1, k)):
            n = fl - HT if rng.random() < 0.85 else max(0, fl - HT + rng.choice([-1, 1]))
            evs.append(('CALL', [rng.choice(cc['ALLOWED_CALLS'])], bytes(rng.getrandbits(8) for _ in range(n))))
            evs.append(('ITER', [rng.choice([INPROGRESS, MAXNUM]) for _ in range(3)], b''))
            if rng.random() < 0.08: evs.append(('ITER', [rng.choice([INPROGRESS, MAXNUM]) for _ in range(3)], b''))
        for _ in range(rng.choice([0, 6, 6, 6])): evs.append(('ITER', [OK, OK, OK], b''))
        if rng.random() < 0.5:       # traffic after the buffer has drained (or has overflowed)
            evs.append(('CALL', [rng.choice(cc['ALLOWED_CALLS'])], bytes(rng.getrandbits(8) for _ in range(rng.randrange(0, 300)))))
            for _ in range(6): evs.append(('ITER', [OK, OK, OK], b''))
        return evs

    def gen_cases(self, rng, n, tier):
        c = consts(); cases = []
        for i in range(n):
            evs = []; tags = set()
            if rng.random() < 0.07:
                cases.append(F.Case('%s%d' % (tier[0], i), self.gen_slow_fill(rng), ['slow-fill', 'generic'])); continue
            ncalls = rng.choice([1, 2, 2, 3, 3, 4, 5, 6, 8, 12])
            net = rng.choice(['ok', 'ok', 'mixed', 'mixed', 'refuse-runs', 'hard'] if rng.random() < 0.75 else ['hard', 'refuse-runs'])
            if net == 'hard' and rng.random() < 0.4: net = 'mixed'
            iterp = rng.choice([0.0, 0.5, 1.0, 2.0, 4.0])
            prev = None; refusing = 0
            if rng.random() < 0.06:      # start close to the 32-bit wrap of the request-id counter
                base = rng.choice([2**32, 2**32, 2**31])     # 32-bit wrap (0 is skipped) / sign bit of the int return value
                evs.append(('BOOTRR', [base - 1 - rng.randrange(0, ncalls + 2)], b'')); tags.add('rr-wrap')
            for j in range(ncalls):
                e, ln, kind = self.gen_call(rng, prev); evs.append(e); tags.add(kind)
                if ln is not None: prev = ln
                if ln is not None and ln > c['MAX_DATA_SIZE']: tags.add('too-large')
                t = iterp if rng.random() < 0.8 else 0.0
                while t > 0 and rng.random() < t:
                    t -= 1
                    if net == 'ok': rs = self.gen_results(rng, 'ok')
                    elif net == 'mixed': rs = self.gen_results(rng, 'mixed')
                    elif net == 'hard': rs = self.gen_results(rng, 'hard' if rng.random() < 0.25 else 'mixed')
                    else:
                        if refusing > 0: refusing -= 1; rs = self.gen_results(rng, 'refuse')
                        elif rng.random() < 0.4: refusing = rng.choice([0, 1, 1, 2, 3]); rs = self.gen_results(rng, 'refuse')
                        else: rs = self.gen_results(rng, 'ok')
                    evs.append(('ITER', rs, b''))
            tags.add('net:' + net)
            if rng.random() < 0.9:
                total = sum((len(e[2]) if e[0] == 'CALL' else e[1][2]) + 23 for e in evs if e[0] in ('CALL', 'DS'))
                for _ in range(total // 256 + ncalls + 4): evs.append(('ITER', [OK, OK, OK], b''))
                tags.add('drained')
            cases.append(F.Case('%s%d' % (tier[0], i), evs, sorted(tags)))
        return cases

    # ---------------- monitor (implementation trace vs. the property text, no model involved)
    def monitor(self, case, status, outs):
        if status != 'ok':
            return ['implementation crashed (%s): accepted calls are lost without any report' % status]
        v = []
        calls = [ev_call(e) for e in case.evs if e[0] in ('CALL', 'DS')]
        rets = [o[1][0] for o in outs if o[0] == 'RET']
        kinds = [o[0] for o in outs]
        restarted = 'RESTART' in kinds
        if len(rets) > len(calls) or (len(rets) < len(calls) and not restarted):
            return ['%d calls issued but %d return values observed' % (len(calls), len(rets))]
        accepted = []; sure = True
        for (cid, payload, s), rr in zip(calls, rets):
            if rr != 0:
                accepted.append((rr, cid, payload)); sure = sure and s
        # request ids
        # (fewer than 2^32 calls per case: "increasing" is read along the 32-bit counter, which starts at `boot` and may wrap once)
        boot = case.evs[0][1][0] if case.evs and case.evs[0][0] == 'BOOTRR' else 0
        prev = None
        for (rr, cid, payload) in accepted:
            if rr == 0 or (prev is not None and (rr - boot - 1) % 2**32 <= (prev - boot - 1) % 2**32):
                v.append('request id %d issued after %s (counter started at %d): ids must be non-zero and strictly increasing' % (rr, prev, boot)); break
            prev = rr
        if not sure: return v     # the python table expected the typed wrapper to refuse: leave the content to the model comparison
        stream = b''.join(frame(rr, cid, payload) for (rr, cid, payload) in accepted)
        wire = b''.join(bytes(o[2]) for o in outs if o[0] == 'WIRE')
        lossy = 'HARDERR' in kinds or 'SENDBUFEXCEEDED' in kinds
        reported = lossy or restarted or 'OUTBUFOVERFLOW' in kinds
        if not lossy:
            if stream[:len(wire)] != wire:
                d = next((i for i in range(min(len(wire), len(stream))) if wire[i] != stream[i]), min(len(wire), len(stream)))
                v.append('byte %d given to the TCP layer differs from the frame stream of the accepted calls (%d bytes sent, %d expected), '
                         'no hard error / send-buffer overflow reported' % (d, len(wire), len(stream)))
        else:
            if not is_subsequence(wire, stream):
                v.append('bytes given to the TCP layer are not a subsequence of the frame stream of the accepted calls (duplication or reordering)')
        if not v and not reported:
            tail = 0
            for e in reversed(case.evs):
                if e[0] == 'ITER' and all(r == 0 for r in e[1]): tail += 1
                else: break
            if tail >= len(stream) // 256 + len(accepted) + 3 and wire != stream:
                pos = 0; lost = None
                for (rr, cid, payload) in accepted:
                    pos += len(frame(rr, cid, payload))
                    if pos > len(wire): lost = rr; break
                v.append('accepted call rr=%s was not transmitted (%d of %d bytes sent) although %d all-OK iterations followed and no overflow, '
                         'hard error or restart was reported' % (lost, len(wire), len(stream), tail))
        # "Send buffer size exceeded" is the report of one chunk (<= SRPC_BUFFER_SIZE bytes) that did not fit behind the bytes
        # waiting in the 500-byte retry buffer: nothing else may be missing, and the chunk must really not have fitted
        nsbe = kinds.count('SENDBUFEXCEEDED')
        if not v and nsbe and 'HARDERR' not in kinds and not restarted:
            tail = 0
            for e in reversed(case.evs):
                if e[0] == 'ITER' and all(r == 0 for r in e[1]): tail += 1
                else: break
            if tail >= len(stream) // 256 + len(accepted) + 3:
                c = consts()
                if len(stream) - len(wire) > nsbe * c['SRPC_BUFFER']:
                    v.append('%d bytes of accepted calls never reached the TCP layer but only %d send-buffer overflow(s) of at most %d bytes '
                             'were reported (%d all-OK iterations followed)' % (len(stream) - len(wire), nsbe, c['SRPC_BUFFER'], tail))
                elif nsbe == 1:
                    # where is the hole?  wire = stream[:g] + stream[g+n:]; at the moment of the report the retry buffer held
                    # stream[wbefore:g] (everything handed over earlier is either on the wire or waiting), the chunk was stream[g:g+n]
                    n = len(stream) - len(wire); wbefore = 0
                    for o in outs:
                        if o[0] == 'SENDBUFEXCEEDED': break
                        if o[0] == 'WIRE': wbefore += len(o[2])
                    p = 0
                    while p < len(wire) and wire[p] == stream[p]: p += 1
                    s = 0
                    while s < len(wire) and wire[len(wire) - 1 - s] == stream[len(stream) - 1 - s]: s += 1
                    cand = [g for g in range(max(wbefore, len(wire) - s), p + 1)] if n > 0 else []
                    if cand and all(g + n - wbefore <= c['SEND_BUFFER'] for g in cand):
                        g = cand[0]
                        v.append('"Send buffer size exceeded" reported and the %d bytes at stream offset %d dropped although only %d bytes '
                                 'were waiting in the retry buffer (%d + %d <= SEND_BUFFER_SIZE %d): loss without overflow'
                                 % (n, g, g - wbefore, g - wbefore, n, c['SEND_BUFFER']))
        # a restart is a legitimate report only of an out-buffer overflow (C02_overflow_exact): accepted calls that are
        # dropped by a restart although every queued frame fitted below BUFFER_MAX_SIZE are lost without cause
        if not v and restarted and not lossy and wire != stream and not self.overflow_before_restart(case, rets):
            pos = 0; lost = None
            for (rr, cid, payload) in accepted:
                pos += len(frame(rr, cid, payload))
                if pos > len(wire): lost = rr; break
            v.append('device restarted and dropped accepted call rr=%s (%d of %d bytes sent) although the proto out buffer never overflowed '
                     '(|out buffer| + |frame| < BUFFER_MAX_SIZE at every iteration) and no hard error / send-buffer overflow occurred'
                     % (lost, len(wire), len(stream)))
        return v

    def overflow_before_restart(self, case, rets):
        """size bookkeeping of the out queue and the proto out buffer from the events and return values alone (it does not
        depend on the espconn results): every ITER moves the oldest queued frame into the out buffer if it fits and then
        takes up to SRPC_BUFFER_SIZE bytes out.  True when some queued frame did not fit before the device stopped
        executing events (the restart happened between the last executed call and the next one)."""
        c = consts(); q = []; outb = 0; ncall = 0
        for e in case.evs:
            if e[0] in ('CALL', 'DS'):
                if ncall >= len(rets): return False       # this call was never executed: the restart came earlier
                rr = rets[ncall]; ncall += 1
                if rr != 0:
                    cid, payload, _ = ev_call(e); q.append(len(frame(rr, cid, payload)))
            elif e[0] == 'ITER':
                if q:
                    f = q.pop(0)
                    if outb + f >= c['BUFFER_MAX']: return True
                    outb += f
                outb -= min(c['SRPC_BUFFER'], outb)
        return False

    def nontrivial(self, case, io): return any(o[0] == 'WIRE' for o in io[1])

CHECK = C02()
