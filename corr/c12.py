"""C12 — config mode, recalibration, factory reset need physical access or authorisation:
generators, implementation-side monitor, model/implementation comparison, check definition."""
import os, struct, sys
import framework as F

KC = None
def K():
    global KC
    if KC is None: KC = F.G.load('C12Consts')
    return KC

M32 = 1 << 32
KEEP = ('CFGMODE', 'CALRES', 'CAL', 'INERT', 'FACTORYHOOK', 'RESTART', 'CFGFLASH', 'OPMODE', 'ACCEPT', 'START')

class InMap(dict):
    """event name -> model kind; real-schedule events (ADV, IN) are not model events"""
    def __getitem__(self, k):
        if k in self: return dict.__getitem__(self, k)
        return 99

# ------------------------------------------------------------------------------------------------
# boards
class Board:
    """relays: [(gpio, channel, chflags)], rs: [(up_idx, down_idx)], inputs: [dict(gpio,type,flags,relay,channel,atcap,at)]"""
    def __init__(self): self.relays = []; self.rs = []; self.inputs = []; self.rsflags = 0; self.time1 = []; self.time2 = []; self.tilt = []
    def rs_channel(self, k): return self.relays[self.rs[k][0]][1]
    def rs_regflags(self, k):
        return 0x10000 | self.rsflags | K()['CHFLAG_RECALIBRATE']
    def boot_ints(self, boot32, blank, flashcfg, gpioin=0):
        a = [boot32, blank, flashcfg, len(self.inputs)]
        for i in self.inputs: a += [i['type'], i['flags'], i['relay'], i['atcap'], i['at'], i['channel']]
        a.append(len(self.rs))
        for k, (u, d) in enumerate(self.rs):
            t1 = self.time1[k] if k < len(self.time1) else 0; t2 = self.time2[k] if k < len(self.time2) else 0
            tl = self.tilt[k] if k < len(self.tilt) else 0
            a += [1, self.relays[u][1], self.relays[u][2], self.rs_regflags(k), tl, self.relays[u][0], self.relays[d][0], t1, t2]
        # tail used by the C driver only (the model reads by the counts above)
        a.append(len(self.relays))
        for r in self.relays: a += [r[0], r[1], r[2]]
        for (u, d) in self.rs: a += [u, d]
        a += [self.rsflags, gpioin]
        for i in self.inputs: a += [i['gpio'], i['channel']]
        return a

def parse_boot(a):
    """board description back from the BOOT integers (the monitor only sees the case)"""
    a = list(a) + [0] * 64; k = [0]
    def nx(): k[0] += 1; return a[k[0] - 1]
    b = Board(); boot32 = nx(); blank = nx(); flashcfg = nx(); nin = nx()
    for _ in range(nin):
        t, f, r, cap, at, chn = nx(), nx(), nx(), nx(), nx(), nx(); b.inputs.append(dict(gpio=255, type=t, flags=f, relay=r, channel=chn, atcap=cap, at=at))
    nrs = nx(); rsm = []
    for _ in range(nrs):
        ex, ch, fl, rf, tl, ug, dg, t1, t2 = [nx() for _ in range(9)]
        b.time1.append(t1); b.time2.append(t2); b.tilt.append(tl); rsm.append(ch)
    nrel = nx()
    for _ in range(nrel): g, c, f = nx(), nx(), nx(); b.relays.append((g, c, f))
    for _ in range(nrs): u, d = nx(), nx(); b.rs.append((u, d))
    b.rsflags = nx(); nx()
    for i in range(nin): b.inputs[i]['gpio'] = nx(); b.inputs[i]['channel'] = nx()
    return b, boot32, blank, flashcfg

def gen_board(rng, no_rs=False):
    k = K(); b = Board()
    nrs = 0 if no_rs else rng.choice([0, 1, 1, 1, 2]); nplain = rng.choice([0, 1, 2])
    gp = [4, 5, 12, 13, 14, 15]; ch = 0
    for _ in range(nrs):
        u = len(b.relays); b.relays.append((gp.pop(0), ch, 0)); b.relays.append((gp.pop(0), ch, 0)); b.rs.append((u, u + 1)); ch += 1
    for _ in range(nplain):
        if gp: b.relays.append((gp.pop(0), ch, 0)); ch += 1
    b.rsflags = rng.choice([0, 0, k['CHFLAG_AUTOCAL']])
    for _ in range(nrs):
        z = rng.random() < 0.25
        b.time1.append(0 if z else rng.choice([10000, 5000, 20000])); b.time2.append(0 if z else rng.choice([12000, 5000, 20000]))
        b.tilt.append(rng.choice([0, 0, 0, 1, 2]))
    nin = rng.choice([1, 2, 2, 3, 4]); pins = [0, 2, 3, 16 - 7, 10]
    for n in range(nin):
        typ = rng.choice([k['TYPE_MONOSTABLE']] * 4 + [k['TYPE_BISTABLE']] * 3 + [k['TYPE_MOTION'], k['TYPE_SENSOR']])
        fl = 0
        if rng.random() < 0.8: fl |= k['FLAG_CFG_BTN']
        if rng.random() < 0.4: fl |= k['FLAG_FACTORY_RESET']
        if rng.random() < 0.35: fl |= k['FLAG_CFG_ON_TOGGLE']
        if rng.random() < 0.35: fl |= k['FLAG_CFG_ON_HOLD']
        if rng.random() < 0.2: fl |= 0x10
        if rng.random() < 0.3: fl |= k['FLAG_PULLUP']
        rel = 255
        if b.relays and rng.random() < 0.6: rel = rng.choice(b.relays)[0]
        atcap = rng.choice([0, 0, k['CAP_SHORT_PRESS_MASK'] | k['CAP_HOLD'], k['CAP_TG1'] | k['CAP_TG2'] | k['CAP_TURN_ON'] | k['CAP_TURN_OFF'], 0xFFFF])
        at = -1
        if atcap and rng.random() < 0.7: at = rng.choice([0, atcap, k['CAP_SP1'], k['CAP_SP2'] | k['CAP_HOLD'], k['CAP_TG1'], k['CAP_TURN_ON'] | k['CAP_TURN_OFF'], k['CAP_SP5']])
        # ACTIONTRIGGER channels must be < CHANNEL_MAX_COUNT (8) for a channel config to reach them; relay channels use 0..3
        b.inputs.append(dict(gpio=pins[n], type=typ, flags=fl, relay=rel, channel=4 + n if atcap else 255, atcap=atcap, at=at))
    return b

# ------------------------------------------------------------------------------------------------
# messages
def calcfg_req(sender, ch, cmd, auth, dtype, data=b'', dsize=None):
    return struct.pack('<iiiBiI', sender, ch, cmd, auth & 255, dtype, len(data) if dsize is None else dsize) + data
def new_value(sender, ch, dur, val):
    return struct.pack('<iBI', sender, ch & 255, dur & 0xFFFFFFFF) + bytes(val) + bytes(8 - len(val))
def group_value(ch, dur, val):
    k = K(); p = bytearray(k['GNV_SIZE'])
    p[k['GNV_OFF_CHANNEL']] = ch & 255; struct.pack_into('<I', p, k['GNV_OFF_DURATION'], dur & 0xFFFFFFFF)
    p[k['GNV_OFF_VALUE']:k['GNV_OFF_VALUE'] + len(val)] = bytes(val)
    return bytes(p)
def chan_config(ch, func, cfgtype, config):
    return struct.pack('<BiBH', ch & 255, func, cfgtype & 255, len(config)) + config
def at_config(ch, actions):
    return chan_config(ch, K()['FUNC_ACTIONTRIGGER'], 0, struct.pack('<I', actions & 0xFFFFFFFF))
def reg_result(code=None):
    return struct.pack('<iBBB', K()['RESULTCODE_TRUE_'] if code is None else code, 30, 23, 1)

def req_fields(p):
    k = K()
    if len(p) < k['REQ_SIZE'] - k['CALCFG_DATA_MAX']: return None
    sender, ch, cmd = struct.unpack_from('<iii', p, 0); auth = p[k['REQ_OFF_AUTH']]
    dtype, = struct.unpack_from('<i', p, k['REQ_OFF_DATATYPE']); dsize, = struct.unpack_from('<I', p, k['REQ_OFF_DATASIZE'])
    gate = len(p) <= k['REQ_SIZE'] and dsize == len(p) - (k['REQ_SIZE'] - k['CALCFG_DATA_MAX'])
    return dict(sender=sender, ch=ch, cmd=cmd, auth=auth, dtype=dtype, dsize=dsize, gate=gate, data=p[k['REQ_OFF_DATA']:])

# ------------------------------------------------------------------------------------------------
class C12(F.PropCheck):
    pid = 'C12'; gen_groups = ['C12Consts']; prop_file = 'Properties_C12'
    IN = InMap({'BOOT': 0, 'CONNCB': 1, 'ITER': 2, 'SRV': 3, 'NOTIFY': 4, 'TICK': 5, 'TIME': 6, 'HOLD': 7, 'APT': 8, 'RSPOKE': 9, 'MBOOT': 10})
    OUT = {0: 'CFGMODE', 1: 'CALRES', 2: 'CAL', 3: 'INERT', 4: 'FACTORYHOOK', 5: 'RESTART', 6: 'CFGFLASH', 7: 'OPMODE', 8: 'ACCEPT', 9: 'START'}
    quick_cases = 2400; thorough_cases = 60000
    trusted_extra = ['C12 driver harness/drv/c12.c: real user_main.c/user_init + all device sources; linker --wrap of system_restart (ends the case) and '
                     'supla_esp_gpio_state_cfgmode (prints CFGMODE) and ets_delay_us (abstract-schedule cases: relay busy-waits take no virtual time); NOTIFY/TICK/TIME/APT call the real handlers / timer callbacks directly',
                     'call-site scan: clang -S -emit-llvm -O0 of the device sources, symbol references per function body']
    assumptions = ['board CALCFG hook inert, supla_esp_restart_on_cfg_press = 0, FirmwareUpdate = 0 (no update in progress), non-MQTT build',
                   'timer scheduling abstracted: theorems quantify over every interleaving of Tick/Time/ApTimer events (C11/C05 cover the scheduler)',
                   'roller-shutter engine = environment event RsEnv (arbitrary calibration state); message steps are checked from arbitrary states',
                   'RETREIVE_CHANNEL_CONFIG compiled in; only the ACTIONTRIGGER channel configuration is modelled, gate-passing non-empty configs for relay/shutter functions are excluded by hypothesis (chcfg_unmodelled) and not generated']
    rule = ('abstract-schedule cases (model compared): boot with complete/incomplete/blank config x random boards (1-4 inputs, all CFG/FACTORY_RESET/ON_TOGGLE/ON_HOLD '
            'flag combinations, 0-2 shutters) x holds around the 5 s boundary, toggle trains with gaps around 2 s / 2^31 / 2^32 us and 40 min, CALCFG requests over '
            'all commands/data types/sizes/flag values/channels, set-value and random other calls, RsEnv pokes; real-schedule cases (monitor only): pin edges + '
            'real timers.  non-trivial = at least one C12 observable (CFGMODE/CALRES/CAL/INERT/FACTORY/RESTART/CFGFLASH); distinct by sha256 of the event text')

    def build_impl(self):
        V = F.VERIF
        # second, small binary: the real user_main.c compiled for an MQTT-capable build, callees of user_init() stubbed (boot decision only);
        # the main driver replaces its per-case child process by it for the event MBOOT
        bexe, blog = F.build_c('c12boot', os.path.join(V, 'harness', 'drv', 'c12_boot.c'), config='mqtt',
                               sources=[os.path.join(F.REPO, 'src', 'user', 'user_main.c')], extra_flags=['-DSPI_FLASH_SIZE_MAP=6'])
        if bexe is None: return None, blog
        os.environ['C12_BOOT_EXE'] = bexe
        return F.build_c('c12', os.path.join(V, 'harness', 'drv', 'c12.c'), config='devcfg',
                         extra_srcs=[os.path.join(F.REPO, 'src', 'user', 'user_main.c'), os.path.join(V, 'harness', 'doubles', 'c12_extra.c')],
                         extra_flags=['-DSPI_FLASH_SIZE_MAP=2', '-DVERIF_REAL_USER_MAIN'],
                         libs=['-Wl,--wrap=system_restart', '-Wl,--wrap=supla_esp_gpio_state_cfgmode', '-Wl,--wrap=ets_delay_us'])

    # ---------------- generators
    def gen_srv(self, rng, b, rr):
        """one server message (call, payload, tag)"""
        k = K(); x = rng.random()
        rsch = [b.rs_channel(i) for i in range(len(b.rs))]
        chans = sorted({r[1] for r in b.relays}) + [rng.randrange(0, 8), 255, -1] + [c_ + 256 for c_ in rsch] + [c_ - 256 for c_ in rsch]
        if x < 0.5:
            ch = rng.choice(rsch * 3 + chans) if (rsch or chans) else 0
            cmd = rng.choice([k['CMD_ENTER_CFG_MODE']] * 3 + [k['CMD_RECALIBRATE']] * 4 + [0, 1, 7999, 8001, 8999, 9001, rng.randrange(-5, 10000)] +
                             # values that equal a command only after narrowing to 16 / 8 bits
                             [k['CMD_ENTER_CFG_MODE'] + 65536, k['CMD_RECALIBRATE'] + 65536, k['CMD_ENTER_CFG_MODE'] - 65536, k['CMD_RECALIBRATE'] | 0x10000000])
            auth = rng.choice([0, 0, 0, 1, 1, 2, 255, 128])
            dtype = rng.choice([0, 0, k['DATATYPE_RS_SETTINGS'], k['DATATYPE_RS_SETTINGS'], 1, 999, 1001, -1])
            data = b''
            if dtype == k['DATATYPE_RS_SETTINGS'] or rng.random() < 0.2:
                ot = rng.choice([0, 5000, 10000, 20000, 7000]); ct = rng.choice([0, 5000, 12000, 20000, 8000])
                data = struct.pack('<ii', ot, ct)
                if rng.random() < 0.15: data = data[:rng.randrange(0, 8)] + bytes(rng.randrange(0, 5))
            dsize = None
            if rng.random() < 0.08: dsize = rng.choice([0, 8, len(data) + 1, 128, 129, 2**31])
            p = calcfg_req(rng.choice([0, 7, -3, 123456]), ch, cmd, auth, dtype, data, dsize)
            if rng.random() < 0.05: p = p[:rng.randrange(0, len(p))]
            if rng.random() < 0.03: p = p + bytes(rng.randrange(1, 140))
            return k['CALL_CALCFG_REQUEST'], p, 'srv:calcfg'
        if x < 0.75:
            ch = rng.choice(rsch * 4 + chans) if (rsch or chans) else 0
            t2 = rng.choice([0, 50, 120, 200, 0xFFFF]); t1 = rng.choice([0, 50, 100, 200])
            if rsch and rng.random() < 0.5 and ch in rsch:
                i = rsch.index(ch); t1 = (b.time1[i] // 100) & 0xFFFF; t2 = (b.time2[i] // 100) & 0xFFFF
            v = rng.choice([0, 1, 2, 3, 4, 5, 10, 60, 110, 111, 255, 9])
            if rng.random() < 0.8: return k['CALL_SET_VALUE'], new_value(5, ch, t2 | (t1 << 16), [v, rng.choice([0, 10, 60, 255])]), 'srv:setvalue'
            return k['CALL_GROUP_SET_VALUE'], group_value(ch, t2 | (t1 << 16), [v]), 'srv:groupvalue'
        if x < 0.8: return k['CALL_REGISTER_RESULT'], reg_result(rng.choice([None, None, 5, 0, 9])), 'srv:regresult'
        if x < 0.9:
            # payloads of one handled call whose bytes, read with the layout of ANOTHER handler, spell an authorised
            # enter-configuration / recalibrate request or a shutter set-value with new times (dispatch fall-through, wrong cast)
            hdr = k['REQ_SIZE'] - k['CALCFG_DATA_MAX']
            ch = rng.choice(rsch) if rsch and rng.random() < 0.8 else rng.choice(chans)
            kind = rng.choice(['calcfg', 'calcfg', 'nv', 'gnv'])
            need = {'calcfg': hdr + k['RSSET_SIZE'], 'nv': k['NV_SIZE'], 'gnv': k['GNV_SIZE']}[kind]
            own = {'calcfg': k['CALL_CALCFG_REQUEST'], 'nv': k['CALL_SET_VALUE'], 'gnv': k['CALL_GROUP_SET_VALUE']}[kind]
            cands = [(c, n) for (c, n) in k['VALIDSIZES'] if n >= need and c != own]
            if kind != 'calcfg': cands.append((k['CALL_CALCFG_REQUEST'], None))
            call, n = rng.choice(cands)
            if n is None:
                base = bytearray(calcfg_req(rng.choice([0, 7]), rng.choice(chans), rng.choice([0, 1, 8000, 9000]), rng.choice([0, 0, 1]), rng.choice([0, 1000]),
                                            bytes(rng.getrandbits(8) for _ in range(rng.randrange(8, 40)))))
            else:
                base = bytearray(rng.choice([0, 0, rng.getrandbits(8)]) for _ in range(n))
            if kind == 'calcfg':
                cmd, auth, dtype = rng.choice([(k['CMD_ENTER_CFG_MODE'], 1, 0), (k['CMD_ENTER_CFG_MODE'], 1, 0), (k['CMD_RECALIBRATE'], 1, 0),
                                               (k['CMD_RECALIBRATE'], 1, k['DATATYPE_RS_SETTINGS']), (k['CMD_ENTER_CFG_MODE'], 0, 0)])
                data = struct.pack('<ii', 7000, 8000) if dtype else b''
                ov = calcfg_req(7, ch, cmd, auth, dtype, data, len(data) if rng.random() < 0.7 else len(base) - hdr)
            elif kind == 'nv': ov = new_value(5, ch, rng.choice([70 | (80 << 16), 0, 130 | (100 << 16)]), [rng.choice([0, 1, 60])])
            else: ov = group_value(ch, rng.choice([70 | (80 << 16), 0]), [rng.choice([0, 2])])
            keep = bytes(base[k['REQ_OFF_DATASIZE']:k['REQ_OFF_DATASIZE'] + 4]) if n is None else None
            base[:len(ov)] = ov[:len(base)]
            if keep is not None: base[k['REQ_OFF_DATASIZE']:k['REQ_OFF_DATASIZE'] + 4] = keep     # stays a gate-passing CALCFG request
            return call, bytes(base), 'srv:overlay-' + kind
        if rng.random() < 0.5:
            # a call the dispatcher knows, with a size the srpc gate accepts and random content
            call, n = rng.choice(k['VALIDSIZES'])
            return call, bytes(rng.choice([0, 0, 1, 2, 255, rng.getrandbits(8)]) for _ in range(n)), 'srv:other-valid-size'
        call = rng.choice([10, 20, 30, 40, 50, 60, 70, 75, 100, 110, 115, 210, 220, 230, 250, 260, 290, 300, 310, 320, 420, 440, 450, 460, 470, 500, 510,
                           600, 620, 640, 680, 690, 1000, 1010, rng.randrange(0, 1200), rng.getrandbits(32)])
        n = rng.choice([0, 1, 2, 3, 4, 5, 6, 7, 8, 9, 12, 16, 17, 21, 22, 29, 64, rng.randrange(0, 200)])
        return call, bytes(rng.getrandbits(8) for _ in range(n)), 'srv:other'

    def gen_abstract(self, rng, cid):
        k = K(); tags = ['abstract']
        x = rng.random()
        blank = 0; flashcfg = 1
        if x < 0.12: blank = rng.choice([1, 2, 4, 8, 3, 15, 2 | 16, 1 | 16, 16]); tags.append('boot:blank%d' % blank)
        elif x < 0.16: flashcfg = 0; tags.append('boot:firstboot')
        elif x < 0.28:
            # a valid record of an older layout (v6 / v5B / v5A), mostly with a complete configuration: migrated at boot, nothing may be lost
            flashcfg = rng.choice([2, 3, 4]); blank = rng.choice([0, 0, 0, 0, 16, 2 | 16, 2, 4]); tags.append('boot:migrate%d' % flashcfg)
        # (the uninitialised tail of the 6->7 migration makes stored shutter settings unpredictable: boards without shutters there)
        b = gen_board(rng, no_rs=flashcfg >= 2)
        aimed_at = flashcfg == 1 and blank == 0 and rng.random() < 0.08
        if aimed_at:
            # aimed scenario: a toggle-capable configuration button in advanced (ActionTrigger) mode
            cap = rng.choice([k['CAP_TG1'] | k['CAP_TG2'] | k['CAP_TG5'] | k['CAP_TURN_ON'] | k['CAP_TURN_OFF'], k['CAP_SHORT_PRESS_MASK'] | k['CAP_HOLD'], 0xFFFF])
            typ = rng.choice([k['TYPE_BISTABLE'], k['TYPE_BISTABLE'], k['TYPE_MOTION'], k['TYPE_MONOSTABLE']])
            fl = k['FLAG_CFG_BTN'] | (k['FLAG_CFG_ON_TOGGLE'] if typ == k['TYPE_MONOSTABLE'] or rng.random() < 0.3 else 0) | rng.choice([0, k['FLAG_FACTORY_RESET']])
            act = rng.choice([cap & (k['CAP_TG2'] | k['CAP_TG5'] | k['CAP_SP2'] | k['CAP_SP5']), cap & (k['CAP_TG2'] | k['CAP_SP3']), cap]) or cap
            b.inputs[0] = dict(gpio=b.inputs[0]['gpio'], type=typ, flags=fl, relay=255, channel=4, atcap=cap, at=act)
            tags.append('aimed:atcfg-freeze')
        boot32 = rng.choice([1, 1, 1, 0, 1000000, M32 - 1, M32 - 3000000, M32 - 6000000, M32 - 500000, 1 << 31, rng.getrandbits(32)])
        gpioin = 0
        for i in b.inputs:
            if i['flags'] & k['FLAG_PULLUP']: gpioin |= 1 << i['gpio']
        evs = [('BOOT', b.boot_ints(boot32, blank, flashcfg, gpioin), b'')]
        rr = [1]
        def srv(call, p): rr[0] += 1; evs.append(('SRV', [call, rr[0]], p))
        pro = rng.random()
        if pro < 0.9: evs.append(('CONNCB', [], b''))
        if pro < 0.85: evs.append(('ITER', [], b''))
        if pro < 0.8: srv(k['CALL_REGISTER_RESULT'], reg_result())
        evs.append(('TIME', [rng.choice([500000, 500000, 400000, 399999, 100000, 0, 3000000])], b''))
        st = [0] * len(b.inputs)
        cur_at = [max(0, x['at']) & x['atcap'] for x in b.inputs]
        def toggle(i):
            st[i] ^= 1; evs.append(('NOTIFY', [i, st[i]], b''))
        def fair_tick(i):
            # a released button is followed by its multi-click time-out tick (fair schedule)
            evs.append(('TIME', [320000], b'')); evs.append(('TICK', [i], b''))
        if aimed_at and pro < 0.9:
            # 1..9 quick toggles, an ActionTrigger configuration (mostly unchanged) inside / around the multi-click window, then slow toggles
            inp = b.inputs[0]; nq = rng.randrange(1, 10)
            for j in range(nq):
                toggle(0)
                if j < nq - 1: evs.append(('TIME', [rng.choice([100000, 200000, 250000])], b''))
            d = rng.choice([50000, 150000, 250000, 290000, 310000, 390000])
            act = inp['atcap'] & cur_at[0]
            m = act if rng.random() < 0.75 else rng.choice([0, inp['atcap'], act ^ k['CAP_TG1'], act ^ k['CAP_SP1']])
            cur_at[0] = inp['atcap'] & m
            sched = sorted([(d, 'at'), (320000, 'tick')]); off = 0
            for (o_, what) in sched:
                evs.append(('TIME', [o_ - off], b'')); off = o_
                if what == 'tick': evs.append(('TICK', [0], b''))
                else: srv(rng.choice([k['CALL_SET_CHANNEL_CONFIG'], k['CALL_GET_CHANNEL_CONFIG_RESULT']]), at_config(inp['channel'], m))
            for j in range(rng.choice([1, 3, 9, 10, 12])):
                evs.append(('TIME', [rng.choice([2500000, 5000000, 600000000, 3000000])], b'')); toggle(0)
                evs.append(('TIME', [320000], b'')); evs.append(('TICK', [0], b''))
        n_act = rng.choice([1, 2, 3, 4, 6])
        def settle():
            # fair schedule: armed input timers do fire between two gestures (multi-click windows expire)
            evs.append(('TIME', [320000], b''))
            for j in range(len(b.inputs)): evs.append(('TICK', [j], b''))
        for na_ in range(n_act):
            a = rng.random(); i = rng.randrange(len(b.inputs))
            if na_ > 0: settle()
            if a < 0.3:      # hold
                tags.append('hold')
                if st[i]: toggle(i); fair_tick(i); evs.append(('TIME', [rng.choice([30000, 500000, 2500000])], b''))
                toggle(i)
                per = rng.choice([20000, 20000, 20000, 10000, 50000, 19999])
                tot = rng.choice([5000000, 5000000, 4999999, 4980000, 5020000, 700000, 6000000, 2000000, M32 + 5000000 - 40000, M32 - 20000])
                nt = tot // per
                if nt > 400: evs.append(('TIME', [tot - 400 * per], b'')); nt = 400     # long idle part without ticks
                evs.append(('HOLD', [i, per, nt], b''))
                if rng.random() < 0.5: evs.append(('TIME', [tot - (tot // per) * per + rng.choice([0, 1, 20000])], b'')); evs.append(('TICK', [i], b''))
                if rng.random() < 0.6: toggle(i)
                if rng.random() < 0.3: evs.append(('APT', [], b''))
            elif a < 0.38:   # enter by hold, then factory-reset hold / leave by button
                tags.append('cfgmode-then-button')
                if st[i]: toggle(i); fair_tick(i); evs.append(('TIME', [400000], b''))
                toggle(i); evs.append(('HOLD', [i, 20000, 250], b'')); toggle(i)
                evs.append(('TIME', [rng.choice([100000, 1000000, 3100000])], b''))
                if rng.random() < 0.5: evs.append(('APT', [], b''))
                j = rng.randrange(len(b.inputs)) if rng.random() < 0.3 else i
                if st[j]: toggle(j); fair_tick(j); evs.append(('TIME', [50000], b''))
                toggle(j); evs.append(('HOLD', [j, 20000, rng.choice([250, 250, 249, 100])], b''))
                if rng.random() < 0.5: toggle(j)
            elif a < 0.6:    # toggle train
                tags.append('toggles')
                n = rng.choice([9, 10, 10, 11, 12, 19, 20, 21, 22, 5])
                gapk = rng.choice(['short', 'short', 'short', 'edge', 'mixed', 'long40', 'wrap31', 'wrap32', 'wrap32m', 'slowtail', 'slowtail'])
                tags.append('gap:' + gapk)
                # ACTIONTRIGGER channel configurations (unchanged / changed ActiveActions, both call ids) dropped into the gesture,
                # aimed around the multi-click window after a toggle
                inp = b.inputs[i]; at_at = {}
                if inp['atcap'] and inp['channel'] < k['CHANNEL_MAX'] and pro < 0.9 and rng.random() < 0.6:
                    for _ in range(rng.choice([1, 1, 2])): at_at[rng.randrange(0, n)] = rng.choice([50000, 150000, 250000, 290000, 299999, 300000, 310000, 350000])
                    tags.append('atcfg')
                nfast = rng.randrange(1, 10)
                for j in range(n):
                    if gapk == 'short': g = rng.choice([50000, 150000, 400000, 1000000, 1900000])
                    elif gapk == 'edge': g = rng.choice([1999999, 2000000, 2000001, 1999980, 1000000, 999999])
                    elif gapk == 'mixed': g = rng.choice([100000, 100000, 100000, 2500000, 310000, 290000])
                    elif gapk == 'long40': g = 40 * 60 * 1000000 + rng.choice([0, 12345])
                    elif gapk == 'wrap31': g = (1 << 31) + rng.choice([-1000000, 0, 1000000])
                    elif gapk == 'wrap32': g = M32 + rng.choice([0, 1000000, 1999999, 2000000, -1000000, 500000])
                    elif gapk == 'slowtail': g = rng.choice([100000, 200000, 250000]) if j < nfast else rng.choice([2500000, 4000000, 600000000, 9000000])
                    else: g = rng.choice([2, 3]) * M32 + rng.choice([1000, 1500000])
                    toggle(i)
                    if j in at_at and g <= at_at[j]: g = at_at[j] + rng.choice([1000, 100000, 3000000])
                    sched = []          # (offset after the toggle, what)
                    if rng.random() < 0.25 and g >= 20000: sched.append((20000, 'tick'))
                    # fair schedule: an armed input timer does fire within the multi-click window (the scheduler itself is C11's subject)
                    if g >= 320000: sched.append((rng.choice([320000, 320000, 300000, 299999, 300001]), 'tick')); sched.append((320000, 'tick'))
                    if j in at_at: sched.append((at_at[j], 'at'))
                    off = 0
                    for (o_, what) in sorted(sched):
                        evs.append(('TIME', [o_ - off], b'')); off = o_
                        if what == 'tick': evs.append(('TICK', [i], b''))
                        else:
                            act = inp['atcap'] & cur_at[i]
                            m = act if rng.random() < 0.6 else rng.choice([0, inp['atcap'], k['CAP_TG1'], k['CAP_SP1'], k['CAP_TG2'] | k['CAP_TG5'], act ^ k['CAP_HOLD']])
                            if rng.random() < 0.3: m |= 0x40000000          # bits outside the capabilities do not change the active set
                            cur_at[i] = inp['atcap'] & m
                            srv(rng.choice([k['CALL_SET_CHANNEL_CONFIG'], k['CALL_GET_CHANNEL_CONFIG_RESULT']]), at_config(inp['channel'], m))
                    evs.append(('TIME', [g - off], b''))
                if rng.random() < 0.3: evs.append(('HOLD', [i, 20000, 20], b''))
            elif a < 0.9:    # server traffic
                for _ in range(rng.choice([1, 2, 3, 5])):
                    # the shutter engine is an environment process of the model: put it into a known (arbitrary) state before every message
                    for idx in range(len(b.rs)):
                        evs.append(('RSPOKE', [idx, rng.choice([0, 10000, 5000, 20000]), rng.choice([0, 12000, 5000, 20000]), rng.choice([0, 0, 9000]), rng.choice([0, 0, 9500]),
                                               rng.choice([0, 100, 5100, 10100]), rng.choice([0, -1, 5000]), rng.choice([0, 0, 1, 2, 3]), rng.choice([0, 0, 0, 1])], b''))
                    call, p, t = self.gen_srv(rng, b, rr); tags.append(t)
                    # an authorised enter-cfg over the wire ends the implementation run (use-after-free in srpc_iterate, C03's business)
                    srv(call, p)
                    f = req_fields(p) if call == k['CALL_CALCFG_REQUEST'] else None
                    if f and f['gate'] and f['cmd'] == k['CMD_ENTER_CFG_MODE'] and f['auth'] == 1 and pro < 0.9:
                        tags.append('srv:enter-cfg-auth')
                        if rng.random() < 0.4: return F.Case(cid, evs, tags)
                        if rng.random() < 0.6: evs.append(('TIME', [1000000], b'')); evs.append(('APT', [], b''))
                        if rng.random() < 0.3: evs.append(('TIME', [300000000], b'')); evs.append(('APT', [], b''))
            else:
                evs.append(('TIME', [rng.choice([1000, 3100000, 250000])], b''))
                if rng.random() < 0.5: evs.append(('APT', [], b''))
        return F.Case(cid, evs, tags)

    def gen_real(self, rng, cid):
        k = K(); b = gen_board(rng); tags = ['real']
        boot32 = rng.choice([1, 1000, M32 - 4000000, rng.getrandbits(32)])
        gpioin = 0
        for i in b.inputs:
            if i['flags'] & k['FLAG_PULLUP']: gpioin |= 1 << i['gpio']
        evs = [('BOOT', b.boot_ints(boot32, 0, 1, gpioin), b''), ('ADV', [300000], b''), ('CONNCB', [], b''),
               ('ADV', [200000], b''), ('SRV', [k['CALL_REGISTER_RESULT'], 1], reg_result()), ('ADV', [1000000], b'')]
        rr = [1]
        for _ in range(rng.choice([1, 2, 3])):
            i = rng.randrange(len(b.inputs)); inp = b.inputs[i]; act = 0 if inp['flags'] & k['FLAG_PULLUP'] else 1
            a = rng.random()
            if a < 0.4:
                tags.append('hold'); evs.append(('IN', [inp['gpio'], act], b''))
                evs.append(('ADV', [rng.choice([5300000, 4900000, 5100000, 5200000, 1000000])], b'')); evs.append(('IN', [inp['gpio'], 1 - act], b'')); evs.append(('ADV', [300000], b''))
            elif a < 0.8:
                tags.append('toggles'); lv = act
                for j in range(rng.choice([10, 11, 20, 21, 8])):
                    evs.append(('IN', [inp['gpio'], lv], b'')); lv = 1 - lv; evs.append(('ADV', [rng.choice([200000, 200000, 350000, 1000000, 2200000])], b''))
            elif a < 0.88:
                # the connection drops and comes back: re-registration in the middle of the history
                tags.append('reconnect')
                evs += [('DISCCB', [], b''), ('ADV', [rng.choice([100000, 2500000])], b''), ('CONNCB', [], b''), ('ADV', [200000], b'')]
                if rng.random() < 0.8: rr[0] += 1; evs.append(('SRV', [k['CALL_REGISTER_RESULT'], rr[0]], reg_result())); evs.append(('ADV', [300000], b''))
                call, p, t = self.gen_srv(rng, b, rr); tags.append(t); rr[0] += 1; evs.append(('SRV', [call, rr[0]], p)); evs.append(('ADV', [300000], b''))
            else:
                call, p, t = self.gen_srv(rng, b, rr); tags.append(t); rr[0] += 1; evs.append(('SRV', [call, rr[0]], p)); evs.append(('ADV', [300000], b''))
                f = req_fields(p) if call == k['CALL_CALCFG_REQUEST'] else None
                if f and f['gate'] and f['cmd'] == k['CMD_ENTER_CFG_MODE'] and f['auth'] == 1: break
        return F.Case(cid, evs, tags)

    def gen_cases(self, rng, n, tier):
        cases = []
        nreal = n // 8
        for i in range(n - nreal): cases.append(self.gen_abstract(rng, '%sa%d' % (tier[0], i)))
        for i in range(nreal): cases.append(self.gen_real(rng, '%sr%d' % (tier[0], i)))
        cases += self.gen_mboot(tier)
        return cases

    def gen_mboot(self, tier):
        """boot decision of the MQTT-capable build, exhaustively: MQTT enabled x NO_AUTH x SSID/WIFI_PWD/Server/Email=Username/Password
        empty or set (128 stored configurations; Email/Username are one field of SuplaEspCfg).  DEVICE_LOCKED (second guard of user_init: a locked MQTT device opens configuration
        mode although its configuration is complete) is outside the property text; it is generated only once the class is a listed finding."""
        locked = [0, 1] if any(key == 'mqtt-device-locked-boot' for key, _ in F.load_findings().get('C12', [])) else [0]
        cases = []
        for lk in locked:
            for a in range(128):
                ints = [(a >> 0) & 1, (a >> 1) & 1, lk] + [(a >> j) & 1 for j in range(2, 7)]
                cases.append(F.Case('%smb%d_%d' % (tier[0], lk, a), [('MBOOT', ints, b'')], ['abstract', 'mboot']))
        return cases

    # ---------------- normalisation / comparison
    @staticmethod
    def norm(outs):
        r = []
        for (kd, ints, data) in outs:
            if kd not in KEEP: continue
            if kd == 'OPMODE' and ints != [2]: continue
            if kd == 'ACCEPT': ints = []
            r.append((kd, list(ints), b''))
        return r

    def compare(self, case, mo, io):
        if 'abstract' not in case.tags and not case.id.startswith(('corpus', 'replay', 's')): return None
        if any(e[0] in ('ADV', 'IN') for e in case.evs): return None
        (ms, ml), (is_, il) = mo, io
        ni = self.norm(il); nm = [(a, list(b), b'') for (a, b, c) in ml]
        if is_ != 'ok':
            if self.crash_is_known_uaf(case, il) and ni == nm[:len(ni)] and ni and ni[-1][0] == 'CFGMODE': return None
            return 'implementation ended with "%s" after %d outputs; model continues' % (is_, len(ni))
        if ni != nm:
            for i in range(max(len(ni), len(nm))):
                a = nm[i] if i < len(nm) else None; b_ = ni[i] if i < len(ni) else None
                if a != b_: return 'output %d: model=%s impl=%s' % (i, F.short(a), F.short(b_))
        return None

    def crash_is_known_uaf(self, case, outs):
        """the last event the implementation started is an authorised ENTER_CFG_MODE request delivered through srpc_iterate"""
        k = K(); last = None
        for (kd, ints, data) in outs:
            if kd == 'EV' and ints: last = ints[0]
        if last is None or last >= len(case.evs): return False
        e = case.evs[last]
        if e[0] != 'SRV' or e[1][0] != k['CALL_CALCFG_REQUEST']: return False
        f = req_fields(bytes(e[2]))
        return bool(f and f['gate'] and f['cmd'] == k['CMD_ENTER_CFG_MODE'] and f['auth'] == 1)

    def nontrivial(self, case, io): return len(self.norm(io[1])) > 0

    # ---------------- monitor: the property text on the implementation trace (no model involved)
    def monitor(self, case, status, outs):
        k = K(); v = []
        if case.evs and case.evs[0][0] == 'MBOOT': return self.monitor_mboot(case, status, outs)
        if not case.evs or case.evs[0][0] != 'BOOT': return v
        b, boot32, blank, flashcfg = parse_boot(case.evs[0][1])
        segs = {}; cur = None
        for o in outs:
            if o[0] == 'EV' and o[1]: cur = o[1][0]; segs[cur] = []
            elif cur is not None: segs[cur].append(o)
        PRESS = 5000 * 1000; NT = 10      # the numbers of the property text (5 s, ten toggles), not the constants of the tree
        t = 0; cfgmode = False; srpc = False; reg = False; real = any(e[0] == 'ADV' for e in case.evs)
        # real schedule: state changes are polled after 1 ms steps and handlers burn time (relay switching 10 ms) before the poll
        tol = 30000 if real else 0
        nin = len(b.inputs)
        lvl = [0] * nin; since = [None] * nin; changes = [[] for _ in range(nin)]; dirs = [[] for _ in range(nin)]
        cal = {}         # tracked (t1, t2, step) per shutter for finding classification only
        for i in range(len(b.rs)): cal[i] = [b.time1[i] if i < len(b.time1) else 0, b.time2[i] if i < len(b.time2) else 0, 0]
        maxblank = None; t_cfg = None; n_cfg = None
        def hold_capable(inp):
            return bool(inp['flags'] & k['FLAG_CFG_BTN']) and inp['type'] == k['TYPE_MONOSTABLE'] and \
                   (not (inp['flags'] & k['FLAG_CFG_ON_TOGGLE']) or bool(inp['flags'] & k['FLAG_CFG_ON_HOLD']))
        def toggle_capable(inp):
            return bool(inp['flags'] & k['FLAG_CFG_BTN']) and (inp['type'] in (k['TYPE_BISTABLE'], k['TYPE_MOTION']) or bool(inp['flags'] & k['FLAG_CFG_ON_TOGGLE']))
        def held(tt, need_reset=False):
            for i, inp in enumerate(b.inputs):
                if hold_capable(inp) and lvl[i] == 1 and since[i] is not None and tt - since[i] >= PRESS - tol:
                    if not need_reset or inp['flags'] & k['FLAG_FACTORY_RESET']: return True
            return False
        def toggled(tt):
            """(ok, wrapped): ten state changes in quick succession on a toggle-capable input, the last one now"""
            wrapped = False
            for i, inp in enumerate(b.inputs):
                if not toggle_capable(inp): continue
                c = changes[i]
                if len(c) < NT or tt - c[-1] > tol + 30000: continue
                # gaps between consecutive state changes; for a push button the time it stays pressed is not a pause between clicks
                # (the advanced handler does not time out while the button is down), so only release->press gaps count there
                idx = range(len(c) - NT, len(c) - 1)
                if inp['type'] not in (k['TYPE_BISTABLE'], k['TYPE_MOTION']): idx = [j for j in idx if dirs[i][j] == 0]
                gaps = [c[j + 1] - c[j] for j in idx]
                if all(g < 2000000 + tol for g in gaps): return True, False
                # known finding: a pause of (almost) a full period of the 32-bit microsecond counter inside the chain
                # known finding toggle-gap-u32-wrap, precisely: every link of the ten-change chain is "quick" in the 32-bit arithmetic
                # of the legacy handler (time since the previous change to "active", modulo 2^32 us, below 2 s) although at least
                # one of these times is a real pause of 2 s or more
                # (changes to "active" during the 400 ms silent start-up period are not time-stamped by the device; the class is
                # "explained by the 32-bit wrap" under either reading of which changes carry a time stamp)
                for silent_us in (400000, 0):
                    links = []
                    for j in range(len(c) - NT + 1, len(c)):
                        prev_act = [c[q] for q in range(j) if dirs[i][q] == 1 and c[q] >= silent_us]
                        links.append(c[j] - (prev_act[-1] if prev_act else -boot32))
                    if all((d % M32) < 2000000 + tol for d in links) and any(d >= 2000000 for d in links): wrapped = True
            return False, wrapped
        for n, e in enumerate(case.evs):
            kd, ints, data = e[0], e[1], bytes(e[2]); seg = segs.get(n, [])
            t_before = t; cfg_before = cfgmode
            if kd == 'TIME': t += ints[0]
            elif kd == 'HOLD': t += ints[1] * ints[2]
            elif kd == 'ADV': t += ints[0]
            elif kd == 'NOTIFY':
                i, s_ = ints[0], ints[1]
                if 0 <= i < nin and s_ in (0, 1) and lvl[i] != s_: lvl[i] = s_; since[i] = t; changes[i].append(t); dirs[i].append(s_)
            elif kd == 'CONNCB': srpc = True
            elif kd == 'DISCCB': reg = False
            elif kd == 'RSPOKE' and ints[0] in cal: cal[ints[0]] = [ints[1], ints[2], ints[7]]
            f = None; call = None
            if kd == 'SRV':
                call = ints[0]
                if call == k['CALL_CALCFG_REQUEST']: f = req_fields(data)
                if call == k['CALL_REGISTER_RESULT'] and srpc and len(data) == k['REGRES_SIZE'] and struct.unpack_from('<i', data, 0)[0] == k['RESULTCODE_TRUE_']: reg = True
            # real schedule: CFGMODE is printed inside the 1 ms step, the polled NSTATE lines of that step follow it
            seg2 = []
            for j, o in enumerate(seg):
                if o[0] == 'CFGMODE':
                    for o2 in seg[j + 1:]:
                        if o2[0] == 'NSTATE' and o2[1][2] <= o[1][0] + tol and o2 not in seg2: seg2.append(o2)
                if o not in seg2 or o[0] != 'NSTATE': seg2.append(o)
            for o in seg2:
                if o[0] == 'NSTATE':
                    i, s_, tt = o[1]
                    if 0 <= i < nin and lvl[i] != s_: lvl[i] = s_; since[i] = tt; changes[i].append(tt); dirs[i].append(s_)
                elif o[0] == 'CFGMODE':
                    tt = o[1][0]; why = None
                    if kd == 'BOOT':
                        inc = flashcfg == 0 or bool(blank & 1) or bool(blank & 4) or bool(blank & 8) or (bool(blank & 2) and not (blank & 16))
                        if not inc: why = 'boot with a complete configuration'
                    elif kd == 'SRV':
                        if not (f and f['gate'] and f['cmd'] == k['CMD_ENTER_CFG_MODE'] and f['auth'] == 1):
                            why = 'server message call_id=%d without an authorised enter-configuration request' % call
                    elif kd in ('TICK', 'HOLD', 'TIME', 'ADV', 'NOTIFY', 'IN', 'APT'):
                        okh = held(tt)
                        okt, wrapped = toggled(tt)
                        if not (okh or okt):
                            why = ('toggle chain only through 32-bit wrap of the gaps [u32-wrap]' if wrapped else
                                   'no configuration button held for 5000 ms and no ten quick toggles')
                    else: why = 'event %s' % kd
                    if why: v.append('configuration mode started at t=%d us by event #%d (%s): %s' % (tt, n, kd, why))
                    if not cfgmode: t_cfg = tt; n_cfg = n
                    cfgmode = True; srpc = False; reg = False
                elif o[0] == 'CAL':
                    idx = o[1][0]
                    legit = False
                    if kd == 'SRV' and f and f['gate'] and f['cmd'] == k['CMD_RECALIBRATE'] and f['auth'] != 0 and idx < len(b.rs) and b.rs_channel(idx) == f['ch']:
                        legit = True
                    if not legit:
                        cls = ''
                        if kd == 'SRV' and call in (k['CALL_SET_VALUE'], k['CALL_GROUP_SET_VALUE']) and idx < len(b.rs):
                            kk = 'NV' if call == k['CALL_SET_VALUE'] else 'GNV'
                            if len(data) == k[kk + '_SIZE'] and data[k[kk + '_OFF_CHANNEL']] == b.rs_channel(idx):
                                dur, = struct.unpack_from('<I', data, k[kk + '_OFF_DURATION'])
                                ct = (dur & 0xFFFF) * 100; ot = ((dur >> 16) & 0xFFFF) * 100
                                if [ot, ct] != cal[idx][:2] or (b.rsflags & k['CHFLAG_AUTOCAL'] and ct == 0 and ot == 0): cls = ' [rs-setvalue-times]'
                                elif cal[idx][2] > 0: cls = ' [rs-setvalue-aborts-autocal]'
                        v.append('event #%d (%s%s) altered the calibration data of shutter %d without an authorised recalibrate request%s' %
                                 (n, kd, ' call_id=%d' % call if call is not None else '', idx, cls))
                    if idx in cal: cal[idx] = [o[1][1], o[1][2], o[1][7]]
                elif o[0] == 'INERT':
                    if o[1][0] != 1: v.append('unauthorised CALCFG request (event #%d, cmd=%s) changed the device state (cfg/state/flash/gpio snapshot differs)' % (n, f and f['cmd']))
                elif o[0] == 'CALRES' and f and f['gate']:
                    res = o[1][3]; unauth = f['auth'] == 0 or (f['cmd'] == k['CMD_ENTER_CFG_MODE'] and f['auth'] != 1)
                    if unauth and f['cmd'] in (k['CMD_ENTER_CFG_MODE'], k['CMD_RECALIBRATE']) and res not in (k['RES_UNAUTHORIZED'], k['RES_NOT_SUPPORTED']):
                        v.append('unauthorised CALCFG request cmd=%d answered with result %d' % (f['cmd'], res))
                    # the answer must be addressed to the requester and name the channel / command it answers
                    if unauth and f['cmd'] in (k['CMD_ENTER_CFG_MODE'], k['CMD_RECALIBRATE']) and o[1][:3] != [f['sender'], f['ch'], f['cmd']]:
                        v.append('unauthorised CALCFG request (sender %d, channel %d, cmd %d) answered to (%d, %d, %d)' %
                                 (f['sender'], f['ch'], f['cmd'], o[1][0], o[1][1], o[1][2]))
                elif o[0] == 'FACTORYHOOK':
                    # time of the reset: 500 ms before the restart that follows it (else the end of the event)
                    tf = t
                    for o2 in seg:
                        if o2[0] == 'RESTART': tf = min(t, o2[1][0] - 500000 + tol)
                    okf = (kd == 'BOOT' and flashcfg == 0) or (kd in ('TICK', 'HOLD', 'ADV') and cfgmode and held(tf, True))
                    # "while ALREADY in configuration mode": not in the very step that enters it (abstract schedule: same event;
                    # real schedule: the same millisecond)
                    if okf and kd != 'BOOT' and t_cfg is not None and ((not real and n_cfg == n) or (real and tf <= t_cfg + 1000)): okf = False
                    if not okf: v.append('settings erased (factory defaults) by event #%d (%s) without a factory-reset hold in configuration mode' % (n, kd))
                elif o[0] == 'CFGFLASH':
                    mask = o[1][2] & 15
                    if o[1][2] & 32:
                        v.append('the stored configuration record was destroyed (no valid tag / identity) in event #%d (%s)' % (n, kd))
                    if mask & ~(blank & 15) and not any(x[0] == 'FACTORYHOOK' for x in seg):
                        v.append('stored settings lost (blank mask %d) in event #%d (%s) without factory defaults' % (mask, n, kd))
                elif o[0] in ('OPMODE', 'ACCEPT') and (o[0] == 'ACCEPT' or o[1] == [2]) and not cfgmode:
                    v.append('access point opened (%s) without configuration mode having been started' % o[0])
            if kd == 'SRV' and f and f['gate'] and status == 'ok':
                unauth = f['auth'] == 0 or (f['cmd'] == k['CMD_ENTER_CFG_MODE'] and f['auth'] != 1)
                if unauth and f['cmd'] in (k['CMD_ENTER_CFG_MODE'], k['CMD_RECALIBRATE']):
                    rs = [o for o in seg if o[0] == 'CALRES']
                    must = f['cmd'] == k['CMD_ENTER_CFG_MODE'] or not (blank & 2) and any(b.rs_channel(i) == f['ch'] for i in range(len(b.rs))) and \
                           (f['dtype'] == 0 or (f['dtype'] == k['DATATYPE_RS_SETTINGS'] and f['dsize'] == k['RSSET_SIZE']))
                    if reg and not cfg_before and not real and not rs and seg:
                        v.append('unauthorised CALCFG request cmd=%d (event #%d) was not answered' % (f['cmd'], n))
                    if must and rs and rs[-1][1][3] != k['RES_UNAUTHORIZED']:
                        v.append('unauthorised CALCFG request cmd=%d (event #%d) answered %d instead of UNAUTHORIZED' % (f['cmd'], n, rs[-1][1][3]))
            if any(o[0] == 'RESTART' for o in seg): break
        return v

    def monitor_mboot(self, case, status, outs):
        """MQTT-capable build: configuration mode at boot <=> the stored configuration is incomplete.  Complete (property text): Wi-Fi name
        and password and the server / broker address are set and, SUPLA protocol: the e-mail address; MQTT: user name and password
        unless the broker is configured without authentication."""
        a = (list(case.evs[0][1]) + [0] * 8)[:8]
        en, noauth, locked, ssid, wpwd, server, user, pw = [1 if x else 0 for x in a]
        email = user      # Email / Username are one field of the stored configuration (anonymous union)
        complete = bool(ssid and wpwd and server and ((noauth or (user and pw)) if en else email))
        desc = 'stored configuration: %s, Wi-Fi name %s, Wi-Fi password %s, server %s, e-mail/user name %s, password %s' % (
            ('MQTT' + (' (broker without authentication)' if noauth else '') + (' (device locked)' if locked else '')) if en else 'SUPLA protocol',
            *[('set' if x else 'empty') for x in (ssid, wpwd, server, user, pw)])
        v = []
        if status != 'ok': v.append('boot of the MQTT-capable build ended with "%s" (%s)' % (status, desc)); return v
        ncfg = sum(1 for o in outs if o[0] == 'CFGMODE'); starts = [o[1][0] if o[1] else 0 for o in outs if o[0] == 'START']
        if ncfg and complete:
            if en and locked: v.append('configuration mode started at boot with a complete configuration of a locked MQTT device (%s) [mqtt-locked-boot]' % desc)
            else: v.append('configuration mode started at boot although the configuration is complete (%s)' % desc)
        if not ncfg and not complete: v.append('normal start at boot although the configuration is incomplete (%s)' % desc)
        if ncfg and starts: v.append('configuration mode and a normal start at the same boot (%s)' % desc)
        if not ncfg and starts != [2 if en else 1]:
            v.append('boot without configuration mode started %s instead of the %s client (%s)' % (starts, 'MQTT' if en else 'SUPLA', desc))
        return v

    def finding_key(self, case, what):
        if '[mqtt-locked-boot]' in what: return 'mqtt-device-locked-boot'
        if '[rs-setvalue-times]' in what: return 'rs-setvalue-times'
        if '[rs-setvalue-aborts-autocal]' in what: return 'rs-setvalue-aborts-autocal'
        if '[u32-wrap]' in what: return 'toggle-gap-u32-wrap'
        if what.startswith('disagreement'): return None
        return None

CHECK = C12()
