"""Per-property MANIFEST entries (maintained by the lead; bin/mkmanifest renders MANIFEST.json)."""
TECH = 'machine-checked proof in Coq 8.16 about an executable Gallina model + model/code correspondence check (extracted model vs real C under ASan/UBSan) + implementation-side monitor'
NOTE_COMMON = ('Trusted: Coq kernel (vm_compute, no native_compute), translator gen/ (C probes), extraction ExtrOcamlBasic + ocaml/driver.ml, '
               'SDK doubles and host build (64-bit host vs 32-bit target). ')
ENTRIES = {
 'C01': dict(
   text='Theorems for all chunkings and tick interleavings over the model of recv_cb/data_read/srpc_iterate(IN)/proto.c: delivered packets are a prefix of the frames of a chunk-free parser of the whole stream (C01_faithful, C01_frames_are_slices), malformed frames are always reported and all earlier frames delivered (C01_complete, C01_malformed_reported), no out-of-bounds access and bounded buffers (C01_safe); old length test refuted (C01_old_code_refuted). Model tied to the tree by regenerated constants and differential execution against the real C.',
   note='Histories with staging overflow are outside C01_faithful (the overflow is an explicit output); realloc failure and lck_* not modelled; the handler pops the in-queue on every delivery.'),
 'C02': dict(
   text='15 theorems over the model of srpc_async__call/queue/srpc_iterate(OUT)/sproto out buffer/supla_esp_data_write for every interleaving of calls, iterates and espconn_sent results: encode/decode round trip, stream invariant wire++espbuf++outb++frames(outq) = frames(accepted) while nothing was reported, ids non-zero strictly increasing, rejected-iff, accepted-is-sent (measure), overflow reported and exact, subsequence after hard errors, buffer bounds; old silent-loss code refuted.',
   note='IN half idle during the history; malloc/realloc failure and TLS not modelled; call ids >= 65536 assumed refused; espconn_sent result 0 = all bytes taken.'),
}
