"""C06 — relay output follows the last command, reports are truthful: generators, monitor, check definition."""
import os, sys
import framework as F
import c07 as C7

def consts(): return C7.consts()

class C06(F.PropCheck):
    pid = 'C06'; gen_groups = ['RelayConsts']; prop_file = 'Properties_C06'
    IN = {'CFG': 0, 'REG': 1, 'ITER': 2, 'SETV': 3, 'GRP': 4, 'BTN': 5, 'TICK': 6, 'TIME2': 7, 'CHCFG': 8, 'SENTRES': 9, 'ADV': 10, 'BURST': 11}
    OUT = {0: 'GPIO', 4: 'FUEL', 5: 'UNKNOWN-EVENT', 10: 'VAL', 11: 'RES', 12: 'EXT', 13: 'DROP', 14: 'Q', 15: 'WOTH'}
    quick_cases = 3000; thorough_cases = 80000
    trusted_extra = ['C06 driver harness/drv/c06.c on harness/include/c07_core.h: real proto/srpc/devconn, device connected by calling the connect callback, '
                     'registered with a REGISTER_DEVICE_RESULT frame and flushed; no timer ever fires: iterate, timer expiry (clock jump + '
                     'supla_esp_countdown_timer_cb) and button callbacks (supla_esp_gpio_on_input_active/_inactive) are explicit events',
                     'harness/wrap/c06_srpc_wrap.c: before_async_call hook used only to print DROP lines',
                     'frames are decoded on the wire from the bytes accepted by espconn_sent (result 0)']
    assumptions = ['no action triggers configured (legacy button mode), no roller shutters, board channels/gpios pairwise different, channels < 8',
                   'reporting theorems in the _except_known form under H_queue_room (no call is refused by the full out-queue)']
    rule = ('boards of 1-8 relays x flag combinations (restore, force, lo-level, countdown capability, staircase) x 0-3 inputs (mono on press/release, bistable, '
            'motion, sensor) x 5-40 events {set 0/1/other with duration 0/short/long, group set, button press/release, timer expiry (tick aimed at the '
            'remaining time), staircase change} with 0-3 iterates after each; non-trivial = at least one frame on the wire')

    def build_impl(self):
        W = os.path.join(F.VERIF, 'harness', 'wrap')
        srcs = [x for x in F.device_sources('dev', wrap=('proto',), exclude=('devconn', 'supla_esp_countdown_timer')) if not x.endswith('supla-common/srpc.c')]
        return F.build_c('c06', os.path.join(F.VERIF, 'harness', 'drv', 'c06.c'), sources=srcs,
                         extra_srcs=[os.path.join(W, 'c07_devconn_wrap.c'), os.path.join(W, 'c07_cdt_wrap.c'), os.path.join(W, 'c06_srpc_wrap.c')])

    # ---------------- generator
    def gen_case(self, rng, cid, tier):
        c = consts(); cd = c['CHFLAG_COUNTDOWN']
        n = rng.choice([1, 1, 2, 2, 3, 4, 8]); gp = rng.sample(C7.GPIOS, n)
        chans = list(range(n)) if rng.random() < 0.8 else rng.sample(range(8), n)
        rel = [(gp[i], chans[i], rng.choice([0, 0, 2, 4, 16, 18, 20, 1, 17]), cd if rng.random() < 0.5 else 0) for i in range(n)]
        t2 = [0] * 8
        for i in range(n):
            if rng.random() < 0.25: t2[chans[i]] = rng.choice([300, 1500, 5000])
        ninp = rng.choice([0, 1, 1, 2, 3]); inputs = []
        for k in range(ninp):
            ty = rng.choice([c['IN_MONO'], c['IN_MONO'], c['IN_BI'], c['IN_MOTION'], c['IN_SENSOR']])
            fl = rng.choice([0, c['IN_FLAG_ON_PRESS']])
            r = rng.choice(rel)
            inputs += [rng.choice([6, 7, 8, 9, 10, 11]), ty, fl, r[0] if ty != c['IN_SENSOR'] else 255, rng.choice([8, 9]) if ty == c['IN_SENSOR'] else 255]
        tags = []
        boot = C7.aged_boot(rng) if rng.random() < 0.06 else 1
        if boot != 1: tags.append('aged')
        evs = [C7.cfg_event(boot, 1, rng.choice([0, 0, 1]), False, rel, t2, [], [ninp] + inputs)]
        if rng.random() < 0.1:          # local events before the device is registered: outputs follow, nothing is reported
            tags.append('pre-reg')
            for _ in range(rng.randrange(1, 4)):
                evs.append(('BTN', [rng.randrange(ninp), rng.choice([0, 1])], b'') if ninp and rng.random() < 0.7 else ('TICK', [rng.choice([1000, 500000])], b''))
        evs.append(('REG', [], b''))
        room = rng.choice([0, 1, 2, 3, 3, 3])      # iterates after each event: 3 always leaves room
        tags.append('room%d' % room)
        pend = {}
        for _ in range(rng.choice([5, 8, 12, 20, 40])):
            k = rng.random(); i = rng.randrange(n); g, ch, f, cf = rel[i]
            if k < 0.4:
                v = rng.choice([0, 1, 1, 0, 1, 2, -1, 100])
                d = rng.choice([0, 0, 0, 50, 400, 3000, 60000, rng.randrange(1, 100000)])
                chx = ch if rng.random() < 0.93 else rng.choice([7, 9, 200])
                if rng.random() < 0.8: evs.append(('SETV', [chx, v, d, rng.choice([0, 7, 123456, -5])], b''))
                else: evs.append(('GRP', [chx, v, d], b''))
                tags.append('set-timed' if d else 'set'); pend[i] = d
            elif k < 0.55 and ninp:
                evs.append(('BTN', [rng.randrange(ninp), rng.choice([0, 1])], b'')); tags.append('button')
            elif k < 0.8:
                if pend and rng.random() < 0.7:
                    j = rng.choice(list(pend)); dt = max(0, pend[j] * 1000 + rng.choice([-20000, -1, 0, 1000, 60000]))
                else: dt = rng.choice([0, 1000, 100000, 2000000, 70000000])
                evs.append(('TICK', [dt], b'')); tags.append('tick')
            elif k < 0.85:
                evs.append(('TIME2', [ch, rng.choice([0, 300, 5000])], b'')); tags.append('time2')
            else:
                evs.append(('ITER', [], b''))
            for _ in range(room if rng.random() < 0.9 else rng.randrange(4)): evs.append(('ITER', [], b''))
        for _ in range(6): evs.append(('ITER', [], b''))
        return F.Case(cid, evs, sorted(set(tags)))

    def gen_alive(self, rng, cid):
        """5..8 plain relays (no countdown capability: the out-queue findings stay out), 5..n "on for d" alive together, flushed, then expiry"""
        n = rng.choice([5, 6, 7, 8]); gp = rng.sample(C7.GPIOS, n)
        rel = [(gp[i], i, rng.choice([0, 0, 16]), 0) for i in range(n)]
        evs = [C7.cfg_event(1, 1, 0, False, rel, [0] * 8, [], [0]), ('REG', [], b'')]
        for rnd in range(rng.choice([1, 2])):
            order = rng.sample(range(n), rng.randrange(5, n + 1)); dmax = 0
            for i in order:
                d = rng.randrange(400, 5000); dmax = max(dmax, d)
                evs.append(('SETV' if rng.random() < 0.8 else 'GRP', [i, 1, d] + ([10 + i] if True else []), b''))
                if evs[-1][0] == 'GRP': evs[-1] = ('GRP', [i, 1, d], b'')
                evs += [('ITER', [], b'')] * 3
            evs.append(('TICK', [dmax * 1000 + rng.choice([200000, 1000000])], b''))
            evs += [('ITER', [], b'')] * (2 * n + 2)
        return F.Case(cid, evs, ['alive'])

    def gen_directed(self, rng, cid):
        """(1) staircase relay that is on + clicks of a toggle-type button (reset-type / plain staircase button), (2) aged device + timed commands"""
        c = consts(); cd = c['CHFLAG_COUNTDOWN']; it3 = [('ITER', [], b'')] * 3
        n = rng.choice([1, 2, 3]); gp = rng.sample(C7.GPIOS, n)
        rel = [(gp[i], i, rng.choice([0, 0, 16, 2]), cd if rng.random() < 0.4 else 0) for i in range(n)]
        kind = rng.random()
        if kind < 0.15:
            # two or three relay timers of very different durations alive at once, the SDK timers running (ADV): each must be off, and reported,
            # at its own d + tolerance
            rel = [(g, ch, f, 0) for (g, ch, f, cf) in rel] if n > 1 else [(gp[0], 0, 0, 0), (C7.GPIOS[-1] if gp[0] != C7.GPIOS[-1] else C7.GPIOS[0], 1, 16, 0)]
            m = len(rel)
            evs = [C7.cfg_event(1, 1, 0, False, rel, [0] * 8, [], [0]), ('REG', [], b'')]
            ds = [rng.choice([20000, 60000, 9000])] + [rng.choice([300, 500, 700, 1200]) for _ in range(m - 1)]
            order = list(range(m)); rng.shuffle(order)
            for i in order: evs += [('SETV', [i, 1, ds[i], 30 + i], b'')] + it3 + ([('ADV', [rng.choice([0, 20000])], b'')] if rng.random() < 0.3 else [])
            for dshort in sorted(set(ds[1:])):
                evs += [('ADV', [dshort * 1000 + 300000 if dshort == min(ds[1:]) else 600000], b'')] + it3
            evs += [('ADV', [1500000], b'')] + it3
            if rng.random() < 0.4: evs += [('ADV', [max(ds) * 1000], b'')] + it3 * 2
            return F.Case(cid, evs, ['two-timers'])
        if kind < 0.3:
            # a scene / "all on": 7..25 set-value frames for different channels in ONE receive callback on an 8-relay board, then iterates
            gp8 = rng.sample(C7.GPIOS, 8)
            rel = [(gp8[i], i, rng.choice([0, 0, 16]), 0) for i in range(8)]
            evs = [C7.cfg_event(1, 1, 0, False, rel, [0] * 8, [], [0]), ('REG', [], b'')]
            k = rng.choice([7, 8, 8, 12, 16, 25]); ints = []
            chs = [j % 8 for j in range(k)]
            if rng.random() < 0.5: rng.shuffle(chs)
            for j, chn in enumerate(chs): ints += [chn, rng.choice([1, 1, 1, 0]), 0, 100 + j]
            evs.append(('BURST', ints, b''))
            evs += [('ITER', [], b'')] * (k + 6)
            if rng.random() < 0.5: evs += [('SETV', [rng.randrange(8), rng.choice([0, 1]), 0, 9], b'')] + it3
            return F.Case(cid, evs, ['burst'])
        if kind < 0.45:
            # TCP back-pressure: espconn_sent refuses (INPROGRESS / MAXNUM) the frames of a relay command, once or several times in a row;
            # plain relays only (two small frames per request: the out-queue findings and the 500-byte send buffer stay out)
            rel = [(g, ch, f, 0) for (g, ch, f, cf) in rel]
            evs = [C7.cfg_event(1, 1, 0, False, rel, [0] * 8, [], [0]), ('REG', [], b'')]
            for _ in range(rng.choice([1, 2, 3])):
                i = rng.randrange(n); k = rng.choice([1, 2, 2, 3, 4])
                evs.append(('SENTRES', [rng.choice([c['SENT_INPROGRESS'], c['SENT_MAXNUM']]) for _ in range(k)], b''))
                evs.append(('SETV', [i, rng.choice([0, 1]), rng.choice([0, 0, 2000]), 40 + i], b'') if rng.random() < 0.8 else ('GRP', [i, 1, 0], b''))
                if rng.random() < 0.3: evs.append(('SETV', [rng.randrange(n), rng.choice([0, 1]), 0, 50], b''))
                evs += [('ITER', [], b'')] * (k + 4)
            return F.Case(cid, evs, ['link-busy'])
        if kind < 0.65:
            # a channel-config message that CHANGES the staircase time while the relay is on, then the old / new period passes
            rel = [(g, ch, f, cf) for (g, ch, f, cf) in rel]
            t2 = [0] * 8; i = rng.randrange(n)
            if rng.random() < 0.5: t2[i] = rng.choice([1500, 3000])
            evs = [C7.cfg_event(1, 1, rng.choice([0, 1]), False, rel, t2, [], [0]), ('REG', [], b'')]
            evs += [('SETV', [i, 1, 0, 9], b'')] + it3
            if rng.random() < 0.5: evs += [('TICK', [rng.choice([100000, 400000])], b'')] + it3
            new = rng.choice([0, 2000, 800, 5000]) if t2[i] else rng.choice([2000, 800, 5000])
            K = c
            evs.append(('CHCFG', [i, K['FNC_STAIRCASE'], 0, K['SIZEOF_STAIR_CFG'], new], b'') if new else ('CHCFG', [i, K['FNC_POWERSWITCH'], 0, 4, 0], b''))
            evs += it3
            for dt in (400000, max(t2[i], new) * 1000 + 300000, 3000000):
                evs += [('TICK', [dt], b'')] + it3
            return F.Case(cid, evs, ['chcfg-on'])
        if kind < 0.85:
            t2 = [0] * 8; i = rng.randrange(n); t2[i] = rng.choice([800, 2000, 5000])
            ty = rng.choice([c['IN_MONO'], c['IN_MONO'], c['IN_BI']]); fl = rng.choice([0, c['IN_FLAG_ON_PRESS']])
            inputs = [rng.choice([6, 7, 8]), ty, fl, gp[i], 255]
            evs = [C7.cfg_event(1, 1, rng.choice([c['SBT_RESET'], c['SBT_RESET'], 1 - c['SBT_RESET']]), False, rel, t2, [], [1] + inputs), ('REG', [], b'')]
            st = 0
            if rng.random() < 0.6: evs += [('SETV', [i, 1, 0, 9], b'')] + it3
            for _ in range(rng.choice([2, 3, 5])):
                st ^= 1; evs += [('BTN', [0, st], b'')] + it3
                if rng.random() < 0.6: evs += [('TICK', [rng.choice([100000, 400000, t2[i] * 500])], b'')] + it3
            evs += [('TICK', [t2[i] * 1000 + 300000], b'')] + it3 * 2
            return F.Case(cid, evs, ['stair-click'])
        evs = [C7.cfg_event(C7.aged_boot(rng), 1, 0, False, rel, [0] * 8, [], [0]), ('REG', [], b'')]
        dmax = 0
        for i in range(n):
            d = rng.choice([1500, 5000, 60000]); dmax = max(dmax, d)
            evs += [('SETV', [i, 1, d, 4], b'')] + it3
            evs += [('TICK', [rng.choice([1000, 400000, 1000000])], b'')] + it3
        evs += [('TICK', [2000000], b'')] + it3 + [('TICK', [dmax * 1000 + 500000], b'')] + it3 * 2
        return F.Case(cid, evs, ['aged'])

    def gen_cases(self, rng, n, tier):
        return [self.gen_alive(rng, '%s%d' % (tier[0], i)) if i % 15 == 14 else (self.gen_directed(rng, '%s%d' % (tier[0], i)) if i % 15 == 7 else
                self.gen_case(rng, '%s%d' % (tier[0], i), tier)) for i in range(n)]

    # ---------------- monitor
    def monitor(self, case, status, outs):
        if not case.evs or case.evs[0][0] != 'CFG': return []
        if status != 'ok': return ['implementation crashed (%s)' % status]
        cfg = C7.parse_cfg(case.evs[0][1]); rel = cfg['relays']; nrel = len(rel)
        if len(set(r[0] for r in rel)) != nrel or len(set(r[1] for r in rel)) != nrel: return []
        if any(o[0] in ('UNKNOWN-EVENT', 'WOTH', 'FUEL') for o in outs): return []
        if any(o[0] == 'RESTART' for o in outs):
            return ['RESTART the device restarted itself (srpc_iterate failed) although every frame it received was well-formed']
        c = consts(); LO = c['FLAG_LO_LEVEL']; CD = c['CHFLAG_COUNTDOWN']
        chidx = {r[1]: i for i, r in enumerate(rel)}; pinidx = {r[0]: i for i, r in enumerate(rel)}
        segs = []; cur = []
        for o in outs:
            cur.append(o)
            if o[0] == 'Q': segs.append(cur); cur = []
        evs = case.evs[1:]
        pin = {r[0]: 0 for r in rel}
        def level(i): return pin[rel[i][0]] ^ (1 if rel[i][2] & LO else 0)
        v = []; registered = False
        reported = {}            # channel -> last VAL on the wire
        changed = set()          # channels whose output changed while registered
        expect_res = []          # (event index, ch, sender, ok) for every set-value request on an existing relay channel
        got_res = []
        blame = {}               # channel / request -> class of the overflow that may have hit it
        qprev = (0, 0); tprev = 0
        OP8 = 8 * C7.relay_op_us()
        time2 = list(cfg['time2']); timed = {}       # relay index -> (t_cmd, d_ms): "on for d" accepted and not cancelled since
        quiet = set()                                 # relays whose timer a config message cancelled (staircase -> plain switch): no timer until the next command
        sensor_want = {}                              # sensor channel -> value of its last event while registered
        link = [0, 0]                                 # refusals scripted by the last SENTRES, iterates since
        pendq = []                                    # requests received and not handled yet: one frame is handled per iterate, oldest first
        inputs = []; rest = cfg['rest']
        for j in range(rest[0] if rest else 0): inputs.append(tuple(rest[1 + 5 * j: 6 + 5 * j]))
        for o in segs[0] if segs else []:
            if o[0] == 'GPIO' and o[1][1] in pin: pin[o[1][1]] = o[1][2]
        for k, seg in enumerate(segs[1:]):
            if k >= len(evs): break
            e = evs[k]; drops = [o for o in seg if o[0] == 'DROP']
            btn_want = None          # (relay index, level the statement asks for after this button / motion event)
            if e[0] == 'BTN' and 0 <= e[1][0] < len(inputs):
                ig, ity, ifl, irel, ich = inputs[e[1][0]]; act = e[1][1] != 0
                if irel in pinidx and irel != 255:
                    i_ = pinidx[irel]; ch_ = rel[i_][1]; old_ = level(i_)
                    stair_rst = ch_ < c['T2_COUNT'] and time2[ch_] > 0 and cfg['sbt'] == c['SBT_RESET']
                    toggle = 1 if stair_rst else 1 - old_
                    if ity == c['IN_MONO']: btn_want = (i_, toggle if act == bool(ifl & c['IN_FLAG_ON_PRESS']) else old_)
                    elif ity == c['IN_BI']: btn_want = (i_, toggle)
                    elif ity == c['IN_MOTION']: btn_want = (i_, 1 if act else 0)
                elif ity == c['IN_SENSOR'] and ich != 255 and registered:
                    sensor_want[ich] = 1 if act else 0
            clicked = None           # relay of a toggle-type button on a staircase channel with the reset-type button rule
            if e[0] == 'BTN' and 0 <= e[1][0] < len(inputs):
                ig, ity, ifl, irel, ich = inputs[e[1][0]]
                if ity in (c['IN_MONO'], c['IN_BI']) and irel in pinidx:
                    ch_ = rel[pinidx[irel]][1]
                    if ch_ < c['T2_COUNT'] and time2[ch_] > 0 and cfg['sbt'] == c['SBT_RESET']: clicked = pinidx[irel]
            for o in seg[:-1]:
                if o[0] == 'GPIO' and o[1][1] in pin:
                    pin[o[1][1]] = o[1][2]
                    i_ = pinidx[o[1][1]]
                    if clicked == i_ and level(i_) == 0:
                        v.append('STAIR-CLICK a click of the (reset-type) staircase button switched relay gpio %d (channel %d, staircase time %d ms) OFF; it must restart the period and leave it on' %
                                 (rel[i_][0], rel[i_][1], time2[rel[i_][1]]))
                    if e[0] in ('TICK', 'ADV') and i_ in quiet:
                        v.append('SPURIOUS relay gpio %d (channel %d) switched by itself at a timer tick although the config message made it a plain switch and cancelled its timer' % (rel[i_][0], rel[i_][1]))
                        quiet.discard(i_)
                    if e[0] in ('TICK', 'ADV') and i_ in timed and level(i_) == 0 and o[1][0] - timed[i_][0] <= (timed[i_][1] - 1) * 1000:
                        v.append('EARLY relay gpio %d switched back %d us after "on for %d ms" (channel %d)' % (rel[i_][0], o[1][0] - timed[i_][0], timed[i_][1], rel[i_][1]))
                        del timed[i_]
                    if registered: changed.add(rel[pinidx[o[1][1]]][1])
                elif o[0] == 'VAL': reported[o[1][1]] = o[1][2]
                elif o[0] == 'RES': got_res.append(tuple(o[1][1:4]))
            if btn_want is not None and level(btn_want[0]) != btn_want[1]:
                v.append('BUTTON after the %s of input %d relay gpio %d is at logical level %d, the button / motion-sensor rule asks for %d' %
                         ('press' if e[1][1] else 'release', e[1][0], rel[btn_want[0]][0], level(btn_want[0]), btn_want[1]))
            if e[0] == 'SENTRES': link = [len(e[1]), 0]
            elif e[0] == 'ITER': link[1] += 1
            if e[0] == 'REG': registered = True; changed = set(); reported = {}; sensor_want = {}
            if e[0] == 'TIME2' and 0 <= e[1][0] < 8: time2[e[1][0]] = e[1][1]
            if e[0] == 'CHCFG':
                cc = C7.chcfg_time(e[1])
                if cc is not None and cc[1] != time2[cc[0]]:       # a changed staircase time: the timer of the channel is set up anew from the NEW time
                    time2[cc[0]] = cc[1]
                    if cc[0] in chidx:
                        i_ = chidx[cc[0]]; timed.pop(i_, None); quiet.discard(i_)
                        if cc[1] == 0: quiet.add(i_)                                   # now a plain switch: nothing may switch it by itself
                        elif level(i_) == 1 and cc[1] < 2**31: timed[i_] = (tprev, cc[1])    # a staircase that is on: off after the new time
            if e[0] == 'BTN' and 0 <= e[1][0] < len(inputs) and inputs[e[1][0]][3] in pinidx: timed.pop(pinidx[inputs[e[1][0]][3]], None); quiet.discard(pinidx[inputs[e[1][0]][3]])
            if e[0] == 'SETV': pendq.append((e[1][0], e[1][1], e[1][2], e[1][3]))
            elif e[0] == 'GRP': pendq.append((e[1][0], e[1][1], e[1][2], 0))
            elif e[0] == 'BURST': pendq += [tuple(e[1][4 * j: 4 * j + 4]) for j in range(len(e[1]) // 4)]
            req = pendq.pop(0) if e[0] in ('SETV', 'GRP', 'BURST', 'ITER') and pendq else None      # the request this event's iterate handles
            if req is not None and (req[0] & 255) in chidx:
                i_ = chidx[req[0] & 255]; timed.pop(i_, None); quiet.discard(i_)
                if registered and req[1] == 1 and 0 < req[2] < 2**31 and time2[req[0] & 255] == 0: timed[i_] = (tprev, req[2])
            if e[0] in ('TICK', 'ADV') and e[1][0] >= 0:
                # the countdown callback ran at tprev + dt: every "on for d" whose time is over by then must have switched back
                for i_, (tc, d) in list(timed.items()):
                    # TICK: the callback ran at tprev + dt.  ADV: the timers ran by themselves; C07's bound d + 100 ms (+ busy-waits of relay operations)
                    if tprev + e[1][0] >= tc + (d + 1) * 1000 + OP8 + (100000 + OP8 if e[0] == 'ADV' else 0):
                        if level(i_) == 1:
                            v.append('NO-SWITCH-BACK relay gpio %d is still on %d us after "on for %d ms" (channel %d) although the countdown callback ran after the deadline' %
                                     (rel[i_][0], tprev + e[1][0] - tc, d, rel[i_][1]))
                        del timed[i_]
            if req is not None and registered:
                ch = req[0] & 255
                if ch in chidx:
                    i = chidx[ch]; want = 1 if req[1] == 1 else 0
                    if level(i) != want:
                        v.append('OUTPUT after the set-value request (channel %d, value %d) was handled the relay gpio %d is at logical level %d' % (ch, req[1], rel[i][0], level(i)))
                    sender = req[3]
                    # the handler alone (queue and buffer empty before it) issued more calls than the queue holds: only possible
                    # when it also sends a timer state, i.e. on a countdown-capable channel (timed command, or cancelling a running timer)
                    cls = 'BURST-SET' if (drops and bool(rel[i][3] & CD) and qprev == (0, 0)) else ('QUEUE-FULL' if drops else None)
                    expect_res.append((k, ch, sender & 0xFFFFFFFF if sender < 0 else sender, 1 if level(i) == want else 0, cls))
                    if cls:
                        blame[ch] = cls
                        # the handler also evaluates the running timers (countdown()): a switch-back report of another channel may be the refused call
                        for r in rel: blame.setdefault(r[1], cls)
                else:
                    # no such relay channel: the device still answers (Success = 0); not part of the statement, kept to stay in step
                    sender = req[3]
                    expect_res.append((k, ch, sender & 0xFFFFFFFF if sender < 0 else sender, 0, 'QUEUE-FULL' if drops else None))
            elif drops:
                for r in rel: blame.setdefault(r[1], 'QUEUE-FULL')
            if drops:
                for ch_ in sensor_want: blame.setdefault(ch_, 'QUEUE-FULL')
            q = seg[-1][1]; qprev = (q[1], q[2] + (q[3] if len(q) > 3 else 0)); tprev = q[0]      # bytes: proto buffer + devconn's send buffer
            if len(q) > 3 and q[3] > 0 and link[1] >= link[0] + 1:
                v.append('STUCK %d bytes are still waiting in the send buffer after %d iterates although the link refused only %d writes' % (q[3], link[1], link[0]))
                link = [0, -10**9]
            if registered and qprev == (0, 0):
                # idle: every reported change equals the real state, every request so far has its one result
                for ch_ in sorted(sensor_want):
                    if reported.get(ch_) != sensor_want[ch_]:
                        v.append('%s idle after event %d (%s): the last value reported for sensor channel %d is %s but its input is at %d' %
                                 (blame.get(ch_, 'STALE'), k, e[0], ch_, reported.get(ch_), sensor_want[ch_]))
                        sensor_want[ch_] = reported.get(ch_) if reported.get(ch_) is not None else sensor_want[ch_]
                        if reported.get(ch_) is None: sensor_want.pop(ch_, None)
                for ch in sorted(changed):
                    i = chidx[ch]
                    if reported.get(ch) != level(i):
                        v.append('%s idle after event %d (%s): the last value reported for channel %d is %s but the relay is at %d' %
                                 (blame.get(ch, 'STALE'), k, e[0], ch, reported.get(ch), level(i)))
                        changed.discard(ch)
                exp = [(x[1], x[2] if x[2] < 2**31 else x[2] - 2**32, x[3]) for x in expect_res]
                if got_res != exp:
                    # first difference
                    j = 0
                    while j < len(got_res) and j < len(exp) and got_res[j] == exp[j]: j += 1
                    if j < len(exp):
                        cls = expect_res[j][4] or 'RESULT'
                        v.append('%s idle after event %d: request #%d (event %d, channel %d, sender %d) has no result %s on the wire (got %s)' %
                                 (cls, k, j, expect_res[j][0], exp[j][0], exp[j][1], exp[j], got_res[j] if j < len(got_res) else 'nothing'))
                    else:
                        v.append('RESULT idle after event %d: unexpected extra result %s' % (k, got_res[j]))
                    # resynchronise so that one loss is reported once
                    got_res = list(exp)
        return v[:6]

    def finding_key(self, case, what):
        if what.startswith('BURST-SET'): return 'handler-burst-exceeds-out-queue:timed-set-value-on-countdown-channel'
        if what.startswith('QUEUE-FULL'): return 'out-queue-full:calls-of-several-events-between-two-iterates'
        return None

    def nontrivial(self, case, io):
        return any(o[0] in ('VAL', 'RES', 'EXT') for o in io[1])

CHECK = C06()
