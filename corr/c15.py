"""C15 — the configuration page never reveals stored secrets: generators, implementation-side monitor."""
import os, re
import framework as F

HC = None
def consts():
    global HC
    if HC is None: HC = F.G.load('HtmlTemplates')
    return HC

TEXT_FIELDS = (('OFF_SSID', 'SZ_SSID'), ('OFF_SERVER', 'SZ_SERVER'), ('OFF_EMAIL', 'SZ_EMAIL'), ('OFF_PREFIX', 'SZ_PREFIX'))
SECRET_FIELDS = (('OFF_AUTHKEY', 'SZ_AUTHKEY'), ('OFF_PWD', 'SZ_PWD'), ('OFF_WIFIPWD', 'SZ_WIFIPWD'))
BOARD_NAME = b'VERIF-BOARD'; BOARD_MAC = bytes(range(0xA0, 0xA6))

# ---- python-side notions used by the monitor (independent of the Coq model) ----
def py_wf(img):
    c = consts()
    if len(img) != c['CFG_SIZE']: return False
    return all(0 in img[c[o]:c[o] + c[s]] for (o, s) in TEXT_FIELDS)

def py_low_equiv(a, b):
    """a and b agree outside {WIFI_PWD, Password, AuthKey, bytes of Email after its terminator}"""
    c = consts()
    if len(a) != len(b): return False
    sec = set()
    for (o, s) in SECRET_FIELDS: sec.update(range(c[o], c[o] + c[s]))
    eo, es = c['OFF_EMAIL'], c['SZ_EMAIL']
    ea, eb = a[eo:eo + es], b[eo:eo + es]
    ka = ea.find(b'\0')
    if ka < 0: return False
    if ea[:ka + 1] != eb[:ka + 1]: return False
    for i in range(len(a)):
        if i in sec or eo <= i < eo + es: continue
        if a[i] != b[i]: return False
    return True

def secrets_of(img):
    """(name, bytes) of the stored secrets as strings"""
    c = consts(); out = []
    def cs(b): k = b.find(b'\0'); return b if k < 0 else b[:k]
    out.append(('the Wi-Fi password', cs(img[c['OFF_WIFIPWD']:c['OFF_WIFIPWD'] + c['SZ_WIFIPWD']])))
    out.append(('the location/MQTT password', cs(img[c['OFF_PWD']:c['OFF_PWD'] + c['SZ_PWD']])))
    e = img[c['OFF_EMAIL']:c['OFF_EMAIL'] + c['SZ_EMAIL']]; k = e.find(b'\0')
    if k >= 0: out.append(('the overflow part of the long password', cs(e[k + 1:])))
    ak = img[c['OFF_AUTHKEY']:c['OFF_AUTHKEY'] + c['SZ_AUTHKEY']]
    out.append(('the AuthKey', ak)); out.append(('the AuthKey (hex)', ak.hex().upper().encode())); out.append(('the AuthKey (hex)', ak.hex().encode()))
    return out

class C15(F.PropCheck):
    pid = 'C15'; gen_groups = ['HtmlTemplates', 'C14Vars', 'StateSites']; prop_file = 'Properties_C15'
    IN = {'CFG': 0, 'CFGB': 1, 'NAME': 2, 'MAC': 3, 'ADD': 4, 'STATE': 5, 'RENDER': 6, 'GET': 7, 'FORMB': 8, 'FORM': 9, 'WIFICONNECT': 10, 'WIFISTATUS': 11}
    OUT = {0: 'PAGE', 1: 'PAGEB', 2: 'GETPAGE', 3: 'FPAGE', 4: 'FPAGEB', 5: 'FCFG', 6: 'FCFGB'}
    quick_cases = 1500; thorough_cases = 4000
    trusted_extra = ['C15 driver harness/drv/c15.c + harness/wrap/c15_html_wrap.c: the two html sources of /repo compiled under all '
                     'seven variants in one MQTT-configuration binary (SUPLA page with MQTT_SUPPORT_ENABLED undefined, renamed entry points), '
                     'malloc/ets_snprintf of the renderers observed through macros; real supla_esp_http_ok, supla_esp_set_state, '
                     'supla_esp_recv_callback (GET); host vsnprintf as ets_snprintf; plain `char` is signed on the host (unsigned on xtensa): '
                     'the model takes the signedness as a parameter and the theorems hold for both',
                     'argument lists of the seven ets_snprintf calls are transcribed by hand in coq/C15/Model.v (spec, spec_mqtt) and '
                     'validated by the byte comparison; format strings, literal arguments, offsets and slack are generated']
    assumptions = ['wf_cfg: WIFI_SSID, Server, Email/Username and MqttTopicPrefix contain a NUL inside their field (established by every writer: C13/C14)',
                   'dev_name, last state and the board\'s additional-settings text are C strings (no embedded NUL)']
    rule = ('random configuration images (text fields random printable/binary of random and maximal lengths, garbage after the terminators, '
            'long-password overflow behind the e-mail) paired with a second image that differs exactly in the secrets; plus unterminated-field and '
            'independent-image cases for the model comparison only; x 7 page variants x data_saved x 0-4 state messages x device name/MAC x '
            'additional settings; non-trivial = at least one page rendered; distinct by sha256 of the event text')

    def regen_guard(self):
        """another check may regenerate ALL translator groups from /repo between our translator run and our Coq build
        (shared gen.py: an empty group list means every group).  Re-run our groups; when a generated .v is newer than its
        .vo the proofs were checked against other constants: check them again."""
        F.run_gen(self.gen_groups)
        coq = os.path.join(F.VERIF, 'coq', 'Gen')
        stale = [g for g in self.gen_groups
                 if not os.path.exists(os.path.join(coq, g + '.vo')) or os.path.getmtime(os.path.join(coq, g + '.v')) > os.path.getmtime(os.path.join(coq, g + '.vo'))]
        if stale:
            cq = F.coq_build(self.prop_file)
            if not cq['ok']: return 'proofs do not hold for the constants regenerated from the tree under test (%s): %s' % (', '.join(stale), '; '.join(cq.get('errors', [])[:2]) or cq['log'][-400:])
        return None

    def build_impl(self):
        self._guard_problem = self.regen_guard()      # reported in extra_quick; the implementation is run in any case
        srcs = [s for s in F.device_sources('mqtt') if not s.endswith('supla_esp_cfgmode_mqtt_html.c')]
        H = os.path.join(F.VERIF, 'harness')
        return F.build_c('c15', os.path.join(H, 'drv', 'c15.c'), config='mqtt', sources=srcs,
                         extra_srcs=[os.path.join(H, 'wrap', 'c15_html_wrap.c'), os.path.join(H, 'doubles', 'c15_mqtt_board.c')])

    # ---------------- generators
    def rstr(self, rng, n, mode):
        if mode == 0: return bytes(rng.choice(b'abcdefghijklmnopqrstuvwxyzABCDEFGHIJKLMNOPQRSTUVWXYZ0123456789._-@') for _ in range(n))
        if mode == 1: return bytes(rng.randrange(32, 127) for _ in range(n))       # printable incl. % < > " &
        return bytes(rng.randrange(1, 256) for _ in range(n))                       # any non-NUL byte

    def gen_image(self, rng, wf=True):
        c = consts(); img = bytearray(rng.getrandbits(8) for _ in range(c['CFG_SIZE']))
        if rng.random() < 0.3:
            for i in range(len(img)): img[i] = 0
        mode = rng.choice([0, 0, 1, 2])
        for (o, s) in TEXT_FIELDS + SECRET_FIELDS[1:]:
            sz = c[s]
            k = rng.random()
            n = 0 if k < 0.1 else (sz - 1 if k < 0.35 else rng.randrange(0, sz))
            img[c[o]:c[o] + n] = self.rstr(rng, n, mode); img[c[o] + n] = 0
            if rng.random() < 0.5:
                for i in range(c[o] + n + 1, c[o] + sz): img[i] = 0
        # long password: Password full (no terminator), rest behind the e-mail terminator
        if rng.random() < 0.35:
            o, sz = c['OFF_PWD'], c['SZ_PWD']; img[o:o + sz] = self.rstr(rng, sz, mode)
            eo, es = c['OFF_EMAIL'], c['SZ_EMAIL']; k = bytes(img[eo:eo + es]).find(b'\0')
            room = es - k - 2
            if room > 0:
                n = rng.randrange(0, room + 1); img[eo + k + 1:eo + k + 1 + n] = self.rstr(rng, n, mode); img[eo + k + 1 + n] = 0
        img[c['OFF_PORT']:c['OFF_PORT'] + 4] = rng.choice([0, 1, 1883, 8883, 65535, 2**31 - 1, 2**31, 2**32 - 1, rng.getrandbits(32)]).to_bytes(4, 'little')
        if rng.random() < 0.7: img[c['OFF_QOS']] = rng.choice([0, 1, 2])
        for o in ('OFF_CFGBTN', 'OFF_BTN1', 'OFF_BTN2', 'OFF_FWUPD'):
            if rng.random() < 0.8: img[c[o]] = rng.choice([0, 1, 2])
        if rng.random() < 0.8: img[c['OFF_FLAGS']:c['OFF_FLAGS'] + 4] = rng.randrange(0, 32).to_bytes(4, 'little')
        img[-1] = 0
        if not wf:
            (o, s) = rng.choice(TEXT_FIELDS[:2] + TEXT_FIELDS[3:])     # SSID / Server / prefix unterminated
            img[c[o]:c[o] + c[s]] = self.rstr(rng, c[s], mode)
        return bytes(img)

    def flip_secrets(self, rng, a):
        c = consts(); b = bytearray(a)
        for (o, s) in SECRET_FIELDS:
            for i in range(c[o], c[o] + c[s]):
                b[i] = (b[i] + rng.randrange(1, 256)) & 255
        eo, es = c['OFF_EMAIL'], c['SZ_EMAIL']; k = bytes(a[eo:eo + es]).find(b'\0')
        if k >= 0:
            for i in range(eo + k + 1, eo + es): b[i] = rng.getrandbits(8)
        return bytes(b)

    # ---- saved forms: POST through the real handler, then the pages
    FORM_TEXT = {b'sid': 32, b'wpw': 64, b'svr': 100, b'mvr': 100, b'eml': 256, b'usr': 256, b'pfx': 50}
    def form_pair(self, rng):
        """two requests that differ only in the values of wpw / pwd / mwd (same lengths)"""
        mqtt = rng.random() < 0.5
        al = b'abcdefghijklmnopqrstuvwxyzABCDEFGHIJKLMNOPQRSTUVWXYZ0123456789'
        def rs(n): return bytes(rng.choice(al) for _ in range(n))
        def ln(size):
            k = rng.random()
            if k < 0.55: return rng.choice([size - 2, size - 1, size, size + 1])
            return rng.choice([0, 1, 5, 12, rng.randrange(0, size + 3)])
        names = [b'sid', b'wpw', b'pro'] + ([b'mvr', b'prt', b'tls', b'mau', b'usr', b'mwd', b'pfx', b'qos', b'ret', b'ppd'] if mqtt else [b'svr', b'eml'])
        if not mqtt and rng.random() < 0.4: names.append(b'pwd')
        if rng.random() < 0.3: names += [b'svr', b'eml'] if mqtt else [b'mvr', b'usr', b'pfx']      # fields of the other protocol (ignored or not)
        names = [n for n in names if rng.random() < 0.9 or n == b'pro']
        if rng.random() < 0.3: rng.shuffle(names)
        if b'pro' in names and rng.random() < 0.7: names.remove(b'pro'); names.insert(0, b'pro')
        names.append(b'rbt')
        pa, pb = [], []
        for n in names:
            if n == b'pro': v = w = b'1' if mqtt else b'0'
            elif n == b'wpw':
                L = ln(64); v = rs(L); w = rs(L)
            elif n in (b'pwd', b'mwd'):
                L = rng.choice([0, 8, 31, 32, 33, 34, 60, 200, 254, 255, 256, 257, rng.randrange(0, 260)]); v = rs(L); w = rs(L)
            elif n in self.FORM_TEXT: v = w = rs(ln(self.FORM_TEXT[n]))
            elif n == b'prt': v = w = str(rng.choice([1883, 8883, 1, 65535])).encode()
            elif n == b'qos': v = w = rng.choice([b'0', b'1', b'2'])
            elif n == b'ppd': v = w = str(rng.randrange(0, 200)).encode()
            elif n == b'rbt': v = w = rng.choice([b'0', b'0', b'0', b'2'])
            else: v = w = rng.choice([b'0', b'1'])
            pa.append(n + b'=' + v); pb.append(n + b'=' + w)
        hdr = b'POST / HTTP/1.1\r\nHost: 192.168.4.1\r\nContent-Type: application/x-www-form-urlencoded\r\n\r\n'
        return hdr + b'&'.join(pa), hdr + b'&'.join(pb), mqtt

    def wifi_history(self, rng):
        """what the firmware itself writes into the last-state text: connect, then the SDK status sequence"""
        evs = [('WIFICONNECT', [rng.choice([1, 1, 1, 0, 5])], b'')]
        for _ in range(rng.choice([1, 1, 2, 3, 5])):
            evs.append(('WIFISTATUS', [rng.choice([2, 2, 3, 3, 4, 5, 1, 0])], b''))
        return evs

    def gen_form_case(self, rng, cid):
        a = self.gen_image(rng); b = self.flip_secrets(rng, a)
        ra, rb, mqtt = self.form_pair(rng)
        evs = [('CFG', [], a), ('CFGB', [], b), ('NAME', [], BOARD_NAME), ('MAC', [], BOARD_MAC)]
        if rng.random() < 0.3: evs.append(('STATE', [], self.rstr(rng, rng.randrange(1, 80), 0)))
        if rng.random() < 0.4: evs += self.wifi_history(rng)
        evs += [('FORMB', [], rb), ('FORM', [], ra)]
        tags = ['saved-form:%s' % ('mqtt' if mqtt else 'supla')]
        for v in sorted(set(rng.randrange(0, 7) for _ in range(rng.choice([1, 2])))):
            evs.append(('RENDER', [v, 0], b'')); tags.append('v%d' % v)
        if rng.random() < 0.5: evs.append(('GET', [], b'')); tags.append('GET')
        return F.Case(cid, evs, tags)

    def gen_cases(self, rng, n, tier):
        cases = []
        nform = n // 3
        for i in range(nform): cases.append(self.gen_form_case(rng, '%sf%d' % (tier[0], i)))
        n = n - nform
        for i in range(n):
            k = rng.random(); tags = []
            if k < 0.8:
                a = self.gen_image(rng); b = self.flip_secrets(rng, a); tags.append('wf+secrets-flipped')
            elif k < 0.9:
                a = self.gen_image(rng, wf=False); b = self.flip_secrets(rng, a); tags.append('unterminated-field')
            else:
                a = self.gen_image(rng); b = self.gen_image(rng); tags.append('independent-images')
            with_get = rng.random() < 0.25
            evs = [('CFG', [], a), ('CFGB', [], b)]
            mode = rng.choice([0, 1, 2])
            if with_get: evs += [('NAME', [], BOARD_NAME), ('MAC', [], BOARD_MAC)]
            else:
                evs += [('NAME', [], self.rstr(rng, rng.choice([0, 5, 11, 24, rng.randrange(0, 25)]), mode)),
                        ('MAC', [], bytes(rng.getrandbits(8) for _ in range(6)))]
            if rng.random() < 0.5: evs.append(('ADD', [], self.rstr(rng, rng.choice([0, 1, 40, 200, rng.randrange(0, 300)]), mode)))
            ns = rng.choice([0, 1, 1, 2, 3, 4])
            for _ in range(ns):
                evs.append(('STATE', [], self.rstr(rng, rng.choice([1, 10, 60, 150, 298, 299, 300, 400, rng.randrange(1, 320)]), mode)))
            if ns: tags.append('state-msgs:%d' % ns)
            if rng.random() < 0.4:
                w = self.wifi_history(rng); evs += w; tags.append('wifi-history')
                if rng.random() < 0.3: evs.append(('STATE', [], self.rstr(rng, rng.randrange(1, 60), mode)))
            vs = [rng.randrange(0, 7) for _ in range(rng.choice([1, 2, 3]))]
            if tier == 'thorough' and rng.random() < 0.1: vs = list(range(7))
            for v in vs:
                d = rng.choice([0, 1]); evs.append(('RENDER', [v, d], b'')); tags.append('v%d' % v)
            if with_get: evs.append(('GET', [], b'')); tags.append('GET')
            cases.append(F.Case('%s%d' % (tier[0], i), evs, tags))
        return cases

    # ---------------- monitor (implementation trace vs. the property; the Coq model is not involved)
    def unterminated(self, img):
        c = consts()
        return [o[4:] for (o, s) in TEXT_FIELDS if len(img) == c['CFG_SIZE'] and 0 not in img[c[o]:c[o] + c[s]]]

    def public_material(self, img, extra):
        c = consts(); pub = list(extra)
        g = img[c['OFF_GUID']:c['OFF_GUID'] + c['SZ_GUID']]; pub += [g.hex().upper().encode(), g.hex().encode(), g, BOARD_MAC.hex().upper().encode()]
        for (o, s) in TEXT_FIELDS:
            f = img[c[o]:c[o] + c[s]]; k = f.find(b'\0'); pub.append(f if k < 0 else f[:k])
        for k, v in c.items():
            if isinstance(v, list) and v and isinstance(v[0], int): pub.append(bytes(x & 255 for x in v))
        return pub

    def monitor(self, case, status, outs):
        v = []
        if status != 'ok':
            return ['implementation crashed (%s) while rendering/sending the page: the page does not fit its buffer or is not terminated' % status]
        a = b = None; equiv = False; after_form = False; extra = []; reqb = b''
        it = iter(outs)
        def size_checks(k, ints, data, what):
            var, d, alloc, trunc = ints[:4]
            body = bytes(data); j = body.find(b'\r\n\r\n'); html = body[j + 4:] if j >= 0 else body
            if trunc: v.append('%s: the page needs more room than the %d bytes allocated for it (rendering truncated)' % (what, alloc))
            if alloc >= 0 and len(html) >= alloc: v.append('%s: %d page bytes without terminator in a buffer of %d' % (what, len(html), alloc))
        def differ(what, pa, pb, img):
            why = ''
            if img is not None:
                for (nm, s) in secrets_of(img):
                    if len(s) >= 8 and s in pa and s not in pb: why = '; it contains %s literally' % nm; break
                ut = self.unterminated(img)
                if ut: why += '; stored %s is not NUL-terminated inside its field' % ', '.join(ut)
            v.append('%s: the page depends on secrets (two configurations%s that differ only in Wi-Fi password / location-MQTT password '
                     'incl. overflow / AuthKey render differently)%s' % (what, ' and two submitted forms' if after_form else '', why))
        try:
            for (k, ints, data) in case.evs:
                if k == 'CFG': a = bytes(data)
                elif k == 'CFGB': b = bytes(data)
                elif k in ('NAME', 'ADD', 'STATE'): extra.append(bytes(data))
                if k in ('CFG', 'CFGB'):
                    equiv = a is not None and b is not None and py_wf(a) and py_wf(b) and py_low_equiv(a, b); after_form = False
                elif k == 'RENDER':
                    if not (0 <= ints[0] <= 6): continue
                    (k1, i1, d1) = next(it); (k2, i2, d2) = next(it)
                    size_checks(k1, i1, d1, 'variant %d data_saved=%d' % (i1[0], i1[1])); size_checks(k2, i2, d2, 'variant %d data_saved=%d' % (i2[0], i2[1]))
                    if equiv and bytes(d1) != bytes(d2):
                        differ('variant %d data_saved=%d%s' % (i1[0], i1[1], ' after a saved form' if after_form else ''), bytes(d1), bytes(d2), a)
                elif k == 'GET':
                    (k1, i1, d1) = next(it); size_checks(k1, i1, d1, 'GET /')
                    if a is not None and py_wf(a) and (equiv or not after_form):
                        pub = self.public_material(a, extra)
                        for (nm, s) in secrets_of(a):
                            if len(s) >= 8 and s in bytes(d1) and not any(s in p for p in pub):
                                v.append('GET /: the page contains %s%s' % (nm, ''.join('; stored %s is not NUL-terminated inside its field' % u for u in self.unterminated(a)))); break
                elif k == 'FORMB': reqb = bytes(data)
                elif k == 'FORM':
                    mask = lambda r: re.sub(rb'(wpw|pwd|mwd)=[^&]*', lambda m: m.group(1) + b'=' + b'*' * (len(m.group(0)) - 4), r)
                    equiv = equiv and mask(bytes(data)) == mask(reqb)
                    (k1, i1, d1) = next(it); (kc1, _, c1) = next(it); (k2, i2, d2) = next(it); (kc2, _, c2) = next(it)
                    for (kk, ii, dd) in ((k1, i1, d1), (k2, i2, d2)):
                        if ii[0]: size_checks(kk, [6, 1, ii[1], ii[2]], dd, 'page after the saved form')
                    after_form = True; a = bytes(c1); b = bytes(c2)
                    if equiv:
                        if bytes(d1) != bytes(d2): differ('"Data saved" page after the form', bytes(d1), bytes(d2), a)
                        elif i1[0]:
                            pub = self.public_material(a, extra)
                            for (nm, s) in secrets_of(a):
                                if len(s) >= 8 and s in bytes(d1) and not any(s in p for p in pub):
                                    v.append('"Data saved" page after the form contains %s' % nm); break
        except StopIteration:
            pass
        return v

    def compare(self, case, mo, io):
        """the stored images (FCFG/FCFGB) are compared without the bytes behind the e-mail terminator: they are secret, never
        printed, and belong to C14 (which compares them exactly)"""
        c = consts(); eo, es = c['OFF_EMAIL'], c['SZ_EMAIL']
        def norm(lines):
            out = []
            for (k, i, d) in lines:
                if k in ('FCFG', 'FCFGB') and len(d) >= eo + es:
                    d = bytes(d); z = d[eo:eo + es].find(b'\0')
                    if z >= 0: d = d[:eo + z + 1] + bytes(es - z - 1) + d[eo + es:]
                out.append((k, i, d))
            return out
        return F.PropCheck.compare(self, case, (mo[0], norm(mo[1])), (io[0], norm(io[1])))

    def nontrivial(self, case, io): return any(o[0] in ('PAGE', 'GETPAGE', 'FPAGE') for o in io[1])
    def sample(self, case, io):
        return dict(id=case.id, events=[F.fmt_line(*e)[:100] for e in case.evs[:10]], outputs=[F.fmt_line(*o)[:140] for o in io[1][:4]])

    def extra_quick(self, ctx):
        if getattr(self, '_guard_problem', None): ctx['problems'].append('proof: ' + self._guard_problem)

CHECK = C15()
