#!/usr/bin/env python3
"""Shared machinery of all checks: translator run, Coq build + assumption gate, extraction,
C driver build from /repo's working tree (content-hashed object cache), batch execution of
model and implementation drivers, diff, shrinking, findings, evidence."""
import fcntl, glob, hashlib, json, os, random, re, shutil, subprocess, sys, time
from concurrent.futures import ThreadPoolExecutor

VERIF = os.path.dirname(os.path.dirname(os.path.abspath(__file__)))
REPO = os.environ.get('VERIF_REPO', '/repo')
CACHE = os.path.join(VERIF, '.cache')
sys.path.insert(0, os.path.join(VERIF, 'gen'))
import gen as G

NCPU = 16

def sh(cmd, timeout=None, cwd=None, inp=None, env=None):
    try:
        r = subprocess.run(cmd, cwd=cwd, input=inp, capture_output=True, text=True, timeout=timeout, env=env,
                           errors='replace')
        return r.returncode, r.stdout, r.stderr
    except subprocess.TimeoutExpired as e:
        return 124, (e.stdout or b'').decode(errors='replace') if isinstance(e.stdout, bytes) else (e.stdout or ''), 'TIMEOUT'

# ------------------------------------------------------------------------------------------
# translator
def load_gen_groups():
    G.load_groups()

def run_gen(groups):
    load_gen_groups()
    with open(os.path.join(CACHE, 'gen.lock'), 'w') as lk:
        fcntl.flock(lk, fcntl.LOCK_EX)
        return G.gen(groups)

# ------------------------------------------------------------------------------------------
# Coq
ALLOWED_AXIOMS = {
    # standard-library axioms that may appear (DESIGN §7); anything else fails the gate
    'functional_extensionality_dep', 'FunctionalExtensionality.functional_extensionality_dep',
    'Eqdep.Eq_rect_eq.eq_rect_eq', 'eq_rect_eq', 'Classical_Prop.classic', 'classic',
    'proof_irrelevance', 'JMeq_eq', 'JMeq.JMeq_eq',
    # real-number axioms of the standard library (pulled in by Flocq/Reals for the float facts of C09/C10)
    'ClassicalDedekindReals.sig_not_dec', 'ClassicalDedekindReals.sig_forall_dec', 'sig_not_dec', 'sig_forall_dec',
}
FORBIDDEN_RE = re.compile(r'\b(Admitted|admit|Axiom|Parameter|Conjecture|Unset Guard Checking|bypass_check|type-in-type|Admit Obligations)\b')

def coq_cone(prop_file):
    """.v files the property file depends on (transitively, inside coq/), by scanning Require lines"""
    coq = os.path.join(VERIF, 'coq'); seen = {}; todo = [prop_file.replace('.', '/')]
    while todo:
        m = todo.pop()
        p = os.path.join(coq, m + '.v')
        if m in seen or not os.path.exists(p): continue
        seen[m] = p
        txt = re.sub(r'\(\*.*?\*\)', '', open(p).read(), flags=re.S)
        for r in re.finditer(r'(?:From\s+(\S+)\s+)?Require\s+(?:Import\s+|Export\s+)?(.*?)\.(?:\s|$)', txt, flags=re.S):
            if r.group(1) not in (None, 'V'): continue
            for name in r.group(2).split():
                if name.startswith('V.'): name = name[2:]
                todo.append(name.replace('.', '/'))
    return sorted(seen.values())

def grep_gate(prop_file=None):
    """no Admitted/admit/Axiom/... in the dependency cone of the property (comments excluded)"""
    bad = []
    files = coq_cone(prop_file) if prop_file else glob.glob(os.path.join(VERIF, 'coq', '**', '*.v'), recursive=True)
    for p in files:
        txt = open(p).read()
        txt_nc = re.sub(r'\(\*.*?\*\)', '', txt, flags=re.S)
        for m in FORBIDDEN_RE.finditer(txt_nc):
            bad.append('%s: %s' % (os.path.relpath(p, VERIF), m.group(0)))
        if re.search(r'^\s*(Variable|Hypothesis|Variables|Hypotheses)\b', txt_nc, flags=re.M):
            if not re.search(r'^\s*Section\b', txt_nc, flags=re.M):
                bad.append('%s: Variable/Hypothesis outside Section' % os.path.relpath(p, VERIF))
    return bad

def coq_build(prop_file, timeout=1500):
    """prop_file e.g. 'Properties_C01'.  Forces the property file to be re-checked so that its
    Print Assumptions output is captured.  Returns dict(ok, log, theorems{name: [axioms]}, failed)."""
    coq = os.path.join(VERIF, 'coq')
    for ext in ('.vo', '.glob', '.vok', '.vos'):
        try: os.remove(os.path.join(coq, prop_file + ext))
        except FileNotFoundError: pass
    rc, out, err = sh([os.path.join(VERIF, 'bin', 'coqmake'), '-k', '-j%d' % NCPU, prop_file + '.vo'], timeout=timeout)
    log = out + err
    res = dict(ok=(rc == 0), log=log, theorems={}, failed=[])
    # parse Print Assumptions blocks:  "Closed under the global context"  or "Axioms:\n name : type"
    # we print a marker before each:  (Print Assumptions thm) is preceded by  Check-free marker via Redirect? -> parse sequentially
    names = re.findall(r'^\s*Print Assumptions\s+([A-Za-z0-9_\.]+)\s*\.', open(os.path.join(coq, prop_file + '.v')).read(), flags=re.M)
    blocks = re.split(r'(?m)^(?=Closed under the global context|Axioms:)', out)
    blocks = [b for b in blocks if b.startswith('Closed under') or b.startswith('Axioms:')]
    for i, n in enumerate(names):
        if i < len(blocks):
            b = blocks[i]
            if b.startswith('Closed'):
                res['theorems'][n] = []
            else:
                ax = re.findall(r'(?m)^([A-Za-z0-9_\.\']+)\s*:', b[len('Axioms:'):])
                res['theorems'][n] = ax
        else:
            res['failed'].append(n)
    for m in re.finditer(r'File "([^"]+)", line (\d+).*?\n(Error:.*?)(?=\n\S|\Z)', log, flags=re.S):
        res.setdefault('errors', []).append('%s:%s %s' % (m.group(1), m.group(2), m.group(3)[:400]))
    return res

def axiom_gate(theorems):
    bad = []
    for t, axs in theorems.items():
        for a in axs:
            if a not in ALLOWED_AXIOMS and not a.startswith('Coq.Floats.') and not a.startswith('PrimFloat') \
               and not a.startswith('Uint63') and not a.startswith('FloatAxioms') and not a.startswith('PrimInt63'):
                bad.append('%s depends on %s' % (t, a))
    return bad

def extract_model(pid):
    """runs coq/<PID>/Extract.v in ocaml/<pid>/ and builds the generic driver; returns exe path or (None, log)"""
    d = os.path.join(VERIF, 'ocaml', pid.lower())
    os.makedirs(d, exist_ok=True)
    with open(os.path.join(d, '.lock'), 'w') as lk:
        fcntl.flock(lk, fcntl.LOCK_EX)
        # the model .vo must be current
        rc, out, err = sh([os.path.join(VERIF, 'bin', 'coqmake'), '-j%d' % NCPU, '%s/Model.vo' % pid], timeout=900)
        if rc != 0:
            return None, 'model build failed:\n' + (out + err)[-3000:]
        key = hashlib.sha256()
        for p in sorted(glob.glob(os.path.join(VERIF, 'coq', pid, '*.vo')) + glob.glob(os.path.join(VERIF, 'coq', 'Gen', '*.vo'))
                        + [os.path.join(VERIF, 'ocaml', 'driver.ml'), os.path.join(VERIF, 'coq', pid, 'Extract.v')]):
            key.update(p.encode()); key.update(open(p, 'rb').read())
        stamp = os.path.join(d, '.stamp'); exe = os.path.join(d, 'driver')
        if os.path.exists(stamp) and os.path.exists(exe) and open(stamp).read() == key.hexdigest():
            return exe, ''
        rc, out, err = sh(['coqc', '-Q', os.path.join(VERIF, 'coq'), 'V', os.path.join(VERIF, 'coq', pid, 'Extract.v')], cwd=d, timeout=600)
        for junk in glob.glob(os.path.join(VERIF, 'coq', pid, 'Extract.vo*')) + glob.glob(os.path.join(VERIF, 'coq', pid, 'Extract.glob')) + glob.glob(os.path.join(VERIF, 'coq', pid, '.Extract.aux')):
            os.remove(junk)
        if rc != 0:
            return None, 'extraction failed:\n' + (out + err)[-3000:]
        shutil.copy(os.path.join(VERIF, 'ocaml', 'driver.ml'), os.path.join(d, 'driver.ml'))
        rc, out, err = sh(['ocamlfind', 'ocamlopt', '-O3', '-unboxed-types' if False else '-w', '-a', 'model.mli', 'model.ml', 'driver.ml', '-o', 'driver'], cwd=d, timeout=600)
        if rc != 0:
            return None, 'ocaml build failed:\n' + (out + err)[-3000:]
        open(stamp, 'w').write(key.hexdigest())
        return exe, ''

# ------------------------------------------------------------------------------------------
# C build
DEVICE_USER = ['supla_esp_gpio', 'supla_esp_input', 'supla_esp_cfg', 'supla_esp_cfgmode', 'supla_esp_cfgmode_html',
               'supla_esp_state', 'supla_update', 'supla_esp_countdown_timer', 'supla_esp_dns_client',
               'supla_esp_wifi', 'uptime', 'supla_esp_rs_fb']
SAN = ['-g', '-O1', '-fsanitize=address,undefined', '-fno-sanitize=shift-base', '-fno-sanitize-recover=all', '-fno-omit-frame-pointer']

def tree_hash():
    h = hashlib.sha256()
    roots = [os.path.join(REPO, 'src'), os.path.join(REPO, 'supla-common'), os.path.join(REPO, 'test', 'doubles'),
             os.path.join(VERIF, 'harness')]
    for r in roots:
        for dp, dn, fn in os.walk(r):
            dn.sort()
            for f in sorted(fn):
                if f.endswith(('.c', '.h', '.cpp', '.inc')):
                    p = os.path.join(dp, f)
                    h.update(p.encode())
                    try: h.update(open(p, 'rb').read())
                    except OSError: pass
    return h.hexdigest()

def device_sources(config, wrap=('devconn', 'srpc', 'proto'), exclude=()):
    srcs = []
    for u in DEVICE_USER:
        if u in exclude: continue
        srcs.append(os.path.join(REPO, 'src', 'user', u + '.c'))
    if 'devconn' in wrap: srcs.append(os.path.join(VERIF, 'harness', 'wrap', 'devconn_wrap.c'))
    elif 'devconn' not in exclude: srcs.append(os.path.join(REPO, 'src', 'user', 'supla_esp_devconn.c'))
    if 'srpc' in wrap: srcs.append(os.path.join(VERIF, 'harness', 'wrap', 'srpc_wrap.c'))
    else: srcs.append(os.path.join(REPO, 'supla-common', 'srpc.c'))
    if 'proto' in wrap: srcs.append(os.path.join(VERIF, 'harness', 'wrap', 'proto_wrap.c'))
    else: srcs.append(os.path.join(REPO, 'supla-common', 'proto.c'))
    srcs.append(os.path.join(REPO, 'supla-common', 'lck.c'))
    srcs.append(os.path.join(VERIF, 'harness', 'doubles', 'doubles.c'))
    srcs.append(os.path.join(VERIF, 'harness', 'doubles', 'libc_doubles.c'))
    srcs.append(os.path.join(VERIF, 'harness', 'board', 'board.c'))
    if config == 'mqtt':
        srcs += [os.path.join(REPO, 'src', 'user', x) for x in ('mqtt.c', 'supla_esp_mqtt.c', 'supla_esp_cfgmode_mqtt_html.c')]
    return srcs

def prune_cache(limit=2 << 30, target=1 << 30, min_age=1800):
    """keep the object/binary cache bounded (LRU by mtime; entries are touched on use; nothing younger than min_age
    seconds is removed so that concurrent runs never lose what they are about to use)"""
    try:
        ents = []
        for sub in ('obj', 'bin'):
            d = os.path.join(CACHE, sub)
            if not os.path.isdir(d): continue
            with os.scandir(d) as it:
                for e in it:
                    try: st = e.stat(); ents.append((st.st_mtime, st.st_size, e.path))
                    except OSError: pass
        total = sum(x[1] for x in ents)
        if total <= limit: return
        now = time.time()
        for mt, sz, path in sorted(ents):
            if total <= target or now - mt < min_age: break
            try: os.remove(path); total -= sz
            except OSError: pass
    except Exception:
        pass

def build_c(name, drv_src, config='dev', extra_srcs=(), extra_flags=(), wrap=('devconn', 'srpc', 'proto'),
            exclude=(), sources=None, cc='clang', libs=()):
    """compile the driver + device sources; returns (exe, '') or (None, log)"""
    os.makedirs(os.path.join(CACHE, 'obj'), exist_ok=True); os.makedirs(os.path.join(CACHE, 'bin'), exist_ok=True)
    th = tree_hash()
    flags = G.dev_flags(REPO, mqtt=(config == 'mqtt')) + list(SAN) + ['-w'] + list(extra_flags)
    if config == 'devcfg': flags += ['-DVERIF_RETREIVE_CHANNEL_CONFIG']
    srcs = (list(sources) if sources is not None else device_sources(config, wrap, exclude)) + list(extra_srcs) + [drv_src]
    objs = []; jobs = []
    for s in srcs:
        k = hashlib.sha256((th + '|' + cc + '|' + ' '.join(flags) + '|' + s).encode()).hexdigest()[:32]
        o = os.path.join(CACHE, 'obj', k + '.o')
        objs.append(o)
        if not os.path.exists(o):
            jobs.append((s, o))
        else:
            try: os.utime(o)
            except OSError: pass
    def comp(job):
        s, o = job
        tmp = o + '.%d.tmp' % os.getpid()
        rc, out, err = sh([cc] + flags + ['-c', s, '-o', tmp], timeout=600)
        if rc == 0: os.replace(tmp, o)
        return rc, s, err
    errs = []
    with ThreadPoolExecutor(NCPU) as ex:
        for rc, s, err in ex.map(comp, jobs):
            if rc != 0: errs.append('compile %s failed:\n%s' % (s, err[-3000:]))
    if errs: return None, '\n'.join(errs)
    k = hashlib.sha256(('|'.join(objs) + '|'.join(libs)).encode()).hexdigest()[:32]
    exe = os.path.join(CACHE, 'bin', '%s_%s' % (name, k))
    if not os.path.exists(exe):
        tmp = exe + '.%d.tmp' % os.getpid()
        rc, out, err = sh([cc] + SAN + objs + ['-o', tmp, '-lm'] + list(libs), timeout=600)
        if rc != 0: return None, 'link failed:\n' + err[-4000:]
        os.replace(tmp, exe)
    else:
        try: os.utime(exe)
        except OSError: pass
    prune_cache()
    return exe, ''

# ------------------------------------------------------------------------------------------
# running cases
class Case:
    """a case = id + list of (KIND, [ints], bytes) events; KIND is a name; per-property tables map names<->numbers"""
    __slots__ = ('id', 'evs', 'tags')
    def __init__(self, cid, evs, tags=()):
        self.id = cid; self.evs = evs; self.tags = tuple(tags)

def fmt_line(kind, ints, data):
    s = str(kind)
    if ints: s += ' ' + ' '.join(str(i) for i in ints)
    s += ' :'
    if data: s += ' ' + bytes(data).hex()
    return s

def parse_line(line):
    if ':' in line:
        a, b = line.split(':', 1)
        data = bytes.fromhex(b.strip()) if b.strip() else b''
    else:
        a, data = line, b''
    t = a.split()
    if not t: return None
    ints = []
    for x in t[1:]:
        try: ints.append(int(x))
        except ValueError: ints.append(x)
    return (t[0], ints, data)

def render_cases(cases, kindmap=None):
    out = []
    for c in cases:
        out.append('#CASE %s' % c.id)
        for (k, ints, data) in c.evs:
            out.append(fmt_line(kindmap[k] if kindmap else k, ints, data))
        out.append('#END')
    return '\n'.join(out) + '\n'

def parse_outputs(text, kindmap=None):
    """returns {id: (status, [ (kind, ints, data) ])}"""
    res = {}; cur = None; lines = None; status = None
    for line in text.splitlines():
        if line.startswith('#CASE'):
            cur = line[5:].strip(); lines = []; status = 'missing'
        elif line.startswith('#STATUS'):
            status = line[7:].strip()
        elif line == '#END':
            if cur is not None: res[cur] = (status, lines)
            cur = None
        elif line.startswith('#EXN'):
            if lines is not None: lines.append(('EXN', [], line.encode()))
        elif cur is not None:
            p = parse_line(line)
            if p is None: continue
            if kindmap is not None:
                try: p = (kindmap[int(p[0])], p[1], p[2])
                except (ValueError, KeyError): pass
            lines.append(p)
    return res

def run_batch(exe, cases, in_kindmap=None, out_kindmap=None, timeout=900, shards=NCPU, env=None):
    """runs cases through a driver in parallel shards"""
    if not cases: return {}
    shards = max(1, min(shards, len(cases)))
    parts = [cases[i::shards] for i in range(shards)]
    def one(part):
        e = dict(os.environ); sym = '1' if os.environ.get('VERIF_SYMBOLIZE') == '1' else '0'   # the symbolizer costs seconds per crash
        e['ASAN_OPTIONS'] = 'detect_leaks=0:abort_on_error=0:exitcode=99:detect_stack_use_after_return=1:symbolize=' + sym
        e['UBSAN_OPTIONS'] = 'print_stacktrace=%s:halt_on_error=1:exitcode=98:symbolize=%s' % (sym, sym)
        if env: e.update(env)
        rc, out, err = sh([exe], inp=render_cases(part, in_kindmap), timeout=timeout, env=e)
        return parse_outputs(out, out_kindmap), err
    res = {}; errs = []
    with ThreadPoolExecutor(shards) as ex:
        for r, err in ex.map(one, parts):
            res.update(r); errs.append(err)
    return res, '\n'.join(errs)

# ------------------------------------------------------------------------------------------
# shrinking (delta debugging on the event list)
def ddmin(evs, fails, budget=400):
    n = 2; calls = 0
    while len(evs) >= 2 and calls < budget:
        chunk = max(1, len(evs) // n); reduced = False
        for i in range(0, len(evs), chunk):
            cand = evs[:i] + evs[i + chunk:]
            calls += 1
            if cand and fails(cand):
                evs = cand; n = max(n - 1, 2); reduced = True; break
            if calls >= budget: break
        if not reduced:
            if chunk == 1: break
            n = min(n * 2, len(evs))
    return evs

# ------------------------------------------------------------------------------------------
# findings / evidence / replay
def load_findings():
    """known_findings.txt: lines 'finding: property=Cxx key=<key> <text>' and 'fixed: property=Cxx <commit> <text>'"""
    res = {}
    p = os.path.join(VERIF, 'known_findings.txt')
    if os.path.exists(p):
        for line in open(p):
            line = line.strip()
            m = re.match(r'finding:\s+property=(C\d+)\s+key=(\S+)\s*(.*)', line)
            if m: res.setdefault(m.group(1), []).append((m.group(2), m.group(3)))
    return res

def write_replay(pid, name, text):
    d = os.path.join(VERIF, 'replays', pid); os.makedirs(d, exist_ok=True)
    p = os.path.join(d, name)
    open(p, 'w').write(text)
    return p

def write_evidence(pid, tier, seed, coverage, wall, violations, assumptions):
    edir = os.environ.get('VERIF_EVIDENCE_DIR') or os.path.join(VERIF, 'evidence')   # seeded-change runs write elsewhere
    os.makedirs(edir, exist_ok=True)
    ev = dict(property_id=pid, tier=tier, seed=seed, level='proof', coverage=coverage, wall_s=round(wall, 2),
              violations=violations, assumptions=assumptions)
    json.dump(ev, open(os.path.join(edir, pid + '.json'), 'w'), indent=1)

def count_theorems(prop_file):
    txt = open(os.path.join(VERIF, 'coq', prop_file + '.v')).read()
    return re.findall(r'(?m)^\s*(?:Theorem|Lemma|Corollary|Example)\s+([A-Za-z0-9_\']+)', txt)

TRUSTED_BASE_COMMON = [
    'Coq 8.16.1 kernel (coqc, vm_compute used; no native_compute)',
    'translator gen/gen.py (C probes compiled with host gcc under the device configuration)',
    'extraction: ExtrOcamlBasic only, no Extract Constant/Inductive of our own; ocaml/driver.ml glue',
    'correspondence harness: SDK doubles in harness/doubles, host clang -O1 ASan+UBSan build of /repo sources, 64-bit host vs 32-bit target',
]


# ------------------------------------------------------------------------------------------
# thorough tier: cross-check of the extraction itself — the same cases evaluated by vm_compute inside Coq
def vm_crosscheck(chk, cases, mres, limit=150, max_bytes=3000, total_bytes=60000):
    """returns (n_checked, error or None)"""
    inv_out = {v: k for k, v in chk.OUT.items()}
    sel = []; tot = 0
    for c in cases:
        if sum(len(e[2]) for e in c.evs) > max_bytes or len(c.evs) > 200: continue
        if c.id not in mres or mres[c.id][0] != 'ok': continue
        if any(o[0] == 'EXN' or o[0] not in inv_out for o in mres[c.id][1]): continue
        if any(not all(isinstance(i, int) for i in e[1]) for e in c.evs): continue
        sz = sum(len(e[2]) for e in c.evs) + sum(len(o[2]) for o in mres[c.id][1])
        if tot + sz > total_bytes: continue      # keep the in-Coq evaluation small (a sample, not the whole run)
        tot += sz
        sel.append(c)
        if len(sel) >= limit: break
    if not sel: return 0, None
    def z(i): return '(%d)' % i if i < 0 else str(i)
    def wl(k, ints, data): return '(%s, [%s], [%s])' % (z(k), '; '.join(z(i) for i in ints), '; '.join(str(b) for b in data))
    ins = '; '.join('[' + '; '.join(wl(chk.IN[e[0]], e[1], e[2]) for e in c.evs) + ']' for c in sel)
    outs = '; '.join('[' + '; '.join(wl(inv_out[o[0]], o[1], o[2]) for o in mres[c.id][1]) + ']' for c in sel)
    d = os.path.join(CACHE, 'vmc', chk.pid); os.makedirs(d, exist_ok=True)
    v = os.path.join(d, 'cases.v')
    # the module that defines main_wire is the one the property's Extract.v imports (C05 reuses C04's model)
    ext = open(os.path.join(VERIF, 'coq', chk.pid, 'Extract.v')).read()
    mods = re.findall(r'From V Require Import ([^.]*(?:\.[A-Za-z0-9_]+)*)\.', ext)
    modline = ' '.join(mods) if mods else '%s.Model' % chk.pid
    open(v, 'w').write('From Coq Require Import List ZArith.\nImport ListNotations.\nFrom V Require Import Base.Iface %s.\nLocal Open Scope Z_scope.\n'
                       'Definition cases : list (list wire) := [%s].\nDefinition expected : list (list wire) := [%s].\n'
                       'Goal map main_wire cases = expected. Proof. vm_compute. reflexivity. Qed.\n' % (modline, ins, outs))
    rc, out, err = sh(['coqc', '-Q', os.path.join(VERIF, 'coq'), 'V', v], cwd=d, timeout=900)
    if rc == 124: return 0, None     # evaluation inside Coq did not finish in time: no verdict (recorded as 0 cases cross-checked)
    if rc != 0: return len(sel), 'vm_compute of the model disagrees with the extracted OCaml model (or failed): ' + (out + err)[-600:]
    return len(sel), None

# ------------------------------------------------------------------------------------------
# generic check runner
class PropCheck:
    pid = None; gen_groups = []; prop_file = None
    IN = {}; OUT = {}
    trusted_extra = []; assumptions = []
    quick_cases = 3000; thorough_cases = 100000
    def build_impl(self): raise NotImplementedError
    def gen_cases(self, rng, n, tier): raise NotImplementedError
    def corpus_cases(self): return load_corpus(self.pid)
    def monitor(self, case, status, outs): return []          # list of strings (property violated on the implementation)
    def compare(self, case, mo, io):                           # None or description of the first difference
        (ms, ml), (is_, il) = mo, io
        if is_ != 'ok': return None   # crashes are the monitor's business
        if ml != il:
            for i in range(max(len(ml), len(il))):
                a = ml[i] if i < len(ml) else None; b = il[i] if i < len(il) else None
                if a != b: return 'output %d: model=%s impl=%s' % (i, short(a), short(b))
        return None
    def finding_key(self, case, what): return None             # key of a known-finding class this failure belongs to
    def nontrivial(self, case, io): return len(io[1]) > 0
    def sample(self, case, io): return dict(id=case.id, events=[fmt_line(*e)[:120] for e in case.evs[:12]], outputs=[fmt_line(*o)[:120] for o in io[1][:8]])
    def extra_quick(self, ctx): pass                            # hook for property-specific exhaustive enumerations etc.

def short(x):
    if x is None: return 'none'
    k, ints, data = x
    h = bytes(data).hex()
    return '%s %s :%s' % (k, ' '.join(map(str, ints)), (h[:40] + '…(%dB)' % len(data)) if len(h) > 40 else h)

def load_corpus(pid):
    cases = []
    d = os.path.join(VERIF, 'corpus', pid)
    for p in sorted(glob.glob(os.path.join(d, '*.txt'))):
        evs = []
        for line in open(p):
            line = line.rstrip('\n')
            if not line or line.startswith('#'): continue
            e = parse_line(line)
            if e: evs.append((e[0], e[1], e[2]))
        cases.append(Case('corpus/' + os.path.basename(p)[:-4], evs, ('corpus',)))
    return cases

def case_text(case):
    return '\n'.join(fmt_line(*e) for e in case.evs) + '\n'

def run_check(chk, argv):
    import argparse
    ap = argparse.ArgumentParser()
    ap.add_argument('--tier', default=os.environ.get('VERIF_TIER', 'quick'))
    ap.add_argument('--replay', default=None)
    ap.add_argument('--cases', type=int, default=None)
    a = ap.parse_args(argv)
    tier = a.tier if a.tier in ('quick', 'thorough') else 'quick'
    seed = int(os.environ.get('VERIF_SEED', '1'))
    t0 = time.time()
    pid = chk.pid
    os.makedirs(CACHE, exist_ok=True)
    problems = []      # broken obligations / correspondences (names)
    notes = []
    # 1. translator
    gerrs = run_gen(chk.gen_groups)
    for e in gerrs: problems.append('translator: ' + e.splitlines()[0]); notes.append(e)
    # 2. proofs
    cq = coq_build(chk.prop_file, timeout=3000 if tier == 'thorough' else 1500)
    thms = count_theorems(chk.prop_file)
    gate = grep_gate(chk.prop_file)
    axbad = axiom_gate(cq['theorems'])
    discharged = len([t for t in thms]) if (cq['ok'] and not gate and not axbad) else 0
    if not cq['ok']:
        problems.append('proof: %s.vo does not build (%s)' % (chk.prop_file, '; '.join(cq.get('errors', [])[:3]) or 'see log'))
        notes.append(cq['log'][-4000:])
    for g in gate: problems.append('gate: ' + g)
    for g in axbad: problems.append('axiom: ' + g)
    if tier == 'thorough' and cq['ok'] and os.environ.get('VERIF_COQCHK', '1') == '1':
        rc, out, err = sh(['coqchk', '-silent', '-o', '-Q', os.path.join(VERIF, 'coq'), 'V', 'V.' + chk.prop_file], timeout=3000)
        notes.append('coqchk rc=%d\n%s' % (rc, (out + err)[-1500:]))
        if rc != 0: problems.append('coqchk: V.%s rejected' % chk.prop_file)
    # 3. drivers
    mexe, mlog = extract_model(pid)
    if mexe is None: problems.append('model: extraction/build failed'); notes.append(mlog)
    iexe, ilog = chk.build_impl()
    if iexe is None:
        problems.append('impl: driver does not build from the working tree'); notes.append(ilog)
    # 4. cases
    rng = random.Random(seed * 1000003 + (7 if tier == 'thorough' else 0))
    if a.replay:
        os.environ['VERIF_SYMBOLIZE'] = '1'
        evs = []
        for line in open(a.replay):
            line = line.rstrip('\n')
            if not line or line.startswith('#'): continue
            e = parse_line(line)
            if e: evs.append(e)
        cases = [Case('replay', evs)]
    else:
        n = a.cases or (chk.thorough_cases if tier == 'thorough' else chk.quick_cases)
        cases = chk.corpus_cases() + chk.gen_cases(rng, n, tier)
    disagreements = []; alarms = []; hist = {}; nontriv = set(); samples = []; evaluations = 0
    ctx = dict(tier=tier, seed=seed, rng=rng, mexe=mexe, iexe=iexe, alarms=alarms, disagreements=disagreements, notes=notes, problems=problems, extra={})
    if iexe is not None:
        ires, ierr = run_batch(iexe, cases)
        mres = {}
        if mexe is not None:
            mres, merr = run_batch(mexe, cases, chk.IN, chk.OUT)
        for c in cases:
            io = ires.get(c.id, ('missing', []))
            evaluations += 1
            for t in c.tags: hist[t] = hist.get(t, 0) + 1
            if chk.nontrivial(c, io):
                nontriv.add(hashlib.sha256(case_text(c).encode()).hexdigest())
                if len(samples) < 3: samples.append(chk.sample(c, io))
            for v in chk.monitor(c, io[0], io[1]):
                alarms.append((c, v))
            if mexe is not None:
                mo = mres.get(c.id, ('missing', []))
                d = chk.compare(c, mo, io)
                if d: disagreements.append((c, d))
        chk.extra_quick(ctx)
        if tier == 'thorough' and mexe is not None and not a.replay:
            nvm, verr = vm_crosscheck(chk, cases, mres)
            ctx['extra']['extraction_crosschecked_by_vm_compute'] = nvm
            if verr: problems.append('extraction: ' + verr)
        if a.replay:
            c = cases[0]
            print('--- implementation'); [print('  ' + fmt_line(*o)[:200]) for o in ires.get('replay', ('', []))[1]]
            print('  status', ires.get('replay', ('missing',))[0])
            if mexe: print('--- model'); [print('  ' + fmt_line(*o)[:200]) for o in mres.get('replay', ('', []))[1]]
    if disagreements:
        problems.append('correspondence: model and implementation differ on %d of %d cases (first: %s: %s)' %
                        (len(disagreements), evaluations, disagreements[0][0].id, disagreements[0][1]))
    # 5. search when something is broken but no alarm yet
    if problems and not alarms and iexe is not None and not a.replay:
        extra = chk.gen_cases(random.Random(seed + 99991), chk.thorough_cases // 4 if tier == 'thorough' else chk.quick_cases * 3, 'search')
        ires2, _ = run_batch(iexe, extra)
        for c in extra:
            io = ires2.get(c.id, ('missing', []))
            evaluations += 1
            for v in chk.monitor(c, io[0], io[1]): alarms.append((c, v))
    # 6. decide
    known = load_findings().get(pid, [])
    known_keys = {k for k, _ in known}
    violations = []; known_hit = {}
    def unknown_alarms(evs):
        r, _ = run_batch(iexe, [Case('s', evs)], shards=1)
        st, outs = r.get('s', ('missing', []))
        c0 = Case('s', evs)
        return [v for v in chk.monitor(c0, st, outs) if not (chk.finding_key(c0, v) is not None and chk.finding_key(c0, v) in known_keys)]
    def impl_fails(evs, want_key=None):
        # shrinking must preserve an alarm that is NOT a listed finding (otherwise a new violation could shrink into a known one)
        return bool(unknown_alarms(evs))
    seen_msgs = set()
    unknown = []
    for (c, v) in alarms:                      # classify every alarm first (cheap), so a new violation is never hidden behind known ones
        key = chk.finding_key(c, v)
        if key is not None and key in known_keys:
            known_hit.setdefault(key, (c, v)); continue
        unknown.append((c, v))
    for (c, v) in unknown[:400]:
        sig = re.sub(r'\d+', 'N', v)[:240]
        if sig in seen_msgs: continue
        seen_msgs.add(sig)
        if len(violations) >= 8: break
        evs = c.evs
        if len(violations) < 3:
            try: evs = ddmin(list(c.evs), impl_fails)
            except Exception as ex: notes.append('shrink failed: %r' % ex)
        c2 = Case(c.id, evs)
        # re-classify the minimised case
        vs = unknown_alarms(evs)
        if not vs:
            # the minimised case no longer shows an unlisted alarm (flaky shrink): fall back to the original case
            evs = c.evs; c2 = Case(c.id, evs); vs = unknown_alarms(evs)
            if not vs: vs = [v]
        v2 = vs[0]
        path = write_replay(pid, '%s_%s_%d.txt' % (tier, re.sub(r'[^A-Za-z0-9]+', '_', c.id), len(violations)),
                            '# property %s violated on the implementation: %s\n# case %s (minimised from %d to %d events)\n%s' %
                            (pid, v2, c.id, len(c.evs), len(evs), case_text(c2)))
        violations.append((path, v2, False))
    if problems and not violations and not known_hit:
        path = write_replay(pid, '%s_broken_%d.txt' % (tier, seed),
                            '# property %s is no longer shown to hold; no failing input was found.\n# what no longer checks:\n%s\n# details:\n%s\n' %
                            (pid, '\n'.join('#   ' + p for p in problems), '\n'.join('# ' + l for n_ in notes for l in n_.splitlines()[-40:])))
        violations.append((path, problems[0], True))
    elif problems and not violations and known_hit:
        # broken only because of a listed finding?  the proofs must still build
        hard = [p for p in problems if not p.startswith('correspondence')]
        unexplained = [d for d in disagreements if chk.finding_key(d[0], 'disagreement: ' + d[1]) not in known_keys]
        if hard or unexplained:
            path = write_replay(pid, '%s_broken_%d.txt' % (tier, seed),
                                '# property %s is no longer shown to hold; no failing input beyond the known findings was found.\n%s\n' %
                                (pid, '\n'.join('#   ' + p for p in (hard + ['correspondence: %s: %s' % (d[0].id, d[1]) for d in unexplained[:5]]))))
            violations.append((path, (hard + ['correspondence'])[0], True))
    for key, (c, v) in known_hit.items():
        txt = dict(known).get(key, '')
        print('KNOWN-FINDING: property=%s %s [%s]' % (pid, txt or key, v[:160]))
    for (path, v, nf) in violations:
        print('# %s' % v[:300])
        print('VIOLATION property=%s replay=%s%s' % (pid, path, ' no-failing-input-found' if nf else ''))
    wall = time.time() - t0
    cov = dict(obligations=len(thms), discharged=discharged,
               checker_cmd='bin/coqmake -k -j16 %s.vo  (coqc 8.16.1, full .vo build; Print Assumptions gate; grep gate)' % chk.prop_file,
               trusted_base=TRUSTED_BASE_COMMON + chk.trusted_extra,
               theorems={t: cq['theorems'].get(t, 'not-reached') for t in cq['theorems']},
               evaluations=evaluations, distinct_nontrivial=len(nontriv),
               rule=getattr(chk, 'rule', 'generated event sequences; non-trivial = the implementation produced at least one observable output; distinct by sha256 of the event text'),
               samples=samples, traces_validated_against_impl=evaluations, disagreements=len(disagreements),
               monitor_alarms=len(alarms), known_findings_hit=sorted(known_hit), input_distribution=hist,
               broken=problems)
    cov.update(ctx['extra'])
    write_evidence(pid, tier, seed, cov, wall, len(violations), chk.assumptions)
    print('%s %s: theorems %d/%d, cases %d (nontrivial %d), disagreements %d, alarms %d, known %d, %.1fs' %
          (pid, tier, discharged, len(thms), evaluations, len(nontriv), len(disagreements), len(alarms), len(known_hit), wall))
    return 1 if violations else 0
