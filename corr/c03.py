"""C03 — mis-sized or out-of-range server messages: generators, implementation-side monitor, check definition.

Cases (see harness/drv/c03.c):
  GATE  + SRV*            size-gate sweeps: real receive path and real srpc_getdata, no device handler
  CFG … + (SRV | ADV)*    whole device on a generated board (dev / devcfg binary chosen by the first CFG integer)
Model output per event: EV k, V call result has_data, MW table index (may-write set).
Implementation output per event: EV k, V …, CH table index (changed cells).  Comparison: V lines equal and CH subset of MW
(after ADV: changed output pins subset of the union of all MW so far)."""
import hashlib, os, stat, struct, sys
import framework as F

_C = {}
def consts():
    if not _C:
        _C.update(F.G.load('C03Consts'))
        t = F.G.load('SrpcTable')
        _C['rows'] = {r[0]: r for r in t['SRPC_ROWS']}
        _C['dispatch'] = {0: [r[0] for r in t['DISPATCH_DEV']], 1: [r[0] for r in t['DISPATCH_DEVCFG']]}
        _C['TRUE'] = t['SRPC_RESULT_TRUE']
        _C['rs_funcs'] = [r[0] for r in t['CONFIG_FUNCS'] if r[1] == 1]; _C['fb_funcs'] = [r[0] for r in t['CONFIG_FUNCS'] if r[1] == 2]
    return _C

# ---------------------------------------------------------------------------------------------
# independent size oracle (python reading of the generated rows; not the Coq model)
def size_ok(call, payload):
    """True / False, or None when the call id is not in the switch"""
    row = consts()['rows'].get(call)
    if row is None: return None
    L = len(payload)
    if row[1] == 0: return True
    if row[1] == 1:
        n = row[3]; return L in row[4:4 + n]
    alloc, sizeT, hdr, item, mx, zr, nf = row[2:9]
    if L < hdr: return False
    declared = 0
    for k in range(nf):
        off, w, sg = row[9 + 3 * k: 12 + 3 * k]
        declared += int.from_bytes(payload[off:off + w], 'little', signed=bool(sg))
    return 0 <= declared <= mx and L == hdr + declared * item

# ---------------------------------------------------------------------------------------------
# boards
class Board:
    def __init__(self, devcfg, fwupd, relays, rs, inputs, rsflags=0):
        self.devcfg, self.fwupd, self.relays, self.rs, self.inputs, self.rsflags = devcfg, fwupd, relays, rs, inputs, rsflags
    def ints(self):
        l = [self.devcfg, self.fwupd, len(self.relays)]
        for r in self.relays: l += list(r)
        l.append(len(self.rs))
        for r in self.rs: l += list(r)
        l.append(len(self.inputs))
        for i in self.inputs: l += list(i)
        l.append(self.rsflags)
        return l
    @staticmethod
    def from_ints(l):
        l = list(l); devcfg, fwupd, nr = l[0], l[1], l[2]; o = 3
        relays = [tuple(l[o + 4 * i: o + 4 * i + 4]) for i in range(nr)]; o += 4 * nr
        nrs = l[o]; o += 1
        rs = [tuple(l[o + 2 * i: o + 2 * i + 2]) for i in range(nrs)]; o += 2 * nrs
        nin = l[o]; o += 1
        inputs = [tuple(l[o + 6 * i: o + 6 * i + 6]) for i in range(nin)]; o += 6 * nin
        return Board(devcfg, fwupd, relays, rs, inputs, l[o] if o < len(l) else 0)
    # ---- ownership (independent python reading of "what belongs to channel c") ----
    def relay_channels_of_gpio(self, g):
        return {r[1] for r in self.relays if r[0] == g and r[0] != 255}
    def owners(self, t, i):
        """set of channels owning cell (t, i); empty = device-level / nobody's"""
        C = consts()
        rs_tables = (1, 3, 5, 6, 7, 8, 9, 10, 12, 13)
        if t in rs_tables:
            if 0 <= i < len(self.rs): return {self.relays[self.rs[i][0]][1], self.relays[self.rs[i][1]][1]}
            return set()
        if t in (4, 14):      # Time2 / Time2Left: staircase time of relay channel i, closing time of shutter i
            s = {r[1] for r in self.relays if r[1] == i}
            if 0 <= i < len(self.rs): s |= {self.relays[self.rs[i][0]][1]}
            return s
        if t in (15, 16, 17):
            return {i} if any(r[1] == i for r in self.relays) or any(x[4] == i for x in self.inputs) else set()
        if t == 2:
            if not (0 <= i < len(self.inputs)): return set()
            x = self.inputs[i]; s = set()
            if x[4] != 255: s.add(x[4])
            if x[3] != 255: s |= self.relay_channels_of_gpio(x[3])
            return s
        if t in (0, 11):
            return {self.relays[i][1]} if 0 <= i < len(self.relays) else set()
        if t == 18:
            return self.relay_channels_of_gpio(i)
        return set()

def make_board(rng, devcfg):
    kind = rng.random(); relays = []; rs = []; inputs = []
    pins = [0, 1, 2, 3, 4, 5, 12, 13, 14, 15]; rng.shuffle(pins)
    nrs = 0 if kind < 0.3 else rng.choice([1, 2, 3, 4, 4])
    for i in range(nrs):
        relays += [(pins.pop(), i, 0, 0), (pins.pop(), i, 0, 0)]
        rs.append((2 * i, 2 * i + 1))
    C = consts()
    nplain = rng.randrange(0 if nrs else 1, min(8 - len(relays), len(pins)) + 1)
    # channel numbers of plain relays: consecutive, or sparse/high (the per-channel arrays have 8 entries)
    sparse = rng.random() < 0.3
    plain_ch = sorted(rng.sample([7, 8, 9, 15, 16, 31, 100, 200, 254], nplain)) if sparse else [nrs + k for k in range(nplain)]
    for k in range(nplain):
        flags = rng.choice([0, 0, 1, 2, 4, 0x10]); chflags = rng.choice([0, 0, C['FLAG_COUNTDOWN'], C['FLAG_RUNTIME_CONFIG'], C['FLAG_COUNTDOWN'] | C['FLAG_RUNTIME_CONFIG']])
        relays.append((pins.pop(), plain_ch[k], flags, chflags))
    in_pins = [6, 7, 8, 9, 10, 11] + pins     # pins left over by the relays
    # inputs: the button pair of shutter i sits at 2i, 2i+1 (firmware convention); then buttons of plain relays / action triggers
    nin_max = 7
    for i in range(nrs):
        for j in (0, 1):
            if len(inputs) < nin_max: inputs.append((in_pins[len(inputs) % len(in_pins)], 1, 0, relays[2 * i + j][0], 255, 0))
    nextch = (max(plain_ch) + 1 if plain_ch else nrs) if not sparse else 6
    for k in range(nplain):
        if len(inputs) >= nin_max or rng.random() < 0.3: break
        if rng.random() < 0.3 and nextch < 8 and nextch not in plain_ch and nextch >= nrs and nrs + nplain + sum(1 for x in inputs if x[4] != 255) < 8:   # at most 8 channels (registration indexes supla_rs_cfg by channel position)
            inputs.append((in_pins[len(inputs) % len(in_pins)], rng.choice([1, 1, 2]), 0, relays[2 * nrs + k][0], nextch, rng.choice([0x3FF, 0x3FF, 0, 0x3, 0x2A0, 0x1, 0xFFFFFFFF]))); nextch += 1
        else:
            inputs.append((in_pins[len(inputs) % len(in_pins)], 1, 0, relays[2 * nrs + k][0], 255, 0))
    return Board(devcfg, 0, relays, rs, inputs, rng.choice([0, 0, C['FLAG_RUNTIME_CONFIG']]))

# ---------------------------------------------------------------------------------------------
# messages
def m_newvalue(sender, ch, dur, val): return struct.pack('<iBI', sender, ch & 255, dur & 0xFFFFFFFF) + bytes(val)[:8].ljust(8, b'\0')
def m_group(sender, group, ch, dur, val):
    C = consts(); p = bytearray(C['GV_SIZE']); struct.pack_into('<ii', p, 0, sender, group)
    p[C['GV_CHANNEL']] = ch & 255; struct.pack_into('<I', p, C['GV_DURATION'], dur & 0xFFFFFFFF)
    p[C['GV_VALUE']:C['GV_VALUE'] + 8] = bytes(val)[:8].ljust(8, b'\0'); return bytes(p)
def m_calcfg(sender, ch, cmd, su, dtype, data, dsize=None):
    return struct.pack('<iiibiI', sender, ch, cmd, su, dtype, (len(data) if dsize is None else dsize) & 0xFFFFFFFF) + data
def m_config(ch, func, ctype, cfg, csize=None):
    return bytes([ch & 255]) + struct.pack('<i', func) + bytes([ctype & 255]) + struct.pack('<H', (len(cfg) if csize is None else csize) & 0xFFFF) + cfg
def c_rs(ct, ot, mud, bud, tm, vis=0): return struct.pack('<iiBBbB', ct, ot, mud & 255, bud & 255, tm, vis & 255) + bytes(32)
def c_fb(ct, ot, tt, mud, bud, tm, ttype, vis=0): return struct.pack('<iiiBBbHHBB', ct, ot, tt, mud & 255, bud & 255, tm, 0, 180, ttype & 255, vis & 255) + bytes(32)

CALL_NAMES = {110: 'channel set-value', 115: 'channel-group set-value', 460: 'calcfg request', 690: 'channel config (get result)',
              682: 'channel config (set)', 683: 'channel config finished', 70: 'register result', 310: 'firmware url result'}
RS_FUNCS = [110, 115, 910, 920, 930, 950]; FB_FUNCS = [900, 940]; RELAY_FUNCS = [130, 140, 300]
STOPPER = 'stopper'

def named_channel(call, p):
    C = consts()
    try:
        if call == C['CALL_SET_VALUE']: return p[C['NV_CHANNEL']]
        if call == C['CALL_GROUP_SET_VALUE']: return p[C['GV_CHANNEL']]
        if call == C['CALL_CALCFG']: return struct.unpack_from('<i', p, C['CAL_CHANNEL'])[0]
        if call in (C['CALL_GET_CONFIG_RESULT'], C['CALL_SET_CONFIG']): return p[C['CC_CHANNEL']]
        if call == C['CALL_CONFIG_FINISHED']: return p[C['FIN_CHANNEL']]
    except (IndexError, struct.error):
        return None
    return None

def is_uaf_message(call, p, board):
    """the two messages of the known use-after-free class: the handler stops devconn (srpc_free) inside srpc_iterate"""
    C = consts()
    if size_ok(call, p) is not True: return False
    if call == C['CALL_CALCFG']:
        cmd = struct.unpack_from('<i', p, C['CAL_COMMAND'])[0]
        return cmd == C['CMD_ENTER_CFG_MODE'] and p[C['CAL_SUPERUSER']] == 1
    if call == C['CALL_FW_URL_RESULT'] and board is not None and board.fwupd and len(p) > 1:
        return p[0] != 0 and (p[1] & 1) != 0
    return False

class C03(F.PropCheck):
    pid = 'C03'; gen_groups = ['SrpcTable', 'C03Consts']; prop_file = 'Properties_C03'
    IN = {'CFG': 0, 'GATE': 1, 'SRV': 2, 'ADV': 3, 'SKEW': 4}
    OUT = {0: 'EV', 1: 'V', 2: 'MW', 3: 'AT'}
    quick_cases = 900; thorough_cases = 12000
    trusted_extra = ['C03 driver harness/drv/c03.c: -Wl,--wrap=srpc_getdata observer, table snapshots by memcmp, router script choosing the dev/devcfg binary',
                     'gen/grp_c03.py: patterns over `gcc -E` of srpc_getdata / supla_esp_on_remote_call_received (fails loudly on any unrecognised statement)',
                     'target size_t is 32 bits (TARGET_BITS); C03_gate_width_irrelevant shows the verdict is the same with 64',
                     'board callbacks as in the suite (supla_esp_board_calcfg_request returns false); RGBW/dimmer branches are not compiled']
    assumptions = ['wf_board: <=8 relays on pins 0..15, shutter in rs slot i is channel i and is made of two configured relays of that channel, '
                   'inputs 2i/2i+1 are the buttons of shutter i, slots sharing a pin share the channel',
                   'may-write sets over-approximate (immediate and timer-driven effects of one message); flash writes, timers and devconn scalars are not cells',
                   'payload bytes beyond data_size in srpc->sdp are whatever earlier packets left there (scratch is part of the model state)']
    rule = ('GATE: every call id of the switch and its neighbours x payload lengths (quick: 0..40 + rule boundaries; thorough: 0..600 exhaustive) x '
            'consistent / inconsistent / huge count fields; DEVICE: generated boards (relay-only, 1-4 shutters, action-trigger inputs) x dev/devcfg x '
            'set-value, group set-value, calcfg, channel-config (all functions, ButtonsUpsideDown/MotorUpsideDown 0..3, sizes), finished, '
            'result messages, mis-sized twins, countdown-timer scenarios (SKEW), a sweep of every shutter-like function x call id x channel 0..7 '
            'x ButtonsUpsideDown/MotorUpsideDown toggles on 4- and 2-shutter devcfg boards, channels existing/nonexistent/255/random, with time advances; '
            'non-trivial = a message was accepted or a cell changed; distinct by sha256 of the event text')

    # ---------------- build: two binaries + a router
    def build_impl(self):
        exes = {}
        for cfg in ('dev', 'devcfg'):
            exe, log = F.build_c('c03_' + cfg, os.path.join(F.VERIF, 'harness', 'drv', 'c03.c'), config=cfg,
                                 wrap=('srpc', 'proto'), exclude=('devconn',),
                                 extra_srcs=[os.path.join(F.VERIF, 'harness', 'wrap', 'c03_devconn_wrap.c')],
                                 libs=['-Wl,--wrap=srpc_getdata'],
                                 # out-of-range double->unsigned conversions (full_time *= 1.1 on a huge time) are not a memory error
                                 extra_flags=['-fno-sanitize=float-cast-overflow'])
            if exe is None: return None, log
            exes[cfg] = exe
        txt = ROUTER % (exes['dev'], exes['devcfg'])
        path = os.path.join(F.CACHE, 'bin', 'c03_router_%s.py' % hashlib.sha256(txt.encode()).hexdigest()[:16])
        if not os.path.exists(path):
            tmp = path + '.%d.tmp' % os.getpid(); open(tmp, 'w').write(txt)
            os.chmod(tmp, os.stat(tmp).st_mode | stat.S_IXUSR | stat.S_IXGRP | stat.S_IXOTH); os.replace(tmp, path)
        return path, ''

    # ---------------- generators
    def payload_for(self, rng, call, L, mode):
        """L bytes; for variable rules the count field is made consistent (mode 0), random (1) or huge (2)"""
        p = bytearray(rng.getrandbits(8) for _ in range(L))
        row = consts()['rows'].get(call)
        if row is not None and row[1] == 2:
            alloc, sizeT, hdr, item, mx, zr, nf = row[2:9]
            off, w = row[9], row[10]
            if mode == 0: v = max(0, (L - hdr)) // item
            elif mode == 1: v = rng.choice([0, 1, mx, mx + 1, rng.randrange(0, 2 * mx + 2)])
            else: v = rng.choice([2 ** (8 * w) - 1, 2 ** (8 * w - 1), (2 ** 32 // item + (L - hdr) // item) if w == 4 else 2 ** (8 * w) - 2])
            if off + w <= L:
                p[off:off + w] = (v % (2 ** (8 * w))).to_bytes(w, 'little')
                for k in range(1, nf):
                    o2, w2 = row[9 + 3 * k], row[10 + 3 * k]
                    if o2 + w2 <= L: p[o2:o2 + w2] = bytes(w2)
        return bytes(p)

    def gate_cases(self, rng, tier):
        C = consts(); rows = C['rows']; ids = sorted(set(i + d for i in rows for d in (-1, 0, 1)) | {0, 1, 2 ** 31, 2 ** 32 - 1})
        msgs = []
        for call in ids:
            row = rows.get(call)
            if tier == 'thorough': lens = set(range(0, 601))
            else: lens = set(range(0, 41))
            if row is not None:
                if row[1] == 1:
                    for s in row[4:4 + row[3]]: lens |= {s - 1, s, s + 1}
                elif row[1] == 2:
                    alloc, sizeT, hdr, item, mx = row[2:7]
                    for k in (0, 1, 2, mx - 1, mx, mx + 1): lens |= {hdr + k * item - 1, hdr + k * item, hdr + k * item + 1}
                    lens |= {hdr - 1, sizeT, sizeT + 1}
            for L in sorted(l for l in lens if 0 <= l <= 1536):
                modes = (0, 1, 2) if (row is not None and row[1] == 2 and (tier == 'thorough' or L % 3 == 0 or L > 40)) else (0,)
                for m in modes: msgs.append((call, self.payload_for(rng, call, L, m)))
        rng.shuffle(msgs)      # stale scratch content differs from case to case
        cases = []; per = 150
        for k in range(0, len(msgs), per):
            evs = [('GATE', [], b'')] + [('SRV', [c, 1 + j], p) for j, (c, p) in enumerate(msgs[k:k + per])]
            cases.append(F.Case('g%s%d' % (tier[0], k // per), evs, ['gate']))
        return cases

    def gen_message(self, rng, b):
        """(call, payload, tags) aimed at board b"""
        C = consts()
        chans = sorted({r[1] for r in b.relays} | {x[4] for x in b.inputs if x[4] != 255})
        def channel():
            k = rng.random()
            if k < 0.55 and chans: return rng.choice(chans)
            if k < 0.8: return rng.randrange(0, 9)
            if k < 0.9: return rng.choice([255, 254, 128, 8, 7])
            return rng.randrange(256)
        dur = rng.choice([0, 0, 100, 1000, 0x7FFFFFFF, 0x80000000, 0xFFFFFFFF, rng.getrandbits(32), (200 << 16) | 100])
        val = bytes([rng.choice([0, 1, 2, 3, 4, 5, 10, 60, 110, 111, 255, 128, rng.getrandbits(8)]), rng.choice([0, 10, 60, 110, 255, rng.getrandbits(8)])]) + bytes(rng.getrandbits(8) for _ in range(6))
        k = rng.random()
        if k < 0.22: call, p, tag = C['CALL_SET_VALUE'], m_newvalue(rng.getrandbits(31), channel(), dur, val), 'set_value'
        elif k < 0.30: call, p, tag = C['CALL_GROUP_SET_VALUE'], m_group(5, rng.choice([9, channel(), channel() + 256 * rng.randrange(3), rng.getrandbits(31)]), channel(), dur, val), 'group_set_value'
        elif k < 0.45:
            ch = rng.choice([channel(), channel(), -1, 256 + (chans[0] if chans else 0), -2 ** 31, 2 ** 31 - 1])
            cmd = rng.choice([C['CMD_RECALIBRATE']] * 4 + [0, 1, C['CMD_ENTER_CFG_MODE'], rng.getrandbits(31)])
            su = rng.choice([1, 1, 0, 2, -1])
            if cmd == C['CMD_ENTER_CFG_MODE'] and su == 1: su = 0     # the authorised variant is generated as a stopper
            kind = rng.random()
            if kind < 0.4: dt, data = C['DATATYPE_RS_SETTINGS'], struct.pack('<ii', rng.choice([0, 1000, -1, 2 ** 31 - 1]), rng.choice([0, 2000, -5]))
            elif kind < 0.7: dt, data = 0, bytes(rng.getrandbits(8) for _ in range(rng.choice([0, 0, 4, 128])))
            else: dt, data = rng.choice([C['DATATYPE_RS_SETTINGS'], 1, rng.getrandbits(31)]), bytes(rng.getrandbits(8) for _ in range(rng.choice([0, 7, 8, 9, 128])))
            call, p, tag = C['CALL_CALCFG'], m_calcfg(3, ch, cmd, su, dt, data), 'calcfg'
        elif k < 0.75:
            ch = channel(); call = rng.choice([C['CALL_GET_CONFIG_RESULT'], C['CALL_GET_CONFIG_RESULT'], C['CALL_SET_CONFIG']])
            f = rng.random()
            t = lambda: rng.choice([0, 1000, 60000, -1, 2 ** 31 - 1])
            ud = lambda: rng.choice([0, 1, 2, 2, 3, 255])
            tm = lambda: rng.choice([-1, 0, 1, 50, 101, 102, -128, 127])
            if f < 0.4: func, cfg = rng.choice(C['rs_funcs']), c_rs(t(), t(), ud(), ud(), tm(), rng.getrandbits(8))
            elif f < 0.6: func, cfg = rng.choice(C['fb_funcs']), c_fb(t(), t(), t(), ud(), ud(), tm(), rng.choice([0, 1, 2, 3, 255]))
            elif f < 0.75: func, cfg = rng.choice(RELAY_FUNCS), struct.pack('<i', rng.choice([0, 500, 10000, -1]))
            elif f < 0.85: func, cfg = 700, struct.pack('<I', rng.choice([rng.getrandbits(32), 0xFFFFFFFF, 0, 1 << rng.randrange(32), 0x3FF, 0x1, 0x10]))
            else: func, cfg = rng.choice([0, -1, 1, 2 ** 31 - 1, rng.choice(C['rs_funcs'] + C['fb_funcs'])]), bytes(rng.getrandbits(8) for _ in range(rng.choice([0, 4, 43, 44, 45, 52, 53, 54, 512])))
            ctype = rng.choice([0, 0, 0, 0, 1, 255])
            if rng.random() < 0.12: cfg = cfg[:rng.randrange(0, len(cfg) + 1)]
            if rng.random() < 0.08: cfg = cfg + bytes(rng.randrange(1, 60))
            if func == 700 and rng.random() < 0.7:
                atc = [x[4] for x in b.inputs if x[4] != 255]
                if atc: ch = rng.choice(atc)
            p, tag = m_config(ch, func, ctype, cfg), 'channel_config'
        elif k < 0.80: call, p, tag = C['CALL_CONFIG_FINISHED'], bytes([channel()]), 'config_finished'
        elif k < 0.84: call, p, tag = C['CALL_SET_CONFIG_RESULT'], bytes([rng.getrandbits(8), 0, channel()]), 'set_config_result'
        elif k < 0.88: call, p, tag = C['CALL_CHANNEL_STATE'], struct.pack('<ii', 5, channel()), 'channel_state'
        elif k < 0.91: call, p, tag = C['CALL_ACTIVITY_TIMEOUT_RESULT'], bytes([rng.getrandbits(8), 10, 240]), 'activity_timeout_result'
        elif k < 0.94: call, p, tag = C['CALL_PING_RESULT'], bytes(16), 'ping_result'
        elif k < 0.96: call, p, tag = C['CALL_REGISTER_RESULT'], struct.pack('<iBBB', consts()['TRUE'] + 2, 120, 23, 1), 'register_result'   # SUPLA_RESULTCODE_TRUE = 3
        else:
            ids = sorted(consts()['rows']); call = rng.choice(ids) + rng.choice([-1, 0, 0, 1]); L = rng.choice([0, 1, 8, 17, 64, 300])
            row = consts()['rows'].get(call)
            if call in (C['CALL_REGISTER_RESULT'], C['CALL_VERSIONERROR'], C['CALL_FW_URL_RESULT'], 490): call = 1
            p, tag = self.payload_for(rng, call, L, rng.randrange(3)), 'other_call'
        tags = [tag]
        if rng.random() < 0.15:           # mis-sized twin
            p = p[:-1] if (rng.random() < 0.5 and p) else p + bytes([rng.getrandbits(8)]); tags.append('missized')
        return call, p, tags

    def device_case(self, rng, cid, tier):
        C = consts(); devcfg = rng.randrange(2)
        b = make_board(rng, devcfg); tags = {'device', 'devcfg' if devcfg else 'dev', 'rs%d' % len(b.rs)}
        stop = rng.random()
        if stop < 0.05: b.fwupd = 1
        evs = [('CFG', b.ints(), b'')]; rr = 10
        for _ in range(rng.randrange(4, 13)):
            call, p, t = self.gen_message(rng, b); tags |= set(t)
            evs.append(('SRV', [call, rr], p)); rr += 1
            if rng.random() < 0.45: evs.append(('ADV', [rng.choice([50000, 300000, 1200000, 3000000])], b''))
        # channel-config handshake (devcfg): empty configs (Func > 0, ConfigSize 0), arbitrary functions stored from the server,
        # CONFIG_FINISHED for every position incl. out of range -> supla_esp_set_channel_config() reads cfg tables by position
        if devcfg and rng.random() < 0.3:
            tags.add('config_handshake')
            chs = sorted({r[1] for r in b.relays})[:8]
            for ch in chs + [rng.choice([7, 8, 255])]:
                func = rng.choice(C['rs_funcs'] + C['fb_funcs'] + RELAY_FUNCS + [700, 1, 2 ** 31 - 1, -5])
                evs.append(('SRV', [C['CALL_GET_CONFIG_RESULT'], rr], m_config(ch, func, 0, b''))); rr += 1
            for ch in list(range(0, 9)) + [255]:
                evs.append(('SRV', [C['CALL_CONFIG_FINISHED'], rr], bytes([ch]))); rr += 1
            evs.append(('ADV', [500000], b''))
        # countdown timers: arm channel Y, let the clock run (with or without timer callbacks), then a timed command on
        # another channel X evaluates Y's slot inside the handler (refresh of Time2Left[Y], or Y's switch-back on expiry)
        plain = [r[1] for r in b.relays[2 * len(b.rs):]]
        if len(plain) >= 2 and rng.random() < 0.35:
            tags.add('timer_scenario')
            for _ in range(rng.randrange(1, 4)):
                y, x = rng.sample(plain, 2)
                evs.append(('SRV', [C['CALL_SET_VALUE'], rr], m_newvalue(7, y, rng.choice([40, 120, 500, 5000]), [rng.choice([1, 1, 0])]))); rr += 1
                if rng.random() < 0.4: evs.append(('ADV', [rng.choice([20000, 70000, 300000])], b''))
                if rng.random() < 0.7: evs.append(('SKEW', [rng.choice([10000, 60000, 200000, 600000, 6000000])], b''))
                for _k in range(rng.randrange(1, 3)):
                    if rng.random() < 0.5: evs.append(('SRV', [C['CALL_SET_VALUE'], rr], m_newvalue(8, x, rng.choice([300, 2000, 0]), [rng.choice([1, 1, 0])])))
                    else: evs.append(('SRV', [C['CALL_GROUP_SET_VALUE'], rr], m_group(5, rng.choice([9, y]), x, rng.choice([300, 2000]), [1])))
                    rr += 1
                    if rng.random() < 0.3: evs.append(('SKEW', [rng.choice([60000, 400000])], b''))
                if rng.random() < 0.6: evs.append(('ADV', [rng.choice([100000, 1200000, 3000000])], b''))
        # at most one message that takes the device off line, at the end
        if stop < 0.05:
            host = rng.choice([b'10.0.0.9'.ljust(101, b'\0'), b'A' * 101, b'update.example.org'.ljust(101, b'\0'), bytes(rng.randrange(1, 256) for _ in range(101))])
            path = rng.choice([b'/fw.bin'.ljust(101, b'\0'), b'/' + b'p' * 100, bytes(rng.randrange(1, 256) for _ in range(101))])
            url = bytes([1, rng.choice([1, 1, 3, 255])]) + host + struct.pack('<i', rng.choice([80, 0, -1, 65536, 2 ** 31 - 1])) + path
            evs.append(('SRV', [C['CALL_FW_URL_RESULT'], rr], url[:C['rows'][C['CALL_FW_URL_RESULT']][2]].ljust(C['rows'][C['CALL_FW_URL_RESULT']][2], b'\0'))); tags.add('stop:fw_url')
        elif stop < 0.10:
            evs.append(('SRV', [C['CALL_CALCFG'], rr], m_calcfg(1, -1, C['CMD_ENTER_CFG_MODE'], 1, 0, b''))); tags.add('stop:enter_cfgmode')
        elif stop < 0.13:
            evs.append(('SRV', [C['CALL_REGISTER_RESULT'], rr], struct.pack('<iBBB', rng.choice([5, 6, 9, 77, 1000000, -100000, 2 ** 31 - 1, -2 ** 31, rng.getrandbits(32) - 2 ** 31]), 0, 23, 1))); tags.add('stop:register_failed')
        elif stop < 0.15:
            evs.append(('SRV', [C['CALL_VERSIONERROR'], rr], bytes([1, 23]))); tags.add('stop:version_error')
        if len(evs) and evs[-1][0] == 'SRV' and stop < 0.15: evs.append(('ADV', [rng.choice([1500000, 4000000])], b''))
        return F.Case(cid, evs, sorted(tags))

    def config_sweep(self, rng, tier):
        """every shutter-like function of the dispatch switch (generated list) x both call ids x channels 0..7 on devcfg boards
        with 4 shutters / 2 shutters + 2 relays: ButtonsUpsideDown and MotorUpsideDown toggled against the stored values"""
        C = consts(); cases = []
        def board(nrs):
            pins = [0, 1, 2, 3, 4, 5, 12, 13]; relays = []; rs = []; inputs = []
            for i in range(nrs): relays += [(pins[2 * i], i, 0, 0), (pins[2 * i + 1], i, 0, 0)]; rs.append((2 * i, 2 * i + 1))
            for k in range(nrs, 4): relays.append((pins[2 * k], k, 0, 0))
            for j in range(7):
                rg = relays[j][0] if j < len(relays) else 255
                inputs.append((6 + j if j < 6 else 14, 1, 0, rg, 255, 0))
            return Board(1, 0, relays, rs, inputs)
        for nrs in (4, 2):
            b = board(nrs)
            for func in C['rs_funcs'] + C['fb_funcs']:
                mk = (lambda mud, bud: c_fb(1000, 1000, 300, mud, bud, rng.choice([0, 1, 20]), rng.choice([0, 1, 2]))) if func in C['fb_funcs'] \
                    else (lambda mud, bud: c_rs(1000, 1000, mud, bud, rng.choice([0, 1, 20])))
                for call in (C['CALL_GET_CONFIG_RESULT'], C['CALL_SET_CONFIG']):
                    for ch in range(8):
                        evs = [('CFG', b.ints(), b''), ('SRV', [call, 10], m_config(ch, func, 0, mk(2, 2))), ('ADV', [100000], b''),
                               ('SRV', [call, 11], m_config(ch, func, 0, mk(1, 1))), ('SRV', [call, 12], m_config(ch, func, 0, mk(1, 2)))]
                        cases.append(F.Case('s%s_%d_%d_%d_%d' % (tier[0], nrs, func, call, ch), evs, ['config_sweep', 'devcfg', 'device']))
        return cases

    def config_size_sweep(self, rng, tier):
        """roller-shutter / facade-blind configs with every ConfigSize 0..sizeof+2 (and a wrong config type), each after a complete
        config with non-zero times, so that applying a truncated structure (zeros / heap content) is visible as a change"""
        C = consts(); cases = []
        relays = [(0, 0, 0, 0), (1, 0, 0, 0), (2, 1, 0, 0), (3, 1, 0, 0), (4, 2, 0, 0)]
        b = Board(1, 0, relays, [(0, 1), (2, 3)], [(6, 1, 0, 0, 255, 0), (7, 1, 0, 1, 255, 0), (8, 1, 0, 2, 255, 0), (9, 1, 0, 3, 255, 0), (10, 1, 0, 4, 255, 0)])
        for func, full, need in ((C['rs_funcs'][0], c_rs(3000, 4000, 1, 1, 5, 7), C['RSC_SIZE']), (C['fb_funcs'][0], c_fb(3000, 4000, 700, 1, 1, 5, 2, 7), C['FBC_SIZE'])):
            for call in (C['CALL_GET_CONFIG_RESULT'], C['CALL_SET_CONFIG']):
                sizes = list(range(0, need + 3)); rr = 10
                for k in range(0, len(sizes), 10):
                    evs = [('CFG', b.ints(), b'')]
                    for n in sizes[k:k + 10]:
                        evs.append(('SRV', [call, rr], m_config(1, func, 0, full))); rr += 1
                        evs.append(('SRV', [call, rr], m_config(1, func, 0, (full + bytes([0x5a] * 4))[:n]))); rr += 1
                    evs.append(('SRV', [call, rr], m_config(1, func, 0, full))); rr += 1
                    evs.append(('SRV', [call, rr], m_config(1, func, 1, full[:8] + bytes(len(full) - 8)))); rr += 1
                    cases.append(F.Case('z%s_%d_%d_%d' % (tier[0], func, call, k), evs, ['config_size_sweep', 'devcfg', 'device']))
        return cases

    def at_sweep(self, rng, tier):
        """ACTIONTRIGGER configs whose ActiveActions exceed what the input offers, for channels with full / partial / no capability,
        for a relay channel and for a channel nobody has"""
        C = consts(); cases = []
        relays = [(4, 0, 0, 0), (5, 1, 0, 0), (12, 2, 0, 0)]
        for typ in (1, 2):
            inputs = [(6, typ, 0, 4, 3, 0x3FF), (7, typ, 0, 5, 4, 0x2A0), (8, typ, 0, 12, 5, 0), (9, typ, 0, 4, 255, 0)]
            b = Board(1, 0, relays, [], inputs)
            for call in (C['CALL_GET_CONFIG_RESULT'], C['CALL_SET_CONFIG']):
                evs = [('CFG', b.ints(), b'')]; rr = 10
                for ch in (3, 4, 5, 0, 6, 255):
                    for act in (0xFFFFFFFF, 0x1, 0x10, 0x400, 0x80000000, 0x3FF, 0):
                        evs.append(('SRV', [call, rr], m_config(ch, 700, 0, struct.pack('<I', act)))); rr += 1
                evs.append(('ADV', [300000], b''))
                cases.append(F.Case('a%s_%d_%d' % (tier[0], typ, call), evs, ['at_sweep', 'devcfg', 'device']))
        return cases

    def enum_sweep(self, rng, tier):
        """handlers that format or store a numeric field: REGISTER_DEVICE_RESULT result codes over the 32-bit domain (every defined
        code, k*256+3, +-10^k boundaries, INT_MAX/INT_MIN), activity-timeout results, channel-state requests, version errors"""
        C = consts(); cases = []
        b = Board(0, 0, [(4, 0, 0, 0), (5, 1, 0, 0)], [], [(12, 1, 0, 4, 255, 0)])
        codes = set(range(0, 40)) | {k * 256 + 3 for k in (1, 2, 255, 65536)} | {2 ** 31 - 1, -2 ** 31, -1, 255, 256, 65535}
        for k in range(1, 10): codes |= {10 ** k - 1, 10 ** k, -(10 ** k - 1), -(10 ** k)}
        for code in sorted(codes):
            for (at, ver, vmin) in ((120, 23, 1), (0, 255, 255)):
                evs = [('CFG', b.ints(), b''), ('SRV', [C['CALL_REGISTER_RESULT'], 10], struct.pack('<iBBB', code, at, ver, vmin)), ('ADV', [300000], b'')]
                cases.append(F.Case('e%s_reg_%d_%d' % (tier[0], code, at), evs, ['enum_sweep', 'device', 'dev']))
        misc = []
        for v in (0, 1, 9, 10, 120, 240, 241, 255): misc.append((C['CALL_ACTIVITY_TIMEOUT_RESULT'], bytes([v, 255 - v, v])))
        for ch in (0, 1, 7, 8, 255, 256, -1, 2 ** 31 - 1, -2 ** 31): misc.append((C['CALL_CHANNEL_STATE'], struct.pack('<ii', rng.choice([0, -1, 2 ** 31 - 1]), ch)))
        for k in range(0, len(misc), 6):
            evs = [('CFG', b.ints(), b'')] + [('SRV', [c, 10 + j], p) for j, (c, p) in enumerate(misc[k:k + 6])] + [('ADV', [300000], b'')]
            cases.append(F.Case('e%s_misc_%d' % (tier[0], k), evs, ['enum_sweep', 'device', 'dev']))
        for (a, v) in ((1, 23), (255, 0), (0, 255)):
            cases.append(F.Case('e%s_ver_%d' % (tier[0], a), [('CFG', b.ints(), b''), ('SRV', [C['CALL_VERSIONERROR'], 10], bytes([a, v])), ('ADV', [300000], b'')], ['enum_sweep', 'device', 'dev']))
        return cases

    def gen_cases(self, rng, n, tier):
        cases = self.config_sweep(rng, tier) + self.enum_sweep(rng, tier) + self.config_size_sweep(rng, tier) + self.at_sweep(rng, tier)
        if tier != 'search': cases += self.gate_cases(rng, tier)
        for i in range(n): cases.append(self.device_case(rng, '%s%d' % (tier[0], i), tier))
        return cases

    # ---------------- helpers on traces
    @staticmethod
    def split_events(outs):
        """[(k, [V tuples], set(cells), info)]; info: TM {ch: (remaining, target)}, TA {ch: remaining},
        T2L {i: (old, new)}, PIN {pin: level}, SR {slot: value}"""
        evs = []
        for (k, ints, data) in outs:
            if k == 'EV': evs.append([ints[0] if ints else -1, [], set(), dict(TM={}, TA={}, T2L={}, PIN={}, SR={}, AT={})])
            elif not evs: continue       # lines of the registration phase
            elif k == 'V': evs[-1][1].append(tuple(ints))
            elif k in ('CH', 'MW'): evs[-1][2].add((ints[0], ints[1]))
            elif k in ('TM', 'T2L'): evs[-1][3][k][ints[0]] = (ints[1], ints[2])
            elif k in ('TA', 'PIN', 'SR', 'AT'): evs[-1][3][k][ints[0]] = ints[1]
        return evs

    @staticmethod
    def case_board(case):
        for (k, ints, data) in case.evs:
            if k == 'CFG': return Board.from_ints([int(x) for x in ints])
        return None

    @staticmethod
    def case_events(case):
        return [(k, ints, data) for (k, ints, data) in case.evs if k in ('SRV', 'ADV', 'SKEW')]

    # ---------------- monitor (implementation trace vs. the property text; no Coq model involved)
    def monitor(self, case, status, outs):
        v = []; C = consts(); b = self.case_board(case); evs = self.case_events(case); tr = self.split_events(outs)
        if status != 'ok':
            k = len(tr) - 1
            what = ''
            if 0 <= k < len(evs) and evs[k][0] == 'SRV':
                call = int(evs[k][1][0]); p = evs[k][2]
                kind = 'its handler stops the connection and frees srpc inside srpc_iterate' if is_uaf_message(call, p, b) else CALL_NAMES.get(call, 'message')
                return ['memory-safety clause, %s: implementation crashed (%s) while handling event %d (call %d, %d payload bytes)' % (kind, status, k, call, len(p))]
            elif 0 <= k < len(evs):
                what = ' during the time advance of event %d' % k
            return ['memory-safety clause: implementation crashed (%s)%s' % (status, what)]
        named = set()
        for (k, vs, cells, info) in tr:
            if not (0 <= k < len(evs)): continue
            kind, ints, p = evs[k]
            if kind == 'SRV':
                call = int(ints[0]); ok = size_ok(call, p)
                for (vc, r, hd) in vs:
                    if vc == call and r == C['TRUE'] and ok is not True:
                        v.append('event %d: call %d with %d payload bytes %s but srpc_getdata accepted it' %
                                 (k, call, len(p), 'is not a known call' if ok is None else 'does not have the size its type requires'))
                if ok is not True and cells:
                    v.append('event %d: mis-sized/unknown call %d (%d bytes) had side effects on %s' % (k, call, len(p), sorted(cells)[:4]))
                if b is not None:
                    # action triggers: nothing an input does not offer ever becomes active
                    for i, act in sorted(info['AT'].items()):
                        if 0 <= i < len(b.inputs) and act & ~b.inputs[i][5] & 0xFFFFFFFF:
                            v.append('event %d: call %d: input %d (channel %d) has active triggers 0x%x outside its capabilities 0x%x' % (k, call, i, b.inputs[i][4], act, b.inputs[i][5]))
                    # a shutter config shorter than its structure (or of another config type) is not applied
                    if ok is True and call in (C['CALL_GET_CONFIG_RESULT'], C['CALL_SET_CONFIG']) and b.devcfg:
                        func = struct.unpack_from('<i', p, C['CC_FUNC'])[0]; csize = struct.unpack_from('<H', p, C['CC_SIZE'])[0]
                        need = C['RSC_SIZE'] if func in C['rs_funcs'] else (C['FBC_SIZE'] if func in C['fb_funcs'] else None)
                        if need is not None and (csize < need or p[C['CC_TYPE']] != 0):
                            bad = sorted(c_ for c_ in cells if c_[0] not in (15, 16))
                            if bad: v.append('event %d: call %d: shutter config of %d bytes (structure needs %d, type %d) was applied: cells %s changed' % (k, call, csize, need, p[C['CC_TYPE']], bad[:5]))
                if b is not None and ok is True and call in C['dispatch'][1 if b.devcfg else 0]:
                    c = named_channel(call, p)
                    has_obj = c is not None and any(r[1] == c and r[0] != 255 for r in b.relays)
                    if c is not None: named.add(c)
                    for (t, i) in sorted(cells):
                        own = b.owners(t, i)
                        excused = bool(own) and self.timer_maintenance(b, t, i, own, info)
                        if c is not None and own and c not in own and not excused:
                            v.append('event %d: call %d names channel %d but cell (table %d, index %d) of channel %s changed' % (k, call, c, t, i, sorted(own)))
                        elif c is not None and t == 18 and not has_obj and not excused:
                            v.append('event %d: call %d names channel %d, which no relay or shutter of the device carries, but output pin %d changed' % (k, call, c, i))
                        elif c is not None and (t, i) in ((19, 1), (19, 2)):
                            v.append('event %d: call %d names channel %d but device-level %s bytes outside the per-channel tables changed' % (k, call, c, 'configuration' if i == 1 else 'state'))
                        elif c is None and own and not excused:
                            v.append('event %d: call %d names no channel but cell (table %d, index %d) of channel %s changed' % (k, call, t, i, sorted(own)))
            elif kind == 'ADV' and b is not None:
                for (t, i) in sorted(cells):
                    own = b.owners(t, i)
                    if t == 18 and own and not (own & named):
                        v.append('event %d: output pin %d of channel %s changed although no message named that channel' % (k, i, sorted(own)))
        return v[:5]

    @staticmethod
    def timer_maintenance(b, t, i, own, info):
        """the change of cell (t, i), owned by channels `own` other than the named one, is the bookkeeping of a countdown
        timer that was running before the message: its remaining time did not grow, or it expired and the relay took
        exactly the stored target value"""
        running = info['TM']; after = info['TA']
        if t == 14:
            return i in running and i in info['T2L'] and info['T2L'][i][1] <= info['T2L'][i][0]
        if t in (11, 18):
            for y in own:
                if y not in running or y in after: continue          # only an expired timer switches its relay back
                target = 1 if running[y][1] else 0
                for a, r in enumerate(b.relays):
                    if r[1] != y: continue
                    if t == 18 and r[0] == i and info['PIN'].get(i) == (target ^ (1 if r[2] & 0x10 else 0)): return True
                    if t == 11 and a == i and info['SR'].get(i) == target: return True
            return False
        return False

    # ---------------- model / implementation comparison
    def compare(self, case, mo, io):
        (ms, ml), (is_, il) = mo, io
        if is_ != 'ok': return None
        mt = self.split_events(ml); it = self.split_events(il); evs = self.case_events(case); b = self.case_board(case)
        union = set(); offline = False
        for idx in range(len(evs)):
            if idx >= len(it):
                return None if offline else 'implementation produced %d of %d events' % (len(it), len(evs))
            if idx >= len(mt): return 'model produced %d of %d events' % (len(mt), len(evs))
            (k1, mv, mw, _i1), (k2, iv, ch, _i2) = mt[idx], it[idx]
            kind, ints, p = evs[idx]
            union |= mw
            if kind == 'SRV':
                if not iv and offline: continue      # the device is off line: the message was not delivered
                if mv != iv:
                    return 'event %d (call %s, %d bytes): verdict model=%s impl=%s' % (idx, ints[0], len(p), mv, iv)
                if _i2['AT'] != _i1['AT'] and iv:
                    return 'event %d (call %s): active triggers model=%s impl=%s' % (idx, ints[0], sorted(_i1['AT'].items()), sorted(_i2['AT'].items()))
                extra = ch - mw
                if extra: return 'event %d (call %s): changed cells %s are not in the may-write set %s' % (idx, ints[0], sorted(extra)[:6], sorted(mw)[:8])
                call = int(ints[0]); C = consts()
                if (size_ok(call, p) is True and call in (C['CALL_REGISTER_RESULT'], C['CALL_VERSIONERROR'], C['CALL_FW_URL_RESULT'])) or is_uaf_message(call, p, b):
                    offline = True       # the device disconnects after these: later messages are not delivered
            elif kind == 'ADV':
                extra = {c for c in ch if c[0] == 18} - union
                if extra: return 'event %d (time advance): output pins %s changed outside every may-write set so far' % (idx, sorted(extra))
        return None

    def nontrivial(self, case, io):
        C = consts()
        return any((k == 'V' and len(ints) > 1 and ints[1] == C['TRUE']) or k == 'CH' for (k, ints, d) in io[1])

    def sample(self, case, io):
        return dict(id=case.id, events=[F.fmt_line(*e)[:100] for e in case.evs[:6]], outputs=[F.fmt_line(*o)[:60] for o in io[1][:10]])

    def finding_key(self, case, what):
        """uaf-devconn-stop-inside-handler: the crash happens while handling exactly one of the two messages whose handler
        stops the connection (srpc_free) inside srpc_iterate: authorised CALCFG ENTER_CFG_MODE, firmware-URL result with an update."""
        import re
        m = re.search(r'crashed .* while handling event (\d+) ', what or '')
        if not m: return None
        evs = self.case_events(case); k = int(m.group(1))
        if 0 <= k < len(evs) and evs[k][0] == 'SRV' and is_uaf_message(int(evs[k][1][0]), evs[k][2], self.case_board(case)):
            return 'uaf-devconn-stop-inside-handler'
        return None

ROUTER = r'''#!/usr/bin/env python3
# routes every C03 case to the binary of its configuration (first integer of the CFG line; GATE cases -> dev)
import subprocess, sys
DEV, DEVCFG = %r, %r
blocks = {0: [], 1: []}; cur = [];
for line in sys.stdin:
    if line.startswith('#CASE'): cur = [line]
    elif line.startswith('#END'):
        cur.append(line); first = cur[1] if len(cur) > 2 else ''
        t = first.split()
        blocks[1 if (len(t) > 1 and t[0] == 'CFG' and t[1] == '1') else 0].append(''.join(cur)); cur = []
    else: cur.append(line)
procs = []
for k, exe in ((0, DEV), (1, DEVCFG)):
    if blocks[k]: procs.append((subprocess.Popen([exe], stdin=subprocess.PIPE, stdout=subprocess.PIPE, stderr=subprocess.PIPE, text=True, errors='replace'), ''.join(blocks[k])))
import threading
res = [None] * len(procs)
def run(i):
    p, inp = procs[i]; res[i] = p.communicate(inp)
ths = [threading.Thread(target=run, args=(i,)) for i in range(len(procs))]
[t.start() for t in ths]; [t.join() for t in ths]
for r in res:
    sys.stdout.write(r[0]); sys.stderr.write(r[1][-20000:])
'''

CHECK = C03()
