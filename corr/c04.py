"""C04 — connection automaton: generators, implementation-side monitor, check definition."""
import os, struct, sys
import framework as F

_C = None
def K():
    global _C
    if _C is None:
        _C = dict(F.G.load('ProtoConsts')); _C.update(F.G.load('C04Consts'))
    return _C

def frame(call, rr, payload, ver=None):
    c = K(); ver = c['DEVICE_PROTO_VERSION'] if ver is None else ver
    return bytes(c['TAG']) + bytes([ver]) + struct.pack('<III', rr & 0xFFFFFFFF, call & 0xFFFFFFFF, len(payload)) + payload + bytes(c['TAG'])
def reg_result(code, tmo=10, rr=1):
    return frame(K()['SRV_REGISTER_RESULT'], rr, struct.pack('<iBBB', code, tmo & 255, K()['DEVICE_PROTO_VERSION'], 1))
def ping_result(rr=1): return frame(K()['SRV_PING_RESULT'], rr, bytes(K()['SZ_PING_RESULT']))
def sat_result(tmo, rr=1, mn=5, mx=240): return frame(K()['SRV_SET_ACTIVITY_TIMEOUT_RESULT'], rr, bytes([tmo & 255, mn & 255, mx & 255]))
def chstate_req(rr=1): return frame(K()['SRV_GET_CHANNEL_STATE'], rr, bytes(K()['SZ_CHANNEL_STATE_REQUEST']))
def version_error(rr=1): return frame(K()['SRV_VERSIONERROR'], rr, bytes(K()['SZ_VERSIONERROR']))

def build_driver():
    return F.build_c('c04', os.path.join(F.VERIF, 'harness', 'drv', 'c04.c'), exclude=('supla_esp_wifi',),
                     extra_srcs=[os.path.join(F.VERIF, 'harness', 'wrap', 'c04_wifi_wrap.c')])

class C04(F.PropCheck):
    pid = 'C04'; gen_groups = ['ProtoConsts', 'C04Consts']; prop_file = 'Properties_C04'
    IN = {'CFG': 0, 'ADV': 1, 'WIFI': 2, 'CONNCB': 3, 'DISCCB': 4, 'RECV': 5, 'SENTMODE': 6, 'SENTRES': 7, 'LOCAL': 8, 'SERVER': 9}
    OUT = {0: 'WIFISTART', 1: 'CONNECT', 2: 'DISCONNECT', 3: 'FRESH', 4: 'WIRE', 5: 'JUNK', 6: 'RESTART', 7: 'STATE', 8: 'FUEL', 9: 'RX', 10: 'DISCD', 11: 'SRVRX'}
    quick_cases = 2000; thorough_cases = 50000
    trusted_extra = ['C04 driver harness/drv/c04.c + harness/wrap/c04_wifi_wrap.c: model of the SDK TCP client around the server connection '
                     '(connect_cb only for a pending espconn_connect, disconnect_cb only for a live/closing connection, data on a live one and -- a segment in flight at a device-initiated close -- on a closing one, followed at once by the disconnect callback; '
                     'espconn_sent answers the scripted "live" result on a live connection and the CFG "dead" result otherwise); '
                     'wifi_station_connect() sets the station status to CONNECTING until a WIFI event',
                     'gen/grp_c04.py: call-site list and guard classification by patterns over gcc -E output (lexical domination by '
                     'if(is_registered()), by `registered = 1` in the same case section, or by guarded callers only)',
                     'frame payload contents are not modelled (zeros of the measured size); register payload checked by the monitor only']
    assumptions = ['SDK callback discipline env_allows (Env_disconnect_before_connect)', 'server address is an IP literal (DNS not modelled)',
                   'e-mail configured (otherwise the device never registers)', 'not in configuration mode / firmware update',
                   'uptime polled at least once before the first wrap of the 32-bit microsecond counter',
                   'reading: direct replies to server requests (set-value result, channel-state result, calcfg result, config result) are not device-originated traffic']
    rule = ('histories of 1-4 sessions (wifi up, connect callback, register result ok / all defined refusal codes + aimed 32-bit values (k*256+3, k*65536+3, k*2^24+3, negatives, extremes) / silence / noise, local api calls, server '
            'messages incl. cut and split frames and garbage, session end by disconnect callback / stalled link / silence / wifi down / nothing) '
            'with random noise events (all event kinds) inserted with probability 0..1; dead-connection send result in {-12,-11,-5,-7,0}; '
            'lateness scripts; aged devices; non-trivial = at least one connect callback delivered; distinct by sha256 of the event text')
    def nontrivial(self, case, io): return any(o[0] == 'FRESH' for o in io[1])
    def build_impl(self): return build_driver()
    def compare(self, case, mo, io):
        # payload bytes of WIRE lines are not modelled (zeros of the right size in the model)
        strip = lambda l: [(k, ints, b'' if k == 'WIRE' else d) for (k, ints, d) in l]
        return F.PropCheck.compare(self, case, (mo[0], strip(mo[1])), (io[0], strip(io[1])))
    # ---------------- monitor: the property on the implementation trace (no model involved)
    def originated_ids(self):
        c = K()
        return {c[k] for k in ('CALL_VALUE_CHANGED', 'CALL_VALUE_CHANGED_B', 'CALL_VALUE_CHANGED_C', 'CALL_EXTVALUE_CHANGED', 'CALL_ACTION_TRIGGER',
                               'CALL_PING', 'CALL_SET_ACTIVITY_TIMEOUT', 'CALL_GET_CHANNEL_CONFIG', 'CALL_GET_FIRMWARE_URL',
                               'CALL_GET_USER_LOCALTIME', 'CALL_GET_CHANNEL_FUNCTIONS', 'CALL_SET_CHANNEL_CONFIG')}
    def register_ids(self):
        c = K(); return {c[k] for k in ('CALL_REGISTER', 'CALL_REGISTER_B', 'CALL_REGISTER_C', 'CALL_REGISTER_D', 'CALL_REGISTER_E', 'CALL_REGISTER_F')}
    def server_frames(self, chunks):
        """chunks: [(t, bytes)] delivered on one connection -> [(t_complete, call_id, payload)] for the well-formed prefix"""
        c = K(); TAG = bytes(c['TAG']); HDR = c['SDP_SIZE'] - c['MAX_DATA_SIZE']; res = []; buf = b''
        for (t, b) in chunks:
            buf += b
            while True:
                if len(buf) < HDR + len(TAG): break
                if buf[:len(TAG)] != TAG: return res
                ver = buf[c['OFF_VERSION']]; rr, call, ds = struct.unpack_from('<III', buf, c['OFF_RR_ID'])
                if ver > c['PROTO_VERSION'] or ver < c['PROTO_VERSION_MIN'] or ds > c['MAX_DATA_SIZE']: return res
                if len(buf) < HDR + ds + len(TAG): break
                if buf[HDR + ds:HDR + ds + len(TAG)] != TAG: return res
                res.append((t, call, buf[HDR:HDR + ds])); buf = buf[HDR + ds + len(TAG):]
        return res
    def check_register_payload(self, p, nch):
        c = K(); bad = []
        if len(p) != c['REG_BASE_SIZE'] + nch * c['REG_CHANNEL_SIZE']: return ['length %d' % len(p)]
        if p[c['REG_OFF_GUID']:c['REG_OFF_GUID'] + c['GUID_SIZE']] != bytes(0x10 + i for i in range(c['GUID_SIZE'])): bad.append('GUID')
        if p[c['REG_OFF_AUTHKEY']:c['REG_OFF_AUTHKEY'] + c['AUTHKEY_SIZE']] != bytes(0x40 + i for i in range(c['AUTHKEY_SIZE'])): bad.append('AuthKey')
        if not p[c['REG_OFF_EMAIL']:].startswith(b'user@example.org\0'): bad.append('e-mail')
        if not p[c['REG_OFF_SOFTVER']:].startswith(bytes(c['SOFTVER']) + b'\0'): bad.append('software version')
        if p[c['REG_OFF_CHANNEL_COUNT']] != nch: bad.append('channel count')
        for i in range(nch):
            if p[c['REG_OFF_CHANNELS'] + i * c['REG_CHANNEL_SIZE']] != i: bad.append('channel %d' % i); break
        return bad
    def monitor(self, case, status, outs):
        v = []
        if status != 'ok': return v        # crashes are not this property's business
        c = K(); ORIG = self.originated_ids(); REGS = self.register_ids()
        evs = case.evs
        nch = min(8, evs[0][1][2]) if evs and evs[0][0] == 'CFG' and len(evs[0][1]) > 2 else 0
        # which send results were in force at which event index (for the clauses that presuppose that sent bytes are not lost)
        dirty_from = None
        for i, (k, ints, _) in enumerate(evs):
            if (k == 'SENTMODE' and ints and ints[0] != 0) or (k == 'SENTRES' and any(x != 0 for x in ints)):
                dirty_from = i; break
        conns = {}        # n -> dict(t0, i0, frames, chunks, t_end, i_end)
        tlast = 0
        for (k, ints, data) in outs:
            if ints and k in ('FRESH', 'WIRE', 'RX', 'DISCD', 'CONNECT', 'DISCONNECT', 'RESTART', 'STATE', 'WIFISTART', 'JUNK'): tlast = max(tlast, ints[0])
            if k == 'FRESH':
                t, n, esp, rcv, reg, i = ints
                conns[n] = dict(t0=t, i0=i, frames=[], chunks=[], t_end=None, i_end=None, closed_by=None)
                if esp != 0 or rcv != 0:
                    v.append('connection %d starts with %d unsent and %d received bytes left over from the previous connection' % (n, esp, rcv))
                elif reg != 0:
                    v.append('connection %d starts with registered=%d' % (n, reg))
            elif k == 'WIRE' and ints[1] in conns and conns[ints[1]]['t_end'] is None:
                conns[ints[1]]['frames'].append((ints[0], ints[2], ints[3], bytes(data)))
            elif k == 'RX' and ints[1] in conns:
                i = ints[2]
                if 0 <= i < len(evs) and evs[i][0] == 'RECV':
                    if len(evs[i][2]) >= c['RECVBUFF_MAX'] - 1:
                        # a segment that fills the whole receive buffer (or is longer: recv_cb stores none of it): what the device's parser sees
                        # from here on depends on the buffer bound; the connection is not judged beyond this point
                        if conns[ints[1]]['t_end'] is None: conns[ints[1]]['t_end'] = ints[0]; conns[ints[1]]['closed_by'] = 'OPAQUE'
                    elif conns[ints[1]]['closed_by'] != 'OPAQUE': conns[ints[1]]['chunks'].append((ints[0], bytes(evs[i][2])))
            elif k in ('DISCD', 'DISCONNECT', 'CONNECT', 'RESTART'):
                for n, d in conns.items():
                    if d['t_end'] is None and (k != 'DISCD' or ints[1] == n):
                        d['t_end'] = ints[0]; d['closed_by'] = k; d['i_end'] = ints[2] if k == 'DISCD' else None
        for n, d in sorted(conns.items()):
            srv = self.server_frames(d['chunks'])
            t_ok = None; t_ref = None
            for (t, call, pay) in srv:
                if call == c['SRV_REGISTER_RESULT'] and len(pay) == c['SZ_REGISTER_RESULT']:
                    code = struct.unpack_from('<i', pay, c['OFF_RESULT_CODE'])[0]
                    if code == c['RESULTCODE_TRUE']:
                        if t_ok is None: t_ok = t
                    elif t_ref is None: t_ref = t
                elif call == c['SRV_VERSIONERROR'] and len(pay) == c['SZ_VERSIONERROR'] and t_ref is None: t_ref = t
            fr = d['frames']
            # quiet until accepted
            for (t, call, rr, pay) in fr:
                if call in ORIG and (t_ok is None or t < t_ok):
                    v.append('connection %d: device-originated call %d on the wire at %d us, before the server accepted the registration' % (n, call, t)); break
            # first frame / exactly one registration (only where no send result can have lost bytes)
            clean = dirty_from is None or (d['i_end'] is not None and d['i_end'] < dirty_from)
            if dirty_from is not None and d['i_end'] is None and d['i0'] > dirty_from:
                # connection opened after the last non-zero result was set: clean iff the mode is back to 0 and no script is pending
                mode = 0; script = False
                for i, (k, ints, _) in enumerate(evs[:d['i0']]):
                    if k == 'SENTMODE' and ints: mode = ints[0]
                    if k == 'SENTRES': script = any(x != 0 for x in ints)
                later = any((k == 'SENTMODE' and ints and ints[0] != 0) or (k == 'SENTRES' and any(x != 0 for x in ints)) for (k, ints, _) in evs[d['i0']:])
                clean = (mode == 0 and not script and not later)
            if clean and fr:
                if fr[0][1] not in REGS:
                    v.append('connection %d: first frame on the wire is call %d (rr %d), not the registration' % (n, fr[0][1], fr[0][2]))
                else:
                    bad = self.check_register_payload(fr[0][3], nch)
                    if bad: v.append('connection %d: registration request does not carry the configured %s' % (n, ', '.join(bad)))
                nreg = sum(1 for f in fr if f[1] in REGS)
                if nreg > 1: v.append('connection %d: %d registration requests' % (n, nreg))
            if clean and not fr:
                end = d['t_end'] if d['t_end'] is not None else tlast
                if end - d['t0'] >= 2000000 and not any(k == 'RESTART' for (k, _, _) in outs):
                    v.append('connection %d: no registration request within 2 s' % n)
            # refusal: the connection is closed
            if t_ref is not None and t_ok is None:
                end = d['t_end'] if d['t_end'] is not None else None
                if end is None and tlast - t_ref >= 10000000:
                    v.append('connection %d: still open 10 s after the server refused the registration' % n)
                # ... and the device stays stopped: no new Wi-Fi/TCP connect sequence until it restarts, except a delayed reconnect that a
                # disconnect callback BEFORE the stop had armed (2 s one-shot, __stop does not cancel it)
                if end is not None and d['closed_by'] == 'DISCONNECT' and t_ref <= end <= t_ref + 1000000:
                    D = c['RECONNECT_DELAY_MS'] * 1000; J = max((evs[0][1][4:] if evs and evs[0][0] == 'CFG' else []) or [0])
                    t_restart = min([ints[0] for (k, ints, _) in outs if k == 'RESTART'] or [tlast + 1])
                    for (k, ints, _) in outs:
                        if k in ('WIFISTART', 'CONNECT') and end < ints[0] < t_restart:
                            if not any(k2 == 'DISCD' and i2[0] <= end and ints[0] <= i2[0] + D + J for (k2, i2, _) in outs):
                                v.append('connection %d: the server refused the registration at %d us, the device stopped at %d us but started to connect again at %d us' % (n, t_ref, end, ints[0]))
                            break
        return v

    # ---------------- generators
    DEFINED = [0, 1, 2, 4, 5, 6, 7, 8, 9, 10, 11, 12, 13, 14, 15, 17, 18, 19, 20, 21, 22, 23, 24, 25, 26, 27, 28, 29, 30, 31, 32, 33, 34, 35,
               36, 37, 38, 39, 40, 41]
    def refusal_codes(self):
        """refusal codes over the whole domain of the 32-bit signed field: every defined code, codes congruent to TRUE (3) or to another
        defined code modulo 2^8 / 2^16 / 2^24 (a narrowed comparison would take them for success / for that code), negatives, extremes"""
        t = K()['RESULTCODE_TRUE']; c = list(self.DEFINED) + [99, -1, -2, -3, -253, -256 + t, 2**31 - 1, -2**31, 2**31 - 256 + t, -2**31 + t]
        for k in (1, 2, 3, 127, 128, 255): c += [k * 256 + t, k * 65536 + t, k * 256 + 5, k * 65536 + 8]
        for k in (1, 2, 127): c += [k * 2**24 + t, k * 2**24 + 14]
        c += [-(k * 256) + t for k in (1, 2, 255)] + [-(65536) + t, -(2**24) + t]
        return [x for x in c if x != t and -2**31 <= x < 2**31]
    @property
    def REFUSALS(self): return self.refusal_codes()
    def gen_msg(self, rng, rr):
        k = rng.random()
        if k < 0.22: return reg_result(3, rng.choice([10, 10, 10, 0, 3, 5, 6, 11, 20, 30, 50, 60, 120, 255]), rr), 'regok'
        if k < 0.40: return reg_result(rng.choice(self.REFUSALS), rng.choice([0, 10]), rr), 'regfail'
        if k < 0.55: return ping_result(rr), 'pingres'
        if k < 0.65: return sat_result(rng.choice([10, 5, 20, 30, 0, 60]), rr), 'satres'
        if k < 0.78: return chstate_req(rr), 'chstate'
        if k < 0.83: return version_error(rr), 'verr'
        if k < 0.90: return frame(rng.choice([9999, 65, 40, 100, 0]), rr, bytes(rng.randrange(0, 12))), 'unknown'
        if k < 0.95: return frame(K()['SRV_REGISTER_RESULT'], rr, bytes(rng.choice([0, 3, 6, 8, 11]))), 'missized'
        return bytes(rng.getrandbits(8) for _ in range(rng.randrange(1, 30))), 'garbage'
    def gen_recv(self, rng, tags, only=None):
        """one or two RECV events: whole message(s), a message cut in the middle, several messages in one segment"""
        nm = rng.choice([1, 1, 1, 1, 2, 3, 12]); b = b''
        for _ in range(nm):
            m, t = self.gen_msg(rng, rng.randrange(1, 1000)) if only is None else only(rng)
            b += m; tags.add('msg:' + t)
        k = rng.random()
        if only is None and rng.random() < 0.04:
            # one segment of exactly RECVBUFF_MAXSIZE (-1, +1) bytes into the empty receive buffer: whole ping results and the start of another
            n = K()['RECVBUFF_MAX'] + rng.choice([0, 0, -1, 1]); pr = ping_result(9); tags.add('recv:fill')
            return [('ADV', [1000000], b''), ('RECV', [], (pr * (n // len(pr) + 1))[:n])]
        if k < 0.12 and len(b) > 2:
            c = rng.randrange(1, len(b)); tags.add('recv:cut')          # first part only: the rest never arrives
            return [('RECV', [], b[:c])]
        if k < 0.25 and len(b) > 2:
            c = rng.randrange(1, len(b)); tags.add('recv:split')
            return [('RECV', [], b[:c]), ('ADV', [rng.choice([1000, 50000, 100000, 150000])], b''), ('RECV', [], b[c:])]
        return [('RECV', [], b)]
    def fill_plan(self, rng, target):
        """LOCAL api numbers whose frames (measured sizes, Gen ApiFrames) add up to target bytes; the nearest reachable sum below it otherwise"""
        sizes = {r[0]: r[3] for r in K()['ApiFrames'] if r[0] < 9}
        best = {0: []}
        for t in range(1, target + 1):
            opts = [a for a in sizes if t - sizes[a] in best]
            if opts: a = rng.choice(opts); best[t] = best[t - sizes[a]] + [a]
        t = max(x for x in best if x <= target); plan = best[t][:]; rng.shuffle(plan); return plan
    def adv(self, rng, lo=0):
        return ('ADV', [rng.choice([1000, 3000, 4999, 5000, 5001, 10000, 50000, 99000, 100000, 101000, 200000, 250000, 500000,
                                    1000000, 1500000, 2000000, 2100000, 3000000, 5000000]) + lo], b'')
    def noise(self, rng, tags):
        k = rng.random()
        if k < 0.30: return [self.adv(rng)]
        if k < 0.50: return [('LOCAL', [rng.randrange(0, 9), rng.randrange(0, 3), rng.randrange(0, 2)], b'')]
        if k < 0.60: return [('WIFI', [rng.choice([5, 5, 1, 0, 2, 3, 4])], b'')]
        if k < 0.68: return [('CONNCB', [], b'')]
        if k < 0.76: return [('DISCCB', [], b'')]
        if k < 0.90: return self.gen_recv(rng, tags)
        if k < 0.96:
            tags.add('sentmode'); return [('SENTMODE', [rng.choice([0, 0, -5, -7, -12, -11])], b'')]
        tags.add('sentres'); return [('SENTRES', [rng.choice([0, -5, -7, -12]) for _ in range(rng.randrange(1, 6))], b'')]
    def gen_case(self, rng, cid):
        tags = set(); evs = []
        lat = []
        if rng.random() < 0.2: lat = [rng.choice([0, 0, 1000, 5000, 20000, 50000]) for _ in range(rng.randrange(1, 5))]; tags.add('lateness')
        dead = rng.choice([-12, -12, -12, -11, -5, -7, 0]); tags.add('dead:%d' % dead)
        boot = rng.choice([0, 0, 1, rng.randrange(0, 2000000)]); cycles = 0
        aged = rng.random() < 0.1
        if aged:
            # "aged device": the 32-bit microsecond counter wraps X us into the case (X > 1 s so that uptime was polled before the
            # wrap, as on hardware); cycles ~ 1000 puts the uptime near 2^32 ms.  last_response is 0 at boot, so such a device must hear
            # from the server within the first second or the watchdog restarts it at once: the case starts with a fast registration.
            boot = 2**32 - rng.choice([1200000, 2000000, 3000000, 12000000, 30000000, 40000000]); cycles = rng.choice([0, 999, 1000, 1001]); tags.add('aged')
        evs.append(('CFG', [boot, dead, rng.randrange(0, 5), cycles] + lat, b''))
        p_noise = rng.choice([0.0, 0.05, 0.15, 0.4, 1.0])
        def emit(e):
            while rng.random() < p_noise * 0.5: evs.extend(self.noise(rng, tags))
            evs.extend(e)
        if aged:
            evs.extend([('WIFI', [5], b''), ('ADV', [200000], b''), ('CONNCB', [], b''), ('RECV', [], reg_result(3, rng.choice([10, 20, 30]), 1))])
        nsess = rng.choice([1, 2, 2, 3, 4])
        for sidx in range(nsess):
            # wifi comes up, the status poll notices, TCP connects
            # (after a reconnect the station status is CONNECTING until the environment reports GOT_IP; the 200 ms poll must see the change)
            emit([self.adv(rng, 200000 if sidx else 0)]); emit([('WIFI', [5], b'')]); emit([('ADV', [rng.choice([200000, 250000, 400000])], b'')])
            emit([('CONNCB', [], b'')])
            if rng.random() < 0.8: emit([('ADV', [rng.choice([50000, 100000, 150000, 300000, 700000])], b'')])
            # registration answer
            k = rng.random()
            if k < 0.55:
                tmo = rng.choice([10, 10, 10, 5, 6, 20, 30, 50, 0, 255]); emit([('RECV', [], reg_result(3, tmo, 1))]); tags.add('sess:accepted')
                for _ in range(rng.randrange(0, 12)):
                    j = rng.random()
                    if j < 0.35: emit([('LOCAL', [rng.randrange(0, 9), rng.randrange(0, 3), rng.randrange(0, 2)], b'')])
                    elif j < 0.65: emit([self.adv(rng)])
                    elif j < 0.85: emit(self.gen_recv(rng, tags, only=lambda r: r.choice([(ping_result(2), 'pingres'), (chstate_req(3), 'chstate'), (sat_result(r.choice([10, 20, 30]), 4), 'satres')])))
                    else: emit([('ADV', [rng.choice([5000000, 4000000, 3000000])], b'')])
            elif k < 0.58:
                # accepted with timeout 0 (no pings), the link stalls (INPROGRESS): frames are parked in the 500-byte send buffer; local calls whose
                # frame sizes add up to exactly SEND_BUFFER_SIZE (or 1 less / more), one more frame, then the link recovers
                tags.add('sess:sendbuf-fill'); evs.append(('RECV', [], reg_result(3, 0, 1))); evs.append(('ADV', [2000000], b''))
                evs.append(('SENTMODE', [-5], b''))
                for api in self.fill_plan(rng, K()['SEND_BUFFER_SZ'] + rng.choice([0, 0, 0, -1, 1])) + [rng.randrange(0, 9)]:
                    evs.append(('LOCAL', [api, 0, 1], b'')); evs.append(('ADV', [200000], b''))
                evs += [('SENTMODE', [0], b''), ('ADV', [300000], b''), ('LOCAL', [0, 0, 0], b''), ('ADV', [400000], b'')]
            elif k < 0.80:
                emit([('RECV', [], reg_result(rng.choice(self.REFUSALS), 0, 1))]); tags.add('sess:refused')
                emit([('ADV', [rng.choice([1000, 4000, 5000, 6000, 100000])], b'')])
                if rng.random() < 0.3: tags.add('inflight-after-stop'); evs.append(('RECV', [], rng.choice([reg_result(3, 10, 7), chstate_req(9)])))
            elif k < 0.90:
                tags.add('sess:silent')
                for _ in range(rng.randrange(1, 8)): emit([('LOCAL', [rng.randrange(0, 9), 0, 1], b''), self.adv(rng)])
            else:
                tags.add('sess:noise')
                for _ in range(rng.randrange(1, 8)): emit(self.noise(rng, tags))
            # how the session ends
            k = rng.random()
            if rng.random() < 0.12:
                # device-initiated close (activity-timeout reconnect after T+10 s of silence, or the stop 5 ms after a refusal) and a segment
                # that was already in flight: delivered while the connection is closing, then the close completes (RX + DISCD).  The bytes
                # must not survive into the next connection (a whole register result / request would be parsed there)
                tags.add('end:local-close-inflight')
                emit([('ADV', [rng.choice([5000000, 6000000, 7000000])], b'')] * rng.choice([4, 5, 7, 13]))
                stale = rng.choice([reg_result(3, 10, 7), reg_result(3, 10, 7), chstate_req(9), ping_result(5), sat_result(20, 6), reg_result(3, 10, 7)[:11]])
                evs.append(('RECV', [], stale))
                if rng.random() < 0.3: emit([('DISCCB', [], b'')])
                continue
            if k < 0.35: emit([('DISCCB', [], b'')]); emit([('ADV', [rng.choice([1900000, 2000000, 2100000, 2500000])], b'')]); tags.add('end:disccb')
            elif k < 0.50:
                tags.add('end:stall'); emit([('SENTMODE', [rng.choice([-5, -7])], b'')])
                for _ in range(rng.randrange(2, 6)): emit([('LOCAL', [rng.randrange(0, 6), 0, 1], b''), ('ADV', [5000000], b'')])
                emit([('ADV', [5000000], b'')] * rng.randrange(1, 4)); emit([('SENTMODE', [0], b'')])
                if rng.random() < 0.5: emit([('DISCCB', [], b'')])
            elif k < 0.65:
                tags.add('end:silence'); emit([('ADV', [5000000], b'')] * rng.randrange(2, 6))
                if rng.random() < 0.5: emit([('DISCCB', [], b'')])
            elif k < 0.75: tags.add('end:wifidown'); emit([('WIFI', [rng.choice([0, 1, 3])], b''), self.adv(rng), ('DISCCB', [], b''), self.adv(rng)])
            else: tags.add('end:none')
        emit([self.adv(rng)])
        return F.Case(cid, evs, sorted(tags))
    def gen_cases(self, rng, n, tier):
        return [self.gen_case(rng, '%s%d' % (tier[0], i)) for i in range(n)]
CHECK = C04()
