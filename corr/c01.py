"""C01 — SRPC receiver: generators, implementation-side monitor, check definition."""
import os, struct, sys
import framework as F

PC = None
def consts():
    global PC
    if PC is None: PC = F.G.load('ProtoConsts')
    return PC

def frame(rr, call, payload, ver=None, ds=None, tag=b'SUPLA', endtag=b'SUPLA'):
    c = consts()
    ver = c['DEVICE_PROTO_VERSION'] if ver is None else ver
    ds = len(payload) if ds is None else ds
    return tag + bytes([ver & 255]) + struct.pack('<III', rr & 0xFFFFFFFF, call & 0xFFFFFFFF, ds & 0xFFFFFFFF) + payload + endtag

# ---- reference stream parser (independent of the Coq spec; used by the monitor) ----
def ref_frames(s):
    """returns (list of (rr, call, ver, payload), status in inc|bad|badver)"""
    c = consts(); TAG = bytes(c['TAG']); HDR = c['SDP_SIZE'] - c['MAX_DATA_SIZE']; out = []
    while True:
        if len(s) < len(TAG): return out, 'inc'
        if s[:len(TAG)] != TAG: return out, 'bad'
        if len(s) < HDR + len(TAG): return out, 'inc'
        ver = s[c['OFF_VERSION']]; rr, call, ds = struct.unpack_from('<III', s, c['OFF_RR_ID'])
        if ver > c['PROTO_VERSION'] or ver < c['PROTO_VERSION_MIN']: return out, 'badver'
        if ds > c['MAX_DATA_SIZE']: return out, 'bad'
        if len(s) < HDR + ds + len(TAG): return out, 'inc'
        if s[HDR + ds:HDR + ds + len(TAG)] != TAG: return out, 'bad'
        out.append((rr, call, ver, s[HDR:HDR + ds]))
        s = s[HDR + ds + len(TAG):]

class C01(F.PropCheck):
    pid = 'C01'; gen_groups = ['ProtoConsts']; prop_file = 'Properties_C01'
    IN = {'RECV': 0, 'TICK': 1}
    OUT = {0: 'DELIVER', 1: 'RESTART', 2: 'OVERFLOW', 3: 'FAULT'}
    quick_cases = 4000; thorough_cases = 150000
    trusted_extra = ['C01 driver harness/drv/c01.c: own handler that peeks the in-queue and calls the real srpc_getdata; '
                     'real recv_cb, data_read, devconn_iterate, srpc_iterate, proto.c',
                     'realloc never fails (FALSE branch of sproto_buffer_append not modelled); lck_* are no-ops']
    assumptions = ['theorems quantify over histories without staging overflow (an OVERFLOW output marks a dropped chunk)',
                   'handler pops the in-queue on every delivery (as supla_esp_on_remote_call_received does via srpc_getdata)']
    rule = ('bursts of 50-180 small frames that fill the 2 KiB parser buffer (5 %); streams of 1-6 frames (valid / single-field corruption incl. wrapping 32-bit lengths / truncation / random bytes) x random, '
            '1-byte and boundary chunkings x random tick interleaving; non-trivial = at least one DELIVER/RESTART/OVERFLOW observed; '
            'distinct by sha256 of the event text')

    def build_impl(self):
        return F.build_c('c01', os.path.join(F.VERIF, 'harness', 'drv', 'c01.c'))

    # ---------------- generators
    def gen_burst(self, rng):
        """many small frames arriving faster than one per iterate: the parser buffer (BUFFER_MAX) fills up although the
        staging buffer never overflows.  Frame sizes: all 23 / all 32 (256-byte chunks are whole frames) / random small;
        optionally one large frame whose payload is itself a run of 32-byte frames, followed by a 59-byte frame (so that
        a 256-byte hole inside the payload puts a later start tag where the end tag is expected)."""
        c = consts(); total = rng.choice([1500, 1800, 2100, 2600, 3300, 4200]); parts = []; n = 0; rr = rng.randrange(1, 1000)
        mode = rng.choice(['23', '32', '32', 'small', 'small'])
        big_at = rng.choice([-1, -1, 0, 256, 700, 1500, 1800, 2000]) if mode != '23' else -1
        def small(k):
            nonlocal rr; rr += 1
            return frame(rr, rng.choice([10, 40, 50, 70]), bytes(rng.getrandbits(8) for _ in range(k)))
        while n < total:
            if big_at >= 0 and n >= big_at:
                m = rng.choice([8, 9, 12, 16, 30, 40]); pay = b''.join(small(9) for _ in range(m))
                f = frame(rr, 50, pay) + small(36); big_at = -1
            else:
                f = small(0 if mode == '23' else 9 if mode == '32' else rng.choice([0, 1, 4, 9, 9, 20, 41, 100]))
            parts.append(f); n += len(f)
        return b''.join(parts), ['burst:' + mode]

    def gen_stream(self, rng):
        c = consts(); MAXD = c['MAX_DATA_SIZE']; HDR = c['SDP_SIZE'] - MAXD
        if rng.random() < 0.05: return self.gen_burst(rng)
        nfr = rng.choice([1, 1, 2, 2, 3, 4, 6]); parts = []; tags = []
        bad_at = rng.randrange(nfr) if rng.random() < 0.45 else -1
        for i in range(nfr):
            k = rng.random()
            if k < 0.15: n = 0
            elif k < 0.5: n = rng.randrange(1, 64)
            elif k < 0.65: n = rng.choice([c['SRPC_BUFFER'] - HDR - 5 + d for d in (-1, 0, 1)] + [c['SRPC_BUFFER'] - HDR + d for d in (-1, 0, 1)] + [489, 490, 1001, 1024 - 23, 1024 - 22])
            elif k < 0.8: n = rng.choice([MAXD - 5, MAXD - 1, MAXD])
            else: n = rng.randrange(0, MAXD + 1)
            payload = bytes(rng.getrandbits(8) for _ in range(n)) if rng.random() < 0.8 else (b'SUPLA' * (n // 5 + 1))[:n]
            rr = rng.choice([0, 1, rng.getrandbits(32), 0xFFFFFFFF]); call = rng.choice([10, 40, 50, 70, 100, 220, rng.getrandbits(32)])
            f = frame(rr, call, payload)
            if i == bad_at:
                m = rng.randrange(9)
                if m == 0:   # start tag
                    j = rng.randrange(5); f = f[:j] + bytes([f[j] ^ (1 << rng.randrange(8))]) + f[j + 1:]; tags.append('bad:starttag')
                elif m == 1:  # end tag
                    j = len(f) - 5 + rng.randrange(5); f = f[:j] + bytes([f[j] ^ (1 << rng.randrange(8))]) + f[j + 1:]; tags.append('bad:endtag')
                elif m == 2:
                    f = frame(rr, call, payload, ver=rng.choice([0, c['PROTO_VERSION'] + 1, 255, 128])); tags.append('bad:version')
                elif m == 3:  # wrapping lengths
                    ds = (2**32 - HDR + rng.choice([0, 0, 0, 1, 5, 17] + list(range(-3, HDR)))) & 0xFFFFFFFF
                    f = frame(rr, call, payload, ds=ds); tags.append('bad:len-wrap')
                elif m == 4:
                    ds = rng.choice([MAXD + 1, MAXD + 2, 2**31, 2**32 - 1, 2**32 - 5, 2**32 - HDR - 5, 2**32 - HDR - 6, 65536, 2048])
                    f = frame(rr, call, payload, ds=ds); tags.append('bad:len-big')
                elif m == 5:
                    ds = max(0, len(payload) + rng.choice([-3, -1, 1, 2, 7])); f = frame(rr, call, payload, ds=ds); tags.append('bad:len-off')
                elif m == 6:
                    f = f[:rng.randrange(1, len(f))]; tags.append('bad:truncated')
                elif m == 7:
                    f = bytes(rng.getrandbits(8) for _ in range(rng.randrange(1, 80))); tags.append('bad:random')
                else:
                    f = b'SUPLA' + bytes(rng.getrandbits(8) for _ in range(rng.randrange(0, 40))); tags.append('bad:tag+random')
            parts.append(f)
        if bad_at < 0: tags.append('valid')
        return b''.join(parts), tags

    def chunkings(self, rng, s):
        k = rng.random(); n = len(s); cuts = []
        if k < 0.15 or n < 2: cuts = []
        elif k < 0.3 and n <= 400: cuts = list(range(1, n))
        elif k < 0.5:
            for b in (255, 256, 257, 511, 512, 513, 1023, 1024):
                if b < n and rng.random() < 0.5: cuts.append(b)
        elif k < 0.6: cuts = list(range(256, n, 256))
        else:
            m = rng.randrange(1, 12); cuts = sorted(set(rng.randrange(1, n) for _ in range(m)))
        pieces = []; prev = 0
        for c in cuts + [n]:
            if c > prev: pieces.append(s[prev:c]); prev = c
        # chunks never exceed the staging buffer unless we want an overflow case (a TCP segment carries up to 1460 bytes:
        # 6 % of the cases keep one piece of 1025..1500 bytes, which the bound check of recv_cb must refuse)
        out = []; big = rng.random() < 0.06
        for p in pieces:
            if big and len(p) > 1024:
                k = rng.choice([1025, 1026, 1100, 1279, 1280, 1281, 1460, 1500]); k = min(k, len(p))
                out.append(p[:k]); p = p[k:]; big = False
                if not p: continue
            while len(p) > 1024: out.append(p[:1024]); p = p[1024:]
            out.append(p)
        return out

    def gen_cases(self, rng, n, tier):
        cases = []
        for i in range(n):
            s, tags = self.gen_stream(rng)
            pieces = self.chunkings(rng, s)
            evs = []; tickp = rng.choice([0.0, 0.3, 1.0, 2.0])
            if tags[0].startswith('burst'):
                # keep the staging buffer as full as it may be: 256-byte chunks, one iterate per chunk
                if rng.random() < 0.7: pieces = [s[j:j + 256] for j in range(0, len(s), 256)]; pieces = [s[:1024]] + [s[j:j + 256] for j in range(1024, len(s), 256)]
                tickp = rng.choice([0.0, 0.0, 0.0, 0.3])
            overflow_case = rng.random() < 0.03
            staged = 0
            for p in pieces:
                if not overflow_case and len(p) <= 1024 and staged + len(p) > 1024:
                    # drain with ticks so that the chunk fits
                    while staged + len(p) > 1024: evs.append(('TICK', [], b'')); staged = max(0, staged - 256)
                evs.append(('RECV', [], p)); staged = max(0, staged + len(p) - 256)
                t = tickp
                while t > 0 and rng.random() < t: evs.append(('TICK', [], b'')); staged = max(0, staged - 256); t -= 1
            nfr = s.count(b'SUPLA')
            for _ in range(len(s) // 256 + nfr + 4): evs.append(('TICK', [], b''))
            cases.append(F.Case('%s%d' % (tier[0], i), evs, tags + (['overflowcase'] if overflow_case else [])))
        if tier == 'thorough':
            cases += self.exhaustive_chunkings()
        return cases

    def exhaustive_chunkings(self):
        """all 2^(n-1) chunkings of two tiny streams (<= 13 bytes each would not hold a frame; use 23-byte frame with
        cuts restricted to its first 14 positions and the boundary)"""
        cases = []
        s = frame(3, 10, b'') + frame(4, 40, b'\x01')
        pos = list(range(1, 15))
        for mask in range(1 << len(pos)):
            cuts = [p for i, p in enumerate(pos) if mask >> i & 1]
            pieces = []; prev = 0
            for c in cuts + [len(s)]: pieces.append(s[prev:c]); prev = c
            evs = [('RECV', [], p) for p in pieces] + [('TICK', [], b'')] * 4
            cases.append(F.Case('x%d' % mask, evs, ['exhaustive-chunking']))
        return cases

    # ---------------- monitor (implementation trace vs. the property, no model involved)
    def monitor(self, case, status, outs):
        v = []
        if status != 'ok':
            return ['implementation crashed (%s): memory-safety clause' % status]
        stream = b''; overflow = False; delivered = []; restarted = False; idx = 0
        # replay events and outputs in order is not possible (outputs are not tagged by event), so check globally:
        for (k, ints, data) in case.evs:
            if k == 'RECV': stream += data
        for (k, ints, data) in outs:
            if k == 'OVERFLOW': overflow = True
            elif k == 'DELIVER': delivered.append((ints[0], ints[1], ints[2], bytes(data)))
            elif k == 'RESTART': restarted = True
            elif k == 'MISMATCH': v.append('handler arguments differ from the queued packet')
        if overflow: return v          # a chunk was dropped: the stream seen by the parser is not `stream`
        exp, st = ref_frames(stream)
        for i, d in enumerate(delivered):
            if i >= len(exp):
                v.append('delivered packet #%d (rr=%d call=%d) is not a frame of the stream (stream has %d well-formed frames before %s)' % (i, d[0], d[1], len(exp), st)); break
            if d != exp[i]:
                v.append('delivered packet #%d differs from frame #%d of the stream (rr %d vs %d, %d vs %d payload bytes)' % (i, i, d[0], exp[i][0], len(d[3]), len(exp[i][3]))); break
        # buffered input stays below the receive limit: reference simulation of staging + parser occupancy (one pop per
        # iterate); only for streams without malformed frames.  When the occupancy would reach BUFFER_MAX the append must
        # be refused and reported (restart) - a run that carries on has buffered more than the limit.
        if not v and st == 'inc' and not restarted:
            c = consts(); stage = b''; buf = b''; peak = 0
            for (k, ints, data) in case.evs:
                if k == 'RECV':
                    if len(data) == 0 or len(data) > c['RECVBUFF_MAX'] - len(stage): continue
                    stage += data
                n = min(c['SRPC_BUFFER'], len(stage)); chunk, stage = stage[:n], stage[n:]
                if n > 0:
                    if len(buf) + n >= c['BUFFER_MAX']:
                        v.append('parser buffer holds %d bytes (limit %d): the device neither refused the input nor reported an error' % (len(buf) + n, c['BUFFER_MAX']))
                        break
                    buf += chunk
                fr, st1 = ref_frames(buf)
                if fr:
                    f0 = fr[0]; buf = buf[(c['SDP_SIZE'] - c['MAX_DATA_SIZE']) + len(f0[3]) + len(bytes(c['TAG'])):]
        nticks_tail = 0
        for (k, _, _) in reversed(case.evs):
            if k == 'TICK': nticks_tail += 1
            else: break
        enough = nticks_tail >= len(stream) // 256 + len(exp) + 3
        if not v and enough and st in ('bad', 'badver') and not restarted:
            v.append('malformed frame after %d good frames was not reported (no restart) although the stream was fully processed' % len(exp))
        return v

CHECK = C01()
