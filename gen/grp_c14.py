"""Translator group of C14: the variable table of supla_esp_parse_vars (3-letter name -> VAR id,
buffer size, destination, MQTT-flag guard), VAR/STEP/TYPE ids, the layout of SuplaEspCfg and the
numeric limits, regenerated from the working tree on every run.

Mechanism: supla_esp_cfgmode.c is preprocessed under the MQTT device configuration; the name
declarations and the `memcmp(name, &pdata[a], 3) == 0` chain are read with regular expressions (any
block that does not have the expected shape is a translator error); destinations are turned into offsets
by the C probe (offsetof), ids and limits are printed by the probe from the real macros."""
import re, subprocess
import gen as G

def _vartab():
    src = G.REPO + '/src/user/supla_esp_cfgmode.c'
    r = subprocess.run(['gcc', '-E', '-P', '-w'] + G.dev_flags(G.REPO, mqtt=True) + [src], capture_output=True, text=True)
    if r.returncode != 0: raise RuntimeError('cannot preprocess supla_esp_cfgmode.c: ' + r.stderr[-400:])
    t = r.stdout
    body = t[t.index('supla_esp_parse_vars('):t.index('supla_esp_parse_request(')]
    names = {m.group(1): [ord(m.group(k)) for k in (2, 3, 4)]
             for m in re.finditer(r"char\s+(\w+)\[3\]\s*=\s*\{'(.)',\s*'(.)',\s*'(.)'\};", body)}
    start = body.index("if (len - a >= 4 && pdata[a + 3] == '=') {")
    end = body.index('a += 4;', start)
    chain = body[start:end]
    parts = re.split(r'memcmp\((\w+), &pdata\[a\], 3\) == 0\) \{', chain)
    rows = []
    for i in range(1, len(parts), 2):
        nm, blk = parts[i], parts[i + 1]
        if nm not in names: raise RuntimeError('name array %s not declared' % nm)
        mv = re.search(r'pVars->current_var = (\d+);', blk); ms = re.search(r'pVars->buff_size = (\d+);', blk)
        mp = re.search(r'pVars->pbuff = ([^;]+);', blk)
        if not (mv and ms and mp): raise RuntimeError('unexpected shape of the block for %s' % nm)
        mg = re.search(r'if \((!?)\(?cfg->Flags & (0x[0-9a-fA-F]+|\d+)\)?\) \{', blk)
        rest = re.sub(r'\s+', ' ', blk)
        # nothing else than the three assignments, an optional Flags guard and (cmd) the allocation of user_cmd
        stripped = rest
        for pat in (r'pVars->current_var = \d+;', r'pVars->buff_size = \d+;', r'pVars->pbuff = [^;]+;',
                    r'if \(!?\(?cfg->Flags & (0x[0-9a-fA-F]+|\d+)\)?\) \{', r'if \(user_cmd == \(\(void \*\)0\)\) \{ user_cmd = malloc\(100\); \}',
                    r'\} else if \(', r'[{}]'):
            stripped = re.sub(pat, '', stripped)
        if stripped.strip(): raise RuntimeError('unexpected statements in the block for %s: %r' % (nm, stripped.strip()[:80]))
        dst = mp.group(1).strip()
        if dst == 'pVars->intval': kind, field = 1, None
        elif dst == 'tempPassword': kind, field = 2, None
        elif dst == 'user_cmd': kind, field = 3, None
        elif dst.startswith('cfg->'): kind, field = 0, dst[5:]
        else: raise RuntimeError('unknown destination %s' % dst)
        rows.append(dict(name=names[nm], var=int(mv.group(1)), size=int(ms.group(1)), kind=kind, field=field,
                         gmask=int(mg.group(2), 0) if mg else 0, gneg=1 if (mg and mg.group(1) == '!') else 0))
    if len(rows) < 20: raise RuntimeError('variable chain not found')
    return rows

PRE = r'''
#include <stddef.h>
#include <string.h>
#include <stdlib.h>
#include <os_type.h>
#include <osapi.h>
#include <mem.h>
#include <espconn.h>
#include <user_interface.h>
#include <supla_esp.h>
#include <supla_esp_cfg.h>
SuplaEspCfg supla_esp_cfg;
char *user_cmd;
char *supla_esp_cfgmode_get_html_template(char dev_name[25], const char mac[6], const char data_saved);
#include "supla_esp_cfgmode.c"
'''

def off(f): return 'offsetof(SuplaEspCfg, %s)' % f
def sz(f): return 'sizeof(((SuplaEspCfg*)0)->%s)' % f

VARS = ['NONE', 'SID', 'WPW', 'SVR', 'LID', 'PWD', 'CFGBTN', 'BTN1', 'BTN2', 'ICF', 'LED', 'UPD', 'RBT', 'EML', 'USD', 'TRG', 'CMD',
        'PRO', 'MVR', 'PRT', 'TLS', 'USR', 'MWD', 'PFX', 'QOS', 'RET', 'MAU', 'PPD', 'TH1', 'TH2', 'SBT',
        'BP0', 'BP1', 'BP2', 'BP3', 'BM0', 'BM1', 'BM2', 'BM3', 'BUD', 'TM0', 'TM1', 'TM2', 'TM3', 'TC0', 'TC1', 'TC2', 'TC3',
        'US0', 'US1', 'US2', 'US3', 'BU0', 'BU1', 'BU2', 'BU3']
FIELDS = ['TAG', 'GUID', 'AuthKey', 'Server', 'Email', 'LocationID', 'LocationPwd', 'WIFI_SSID', 'WIFI_PWD', 'CfgButtonType', 'Button1Type',
          'Button2Type', 'StatusLedOff', 'InputCfgTriggerOff', 'FirmwareUpdate', 'Test', 'MotorUpsideDown', 'Time1', 'Time2', 'Trigger',
          'Flags', 'MqttTopicPrefix', 'MqttQoS', 'OvercurrentThreshold1', 'OvercurrentThreshold2', 'MqttPoolPublicationDelay',
          'AutoCalOpenTime', 'AutoCalCloseTime', 'StaircaseButtonType', 'ButtonType', 'ButtonMode', 'CleanConfigSignature', 'Time3',
          'ButtonsUpsideDown', 'Tilt0Angle', 'Tilt100Angle', 'TiltControlType', 'AdditionalTimeMargin', 'zero']

try:
    _rows = _vartab()
    _body = ''.join(
        '  fprintf(stdout, "L VARTAB %%d %%d %%d %%d %%d %%d %%d %%d %%d\\n", %d, %d, %d, %d, %d, %d, (int)(%s), %d, %d);\n' %
        (r['var'], r['name'][0], r['name'][1], r['name'][2], r['size'], r['kind'],
         off(r['field']) if r['field'] else '0', r['gmask'], r['gneg']) for r in _rows)
    _pre = PRE
except Exception as ex:   # never break the other checks: make this group's probe fail instead
    _body = ''
    _pre = '#error C14 translator: %s\n' % str(ex).replace('\n', ' ')[:200]

G.GROUPS['C14Vars'] = dict(
    mqtt=True, pre=_pre, body=_body,
    ints=[('CFG_SIZE', 'sizeof(SuplaEspCfg)')] +
         [('VAR_' + v, 'VAR_' + v) for v in VARS] +
         [('STEP_TYPE_', 'STEP_TYPE'), ('STEP_GET_', 'STEP_GET'), ('STEP_POST_', 'STEP_POST'), ('STEP_PARSE_VARS_', 'STEP_PARSE_VARS'),
          ('TYPE_UNKNOWN_', 'TYPE_UNKNOWN'), ('TYPE_GET_', 'TYPE_GET'), ('TYPE_POST_', 'TYPE_POST')] +
         [('O_' + f, off(f)) for f in FIELDS] + [('Z_' + f, sz(f)) for f in FIELDS] +
         [('INTVAL_SIZE', 'sizeof(((TrivialHttpParserVars*)0)->intval)'), ('TEMP_SIZE', 'SUPLA_EMAIL_MAXSIZE'), ('CMD_SIZE', 'CMD_MAXSIZE'),
          ('PWD_MAX', 'SUPLA_LOCATION_PWD_MAXSIZE'),
          ('F_MQTT_ENABLED', 'CFG_FLAG_MQTT_ENABLED'), ('F_MQTT_NO_RETAIN', 'CFG_FLAG_MQTT_NO_RETAIN'),
          ('F_MQTT_TLS', 'CFG_FLAG_MQTT_TLS'), ('F_MQTT_NO_AUTH', 'CFG_FLAG_MQTT_NO_AUTH'),
          ('PPD_LIMIT', 'MQTT_POOL_PUBLICATION_MAX_DELAY'), ('RS_COUNT', 'RS_MAX_COUNT'), ('BTN_COUNT', 'BTN_MAX_COUNT'),
          ('CHAR_SIGNED', '((char)-1) < 0')],
    extra_names=['VARTAB'],
)
