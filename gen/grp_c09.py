"""Constants of the roller-shutter / facade-blind module (C09, C10), regenerated from /repo."""
import gen as G

G.GROUPS['RsConsts'] = dict(
    pre='#include <stddef.h>\n#include <os_type.h>\n#include <osapi.h>\n#include <supla_esp.h>\n#include <supla_esp_cfg.h>\n'
        '#include <supla_esp_gpio.h>\n#include <supla_esp_rs_fb.h>\n#include <proto.h>\n',
    ints=[
        ('RS_MAX_COUNT_', 'RS_MAX_COUNT'),
        ('RELAY_OFF', 'RS_RELAY_OFF'),
        ('RELAY_UP', 'RS_RELAY_UP'),
        ('RELAY_DOWN', 'RS_RELAY_DOWN'),
        ('TASK_INACTIVE', 'RS_TASK_INACTIVE'),
        ('TASK_ACTIVE', 'RS_TASK_ACTIVE'),
        ('TASK_SETTING_POSITION', 'RS_TASK_SETTING_POSITION'),
        ('TASK_SETTING_TILT', 'RS_TASK_SETTING_TILT'),
        ('TILT_NOT_SUPPORTED', 'FB_TILT_TYPE_NOT_SUPPORTED'),
        ('TILT_KEEP_POSITION', 'FB_TILT_TYPE_KEEP_POSITION_WHILE_TILTING'),
        ('TILT_CHANGE_POSITION', 'FB_TILT_TYPE_CHANGE_POSITION_WHILE_TILTING'),
        ('TILT_ONLY_CLOSED', 'FB_TILT_TYPE_TILTING_ONLY_AT_FULLY_CLOSED'),
        ('AUTOCAL_FILTERING_MS', 'RS_AUTOCAL_FILTERING_TIME_MS'),
        ('AUTOCAL_MIN_MS', 'RS_AUTOCAL_MIN_TIME_MS'),
        ('AUTOCAL_MAX_MS', 'RS_AUTOCAL_MAX_TIME_MS'),
        ('START_DELAY_MS', 'RS_START_DELAY'),
        ('STOP_DELAY_MS', 'RS_STOP_DELAY'),
        ('SAVE_STATE_DELAY', 'RS_SAVE_STATE_DELAY'),
        ('FLAG_TILT_IS_SET', 'RS_VALUE_FLAG_TILT_IS_SET'),
        ('FLAG_CALIBRATION_FAILED', 'RS_VALUE_FLAG_CALIBRATION_FAILED'),
        ('FLAG_CALIBRATION_LOST', 'RS_VALUE_FLAG_CALIBRATION_LOST'),
        ('FLAG_MOTOR_PROBLEM', 'RS_VALUE_FLAG_MOTOR_PROBLEM'),
        ('FLAG_CALIBRATION_IN_PROGRESS', 'RS_VALUE_FLAG_CALIBRATION_IN_PROGRESS'),
        ('CHFLAG_AUTO_CALIBRATION', 'SUPLA_CHANNEL_FLAG_RS_AUTO_CALIBRATION'),
        ('CHFLAG_CALCFG_RECALIBRATE', 'SUPLA_CHANNEL_FLAG_CALCFG_RECALIBRATE'),
        ('SIZEOF_TASK_POSITION', 'sizeof(((rs_task_t*)0)->position)'),
        ('SIZEOF_UP_TIME', 'sizeof(((supla_roller_shutter_cfg_t*)0)->up_time)'),
        ('SIZEOF_POSITION', 'sizeof(*((supla_roller_shutter_cfg_t*)0)->position)'),
        ('SIZEOF_MARGIN', 'sizeof(((supla_roller_shutter_cfg_t*)0)->rs_time_margin)'),
    ],
)
