"""Constants of the roller-shutter / facade-blind module (C09, C10), regenerated from /repo."""
import gen as G
import os, re

def _relay_hi_rs_writes():
    """fields of the shutter record that supla_esp_gpio_relay_hi assigns (textual pattern over the function body in the working tree):
    a sorted, comma separated list such as "start_time,stop_time"; an added write (e.g. last_time) changes the generated constant"""
    try:
        txt = open(os.path.join(G.REPO, 'src', 'user', 'supla_esp_gpio.c')).read()
    except OSError:
        return 'UNREADABLE'
    m = re.search(r'\bsupla_esp_gpio_relay_hi\s*\([^)]*\)\s*\{', txt)
    if not m: return 'NOT-FOUND'
    i = m.end(); depth = 1
    while i < len(txt) and depth:
        depth += {'{': 1, '}': -1}.get(txt[i], 0); i += 1
    body = re.sub(r'//[^\n]*|/\*.*?\*/', '', txt[m.end():i], flags=re.S)
    fields = set(re.findall(r'rs_cfg\s*->\s*(\w+)\s*(?:[-+*/|&^]|<<|>>)?=(?!=)', body))
    fields |= set(re.findall(r'(?:\+\+|--)\s*rs_cfg\s*->\s*(\w+)|rs_cfg\s*->\s*(\w+)\s*(?:\+\+|--)', body) and
                  [x for t in re.findall(r'(?:\+\+|--)\s*rs_cfg\s*->\s*(\w+)|rs_cfg\s*->\s*(\w+)\s*(?:\+\+|--)', body) for x in t if x])
    return ','.join(sorted(fields))

_RH = _relay_hi_rs_writes()

def _src_literals():
    """time limits written as literals in supla_esp_gpio_rs_timer_cb (textual patterns): reporting period, 10-minute limit (both
    counters), power-detection window; -1 when the pattern is not found exactly as expected"""
    try:
        txt = open(os.path.join(G.REPO, 'src', 'user', 'supla_esp_rs_fb.c')).read()
    except OSError:
        return dict(REPORT_PERIOD_SRC=-1, TEN_MINUTES_SRC=-1, TEN_MINUTES_TESTS=-1, POWER_DETECT_SRC=-1)
    txt = re.sub(r'//[^\n]*|/\*.*?\*/', '', txt, flags=re.S)
    r = {}
    m = re.findall(r't\s*-\s*rs_cfg->last_comm_time\s*>=\s*(\d+)', txt)
    r['REPORT_PERIOD_SRC'] = int(m[0]) if len(m) == 1 else -1
    m = re.findall(r'rs_cfg->(up_time|down_time)\s*>\s*(\d+)\s*\*\s*(\d+)\s*\*\s*(\d+)', txt)
    vals = {int(a) * int(b) * int(c) for (_, a, b, c) in m}
    r['TEN_MINUTES_SRC'] = vals.pop() if len(vals) == 1 else -1
    r['TEN_MINUTES_TESTS'] = len({f for (f, _, _, _) in m})
    m = re.findall(r't\s*-\s*rs_cfg->start_time\s*<\s*(\d+)\s*\*\s*(\d+)\)', txt)
    r['POWER_DETECT_SRC'] = int(m[0][0]) * int(m[0][1]) if len(m) == 1 else -1
    return r

_LIT = _src_literals()

G.GROUPS['RsConsts'] = dict(
    pre='#include <stddef.h>\n#include <os_type.h>\n#include <osapi.h>\n#include <supla_esp.h>\n#include <supla_esp_cfg.h>\n'
        '#include <supla_esp_gpio.h>\n#include <supla_esp_rs_fb.h>\n#include <proto.h>\n'
        # the two getters are probed as functions of the stored word (behavioural: the bounds of both comparisons are recovered from the
        # compiled source, so a dropped or moved comparison changes the generated constants and breaks consts_ok of C09/Proofs.v)
        '#include "supla_esp_rs_fb.c"\n'
        'void supla_log(int p, const char *f, ...) { (void)p; (void)f; }\n',
    ints=[
        ('RS_MAX_COUNT_', 'RS_MAX_COUNT'),
        ('RELAY_OFF', 'RS_RELAY_OFF'),
        ('RELAY_UP', 'RS_RELAY_UP'),
        ('RELAY_DOWN', 'RS_RELAY_DOWN'),
        ('TASK_INACTIVE', 'RS_TASK_INACTIVE'),
        ('TASK_ACTIVE', 'RS_TASK_ACTIVE'),
        ('TASK_SETTING_POSITION', 'RS_TASK_SETTING_POSITION'),
        ('TASK_SETTING_TILT', 'RS_TASK_SETTING_TILT'),
        ('TILT_NOT_SUPPORTED', 'FB_TILT_TYPE_NOT_SUPPORTED'),
        ('TILT_KEEP_POSITION', 'FB_TILT_TYPE_KEEP_POSITION_WHILE_TILTING'),
        ('TILT_CHANGE_POSITION', 'FB_TILT_TYPE_CHANGE_POSITION_WHILE_TILTING'),
        ('TILT_ONLY_CLOSED', 'FB_TILT_TYPE_TILTING_ONLY_AT_FULLY_CLOSED'),
        ('AUTOCAL_FILTERING_MS', 'RS_AUTOCAL_FILTERING_TIME_MS'),
        ('AUTOCAL_MIN_MS', 'RS_AUTOCAL_MIN_TIME_MS'),
        ('AUTOCAL_MAX_MS', 'RS_AUTOCAL_MAX_TIME_MS'),
        ('START_DELAY_MS', 'RS_START_DELAY'),
        ('STOP_DELAY_MS', 'RS_STOP_DELAY'),
        ('SAVE_STATE_DELAY', 'RS_SAVE_STATE_DELAY'),
        ('FLAG_TILT_IS_SET', 'RS_VALUE_FLAG_TILT_IS_SET'),
        ('FLAG_CALIBRATION_FAILED', 'RS_VALUE_FLAG_CALIBRATION_FAILED'),
        ('FLAG_CALIBRATION_LOST', 'RS_VALUE_FLAG_CALIBRATION_LOST'),
        ('FLAG_MOTOR_PROBLEM', 'RS_VALUE_FLAG_MOTOR_PROBLEM'),
        ('FLAG_CALIBRATION_IN_PROGRESS', 'RS_VALUE_FLAG_CALIBRATION_IN_PROGRESS'),
        ('CHFLAG_AUTO_CALIBRATION', 'SUPLA_CHANNEL_FLAG_RS_AUTO_CALIBRATION'),
        ('CHFLAG_CALCFG_RECALIBRATE', 'SUPLA_CHANNEL_FLAG_CALCFG_RECALIBRATE'),
        ('SIZEOF_TASK_POSITION', 'sizeof(((rs_task_t*)0)->position)'),
        ('SIZEOF_UP_TIME', 'sizeof(((supla_roller_shutter_cfg_t*)0)->up_time)'),
        ('SIZEOF_POSITION', 'sizeof(*((supla_roller_shutter_cfg_t*)0)->position)'),
        ('SIZEOF_MARGIN', 'sizeof(((supla_roller_shutter_cfg_t*)0)->rs_time_margin)'),
    ],
    body='''
  { static int P, T; static unsigned int tct = 1000; static unsigned char tty = 1; static supla_roller_shutter_cfg_t rc;
    rc.position = &P; rc.tilt = &T; rc.tilt_change_time = &tct; rc.tilt_type = &tty;
    /* words probed: every value -300..30300 and a set of large / negative 32-bit words */
    static const int big[] = {-2147483647-1, -2147483647, -65536, -10101, -10100, -101, -100, 0x7FFFFFFF, 0x7FFFFFFE, 0xFFFFFF, 0xFF0000, 0xFF00, 65535, 65536, 1000000};
    long long plo = 1LL<<40, phi = -(1LL<<40), tlo = 1LL<<40, thi = -(1LL<<40), pbad = 0, tbad = 0, prnd = 0, trnd = 0, tbelow = 0;
    for (long long w = -300; w <= 30300; w++) {
      P = (int)w; T = (int)w;
      int rp = supla_esp_gpio_rs_get_current_position(&rc), rt = supla_esp_gpio_rs_get_current_tilt(&rc);
      if (rp != -1) { if (w < plo) plo = w; if (w > phi) phi = w; if (rp != (w - 100 + 50) / 100) prnd++; }
      if (rt != 0 && w < 100) tbelow++;
      if (rt != 0)  { if (w < tlo) tlo = w; if (w > thi) thi = w; if (rt != (w - 100 + 50) / 100) trnd++; }
    }
    for (unsigned i = 0; i < sizeof(big)/sizeof(big[0]); i++) {
      P = big[i]; T = big[i];
      if (supla_esp_gpio_rs_get_current_position(&rc) != -1) pbad++;
      if (supla_esp_gpio_rs_get_current_tilt(&rc) != 0) tbad++;
    }
    /* a position / tilt word w is "known" iff LO <= w <= HI; inside, the reported value is (w - 100 + 50) / 100; outside -1 (tilt: 0, so the lower tilt bound shows as: nothing non-zero below 100, first non-zero at LO + 50) */
    fprintf(stdout, "I GETTER_POS_LO %lld\\nI GETTER_POS_HI %lld\\nI GETTER_TILT_FIRST_NONZERO %lld\\nI GETTER_TILT_HI %lld\\n", plo, phi, tlo + 0, thi);
    fprintf(stdout, "I GETTER_POS_OUTSIDE_KNOWN %lld\\nI GETTER_TILT_OUTSIDE_KNOWN %lld\\nI GETTER_POS_ROUNDING_DIFFERS %lld\\nI GETTER_TILT_ROUNDING_DIFFERS %lld\\n", pbad, tbad, prnd, trnd);
    fprintf(stdout, "I GETTER_TILT_BELOW_NONZERO %lld\\n", tbelow);
    fprintf(stdout, "S RELAY_HI_RS_WRITES"); { const char *w = "'''+_RH+'''"; for (; *w; w++) fprintf(stdout, " %u", (unsigned char)*w); } fprintf(stdout, "\\n");
    { static supla_roller_shutter_cfg_t mc; int ms_[5] = {-1, 0, 100, 101, 110}; const char *nm[5] = {"M1", "0", "100", "101", "110"};
      for (int i = 0; i < 5; i++) { supla_esp_gpio_rs_set_time_margin(&mc, ms_[i]); fprintf(stdout, "I MARGIN_OF_%s %d\\n", nm[i], (int)mc.rs_time_margin); }
      /* supla_esp_gpio_rs_time_margin(full 1000 ms, time, 5 %): first time (us) at which it answers 0 */
      long long first0 = -1; for (long long t_ = 0; t_ <= 200000; t_++) if (!supla_esp_gpio_rs_time_margin(&mc, 1000, (unsigned)t_, 5)) { first0 = t_; break; }
      fprintf(stdout, "I TIME_MARGIN_5PCT_OF_1S_ENDS %lld\\nI TIME_MARGIN_FULL0 %d\\n", first0, (int)supla_esp_gpio_rs_time_margin(&mc, 0, 0, 5)); }
'''+''.join('    fprintf(stdout, "I %s %d\\n");\n' % (k_, v_) for k_, v_ in sorted(_LIT.items()))+'''    tty = 0; T = 5100; fprintf(stdout, "I GETTER_TILT_UNSUPPORTED %d\\n", (int)supla_esp_gpio_rs_get_current_tilt(&rc));
  }
''',
    extra_names=['GETTER_POS_LO', 'GETTER_POS_HI', 'GETTER_TILT_FIRST_NONZERO', 'GETTER_TILT_HI', 'GETTER_TILT_BELOW_NONZERO', 'GETTER_POS_OUTSIDE_KNOWN', 'GETTER_TILT_OUTSIDE_KNOWN',
                 'GETTER_POS_ROUNDING_DIFFERS', 'GETTER_TILT_ROUNDING_DIFFERS', 'GETTER_TILT_UNSUPPORTED', 'RELAY_HI_RS_WRITES', 'MARGIN_OF_M1', 'MARGIN_OF_0', 'MARGIN_OF_100', 'MARGIN_OF_101', 'MARGIN_OF_110',
                 'TIME_MARGIN_5PCT_OF_1S_ENDS', 'TIME_MARGIN_FULL0', 'POWER_DETECT_SRC', 'REPORT_PERIOD_SRC', 'TEN_MINUTES_SRC', 'TEN_MINUTES_TESTS'],
)
