"""Translator group RsSpacingConsts (C08, C19): constants of the roller-shutter start/stop spacing logic.

Numbers that are macros come from a C probe; literals that exist only inside function bodies
(the `delay_time > 100` threshold, the 10 ms settle delay, the delays around the GPIO write in
supla_esp_gpio_relay_hi) are taken by pattern from the *preprocessed* source of the working tree
(gcc -E under the device configuration).  The structural facts the hand-written model relies on are
re-checked at the same time: if a pattern is gone the group emits `#error` and the translator fails
("correspondence G broken") instead of silently keeping old numbers."""
import re, subprocess, os
import gen as G

def _pp(fname):
    r = subprocess.run(['gcc', '-E', '-P'] + G.dev_flags() + [os.path.join(G.REPO, 'src', 'user', fname)],
                       capture_output=True, text=True)
    return r.stdout if r.returncode == 0 else ''

def _body(src, header_re):
    """text of the function whose header matches header_re (brace matching)"""
    m = re.search(header_re, src)
    if not m: return None
    i = src.find('{', m.end() - 1)
    if i < 0: return None
    d = 0
    for j in range(i, len(src)):
        if src[j] == '{': d += 1
        elif src[j] == '}':
            d -= 1
            if d == 0: return src[i:j + 1]
    return None

def _extract():
    errs = []; v = {}
    rs = _pp('supla_esp_rs_fb.c'); gp = _pp('supla_esp_gpio.c')
    b = _body(rs, r'supla_esp_gpio_rs_set_relay\s*\(\s*supla_roller_shutter_cfg_t\s*\*\s*rs_cfg\s*,[^)]*\)\s*\{')
    if not b: errs.append('supla_esp_gpio_rs_set_relay not found')
    else:
        m = re.search(r'if\s*\(\s*delay_time\s*>\s*(\d+)\s*\)', b)
        if m: v['RS_DELAY_THRESHOLD'] = int(m.group(1))
        else: errs.append('pattern `if (delay_time > N)` not found in supla_esp_gpio_rs_set_relay')
        d = re.findall(r'(?:os|ets)_delay_us\s*\(\s*(\d+)\s*\)', b)
        if len(d) == 1: v['RS_SETTLE_US'] = int(d[0])
        else: errs.append('expected exactly one os_delay_us(N) in supla_esp_gpio_rs_set_relay, found %r' % d)
        # ordering comparisons of the wrapping counter (the defect shared by C08/C19): 1 = present
        v['RS_ORDER_GUARD_STOP'] = 1 if re.search(r't\s*>=\s*rs_cfg->stop_time', b) else 0
        v['RS_ORDER_GUARD_START'] = 1 if re.search(r't\s*>=\s*rs_cfg->start_time', b) else 0
        # shape facts the model depends on
        if not re.search(r'\(\s*t\s*-\s*rs_cfg->stop_time\s*\)\s*/\s*1000\s*<\s*\d+', b): errs.append('start-delay test `(t - stop_time)/1000 < D` not found')
        if not re.search(r'delay_time\s*=\s*\d+\s*-\s*\(\s*t\s*-\s*rs_cfg->stop_time\s*\)\s*/\s*1000\s*\+\s*1', b): errs.append('start-delay formula changed')
        if not re.search(r'delay_time\s*=\s*\d+\s*-\s*\(\s*t\s*-\s*rs_cfg->start_time\s*\)\s*/\s*1000\s*\+\s*1', b): errs.append('stop-delay formula changed')
        if not re.search(r'ets_timer_arm_new\s*\(\s*&rs_cfg->delayed_trigger\.timer\s*,\s*delay_time\s*,\s*0\s*,\s*1\s*\)', b): errs.append('delayed trigger is no longer armed one-shot in ms')
    h = _body(gp, r'char\s+supla_esp_gpio_relay_hi\s*\(\s*int\s+port\s*,\s*unsigned\s+char\s+hi\s*\)\s*\{')
    if not h: errs.append('supla_esp_gpio_relay_hi not found')
    else:
        # sequence of delays and pin writes: delay PRE, write, [delay DOUBLE_TRY, write], ..., delay POST
        seq = re.findall(r'(?:os|ets)_delay_us\s*\(\s*(\d+)\s*\)|(supla_esp_gpio_set_hi)\s*\(\s*port', h)
        toks = [('D', int(a)) if a else ('W', 0) for (a, w) in seq]
        kinds = ''.join(k for k, _ in toks)
        if kinds == 'DWDWD':
            v['RELAY_PRE_US'] = toks[0][1]; v['RELAY_RETRY_US'] = toks[2][1]; v['RELAY_POST_US'] = toks[4][1]
        elif kinds == 'DWD':
            v['RELAY_PRE_US'] = toks[0][1]; v['RELAY_RETRY_US'] = 0; v['RELAY_POST_US'] = toks[2][1]
        else: errs.append('supla_esp_gpio_relay_hi: unexpected delay/write sequence %s' % kinds)
        if not re.match(r'\{\s*unsigned\s+int\s+t\s*=\s*system_get_time\s*\(\s*\)\s*;', h): errs.append('relay_hi no longer samples the counter first')
        if not re.search(r'if\s*\(\s*rs_cfg->stop_time\s*==\s*0\s*\)\s*\{\s*rs_cfg->stop_time\s*=\s*t\s*;', h): errs.append('relay_hi stop stamp changed')
        if not re.search(r'if\s*\(\s*rs_cfg->start_time\s*==\s*0\s*\)\s*\{\s*rs_cfg->start_time\s*=\s*t\s*;', h): errs.append('relay_hi start stamp changed')
    # loop bounds of the functions that decide "is this relay / channel part of a shutter" (routing theorems C08_routing_*):
    # emitted as constants and tied to RELAY_MAX / RS_MAX by consts_facts, so a shortened loop breaks the proof as well
    def bound(src, hdr, pat, name):
        bd = _body(src, hdr)
        m = re.search(pat, bd) if bd else None
        if m: v[name] = int(m.group(1))
        else: errs.append('loop shape of %s changed' % name)
    bound(rs, r'supla_esp_gpio_get_rs__cfg\s*\(\s*int\s+port\s*\)\s*\{',
          r'for\s*\(\s*a\s*=\s*0\s*;\s*a\s*<\s*(\d+)\s*;\s*a\+\+\s*\)\s*if\s*\(\s*supla_relay_cfg\[a\]\.gpio_id\s*==\s*port\s*\)', 'LOOKUP_PORT_RELAY_BOUND')
    bound(rs, r'supla_esp_gpio_get_rs_cfg\s*\(\s*supla_relay_cfg_t\s*\*\s*rel_cfg\s*\)\s*\{',
          r'for\s*\(\s*a\s*=\s*0\s*;\s*a\s*<\s*(\d+)\s*;\s*a\+\+\s*\)\s*if\s*\(\s*supla_rs_cfg\[a\]\.up\s*==\s*rel_cfg\s*\|\|\s*supla_rs_cfg\[a\]\.down\s*==\s*rel_cfg\s*\)', 'LOOKUP_RELAY_RS_BOUND')
    bound(gp, r'char\s+supla_esp_gpio_relay_hi\s*\(\s*int\s+port\s*,\s*unsigned\s+char\s+hi\s*\)\s*\{',
          r'for\s*\(\s*a\s*=\s*0\s*;\s*a\s*<\s*(\d+)\s*;\s*a\+\+\s*\)\s*\{\s*if\s*\(\s*supla_relay_cfg\[a\]\.gpio_id\s*==\s*port\s*\)', 'RELAYHI_RELAY_BOUND')
    dc = _pp('supla_esp_devconn.c')
    bound(dc, r'supla_esp_channel_set_value\s*\(\s*TSD_SuplaChannelNewValue\s*\*\s*new_value\s*\)\s*\{',
          r'for\s*\(\s*a\s*=\s*0\s*;\s*a\s*<\s*(\d+)\s*;\s*a\+\+\s*\)\s*if\s*\(\s*supla_rs_cfg\[a\]\.up\s*!=\s*\(\(void\s*\*\)\s*0\)\s*&&\s*supla_rs_cfg\[a\]\.down\s*!=\s*\(\(void\s*\*\)\s*0\)\s*&&\s*supla_rs_cfg\[a\]\.up->channel\s*==\s*new_value->ChannelNumber\s*\)', 'SETVALUE_RS_BOUND')
    bound(dc, r'supla_esp_channel_set_value\s*\(\s*TSD_SuplaChannelNewValue\s*\*\s*new_value\s*\)\s*\{',
          r'for\s*\(\s*a\s*=\s*0\s*;\s*a\s*<\s*(\d+)\s*;\s*a\+\+\s*\)\s*if\s*\(\s*supla_relay_cfg\[a\]\.gpio_id\s*!=\s*255\s*&&\s*new_value->ChannelNumber\s*==\s*supla_relay_cfg\[a\]\.channel\s*\)', 'SETVALUE_RELAY_BOUND')
    for fn in ('supla_esp_gpio_rs_apply_new_config', 'supla_esp_gpio_fb_apply_new_config'):
        bd = _body(rs, fn + r'\s*\(\s*int\s+channel_number\s*,[^)]*\)\s*\{')
        if not bd or not re.search(r'newUp\s*=\s*supla_rs_cfg\[channel_number\]\.down\s*;\s*supla_relay_cfg_t\s*\*\s*newDown\s*=\s*supla_rs_cfg\[channel_number\]\.up\s*;\s*'
                                   r'supla_rs_cfg\[channel_number\]\.down\s*=\s*newDown\s*;\s*supla_rs_cfg\[channel_number\]\.up\s*=\s*newUp\s*;', bd):
            errs.append('motor swap of %s changed' % fn)
    g = _body(gp, r'void\s+supla_esp_gpio_init\s*\(\s*void\s*\)\s*\{')
    if not g or not re.search(r'supla_rs_cfg\[a\]\.stop_time\s*=\s*supla_esp_gpio_init_time\s*;', g): errs.append('gpio_init no longer stamps stop_time with the init time')
    return v, errs

# ---- call sites (G for C08_routing): who can write a relay pin, and through which entry points --------------
def _functions(src):
    """(name, body) of the top-level function definitions of a preprocessed C file"""
    depth = 0; i = 0; n = len(src); hdr_start = 0; bstart = 0; hdr = ''
    while i < n:
        c = src[i]
        if c == '"' or c == "'":
            q = c; i += 1
            while i < n and src[i] != q: i += 2 if src[i] == '\\' else 1
        elif c == '{':
            if depth == 0: bstart = i; hdr = src[hdr_start:i]
            depth += 1
        elif c == '}':
            depth -= 1
            if depth == 0:
                h = hdr.rstrip()
                if h.endswith(')'):
                    d = 0; j = len(h) - 1
                    while j >= 0:
                        if h[j] == ')': d += 1
                        elif h[j] == '(':
                            d -= 1
                            if d == 0: break
                        j -= 1
                    m = re.search(r'([A-Za-z_]\w*)\s*$', h[:j])
                    if m and '=' not in h[:j].split('\n')[-1]: yield m.group(1), src[bstart:i + 1]
                hdr_start = i + 1
        elif c == ';' and depth == 0: hdr_start = i + 1
        i += 1

_CS_FILES = ['supla_esp_gpio.c', 'supla_esp_rs_fb.c', 'supla_esp_devconn.c', 'supla_esp_input.c', 'supla_esp_countdown_timer.c',
             'supla_esp_cfgmode.c', 'supla_esp_state.c', 'supla_esp_cfg.c', 'supla_update.c', 'supla_esp_wifi.c', 'supla_esp_dns_client.c', 'uptime.c']
# the routing model of coq/C08/Model.v (route_server / route_input + countdown finish) is complete iff these are the callers
_CS_EXPECTED = {
    'GPIO_OUTPUT_SET': ['gpio:supla_esp_gpio_set_hi'],
    'gpio16_output_set': ['gpio:supla_esp_gpio_set_hi'],
    'supla_esp_gpio_set_hi': ['gpio:supla_esp_gpio_relay_hi'],
    'supla_esp_gpio_relay_hi': ['devconn:_supla_esp_channel_set_value', 'gpio:supla_esp_gpio_init', 'gpio:supla_esp_gpio_relay_switch', 'rs_fb:supla_esp_gpio_rs_set_relay'],
    '_supla_esp_channel_set_value': ['devconn:supla_esp_channel_set_value', 'devconn:supla_esp_devconn_on_countdown_timer_finish'],
    'supla_esp_gpio_relay_switch': ['gpio:supla_esp_gpio_relay_switch_by_input'],
    'supla_esp_gpio_relay_switch_by_input': ['gpio:supla_esp_gpio_on_input_active', 'gpio:supla_esp_gpio_on_input_inactive'],
    'supla_esp_countdown_timer_countdown': ['gpio:supla_esp_gpio_relay_set_duration_timer'],
    'supla_esp_gpio_relay_set_duration_timer': ['devconn:supla_esp_channel_config_result', 'devconn:supla_esp_channel_set_value', 'gpio:supla_esp_gpio_init', 'gpio:supla_esp_gpio_relay_switch'],
}
def _callsites():
    res = {c: set() for c in _CS_EXPECTED}; errs = []
    for f in _CS_FILES:
        src = _pp(f)
        if not src: errs.append('cannot preprocess %s' % f); continue
        for name, body in _functions(src):
            for c in res:
                if name != c and re.search(r'(?<![\w])%s\s*\(' % re.escape(c), body[1:]):
                    res[c].add('%s:%s' % (f[:-2].replace('supla_esp_', ''), name))
    for c, exp in _CS_EXPECTED.items():
        if sorted(res[c]) != exp: errs.append('callers of %s changed: %s (expected %s)' % (c, sorted(res[c]), exp))
    return errs

_vals, _errs = _extract()
_errs = _errs + _callsites()
_pre = ('#include <stddef.h>\n#include <supla_esp.h>\n#include <supla_esp_gpio.h>\n#include <supla_esp_rs_fb.h>\n'
        + ''.join('#error RsSpacingConsts: %s\n' % e.replace('\n', ' ') for e in _errs))
# (RS_ORDER_GUARD_* are computed for information only; they are not emitted so that the generated file is the same before/after the fix)
_names = ['RS_DELAY_THRESHOLD', 'RS_SETTLE_US', 'RELAY_PRE_US', 'RELAY_RETRY_US', 'RELAY_POST_US',
          'LOOKUP_PORT_RELAY_BOUND', 'LOOKUP_RELAY_RS_BOUND', 'RELAYHI_RELAY_BOUND', 'SETVALUE_RS_BOUND', 'SETVALUE_RELAY_BOUND']

G.GROUPS['RsSpacingConsts'] = dict(
    pre=_pre,
    ints=[('RS_START_DELAY_MS', 'RS_START_DELAY'), ('RS_STOP_DELAY_MS', 'RS_STOP_DELAY'),
          ('RELAY_DOUBLE_TRY_US', 'RELAY_DOUBLE_TRY'),
          ('RS_OFF', 'RS_RELAY_OFF'), ('RS_UP', 'RS_RELAY_UP'), ('RS_DOWN', 'RS_RELAY_DOWN'),
          ('RS_MAX', 'RS_MAX_COUNT'), ('RELAY_MAX', 'RELAY_MAX_COUNT')]
         + [(n, str(_vals.get(n, 0))) for n in _names],
)
