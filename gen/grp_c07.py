"""Translator group for C06/C07: constants of the relay / countdown-timer code, regenerated from the working
tree.  Macros and sizes come from a C probe; the literals inside supla_esp_countdown_timer_startstop (the
`/10`, `50`, `1000` of the adaptive period), the uptime poll period and the shape of the last statement of
supla_esp_countdown_timer_countdown (does a new command evaluate the running slots?) are extracted from the
source text by patterns; a pattern that no longer matches yields a C expression that does not compile, so
the run reports `translator: probe compile failed` instead of silently using a stale number."""
import os, re
import gen as G

def _src(rel):
    try: return open(os.path.join(G.REPO, rel)).read()
    except OSError: return ''

def _fn_body(txt, name):
    m = re.search(r'\b' + re.escape(name) + r'\s*\([^;{]*\)\s*\{', txt)
    if not m: return ''
    i = m.end(); depth = 1
    while i < len(txt) and depth:
        depth += {'{': 1, '}': -1}.get(txt[i], 0); i += 1
    return txt[m.end():i - 1]

def _pat(body, rx, tag):
    m = re.search(rx, body, flags=re.S)
    return m.group(1) if m else 'PATTERN_NO_LONGER_MATCHES_' + tag

_cdt = _src('src/user/supla_esp_countdown_timer.c')
_ss = _fn_body(_cdt, 'supla_esp_countdown_timer_startstop')
_cd = _fn_body(_cdt, 'supla_esp_countdown_timer_countdown')
_upt = _fn_body(_src('src/user/uptime.c'), 'supla_esp_uptime_init')
_cfg = _fn_body(_src('src/user/supla_esp_cfg.c'), 'supla_esp_save_state')
_uu = _fn_body(_src('src/user/uptime.c'), 'uptime_usec')
def _pin(body, rx, want, tag):
    # a literal / shape the model transcribes by hand: any other value stops the translator
    m = re.search(rx, body, flags=re.S)
    return str(int(m.group(1), 0)) if m and int(m.group(1), 0) == want else 'PATTERN_NO_LONGER_MATCHES_' + tag

# last call statement of countdown(): startstop() (unchanged tree) or timer_cb(NULL) (proposed fix)
_calls = re.findall(r'\b(supla_esp_countdown_timer_startstop|supla_esp_countdown_timer_cb)\s*\(', _cd)
# 0: only startstop() at the end (original code); 2: the callback body first, startstop() at the end (repair
# docs/fixes/C07_countdown_evaluate_first.diff); 1: callback body at the end (first repair 06ec55a, superseded: a new short
# timer could expire inside its own command)
if not _calls: _evalcmd = 'PATTERN_NO_LONGER_MATCHES_countdown_tail'
elif _calls[-1].endswith('_cb'): _evalcmd = '1'
elif _calls[0].endswith('_cb'):
    # 3: ... and only once the finish callback is registered (docs/fixes/C07_countdown_evaluate_when_registered.diff): nothing is
    # evaluated inside the restore loop of supla_esp_gpio_init, where a restored timer would be released without its callback
    _evalcmd = '3' if re.search(r'if\s*\(\s*countdown_timer_vars\.finish_cb\s*\)\s*\{?\s*supla_esp_countdown_timer_cb\s*\(', _cd) else '2'
else: _evalcmd = '0'

G.GROUPS['RelayConsts'] = dict(
    pre='#include <stddef.h>\n#include <c_types.h>\n#include <ip_addr.h>\n#include <espconn.h>\n#include <proto.h>\n#include <srpc.c>\n#include <supla_esp.h>\n#include <supla_esp_cfg.h>\n#include <supla_esp_gpio.h>\n',
    ints=[
        ('RELAY_MAX', 'RELAY_MAX_COUNT'),
        ('T2_COUNT', 'CFG_TIME2_COUNT'),
        ('ST_T2_COUNT', 'STATE_CFG_TIME2_COUNT'),
        ('SAVE_DELAY_MS', 'SAVE_STATE_DELAY'),
        ('DOUBLE_TRY_US', 'RELAY_DOUBLE_TRY'),
        ('FLAG_RESET', 'RELAY_FLAG_RESET'),
        ('FLAG_RESTORE', 'RELAY_FLAG_RESTORE'),
        ('FLAG_RESTORE_FORCE', 'RELAY_FLAG_RESTORE_FORCE'),
        ('FLAG_LO_LEVEL', 'RELAY_FLAG_LO_LEVEL_TRIGGER'),
        ('CHFLAG_COUNTDOWN', 'SUPLA_CHANNEL_FLAG_COUNTDOWN_TIMER_SUPPORTED'),
        ('SBT_RESET', 'STAIRCASE_BTN_TYPE_RESET'),
        ('FNC_STAIRCASE', 'SUPLA_CHANNELFNC_STAIRCASETIMER'), ('FNC_POWERSWITCH', 'SUPLA_CHANNELFNC_POWERSWITCH'),
        ('FNC_LIGHTSWITCH', 'SUPLA_CHANNELFNC_LIGHTSWITCH'), ('SIZEOF_STAIR_CFG', 'sizeof(TChannelConfig_StaircaseTimer)'),
        ('HI', 'HI_VALUE'), ('LO', 'LO_VALUE'),
        ('VALUE_SIZE', 'SUPLA_CHANNELVALUE_SIZE'),
        ('QUEUE_SIZE', 'SRPC_QUEUE_SIZE'),
        ('CALL_VALUE_CHANGED', 'SUPLA_DS_CALL_DEVICE_CHANNEL_VALUE_CHANGED'),
        ('CALL_EXTVALUE_CHANGED', 'SUPLA_DS_CALL_DEVICE_CHANNEL_EXTENDEDVALUE_CHANGED'),
        ('CALL_SET_VALUE', 'SUPLA_SD_CALL_CHANNEL_SET_VALUE'),
        ('CALL_GROUP_SET_VALUE', 'SUPLA_SD_CALL_CHANNELGROUP_SET_VALUE'),
        ('CALL_SET_VALUE_RESULT', 'SUPLA_DS_CALL_CHANNEL_SET_VALUE_RESULT'),
        ('EV_TIMER_STATE', 'EV_TYPE_TIMER_STATE_V1'),
        ('SIZEOF_NEW_VALUE', 'sizeof(TSD_SuplaChannelNewValue)'),
        ('SIZEOF_GROUP_NEW_VALUE', 'sizeof(TSD_SuplaChannelGroupNewValue)'),
        ('SIZEOF_TIMER_STATE', 'sizeof(TTimerState_ExtendedValue)'),
        ('OFF_TS_REMAINING', 'offsetof(TTimerState_ExtendedValue, RemainingTimeMs)'),
        ('OFF_TS_TARGET', 'offsetof(TTimerState_ExtendedValue, TargetValue)'),
        ('OFF_TS_SENDER', 'offsetof(TTimerState_ExtendedValue, SenderID)'),
        # transport of the three device calls of C06: frame = packet header + payload + end tag
        ('FRAME_OVERHEAD', 'sizeof(TSuplaDataPacket) - SUPLA_MAX_DATA_SIZE + SUPLA_TAG_SIZE'),
        ('SIZE_VALUE_MSG', 'sizeof(TDS_SuplaDeviceChannelValue)'),
        ('SIZE_RESULT_MSG', 'sizeof(TDS_SuplaChannelNewValueResult)'),
        ('SIZE_EXT_MSG', 'sizeof(TDS_SuplaDeviceChannelExtendedValue) - SUPLA_CHANNELEXTENDEDVALUE_SIZE + sizeof(TTimerState_ExtendedValue)'),
        ('SRPC_CHUNK', 'SRPC_BUFFER_SIZE'),
        ('SEND_BUF', 'SEND_BUFFER_SIZE'), ('SENT_INPROGRESS', 'ESPCONN_INPROGRESS'), ('SENT_MAXNUM', 'ESPCONN_MAXNUM'),
        ('IN_SENSOR', 'INPUT_TYPE_SENSOR'), ('IN_MONO', 'INPUT_TYPE_BTN_MONOSTABLE'), ('IN_BI', 'INPUT_TYPE_BTN_BISTABLE'),
        ('IN_MOTION', 'INPUT_TYPE_MOTION_SENSOR'), ('IN_FLAG_ON_PRESS', 'INPUT_FLAG_TRIGGER_ON_PRESS'),
        # literals of the adaptive period (pattern-extracted)
        ('CD_DIV', _pat(_ss, r'time_left_ms\s*/\s*(\d+)\s*;', 'cd_div')),
        ('CD_MIN', _pat(_ss, r'if\s*\(\s*dms\s*<\s*(\d+)\s*\)\s*\{\s*dms\s*=\s*\1\s*;', 'cd_min')),
        ('CD_MAX', _pat(_ss, r'else\s+if\s*\(\s*dms\s*>\s*(\d+)\s*\)\s*\{\s*dms\s*=\s*\1\s*;', 'cd_max')),
        ('UPTIME_POLL_MS', _pat(_upt, r'os_timer_arm\s*\(\s*&usermain_uptime\.timer\s*,\s*(\d+)\s*,\s*1\s*\)', 'uptime_poll')),
        ('EVAL_ON_COMMAND', _evalcmd),
        # pins of hand-transcribed literals / shapes (the model uses the literal; a change stops the translator)
        ('UPTIME_MULT', _pin(_uu, r'cycles\s*\*\s*\(unsigned _supla_int64_t\)\s*(0x[0-9a-fA-F]+)', 0xffffffff, 'uptime_mult')),
        ('UPTIME_WRAP_LT', '1' if re.search(r'if\s*\(\s*time\s*<\s*usermain_uptime\.last_system_time\s*\)', _uu) else 'PATTERN_NO_LONGER_MATCHES_uptime_wrap'),
        ('CB_EXPIRE_GE', '1' if re.search(r'if\s*\(\s*time_diff\s*>=\s*i->time_left_ms\s*\)', _cdt) else 'PATTERN_NO_LONGER_MATCHES_cb_expire'),
        ('STARTSTOP_MIN_LT', '1' if re.search(r'delay_ms\s*==\s*0\s*\|\|\s*dms\s*<\s*delay_ms', _ss) else 'PATTERN_NO_LONGER_MATCHES_startstop_min'),
    ],
)
