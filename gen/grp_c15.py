"""Translator group of C15: the page templates, literal arguments and the layout of SuplaEspCfg,
regenerated from the working tree on every run.

Mechanism: the probe #includes the real html sources (MQTT page once, the SUPLA page six times:
{plain, CFGBTN_TYPE_SELECTION, BTN1_2_TYPE_SELECTION} x {__FOTA, no __FOTA}) and
supla_esp_cfgmode.c with `ets_snprintf` redirected to a capturing function, runs every variant once on
an all-zero configuration and prints the format strings and the literal arguments it received.
Nothing is copied by hand."""
import gen as G

PRE = r'''
#include <stddef.h>
#include <stdarg.h>
#include <string.h>
#include <stdlib.h>
#include <os_type.h>
#include <osapi.h>
#include <mem.h>
#include <espconn.h>
#include <user_interface.h>
#include <supla_esp.h>
#include <supla_esp_cfg.h>
#include <supla_esp_state.h>
#include <supla_esp_cfgmode.h>

SuplaEspCfg supla_esp_cfg;
char *user_cmd;
void supla_log(int p, const char *f, ...) { (void)p; (void)f; }
sint8 espconn_sent(struct espconn *e, uint8 *p, uint16 l) { (void)e; (void)p; (void)l; return 0; }
uint32 supla_esp_board_cfg_html_additional_settings(char *buffer, uint32 buffer_size) { if (buffer_size) buffer[0] = 0; return 0; }

/* ---- capture of the last formatted print ---- */
#define CAP_MAXARGS 64
static char cap_fmt[20000]; static unsigned cap_n; static int cap_nargs;
static struct { int is_str; long long iv; char sv[12000]; } *cap_args;
static int cap_vsn(char *buf, unsigned n, const char *fmt, va_list ap0) {
  va_list ap; va_copy(ap, ap0);
  if (!cap_args) cap_args = calloc(CAP_MAXARGS, sizeof *cap_args);
  if (n > 1 || cap_fmt[0] == 0) {
    snprintf(cap_fmt, sizeof cap_fmt, "%s", fmt); cap_n = n; cap_nargs = 0;
    for (const char *p = fmt; *p; p++) {
      if (*p != '%') continue;
      p++;
      if (*p == '%') continue;
      while (*p && strchr("0123456789-+ #.lh", *p)) p++;
      if (cap_nargs >= CAP_MAXARGS) break;
      if (*p == 's') { const char *s = va_arg(ap, const char *); cap_args[cap_nargs].is_str = 1; snprintf(cap_args[cap_nargs].sv, sizeof cap_args[0].sv, "%s", s ? s : ""); cap_nargs++; }
      else { cap_args[cap_nargs].is_str = 0; cap_args[cap_nargs].iv = va_arg(ap, int); cap_nargs++; }
      if (!*p) break;
    }
  }
  va_end(ap);
  return vsnprintf(buf, n, fmt, ap0);
}
static int cap_snprintf(char *buf, unsigned n, const char *fmt, ...) {
  va_list a; va_start(a, fmt); int r = cap_vsn(buf, n, fmt, a); va_end(a); return r;
}
/* ---- capture of memcpy sources in the MQTT page assembly ---- */
static char cap_mc_src[8][256]; static size_t cap_mc_n[8]; static int cap_mc;
static void *cap_memcpy(void *d, const void *s, size_t n) { if (cap_mc < 8 && n <= 256) { memmove(cap_mc_src[cap_mc], s, n); cap_mc_n[cap_mc] = n; cap_mc++; } return memmove(d, s, n); }

#define ets_snprintf cap_snprintf
#include "supla_esp_state.c"
#define memcpy cap_memcpy
#include "supla_esp_cfgmode_mqtt_html.c"
#undef memcpy
#undef MQTT_SUPPORT_ENABLED
#define supla_esp_cfgmode_get_html_template tmpl_v0
#include "supla_esp_cfgmode_html.c"
#undef supla_esp_cfgmode_get_html_template
#define supla_esp_cfgmode_get_html_template tmpl_v1
#define CFGBTN_TYPE_SELECTION
#include "supla_esp_cfgmode_html.c"
#undef CFGBTN_TYPE_SELECTION
#undef supla_esp_cfgmode_get_html_template
#define supla_esp_cfgmode_get_html_template tmpl_v2
#define BTN1_2_TYPE_SELECTION
#include "supla_esp_cfgmode_html.c"
#undef BTN1_2_TYPE_SELECTION
#undef supla_esp_cfgmode_get_html_template
#undef __FOTA
#define supla_esp_cfgmode_get_html_template tmpl_v3
#include "supla_esp_cfgmode_html.c"
#undef supla_esp_cfgmode_get_html_template
#define supla_esp_cfgmode_get_html_template tmpl_v4
#define CFGBTN_TYPE_SELECTION
#include "supla_esp_cfgmode_html.c"
#undef CFGBTN_TYPE_SELECTION
#undef supla_esp_cfgmode_get_html_template
#define supla_esp_cfgmode_get_html_template tmpl_v5
#define BTN1_2_TYPE_SELECTION
#include "supla_esp_cfgmode_html.c"
#undef BTN1_2_TYPE_SELECTION
#undef supla_esp_cfgmode_get_html_template
#define __FOTA
char *supla_esp_cfgmode_get_html_template(char dev_name[25], const char mac[6], const char data_saved);
#include "supla_esp_cfgmode.c"
#undef ets_snprintf

static void pstr(const char *name, const char *s, size_t n) {
  fprintf(stdout, "S %s", name); for (size_t i = 0; i < n; i++) fprintf(stdout, " %u", (unsigned char)s[i]); fprintf(stdout, "\n");
}
typedef char *(*tmpl_fn)(char *, const char *, const char);
'''

BODY = r'''
  {
    tmpl_fn fns[6] = { tmpl_v0, tmpl_v1, tmpl_v2, tmpl_v3, tmpl_v4, tmpl_v5 };
    char name[25] = ""; char mac[6] = {0}; char nm[64];
    memset(&supla_esp_cfg, 0, sizeof supla_esp_cfg);
    for (int v = 0; v < 6; v++) {
      cap_fmt[0] = 0;
      char *b = fns[v](name, mac, 1);
      snprintf(nm, sizeof nm, "T%d", v); pstr(nm, cap_fmt, strlen(cap_fmt));
      snprintf(nm, sizeof nm, "H%d", v); pstr(nm, cap_args[0].sv, strlen(cap_args[0].sv));
      fprintf(stdout, "I SLACK%d %lld\n", v, (long long)cap_n - (long long)strlen(cap_fmt) - (long long)strlen(cap_args[0].sv) - (long long)strlen(SUPLA_ESP_SOFTVER));
      fprintf(stdout, "I NARGS%d %d\n", v, cap_nargs);
      if (v == 0) {
        pstr("DSMSG", cap_args[1].sv, strlen(cap_args[1].sv));
        /* zero configuration: FirmwareUpdate == 0 -> the last-but-one argument is the "selected" literal */
        pstr("SELECTED", cap_args[cap_nargs - 2].sv, strlen(cap_args[cap_nargs - 2].sv));
      }
      free(b);
    }
    /* MQTT page */
    cap_fmt[0] = 0; cap_mc = 0;
    char *b = supla_esp_cfgmode_get_html_template(name, mac, 1);
    pstr("MQ_MAIN", cap_fmt, strlen(cap_fmt));
    fprintf(stdout, "I NARGS6 %d\n", cap_nargs);
    pstr("MQ_HEADER", supla_esp_cfgmode_html_header, sizeof(supla_esp_cfgmode_html_header) - 1);
    pstr("MQ_SVG", supla_esp_cfgmode_html_svg, sizeof(supla_esp_cfgmode_html_svg) - 1);
    pstr("MQ_FOOTER", supla_esp_cfgmode_html_footer, sizeof(supla_esp_cfgmode_html_footer) - 1);
    if (cap_mc >= 2) { pstr("MQ_DS", cap_mc_src[0], cap_mc_n[0]); pstr("MQ_DIV", cap_mc_src[1], cap_mc_n[1]); }
    { int firstint = -1, k; for (k = 0; k < cap_nargs; k++) if (!cap_args[k].is_str && k > 25) { firstint = k; break; }
      fprintf(stdout, "I MQ_DEFPORT %lld\n", firstint >= 0 ? cap_args[firstint].iv : -1); }
    /* zero Flags: "Supla" option is selected -> argument after WIFI_SSID (index 26) */
    pstr("MQ_SELECTED", cap_args[26].sv, strlen(cap_args[26].sv));
    free(b);
    /* HTTP response header */
    cap_fmt[0] = 0;
    { char page[] = "x"; supla_esp_http_ok(NULL, page); }
    pstr("HTTP_HDR", cap_fmt, strlen(cap_fmt));
    pstr("HTTP_OK", cap_args[0].sv, strlen(cap_args[0].sv));
    pstr("SOFTVER", SUPLA_ESP_SOFTVER, strlen(SUPLA_ESP_SOFTVER));
  }
'''

def off(f): return 'offsetof(SuplaEspCfg, %s)' % f
def sz(f): return 'sizeof(((SuplaEspCfg*)0)->%s)' % f

G.GROUPS['HtmlTemplates'] = dict(
    mqtt=True, pre=PRE, body=BODY,
    ints=[
        ('CFG_SIZE', 'sizeof(SuplaEspCfg)'),
        ('OFF_GUID', off('GUID')), ('SZ_GUID', sz('GUID')),
        ('OFF_AUTHKEY', off('AuthKey')), ('SZ_AUTHKEY', sz('AuthKey')),
        ('OFF_SERVER', off('Server')), ('SZ_SERVER', sz('Server')),
        ('OFF_EMAIL', off('Email')), ('SZ_EMAIL', sz('Email')),
        ('OFF_PORT', off('Port')),
        ('OFF_PWD', off('Password')), ('SZ_PWD', sz('Password')),
        ('OFF_SSID', off('WIFI_SSID')), ('SZ_SSID', sz('WIFI_SSID')),
        ('OFF_WIFIPWD', off('WIFI_PWD')), ('SZ_WIFIPWD', sz('WIFI_PWD')),
        ('OFF_CFGBTN', off('CfgButtonType')), ('OFF_BTN1', off('Button1Type')), ('OFF_BTN2', off('Button2Type')),
        ('OFF_FWUPD', off('FirmwareUpdate')),
        ('OFF_FLAGS', off('Flags')),
        ('OFF_PREFIX', off('MqttTopicPrefix')), ('SZ_PREFIX', sz('MqttTopicPrefix')),
        ('OFF_QOS', off('MqttQoS')), ('OFF_PPD', off('MqttPoolPublicationDelay')),
        ('STATE_MAX', 'STATE_MAXSIZE'),
        ('BTN_MONO', 'BTN_TYPE_MONOSTABLE'), ('BTN_BI', 'BTN_TYPE_BISTABLE'),
        ('FLAG_MQTT_ENABLED', 'CFG_FLAG_MQTT_ENABLED'), ('FLAG_MQTT_NO_RETAIN', 'CFG_FLAG_MQTT_NO_RETAIN'),
        ('FLAG_MQTT_TLS', 'CFG_FLAG_MQTT_TLS'), ('FLAG_MQTT_NO_AUTH', 'CFG_FLAG_MQTT_NO_AUTH'),
        ('PPD_MAX', 'MQTT_POOL_PUBLICATION_MAX_DELAY'),
        ('CHAR_IS_SIGNED', '((char)-1) < 0'),
    ],
    extra_names=['T0', 'H0', 'SLACK0', 'NARGS0', 'T1', 'H1', 'SLACK1', 'NARGS1', 'T2', 'H2', 'SLACK2', 'NARGS2',
                 'T3', 'H3', 'SLACK3', 'NARGS3', 'T4', 'H4', 'SLACK4', 'NARGS4', 'T5', 'H5', 'SLACK5', 'NARGS5',
                 'DSMSG', 'SELECTED', 'MQ_MAIN', 'NARGS6', 'MQ_HEADER', 'MQ_SVG', 'MQ_FOOTER', 'MQ_DS', 'MQ_DIV',
                 'MQ_DEFPORT', 'MQ_SELECTED', 'HTTP_HDR', 'HTTP_OK', 'SOFTVER'],
)


# ---------------------------------------------------------------------------------------------------------
# Group StateSites: every call site of supla_esp_set_state in the device sources (the "LAST STATE" text is printed
# by both pages).  Each message is either a string literal or a buffer filled by an ets_snprintf whose arguments are
# classified; an argument that is a secret field of supla_esp_cfg (or anything unrecognised) is a TRANSLATOR ERROR:
# such a change breaks the check before anything runs.  The wifi status messages are exported for the model.
import glob as _glob, os as _os, re as _re, subprocess as _sp

SECRET_FIELDS = ('WIFI_PWD', 'Password', 'LocationPwd', 'AuthKey')
PUBLIC_TEXT_FIELDS = ('WIFI_SSID', 'Server', 'Email', 'Username', 'MqttTopicPrefix')

def _cstr_lits(s):
    """adjacent C string literals -> bytes, or None"""
    s = s.strip()
    if not _re.fullmatch(r'(?:"(?:[^"\\]|\\.)*"\s*)+', s): return None
    out = b''
    for m in _re.finditer(r'"((?:[^"\\]|\\.)*)"', s):
        out += m.group(1).encode().decode('unicode_escape').encode('latin-1')
    return out

def _split_args(s):
    args = []; depth = 0; cur = ''; q = False
    for ch in s:
        if ch == '"': q = not q
        if not q:
            if ch in '([': depth += 1
            elif ch in ')]': depth -= 1
            elif ch == ',' and depth == 0: args.append(cur.strip()); cur = ''; continue
        cur += ch
    if cur.strip(): args.append(cur.strip())
    return args

def _classify(arg):
    """('field', NAME) | ('int', '') ; raises on secrets / unknown shapes"""
    for f in SECRET_FIELDS:
        if _re.search(r'\b%s\b' % f, arg): raise RuntimeError('state message formats the secret field %s (%s)' % (f, arg[:60]))
    if _re.search(r'passw|pwd|authkey|secret', arg, _re.I): raise RuntimeError('state message argument looks like a secret: %s' % arg[:60])
    m = _re.fullmatch(r'supla_esp_cfg\.(\w+)', arg)
    if m:
        if m.group(1) in PUBLIC_TEXT_FIELDS: return ('field', m.group(1))
        raise RuntimeError('state message formats supla_esp_cfg.%s: not classified' % m.group(1))
    if 'supla_esp_cfg' in arg: raise RuntimeError('state message argument reads the configuration: %s' % arg[:60])
    if _re.fullmatch(r'[\w\->\.\[\]\(\) ]+', arg): return ('int', '')
    raise RuntimeError('state message argument of unknown shape: %s' % arg[:60])

def _state_sites():
    sites = []
    for f in sorted(_glob.glob(G.REPO + '/src/user/*.c')):
        base = _os.path.basename(f)
        if base == 'supla_esp_state.c': continue
        r = _sp.run(['gcc', '-E', '-P', '-w'] + G.dev_flags(G.REPO, mqtt=True) + [f], capture_output=True, text=True)
        t = r.stdout if r.returncode == 0 else open(f, errors='replace').read()
        for m in _re.finditer(r'supla_esp_set_state\s*\(\s*([^,;]+?)\s*,\s*((?:"(?:[^"\\]|\\.)*"|[^;"])*?)\)\s*;', t, _re.S):
            arg = m.group(2).strip()
            if _re.match(r'(const\s+)?char', arg): continue            # the prototype
            lit = _cstr_lits(arg)
            if lit is not None:
                sites.append(dict(file=base, pos=m.start(), kind='lit', text=lit)); continue
            if not _re.fullmatch(r'\w+', arg): raise RuntimeError('%s: state message of unknown shape: %s' % (base, arg[:60]))
            # the closest preceding ets_snprintf into that buffer
            best = None
            for k in _re.finditer(r'ets_snprintf\s*\(\s*%s\s*,\s*([^,]+?)\s*,\s*((?:"(?:[^"\\]|\\.)*"\s*)+)((?:,(?:"(?:[^"\\]|\\.)*"|[^;"])*?)?)\)\s*;' % _re.escape(arg), t[:m.start()], _re.S):
                best = k
            if best is None: raise RuntimeError('%s: cannot find what fills the state message buffer %s' % (base, arg))
            fmt = _cstr_lits(best.group(2)); args = _split_args(best.group(3).lstrip(',')) if best.group(3) else []
            sites.append(dict(file=base, pos=m.start(), kind='fmt', text=fmt, size=best.group(1).strip(), args=[_classify(a) for a in args]))
    return sites

def _wifi_sites(sites_text):
    """the messages of supla_esp_wifi_check_status per status constant, and the one of supla_esp_wifi_station_connect"""
    f = G.REPO + '/src/user/supla_esp_wifi.c'
    r = _sp.run(['gcc', '-E', '-P', '-w'] + G.dev_flags(G.REPO, mqtt=True) + [f], capture_output=True, text=True)
    if r.returncode != 0: raise RuntimeError('cannot preprocess supla_esp_wifi.c')
    t = r.stdout
    d1 = _re.search(r'supla_esp_wifi_check_status\s*\([^)]*\)\s*\{', t); d2 = _re.search(r'supla_esp_wifi_station_connect\s*\([^)]*\)\s*\{', t)
    if not d1 or not d2 or d2.start() < d1.start(): raise RuntimeError('supla_esp_wifi.c: functions not found')
    body = t[d1.start():d2.start()]
    out = {}
    parts = _re.split(r'case\s+(STATION_\w+)\s*:', body)
    for i in range(1, len(parts), 2):
        st, blk = parts[i], parts[i + 1]
        blk = blk[:blk.index('break;')] if 'break;' in blk else blk
        if 'supla_esp_set_state' not in blk: continue
        out[st] = blk
    conn = t[d2.start():]
    conn = conn[:conn.index('wifi_station_disconnect')]
    return out, conn

try:
    _sites = _state_sites()
    _wblocks, _wconn = _wifi_sites(None)
    _lines = []
    _names = ['NSTATE_SITES', 'WIFI_SITES', 'WIFI_CONNECTING_MSG']
    _lines.append('  fprintf(stdout, "I NSTATE_SITES %d\\n");\n' % len(_sites))
    def _emit_s(name, b): return '  fprintf(stdout, "S %s%s\\n");\n' % (name, ''.join(' %d' % x for x in b))
    # wifi sites: rows  status kind(0 literal,1 format) bufsize argoffset index
    wi = 0
    for st, blk in sorted(_wblocks.items()):
        m = _re.search(r'supla_esp_set_state\s*\(\s*[^,;]+?\s*,\s*((?:"(?:[^"\\]|\\.)*"|[^;"])*?)\)\s*;', blk, _re.S)
        arg = m.group(1).strip(); lit = _cstr_lits(arg)
        if lit is not None:
            _lines.append('  fprintf(stdout, "L WIFI_SITES %%d 0 0 0 %d\\n", (int)%s);\n' % (wi, st))
            _lines.append(_emit_s('WIFI_MSG%d' % wi, lit))
        else:
            k = _re.search(r'ets_snprintf\s*\(\s*%s\s*,\s*([^,]+?)\s*,\s*((?:"(?:[^"\\]|\\.)*"\s*)+),\s*([^;]*?)\)\s*;' % _re.escape(arg), blk, _re.S)
            if not k: raise RuntimeError('wifi status %s: cannot find the format of the message' % st)
            args = _split_args(k.group(3)); cls = [_classify(a) for a in args]
            if len(cls) != 1 or cls[0][0] != 'field': raise RuntimeError('wifi status %s: message with arguments the model does not know: %s' % (st, k.group(3)[:60]))
            dm = _re.search(r'char\s+%s\s*\[([^\]]+)\]' % _re.escape(arg), blk)
            if not dm: raise RuntimeError('wifi status %s: buffer size not found' % st)
            _lines.append('  fprintf(stdout, "L WIFI_SITES %%d 1 %%d %%d %d\\n", (int)%s, (int)(%s), (int)offsetof(SuplaEspCfg, %s));\n' % (wi, st, dm.group(1), cls[0][1]))
            _lines.append(_emit_s('WIFI_MSG%d' % wi, _cstr_lits(k.group(2))))
        _names.append('WIFI_MSG%d' % wi); wi += 1
    while wi < 4:      # fixed number of names for the Coq side
        _lines.append(_emit_s('WIFI_MSG%d' % wi, b'')); _names.append('WIFI_MSG%d' % wi); wi += 1
    m = _re.search(r'supla_esp_set_state\s*\(\s*[^,;]+?\s*,\s*((?:"(?:[^"\\]|\\.)*"\s*)+)\)\s*;', _wconn, _re.S)
    if not m: raise RuntimeError('supla_esp_wifi_station_connect: state message not a literal')
    _lines.append(_emit_s('WIFI_CONNECTING_MSG', _cstr_lits(m.group(1))))
    _spre = '#include <stddef.h>\n#include <os_type.h>\n#include <osapi.h>\n#include <user_interface.h>\n#include <supla_esp.h>\n#include <supla_esp_cfg.h>\n'
    _sbody = ''.join(_lines)
except Exception as ex:
    _spre = '#error C15 translator (state messages): %s\n' % str(ex).replace('\n', ' ').replace('"', "'")[:220]
    _sbody = ''; _names = []

G.GROUPS['StateSites'] = dict(
    mqtt=True, pre=_spre, body=_sbody,
    ints=[('ST_IDLE', 'STATION_IDLE'), ('ST_CONNECTING', 'STATION_CONNECTING'), ('ST_WRONG_PASSWORD', 'STATION_WRONG_PASSWORD'),
          ('ST_NO_AP_FOUND', 'STATION_NO_AP_FOUND'), ('ST_CONNECT_FAIL', 'STATION_CONNECT_FAIL'), ('ST_GOT_IP', 'STATION_GOT_IP')],
    extra_names=_names,
)
