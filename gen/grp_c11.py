"""C11 — constants of the input subsystem, regenerated from /repo on every run."""
import gen as G
import os, re

def _pins():
    """literals of the sources that have no macro: read them from the working tree so that the model follows them.
    Never raises (other properties share the loader): a literal that is not found becomes a C expression that does
    not compile, i.e. a translator failure of THIS group only."""
    def body(path, name):
        t = open(os.path.join(G.REPO, path)).read()
        for m in re.finditer(re.escape(name) + r'\s*\(', t):
            k = m.end(); e = min([x for x in (t.find(';', k), t.find('{', k)) if x >= 0] or [len(t)])
            if e < len(t) and t[e] == '{':
                j = t.find('\n}\n', e)
                return t[e:j if j >= 0 else len(t)]
        return ''
    def one(lst, name): return lst[0] if len(lst) == 1 else 'C11_PIN_NOT_FOUND_' + name
    try:
        hi = body('src/user/supla_esp_gpio.c', 'supla_esp_gpio_relay_hi')
        d = re.findall(r'os_delay_us\((\d+)\)', hi)
        d1, d2 = (d[0], d[1]) if len(d) == 2 else ('C11_PIN_NOT_FOUND_relay_hi_delays', 'C11_PIN_NOT_FOUND_relay_hi_delays')
        leg = body('src/user/supla_esp_input.c', 'supla_esp_input_legacy_state_change_handling')
        r = ['(%s * %s)' % x for x in re.findall(r'last_state_change\s*>=\s*(\d+)\s*\*\s*(\d+)', leg)]
        ini = open(os.path.join(G.REPO, 'src/user/supla_esp_gpio.c')).read()
        m = re.findall(r'supla_motion_sensor_init_timer,\s*INPUT_SILENT_STARTUP_TIME_MS\s*\+\s*(\d+)\s*,\s*0\)', ini)
        return [('RELAY_D1_US', d1), ('RELAY_D2_US', d2), ('CFG_COUNT_RESET_US_', one(r, 'toggle_reset_time')),
                ('MOTION_INIT_EXTRA_MS', one(m, 'motion_timer'))]
    except Exception as e:
        return [('RELAY_D1_US', 'C11_PIN_ERROR'), ('RELAY_D2_US', 'C11_PIN_ERROR'), ('CFG_COUNT_RESET_US_', 'C11_PIN_ERROR'), ('MOTION_INIT_EXTRA_MS', 'C11_PIN_ERROR')]

G.GROUPS['InputConsts'] = dict(
    pre='#include <stddef.h>\n#include <proto.h>\n#include <supla_esp.h>\n#include <supla_esp_input.h>\n#include <supla_esp_gpio.h>\n',
    ints=[
        ('CYCLE_MS', 'INPUT_CYCLE_TIME'),
        ('MIN_CYCLE_COUNT', 'INPUT_MIN_CYCLE_COUNT'),
        ('HOLD_MS', 'BTN_HOLD_TIME_MS'),
        ('MULTICLICK_MS', 'BTN_MULTICLICK_TIME_MS'),
        ('CFG_PRESS_MS', 'CFG_BTN_PRESS_TIME'),
        ('CFG_PRESS_COUNT', 'CFG_BTN_PRESS_COUNT'),
        ('SILENT_MS', 'INPUT_SILENT_STARTUP_TIME_MS'),
        ('ST_ACTIVE', 'INPUT_STATE_ACTIVE'),
        ('ST_INACTIVE', 'INPUT_STATE_INACTIVE'),
        ('FLAG_PULLUP', 'INPUT_FLAG_PULLUP'),
        ('FLAG_CFG_BTN', 'INPUT_FLAG_CFG_BTN'),
        ('FLAG_FACTORY_RESET', 'INPUT_FLAG_FACTORY_RESET'),
        ('FLAG_DISABLE_INTR', 'INPUT_FLAG_DISABLE_INTR'),
        ('FLAG_TRIGGER_ON_PRESS', 'INPUT_FLAG_TRIGGER_ON_PRESS'),
        ('FLAG_CFG_ON_TOGGLE', 'INPUT_FLAG_CFG_ON_TOGGLE'),
        ('FLAG_CFG_ON_HOLD', 'INPUT_FLAG_CFG_ON_HOLD'),
        ('TYPE_SENSOR', 'INPUT_TYPE_SENSOR'),
        ('TYPE_MONOSTABLE', 'INPUT_TYPE_BTN_MONOSTABLE'),
        ('TYPE_BISTABLE', 'INPUT_TYPE_BTN_BISTABLE'),
        ('TYPE_MOTION', 'INPUT_TYPE_MOTION_SENSOR'),
        ('CAP_TURN_ON', 'SUPLA_ACTION_CAP_TURN_ON'),
        ('CAP_TURN_OFF', 'SUPLA_ACTION_CAP_TURN_OFF'),
        ('CAP_TOGGLE_x1', 'SUPLA_ACTION_CAP_TOGGLE_x1'),
        ('CAP_TOGGLE_x2', 'SUPLA_ACTION_CAP_TOGGLE_x2'),
        ('CAP_TOGGLE_x3', 'SUPLA_ACTION_CAP_TOGGLE_x3'),
        ('CAP_TOGGLE_x4', 'SUPLA_ACTION_CAP_TOGGLE_x4'),
        ('CAP_TOGGLE_x5', 'SUPLA_ACTION_CAP_TOGGLE_x5'),
        ('CAP_HOLD', 'SUPLA_ACTION_CAP_HOLD'),
        ('CAP_PRESS_x1', 'SUPLA_ACTION_CAP_SHORT_PRESS_x1'),
        ('CAP_PRESS_x2', 'SUPLA_ACTION_CAP_SHORT_PRESS_x2'),
        ('CAP_PRESS_x3', 'SUPLA_ACTION_CAP_SHORT_PRESS_x3'),
        ('CAP_PRESS_x4', 'SUPLA_ACTION_CAP_SHORT_PRESS_x4'),
        ('CAP_PRESS_x5', 'SUPLA_ACTION_CAP_SHORT_PRESS_x5'),
        ('MOTION_INIT_MS', 'INPUT_SILENT_STARTUP_TIME_MS + %s' % dict(_pins())['MOTION_INIT_EXTRA_MS']),
        ('RELAY_DOUBLE_TRY_US', 'RELAY_DOUBLE_TRY'),
        ('CALL_ACTIONTRIGGER', 'SUPLA_DS_CALL_ACTIONTRIGGER'),
        ('CALL_VALUE_CHANGED', 'SUPLA_DS_CALL_DEVICE_CHANNEL_VALUE_CHANGED'),
        ('SIZEOF_CLICK_COUNTER', 'sizeof(((supla_input_cfg_t*)0)->click_counter)'),
        ('SIZEOF_DEBOUNCE_STEP', 'sizeof(((supla_input_cfg_t*)0)->debounce_step)'),
    ] + _pins(),
)
