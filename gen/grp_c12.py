"""Translator group for C12: protocol / input constants, struct layouts, and the CALL-SITE lists of the
choke-point functions (who can start configuration mode / factory defaults / calibration resets) plus the
callee list of the server-message dispatcher.  Everything is re-derived from the working tree of /repo:
constants by a C probe, call sites from the LLVM IR (`clang -S -emit-llvm -O0`) of every device source file
of the configuration (src/user/*.c that the harness links + user_main.c), so macros/ifdefs are resolved the
way the device build resolves them."""
import os, re, subprocess
import gen as G

# ---- function-name tables (ids are arbitrary but fixed; an unknown name gets id 0 + its characters) ----
CALLEES = [  # choke points
    'supla_esp_cfgmode_start', 'supla_esp_cfgmode_start_with_timeout', 'supla_esp_input_start_cfg_mode',
    'factory_defaults', 'supla_esp_gpio_rs_start_autoCal', 'supla_esp_gpio_rs_apply_new_times',
    'supla_esp_gpio_rs_apply_new__times', 'cfgmode_vars',
]
FUNCS = CALLEES + [
    'supla_esp_calcfg_request', 'supla_esp_input_legacy_state_change_handling', 'supla_esp_input_legacy_timer_cb',
    'supla_esp_input_advanced_state_change_handling', 'supla_esp_input_advanced_timer_cb', 'user_init',
    'supla_esp_cfg_init', 'supla_esp_gpio_rs_task_processing', 'supla_esp_channel_set_value',
    'supla_esp_gpio_rs_apply_new_config', 'supla_esp_gpio_fb_apply_new_config',
    'supla_esp_cfgmode_enter_ap_mode', 'supla_esp_connectcb', 'supla_esp_cfgmode_started',
    'supla_esp_cfgmode_entertime', 'supla_esp_cfgmode_clear_vars', 'supla_esp_recv_callback',
    # handlers reachable from the dispatcher
    'supla_esp_on_remote_call_received', 'srpc_getdata', 'srpc_rd_free', 'uptime_sec', 'supla_log',
    'supla_esp_on_version_error', 'supla_esp_on_register_result', 'supla_esp_channelgroup_set_value',
    'supla_esp_channel_set_activity_timeout_result', 'supla_esp_update_url_result', 'supla_esp_get_channel__state',
    'supla_esp_channel_config_result', 'srpc_ds_async_set_channel_config_result', 'supla_esp_set_channel_config', 'memset',
]
FID = {n: i + 1 for i, n in enumerate(FUNCS)}

USER_FILES = ['supla_esp_gpio', 'supla_esp_input', 'supla_esp_cfg', 'supla_esp_cfgmode', 'supla_esp_cfgmode_html',
              'supla_esp_state', 'supla_update', 'supla_esp_countdown_timer', 'supla_esp_dns_client',
              'supla_esp_wifi', 'uptime', 'supla_esp_rs_fb', 'supla_esp_devconn', 'user_main']

def _ir_refs(path):
    """{function or '<global>': set(referenced global symbols)} of one C file"""
    cmd = ['clang', '-S', '-emit-llvm', '-O0', '-w', '-o', '-'] + G.dev_flags(G.REPO) + ['-DSPI_FLASH_SIZE_MAP=2', '-DVERIF_RETREIVE_CHANNEL_CONFIG', path]
    r = subprocess.run(cmd, capture_output=True, text=True)
    if r.returncode != 0:
        raise RuntimeError('clang -emit-llvm failed for %s: %s' % (path, r.stderr[-800:]))
    refs = {}; cur = None
    funcs = set(re.findall(r'^(?:define|declare)\s.*?@([A-Za-z_$][\w$.]*)\s*\(', r.stdout, flags=re.M))
    refs['<functions>'] = funcs
    for line in r.stdout.splitlines():
        if line.startswith('define '):
            m = re.search(r'@([A-Za-z_$][\w$.]*)\s*\(', line)
            cur = m.group(1) if m else '?'
            refs.setdefault(cur, set())
            continue
        if line.startswith('}'):
            cur = None; continue
        if cur is not None:
            for s in re.findall(r'@([A-Za-z_$][\w$.]*)', line): refs[cur].add(s)
        elif line.startswith('@'):
            m = re.match(r'@([A-Za-z_$][\w$.]*)\s*=', line)
            if m:
                rest = line[m.end():]
                for s in re.findall(r'@([A-Za-z_$][\w$.]*)', rest): refs.setdefault('<global>', set()).add(s)
    return refs

def _row(name, ids):
    return '  fprintf(stdout, "L %s %s\\n");\n' % (name, ' '.join(str(i) for i in ids))

def _enc(fn):
    return [FID[fn]] if fn in FID else [0] + [ord(c) for c in fn]

def _make_body():
    callsites = set(); dispatch = set()
    for f in USER_FILES:
        p = os.path.join(G.REPO, 'src', 'user', f + '.c')
        if not os.path.exists(p):
            continue
        refs = _ir_refs(p); funcs = refs.pop('<functions>')
        for caller, syms in refs.items():
            for s in syms:
                if s in CALLEES and s != caller:
                    callsites.add((FID[s],) + tuple(_enc(caller)))
            if caller == 'supla_esp_on_remote_call_received':
                for s in syms:
                    if s in funcs and not s.startswith('llvm.'):      # functions only (not the static variables / string constants)
                        dispatch.add(tuple(_enc(s)))
    body = ''.join(_row('CALLSITES', r) for r in sorted(callsites))
    body += ''.join(_row('DISPATCH', r) for r in sorted(dispatch))
    d, r = _sat_shape()
    body += '  fprintf(stdout, "I SAT_DISARM_GUARDED %d\\n");\n' % d
    body += '  fprintf(stdout, "I SAT_RESET_GUARDED %d\\n");\n' % r
    body += '  fprintf(stdout, "I CHAIN_WINDOW_US %d\\n");\n' % _chain_window_us()
    body += _shape_lines()
    body += _boot_lines()
    # (call id, payload size accepted by srpc_getdata) of the calls a device handles: only for the case generator (json)
    for cid, size in VALID_SIZES:
        body += '  fprintf(stdout, "L VALIDSIZES %%d %%d\\n", (int)(%s), (int)(%s));\n' % (cid, size)
    return body

VALID_SIZES = [
    ('SUPLA_SDC_CALL_VERSIONERROR', 'sizeof(TSDC_SuplaVersionError)'),
    ('SUPLA_SDC_CALL_SET_ACTIVITY_TIMEOUT_RESULT', 'sizeof(TSDC_SuplaSetActivityTimeoutResult)'),
    ('SUPLA_SD_CALL_GET_FIRMWARE_UPDATE_URL_RESULT', 'sizeof(TSD_FirmwareUpdate_UrlResult)'),
    ('SUPLA_SD_CALL_GET_FIRMWARE_UPDATE_URL_RESULT', 'sizeof(char)'),
    ('SUPLA_CSD_CALL_GET_CHANNEL_STATE', 'sizeof(TCSD_ChannelStateRequest)'),
    ('SUPLA_SDC_CALL_PING_SERVER_RESULT', 'sizeof(TSDC_SuplaPingServerResult)'),
    ('SUPLA_SDC_CALL_GETVERSION_RESULT', 'sizeof(TSDC_SuplaGetVersionResult)'),
    ('SUPLA_SD_CALL_REGISTER_DEVICE_RESULT', 'sizeof(TSD_SuplaRegisterDeviceResult)'),
    ('SUPLA_SD_CALL_CHANNEL_SET_VALUE', 'sizeof(TSD_SuplaChannelNewValue)'),
    ('SUPLA_SD_CALL_CHANNELGROUP_SET_VALUE', 'sizeof(TSD_SuplaChannelGroupNewValue)'),
    ('SUPLA_SD_CALL_GET_CHANNEL_FUNCTIONS_RESULT', 'sizeof(TSD_ChannelFunctions) - sizeof(_supla_int_t) * SUPLA_CHANNELMAXCOUNT'),
    ('SUPLA_SD_CALL_SET_CHANNEL_CONFIG', 'sizeof(TSD_ChannelConfig) - SUPLA_CHANNEL_CONFIG_MAXSIZE'),
    ('SUPLA_SD_CALL_GET_CHANNEL_CONFIG_RESULT', 'sizeof(TSD_ChannelConfig) - SUPLA_CHANNEL_CONFIG_MAXSIZE'),
    ('SUPLA_SD_CALL_CHANNEL_CONFIG_FINISHED', 'sizeof(TSD_ChannelConfigFinished)'),
    ('SUPLA_SD_CALL_SET_CHANNEL_CONFIG_RESULT', 'sizeof(TSDS_SetChannelConfigResult)'),
    ('SUPLA_DCS_CALL_GET_USER_LOCALTIME_RESULT', 'sizeof(TSDC_UserLocalTimeResult) - SUPLA_TIMEZONE_MAXSIZE'),
]

def _sat_shape():
    """where, inside supla_esp_input_set_active_triggers, the timer is disarmed and the click counter reset:
    1 = only inside the `if (prev_triggers != input_cfg->active_triggers)` block, 0 = (also) elsewhere / missing"""
    src = open(os.path.join(G.REPO, 'src', 'user', 'supla_esp_input.c')).read()
    src = re.sub(r'/\*.*?\*/', '', src, flags=re.S); src = re.sub(r'//[^\n]*', '', src)
    m = re.search(r'supla_esp_input_set_active_triggers\s*\([^)]*\)\s*\{', src)
    if not m: return 0, 0
    i = m.end(); depth = 1
    while i < len(src) and depth:
        depth += {'{': 1, '}': -1}.get(src[i], 0); i += 1
    body = src[m.end():i]
    g = re.search(r'if\s*\(\s*prev_triggers\s*!=\s*input_cfg->active_triggers\s*\)\s*\{', body)
    if not g: return 0, 0
    j = g.end(); depth = 1
    while j < len(body) and depth:
        depth += {'{': 1, '}': -1}.get(body[j], 0); j += 1
    inner = body[g.end():j]; outer = body[:g.start()] + body[j:]
    def only_inner(pat): return 1 if (len(re.findall(pat, inner)) == 1 and not re.findall(pat, outer)) else 0
    return (only_inner(r'os_timer_disarm\s*\(\s*&\s*input_cfg->timer\s*\)'), only_inner(r'input_cfg->click_counter\s*=\s*0\s*;'))

def _chain_window_us():
    """the literal of the ten-toggle chaining test in supla_esp_input_legacy_state_change_handling:
    `system_get_time() - input_cfg->last_state_change >= A * B` -> A*B (microseconds); 0 when the test is not found in that form"""
    src = open(os.path.join(G.REPO, 'src', 'user', 'supla_esp_input.c')).read()
    src = re.sub(r'/\*.*?\*/', '', src, flags=re.S); src = re.sub(r'//[^\n]*', '', src)
    m = re.search(r'supla_esp_input_legacy_state_change_handling\s*\([^)]*\)\s*\{', src)
    if not m: return 0
    body = src[m.end():]
    g = re.search(r'\(\s*\(?\s*system_get_time\s*\(\s*\)\s*-\s*input_cfg->last_state_change\s*>=\s*(\d+)\s*\*\s*(\d+)\s*\)', body)
    return int(g.group(1)) * int(g.group(2)) if g else 0

# source-shape pins: (constant, file, function, regex) -> number of matches inside the comment-stripped body of that function
SHAPES = [
    ('SHAPE_CALCFG_AUTH_EQ_1', 'supla_esp_devconn.c', 'supla_esp_calcfg_request', r'request->SuperUserAuthorized\s*==\s*1\b'),
    ('SHAPE_CALCFG_NOT_AUTH', 'supla_esp_devconn.c', 'supla_esp_calcfg_request', r'!\s*request->SuperUserAuthorized\b'),
    ('SHAPE_CALCFG_AUTH_USES', 'supla_esp_devconn.c', 'supla_esp_calcfg_request', r'SuperUserAuthorized'),
    ('SHAPE_CALCFG_CMD_ENTER', 'supla_esp_devconn.c', 'supla_esp_calcfg_request', r'request->Command\s*==\s*SUPLA_CALCFG_CMD_ENTER_CFG_MODE\b'),
    ('SHAPE_CALCFG_CMD_RECAL', 'supla_esp_devconn.c', 'supla_esp_calcfg_request', r'request->Command\s*==\s*SUPLA_CALCFG_CMD_RECALIBRATE\b'),
    ('SHAPE_CALCFG_START', 'supla_esp_devconn.c', 'supla_esp_calcfg_request', r'supla_esp_cfgmode_start_with_timeout\s*\(\s*\)'),
    ('SHAPE_LTIMER_HOLD_TEST', 'supla_esp_input.c', 'supla_esp_input_legacy_timer_cb',
     r'system_get_time\s*\(\s*\)\s*-\s*input_cfg->last_state_change\s*>=\s*GET_CFG_PRESS_TIME\s*\(\s*input_cfg\s*\)\s*\*\s*1000\b'),
    ('SHAPE_LTIMER_NOT_STARTED', 'supla_esp_input.c', 'supla_esp_input_legacy_timer_cb', r'if\s*\(\s*supla_esp_cfgmode_started\s*\(\s*\)\s*==\s*0\s*\)'),
    ('SHAPE_LTIMER_ELSE_FACTORY', 'supla_esp_input.c', 'supla_esp_input_legacy_timer_cb',
     r'\}\s*else\s+if\s*\(\s*input_cfg->flags\s*&\s*INPUT_FLAG_FACTORY_RESET\s*\)'),
    ('SHAPE_LTIMER_ACTIVE', 'supla_esp_input.c', 'supla_esp_input_legacy_timer_cb', r'input_cfg->last_state\s*==\s*INPUT_STATE_ACTIVE'),
    ('SHAPE_LTIMER_HOLD_ENABLED', 'supla_esp_input.c', 'supla_esp_input_legacy_timer_cb', r'supla_esp_input_is_cfg_on_hold_enabled\s*\(\s*input_cfg\s*\)'),
    ('SHAPE_ATIMER_HOLD_TEST', 'supla_esp_input.c', 'supla_esp_input_advanced_timer_cb', r'delta_time\s*>=\s*GET_CFG_PRESS_TIME\s*\(\s*input_cfg\s*\)\s*\*\s*1000\b'),
    ('SHAPE_ATIMER_MULTICLICK_TEST', 'supla_esp_input.c', 'supla_esp_input_advanced_timer_cb', r'delta_time\s*>=\s*btn_multiclick_time_ms\s*\*\s*1000\b'),
    ('SHAPE_ATIMER_DELTA', 'supla_esp_input.c', 'supla_esp_input_advanced_timer_cb',
     r'unsigned\s+int\s+delta_time\s*=\s*system_get_time\s*\(\s*\)\s*-\s*input_cfg->last_state_change\s*;'),
    ('SHAPE_LEGACY_COUNT_TEST', 'supla_esp_input.c', 'supla_esp_input_legacy_state_change_handling',
     r'supla_esp_input_is_cfg_on_toggle_enabled\s*\(\s*input_cfg\s*\)\s*&&\s*input_cfg->click_counter\s*>=\s*CFG_BTN_PRESS_COUNT\b'),
    ('SHAPE_ADV_COUNT_TEST', 'supla_esp_input.c', 'supla_esp_input_advanced_state_change_handling', r'input_cfg->click_counter\s*>=\s*CFG_BTN_PRESS_COUNT\b'),
    ('SHAPE_ADV_TOGGLE_GUARD', 'supla_esp_input.c', 'supla_esp_input_advanced_state_change_handling', r'if\s*\(\s*supla_esp_input_is_cfg_on_toggle_enabled\s*\(\s*input_cfg\s*\)\s*\)'),
    ('SHAPE_HOLD_PRED_CFG_BTN', 'supla_esp_input.c', 'supla_esp_input_is_cfg_on_hold_enabled', r'!\s*\(\s*input_cfg->flags\s*&\s*INPUT_FLAG_CFG_BTN\s*\)'),
    ('SHAPE_HOLD_PRED_MONO', 'supla_esp_input.c', 'supla_esp_input_is_cfg_on_hold_enabled', r'input_cfg->type\s*==\s*INPUT_TYPE_BTN_MONOSTABLE'),
    ('SHAPE_TOGGLE_PRED_CFG_BTN', 'supla_esp_input.c', 'supla_esp_input_is_cfg_on_toggle_enabled', r'!\s*\(\s*input_cfg->flags\s*&\s*INPUT_FLAG_CFG_BTN\s*\)'),
    ('SHAPE_START_GUARD', 'supla_esp_input.c', 'supla_esp_input_start_cfg_mode', r'if\s*\(\s*supla_esp_cfgmode_started\s*\(\s*\)\s*==\s*0\s*\)'),
    ('SHAPE_CFGMODE_START_GUARD', 'supla_esp_cfgmode.c', 'supla_esp_cfgmode_start', r'if\s*\(\s*cfgmode_vars\.entertime\s*!=\s*0\s*\)\s*return\s*;'),
    ('SHAPE_FACTORY_KEEPS_ID', 'supla_esp_cfg.c', 'factory_defaults', r'memcpy\s*\(\s*supla_esp_cfg\.(GUID|AuthKey|TAG)\s*,'),
    ('SHAPE_CFGINIT_VALID_TEST', 'supla_esp_cfg.c', 'supla_esp_cfg_init',
     r'memcmp\s*\(\s*supla_esp_cfg\.TAG\s*,\s*TAG\s*,\s*6\s*\)\s*==\s*0\s*&&\s*memcmp\s*\(\s*supla_esp_cfg\.AuthKey\s*,\s*AuthKey\s*,\s*SUPLA_AUTHKEY_SIZE\s*\)\s*!=\s*0\s*&&\s*memcmp\s*\(\s*supla_esp_cfg\.GUID\s*,\s*GUID\s*,\s*SUPLA_GUID_SIZE\s*\)\s*!=\s*0'),
    ('SHAPE_BOOT_COND', 'user_main.c', 'user_init',
     r'\(\s*\(\s*supla_esp_cfg\.LocationID\s*==\s*0\s*\|\|\s*supla_esp_cfg\.LocationPwd\[0\]\s*==\s*0\s*\)\s*&&\s*supla_esp_cfg\.Email\[0\]\s*==\s*0\s*\)\s*\|\|\s*supla_esp_cfg\.Server\[0\]\s*==\s*0\s*\|\|\s*supla_esp_cfg\.WIFI_PWD\[0\]\s*==\s*0\s*\|\|\s*supla_esp_cfg\.WIFI_SSID\[0\]\s*==\s*0\s*\)\s*\{\s*supla_esp_cfgmode_start\s*\(\s*\)\s*;\s*return\s*;'),
    ('SHAPE_SETCH_RECAL_FLAG', 'supla_esp_devconn.c', 'supla_esp_devconn_set_channels', r'Flags\s*\|=\s*SUPLA_CHANNEL_FLAG_CALCFG_RECALIBRATE'),
]
def _fn_body(fname, fn):
    src = open(os.path.join(G.REPO, 'src', 'user', fname)).read()
    src = re.sub(r'/\*.*?\*/', '', src, flags=re.S); src = re.sub(r'//[^\n]*', '', src)
    for m in re.finditer(r'\b' + re.escape(fn) + r'\s*\([^;{)]*\)\s*\{', src):
        i = m.end(); depth = 1
        while i < len(src) and depth:
            depth += {'{': 1, '}': -1}.get(src[i], 0); i += 1
        return src[m.end():i]
    return ''
def _shape_lines():
    out = ''
    for name, fname, fn, rx in SHAPES:
        out += '  fprintf(stdout, "I %s %d\\n");\n' % (name, len(re.findall(rx, _fn_body(fname, fn))))
    return out

# ---- boot decision of user_init(): truth tables of the `if (...) { ... supla_esp_cfgmode_start(); return; }` conditions ----
# The condition text is cut out of the (comment-stripped) source, its atoms (`X[0] == 0`, `LocationID == 0`, `Flags & CFG_FLAG_Y`)
# are replaced by variables and the remaining pure boolean formula (only ( ) ! && ||, same precedence in C and here) is evaluated
# for every assignment: bit (sum atom_i << i) of the table = "configuration mode is started".  Any other token, an unknown atom or a
# different number of such `if`s gives -1, so every change of the guard structure changes the constants the proofs fix.
BOOT_ATOMS_MQTT = ['E_WIFI_SSID', 'E_WIFI_PWD', 'F_CFG_FLAG_MQTT_ENABLED', 'E_Server', 'F_CFG_FLAG_MQTT_NO_AUTH', 'E_Username', 'E_Password', 'E_Email']
BOOT_ATOMS_LOCK = ['F_CFG_FLAG_MQTT_ENABLED', 'F_CFG_FLAG_DEVICE_LOCKED']
BOOT_ATOMS_SUPLA = ['E_WIFI_SSID', 'E_WIFI_PWD', 'E_Server', 'E_Email', 'E_LocationID', 'E_LocationPwd']
def _boot_conds():
    """condition texts of the ifs of user_init() whose block calls supla_esp_cfgmode_start(), split by preprocessor branch"""
    src = open(os.path.join(G.REPO, 'src', 'user', 'user_main.c')).read()
    src = re.sub(r'/\*.*?\*/', '', src, flags=re.S); src = re.sub(r'//[^\n]*', '', src)
    m = re.search(r'\buser_init\s*\([^;{)]*\)\s*\{', src)
    if not m: return None
    body = src[m.end():]
    res = {'mqtt': [], 'plain': []}
    # the decision sits in  #ifdef MQTT_SUPPORT_ENABLED <ifs> #else <if> #endif
    for blk in re.finditer(r'#ifdef\s+MQTT_SUPPORT_ENABLED\b(.*?)#endif', body, flags=re.S):
        parts = re.split(r'#else\b', blk.group(1))
        for key, txt in zip(('mqtt', 'plain'), parts):
            for im in re.finditer(r'\bif\s*\(', txt):
                i = im.end(); depth = 1
                while i < len(txt) and depth:
                    depth += {'(': 1, ')': -1}.get(txt[i], 0); i += 1
                cond = txt[im.end():i - 1]
                b = re.match(r'\s*\{([^{}]*)\}', txt[i:])
                if b and re.search(r'\bsupla_esp_cfgmode_start\s*\(\s*\)\s*;', b.group(1)): res[key].append(cond)
    return res
def _truth_table(cond, atoms):
    t = cond
    t = re.sub(r'supla_esp_cfg\.(\w+)\s*\[\s*0\s*\]\s*==\s*0\b', r' E_\1 ', t)
    t = re.sub(r'supla_esp_cfg\.LocationID\s*==\s*0\b', ' E_LocationID ', t)
    t = re.sub(r'supla_esp_cfg\.Flags\s*&\s*(CFG_FLAG_\w+)', r' F_\1 ', t)
    toks = re.findall(r'[A-Za-z_]\w*|&&|\|\||!(?!=)|\(|\)|\S', t)
    py = []
    for k in toks:
        if k in atoms: py.append('v[%d]' % atoms.index(k))
        elif k == '&&': py.append(' and ')
        elif k == '||': py.append(' or ')
        elif k == '!': py.append(' not ')
        elif k in '()': py.append(k)
        else: return -1
    expr = ''.join(py); tt = 0
    try:
        for a in range(1 << len(atoms)):
            v = [bool((a >> i) & 1) for i in range(len(atoms))]
            if eval(expr, {'__builtins__': {}}, {'v': v}): tt |= 1 << a
    except Exception:
        return -1
    return tt
def _boot_lines():
    c = _boot_conds() or {'mqtt': [], 'plain': []}
    mq = _truth_table(c['mqtt'][0], BOOT_ATOMS_MQTT) if len(c['mqtt']) == 2 else -1
    lk = _truth_table(c['mqtt'][1], BOOT_ATOMS_LOCK) if len(c['mqtt']) == 2 else -1
    pl = _truth_table(c['plain'][0], BOOT_ATOMS_SUPLA) if len(c['plain']) == 1 else -1
    return ''.join('  fprintf(stdout, "I %s %d\\n");\n' % (n, v) for n, v in (('BOOT_TT_MQTT', mq), ('BOOT_TT_LOCKED', lk), ('BOOT_TT_PLAIN', pl)))

class _LazyGroup(dict):
    """the call-site scan runs only when this group is actually generated"""
    def get(self, k, d=None):
        if k == 'body':
            return _make_body()
        return dict.get(self, k, d)

_PRE = r'''
#include <stddef.h>
#include <proto.h>
#include <supla_esp.h>
#include <supla_esp_input.h>
#include <supla_esp_cfg.h>
#include <supla_esp_gpio.h>
#include <supla_esp_rs_fb.h>
#include <supla_esp_devconn.h>
'''

def _off(t, f): return 'offsetof(%s, %s)' % (t, f)

G.GROUPS['C12Consts'] = _LazyGroup(
    pre=_PRE,
    ints=[
        # call ids
        ('CALL_CALCFG_REQUEST', 'SUPLA_SD_CALL_DEVICE_CALCFG_REQUEST'),
        ('CALL_CALCFG_RESULT', 'SUPLA_DS_CALL_DEVICE_CALCFG_RESULT'),
        ('CALL_SET_VALUE', 'SUPLA_SD_CALL_CHANNEL_SET_VALUE'),
        ('CALL_GROUP_SET_VALUE', 'SUPLA_SD_CALL_CHANNELGROUP_SET_VALUE'),
        ('CALL_REGISTER_RESULT', 'SUPLA_SD_CALL_REGISTER_DEVICE_RESULT'),
        ('CALL_VERSIONERROR', 'SUPLA_SDC_CALL_VERSIONERROR'),
        ('RESULTCODE_TRUE_', 'SUPLA_RESULTCODE_TRUE'),
        # CALCFG
        ('CMD_ENTER_CFG_MODE', 'SUPLA_CALCFG_CMD_ENTER_CFG_MODE'),
        ('CMD_RECALIBRATE', 'SUPLA_CALCFG_CMD_RECALIBRATE'),
        ('DATATYPE_RS_SETTINGS', 'SUPLA_CALCFG_DATATYPE_RS_SETTINGS'),
        ('RES_DONE', 'SUPLA_CALCFG_RESULT_DONE'),
        ('RES_UNAUTHORIZED', 'SUPLA_CALCFG_RESULT_UNAUTHORIZED'),
        ('RES_NOT_SUPPORTED', 'SUPLA_CALCFG_RESULT_NOT_SUPPORTED'),
        ('CALCFG_DATA_MAX', 'SUPLA_CALCFG_DATA_MAXSIZE'),
        ('REQ_SIZE', 'sizeof(TSD_DeviceCalCfgRequest)'),
        ('REQ_OFF_SENDER', _off('TSD_DeviceCalCfgRequest', 'SenderID')),
        ('REQ_OFF_CHANNEL', _off('TSD_DeviceCalCfgRequest', 'ChannelNumber')),
        ('REQ_OFF_COMMAND', _off('TSD_DeviceCalCfgRequest', 'Command')),
        ('REQ_OFF_AUTH', _off('TSD_DeviceCalCfgRequest', 'SuperUserAuthorized')),
        ('REQ_OFF_DATATYPE', _off('TSD_DeviceCalCfgRequest', 'DataType')),
        ('REQ_OFF_DATASIZE', _off('TSD_DeviceCalCfgRequest', 'DataSize')),
        ('REQ_OFF_DATA', _off('TSD_DeviceCalCfgRequest', 'Data')),
        ('RSSET_SIZE', 'sizeof(TCalCfg_RollerShutterSettings)'),
        ('RSSET_OFF_OPEN', _off('TCalCfg_RollerShutterSettings', 'FullOpeningTimeMS')),
        ('RSSET_OFF_CLOSE', _off('TCalCfg_RollerShutterSettings', 'FullClosingTimeMS')),
        ('RESULT_SIZE', 'sizeof(TDS_DeviceCalCfgResult)'),
        ('RESULT_OFF_RECEIVER', _off('TDS_DeviceCalCfgResult', 'ReceiverID')),
        ('RESULT_OFF_CHANNEL', _off('TDS_DeviceCalCfgResult', 'ChannelNumber')),
        ('RESULT_OFF_COMMAND', _off('TDS_DeviceCalCfgResult', 'Command')),
        ('RESULT_OFF_RESULT', _off('TDS_DeviceCalCfgResult', 'Result')),
        ('RESULT_OFF_DATASIZE', _off('TDS_DeviceCalCfgResult', 'DataSize')),
        # set value
        ('NV_SIZE', 'sizeof(TSD_SuplaChannelNewValue)'),
        ('NV_OFF_CHANNEL', _off('TSD_SuplaChannelNewValue', 'ChannelNumber')),
        ('NV_OFF_DURATION', _off('TSD_SuplaChannelNewValue', 'DurationMS')),
        ('NV_OFF_VALUE', _off('TSD_SuplaChannelNewValue', 'value')),
        ('GNV_SIZE', 'sizeof(TSD_SuplaChannelGroupNewValue)'),
        ('GNV_OFF_CHANNEL', _off('TSD_SuplaChannelGroupNewValue', 'ChannelNumber')),
        ('GNV_OFF_DURATION', _off('TSD_SuplaChannelGroupNewValue', 'DurationMS')),
        ('GNV_OFF_VALUE', _off('TSD_SuplaChannelGroupNewValue', 'value')),
        ('REGRES_SIZE', 'sizeof(TSD_SuplaRegisterDeviceResult)'),
        ('REGRES_OFF_CODE', _off('TSD_SuplaRegisterDeviceResult', 'result_code')),
        ('SIZEOF_CHANNELNUMBER_NV', 'sizeof(((TSD_SuplaChannelNewValue*)0)->ChannelNumber)'),
        # channel flags
        ('CHFLAG_RECALIBRATE', 'SUPLA_CHANNEL_FLAG_CALCFG_RECALIBRATE'),
        ('CHFLAG_AUTOCAL', 'SUPLA_CHANNEL_FLAG_RS_AUTO_CALIBRATION'),
        ('RS_MAX', 'RS_MAX_COUNT'),
        ('RS_RELAY_OFF_', 'RS_RELAY_OFF'), ('RS_RELAY_UP_', 'RS_RELAY_UP'), ('RS_RELAY_DOWN_', 'RS_RELAY_DOWN'),
        # inputs
        ('PRESS_TIME_MS', 'CFG_BTN_PRESS_TIME'),
        ('PRESS_COUNT', 'CFG_BTN_PRESS_COUNT'),
        ('CYCLE_TIME_MS', 'INPUT_CYCLE_TIME'),
        ('HOLD_TIME_MS', 'BTN_HOLD_TIME_MS'),
        ('MULTICLICK_TIME_MS', 'BTN_MULTICLICK_TIME_MS'),
        ('INPUT_MAX', 'INPUT_MAX_COUNT'),
        ('SILENT_MS', 'INPUT_SILENT_STARTUP_TIME_MS'),
        ('FLAG_CFG_BTN', 'INPUT_FLAG_CFG_BTN'),
        ('FLAG_FACTORY_RESET', 'INPUT_FLAG_FACTORY_RESET'),
        ('FLAG_CFG_ON_TOGGLE', 'INPUT_FLAG_CFG_ON_TOGGLE'),
        ('FLAG_CFG_ON_HOLD', 'INPUT_FLAG_CFG_ON_HOLD'),
        ('FLAG_PULLUP', 'INPUT_FLAG_PULLUP'),
        ('TYPE_SENSOR', 'INPUT_TYPE_SENSOR'),
        ('TYPE_MONOSTABLE', 'INPUT_TYPE_BTN_MONOSTABLE'),
        ('TYPE_BISTABLE', 'INPUT_TYPE_BTN_BISTABLE'),
        ('TYPE_MOTION', 'INPUT_TYPE_MOTION_SENSOR'),
        ('STATE_ACTIVE', 'INPUT_STATE_ACTIVE'),
        ('STATE_INACTIVE', 'INPUT_STATE_INACTIVE'),
        ('CAP_HOLD', 'SUPLA_ACTION_CAP_HOLD'),
        ('CAP_SHORT_PRESS_MASK', 'SUPLA_ACTION_CAP_SHORT_PRESS_x1|SUPLA_ACTION_CAP_SHORT_PRESS_x2|SUPLA_ACTION_CAP_SHORT_PRESS_x3|SUPLA_ACTION_CAP_SHORT_PRESS_x4|SUPLA_ACTION_CAP_SHORT_PRESS_x5'),
        ('CAP_SP1', 'SUPLA_ACTION_CAP_SHORT_PRESS_x1'), ('CAP_SP2', 'SUPLA_ACTION_CAP_SHORT_PRESS_x2'),
        ('CAP_SP3', 'SUPLA_ACTION_CAP_SHORT_PRESS_x3'), ('CAP_SP4', 'SUPLA_ACTION_CAP_SHORT_PRESS_x4'),
        ('CAP_SP5', 'SUPLA_ACTION_CAP_SHORT_PRESS_x5'),
        ('CAP_TG1', 'SUPLA_ACTION_CAP_TOGGLE_x1'), ('CAP_TG2', 'SUPLA_ACTION_CAP_TOGGLE_x2'),
        ('CAP_TG3', 'SUPLA_ACTION_CAP_TOGGLE_x3'), ('CAP_TG4', 'SUPLA_ACTION_CAP_TOGGLE_x4'),
        ('CAP_TG5', 'SUPLA_ACTION_CAP_TOGGLE_x5'),
        ('CAP_TURN_ON', 'SUPLA_ACTION_CAP_TURN_ON'), ('CAP_TURN_OFF', 'SUPLA_ACTION_CAP_TURN_OFF'),
        ('CALL_SET_CHANNEL_CONFIG', 'SUPLA_SD_CALL_SET_CHANNEL_CONFIG'),
        ('CALL_GET_CHANNEL_CONFIG_RESULT', 'SUPLA_SD_CALL_GET_CHANNEL_CONFIG_RESULT'),
        ('CHCFG_SIZE', 'sizeof(TSD_ChannelConfig)'), ('CHCFG_MAX', 'SUPLA_CHANNEL_CONFIG_MAXSIZE'),
        ('CHCFG_OFF_CHANNEL', _off('TSD_ChannelConfig', 'ChannelNumber')), ('CHCFG_OFF_FUNC', _off('TSD_ChannelConfig', 'Func')),
        ('CHCFG_OFF_TYPE', _off('TSD_ChannelConfig', 'ConfigType')), ('CHCFG_OFF_CFGSIZE', _off('TSD_ChannelConfig', 'ConfigSize')),
        ('CHCFG_OFF_CONFIG', _off('TSD_ChannelConfig', 'Config')),
        ('FUNC_ACTIONTRIGGER', 'SUPLA_CHANNELFNC_ACTIONTRIGGER'), ('ATCFG_SIZE', 'sizeof(TChannelConfig_ActionTrigger)'),
        ('ATCFG_OFF_ACTIONS', _off('TChannelConfig_ActionTrigger', 'ActiveActions')),
        ('CHANNEL_MAX', '8 /* CHANNEL_MAX_COUNT is private to supla_esp_devconn.c */'),
        ('CFG_SECTOR_', 'CFG_SECTOR'),
        ('CFG_SIZE', 'sizeof(SuplaEspCfg)'),
        ('CFGF_MQTT_ENABLED', 'CFG_FLAG_MQTT_ENABLED'), ('CFGF_MQTT_NO_AUTH', 'CFG_FLAG_MQTT_NO_AUTH'), ('CFGF_DEVICE_LOCKED', 'CFG_FLAG_DEVICE_LOCKED'),
        ('CFG_OFF_EMAIL', _off('SuplaEspCfg', 'Email')), ('CFG_OFF_USERNAME', _off('SuplaEspCfg', 'Username')),
        ('CFG_OFF_LOCPWD', _off('SuplaEspCfg', 'LocationPwd')), ('CFG_OFF_PASSWORD', _off('SuplaEspCfg', 'Password')),
    ] + [('FN_' + n, str(i)) for n, i in FID.items()],
    extra_names=['CALLSITES', 'DISPATCH', 'SAT_DISARM_GUARDED', 'SAT_RESET_GUARDED', 'CHAIN_WINDOW_US'] + [x[0] for x in SHAPES] + ['BOOT_TT_MQTT', 'BOOT_TT_LOCKED', 'BOOT_TT_PLAIN'],
    flags=['-DVERIF_RETREIVE_CHANNEL_CONFIG'],
)
