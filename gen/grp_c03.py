"""C03 translator groups.

SrpcTable  — the size rules of srpc_getdata() for the device configuration, regenerated on every run:
  structure  : `gcc -E` of supla-common/srpc.c under the device flags, then patterns on the body of
               srpc_getdata (prologue, every `case` group of the switch, epilogue).  Any statement
               that is not one of the recognised forms makes the probe fail (=> "translator broken").
  numbers    : a C probe prints sizeof/offsetof/maxima of every type named by the rules.
  rows (list Z):  [id; 0]                                              call without data
                  [id; 1; alloc; n; s1..sn; k; c1..ck]                   exact sizes s*, sizes c* accepted without copy
                  [id; 2; alloc; sizeT; hdr; item; max; zr; nf; (off; width; signed)*nf]
                                                                         hdr <= size <= sizeT and declared*item == size - hdr,
                                                                         declared = sum of nf fields, alloc = allocated bytes,
                                                                         zr=1: FALSE is returned first when field 1 reads 0
  DISPATCH_DEV / DISPATCH_DEVCFG : call ids that supla_esp_on_remote_call_received dispatches on
               (same mechanism on supla_esp_devconn.c, without / with RETREIVE_CHANNEL_CONFIG).
C03Consts  — table lengths, message field offsets, enum values used by the write-set model.
"""
import os, re, subprocess
import gen as G

DS = r'srpc->sdp\.data_size'
ALLOC = r'(?:\((\w+) \*\))?(?:calloc\( ?1, sizeof\((\w+)\)\)|malloc\( ?sizeof\((\w+)\)\))'

class TranslatorError(Exception):
    pass

def _preprocess(path, extra=()):
    cmd = ['gcc', '-E', '-P', '-w'] + G.dev_flags(G.REPO) + list(extra) + [path]
    r = subprocess.run(cmd, capture_output=True, text=True)
    if r.returncode != 0:
        raise TranslatorError('gcc -E %s failed: %s' % (path, r.stderr[-300:].replace('"', "'")))
    return r.stdout

def _function_body(txt, name):
    """text between the braces of the definition of `name`"""
    for m in re.finditer(r'\b%s\s*\(' % re.escape(name), txt):
        i = m.end(); depth = 1
        while i < len(txt) and depth:
            depth += {'(': 1, ')': -1}.get(txt[i], 0); i += 1
        j = i
        while j < len(txt) and txt[j] in ' \t\r\n': j += 1
        if j < len(txt) and txt[j] == '{':
            k = j + 1; depth = 1
            while k < len(txt) and depth:
                depth += {'{': 1, '}': -1}.get(txt[k], 0); k += 1
            return txt[j + 1:k - 1]
    raise TranslatorError('definition of %s not found' % name)

def _norm(s):
    s = re.sub(r'\s+', ' ', s).strip()
    s = re.sub(r'\( ', '(', s); s = re.sub(r' \)', ')', s)
    return s

PROLOGUE = _norm(r'''Tsrpc *srpc = (Tsrpc *)_srpc; char call_with_no_data = 0; rd->call_id = 0; lck_lock(srpc->lck);
 if (1 == srpc_in_queue_pop(srpc, &srpc->sdp, rr_id)) { rd->call_id = srpc->sdp.call_id; rd->rr_id = srpc->sdp.rr_id;
 rd->data.dcs_ping = ((void *)0); switch (srpc->sdp.call_id) {''')
EPILOGUE = _norm(r'''} if (call_with_no_data == 1) { return lck_unlock_r(srpc->lck, 1); }
 if (rd->data.dcs_ping != ((void *)0)) { if (srpc->sdp.data_size > 0) { memcpy(rd->data.dcs_ping, srpc->sdp.data, srpc->sdp.data_size); }
 return lck_unlock_r(srpc->lck, 1); } return lck_unlock_r(srpc->lck, -2); } return lck_unlock_r(srpc->lck, 0);''')

def _split_groups(sw):
    """switch body -> [(ids, statement text)] ; groups end at a depth-0 `break;`"""
    groups = []; depth = 0; cur = ''; i = 0
    while i < len(sw):
        c = sw[i]
        if c == '{': depth += 1
        elif c == '}': depth -= 1
        if depth == 0 and sw.startswith('break;', i) and (i == 0 or not (sw[i - 1].isalnum() or sw[i - 1] == '_')):
            groups.append(cur.strip()); cur = ''; i += 6; continue
        cur += c; i += 1
    if cur.strip():
        raise TranslatorError('switch of srpc_getdata: trailing statements without break: %s' % cur.strip()[:60])
    out = []
    for g in groups:
        ids = []
        while True:
            m = re.match(r'case (-?\d+) ?: ?', g)
            if not m: break
            ids.append(int(m.group(1))); g = g[m.end():]
        if not ids or 'case ' in g or 'default' in g:
            raise TranslatorError('switch of srpc_getdata: unexpected label structure near: %s' % g[:60])
        out.append((ids, g.strip()))
    return out

def _alloc_type(m, base):
    t = [x for x in m.groups()[base:base + 3] if x]
    if not t or len(set(t)) != 1:
        raise TranslatorError('allocation with inconsistent types: %r' % (t,))
    return t[0]

def _parse_rule(ids, s):
    """returns dict(kind=…) for one case group"""
    if s == 'call_with_no_data = 1;':
        return dict(kind=0)
    # exact, one size
    m = re.fullmatch(r'if \(%s == sizeof\((\w+)\)\) \{? ?rd->data\.\w+ = %s; ?\}?' % (DS, ALLOC), s)
    if m:
        return dict(kind=1, alloc=_alloc_type(m, 1), sizes=[m.group(1)], nocopy=[])
    # exact, two sizes with the two known bodies (ping compat / firmware-url one-byte answer)
    m = re.fullmatch(r'if \(%s == sizeof\((\w+)\) \|\| %s == sizeof\((\w+)\)\) \{ rd->data\.(\w+) = %s; (.*) \}' % (DS, DS, ALLOC), s)
    if m:
        t1, t2, fld, rest = m.group(1), m.group(2), m.group(3), m.group(7)
        alloc = _alloc_type(m, 3)
        m2 = re.fullmatch(r'if \(%s == sizeof\((\w+)\)\) \{ (\w+) \*compat = \(\w+ \*\)srpc->sdp\.data; '
                          r'(?:rd->data\.\w+->[\w.]+ = compat->[\w.]+; )+call_with_no_data = 1; \}' % DS, rest)
        if m2 and m2.group(1) == t2:
            return dict(kind=1, alloc=alloc, sizes=[t1, t2], nocopy=[t2])
        m2 = re.fullmatch(r'if \(%s == sizeof\((\w+)\) && rd->data\.(\w+) != \(\(void \*\)0\)\) '
                          r'memset\(rd->data\.(\w+), 0, sizeof\((\w+)\)\);' % DS, rest)
        if m2 and m2.group(1) == t2 and m2.group(2) == fld == m2.group(3) and m2.group(4) == alloc:
            return dict(kind=1, alloc=alloc, sizes=[t1, t2], nocopy=[])
        raise TranslatorError('case %s: two-size rule with an unknown body: %s' % (ids, rest[:80]))
    # variable size (SRPC VALID_SIZE), optionally preceded by the zero-count early return
    zr = None
    m = re.match(r'if \(\(\((\w+) \*\)\(void \*\)&srpc->sdp\.data\[0\]\)->([\w.]+) == 0\) \{ return 0; \} ', s)
    if m:
        zr = (m.group(1), m.group(2)); s = s[m.end():]
    cnt1 = r'\(\((\w+) \*\)&\(srpc->sdp\.data\[0\]\)\)->([\w.]+)'
    cnt2 = r'(?: \+ \(\((\w+) \*\)srpc->sdp\.data\)->([\w.]+))?'
    mx = r'(\d+|\(\d+ \+ \d+\))'
    m = re.fullmatch(r'if \(%s >= \(sizeof\((\w+)\) - sizeof\((\w+)\) \* %s\) && %s <= sizeof\((\w+)\) && '
                     r'\(%s%s\) \* sizeof\((\w+)\) == %s - \(sizeof\((\w+)\) - sizeof\((\w+)\) \* %s\)\) '
                     r'\{? ?rd->data\.\w+ = %s; ?\}?' % (DS, mx, DS, cnt1, cnt2, DS, mx, ALLOC), s)
    if m:
        g = m.groups()
        T, I, M, T2, Tc1, F1, Tc2, F2, I2, T3, I3, M2 = g[:12]
        alloc = _alloc_type(m, 12)
        if not (T == T2 == T3 == Tc1 and I == I2 == I3 and M == M2 and (Tc2 is None or Tc2 == T)):
            raise TranslatorError('case %s: VALID_SIZE with inconsistent types' % ids)
        fields = [F1] + ([F2] if F2 else [])
        if zr is not None and zr != (T, F1):
            raise TranslatorError('case %s: early return tests another field than the count' % ids)
        return dict(kind=2, alloc=alloc, T=T, item=I, max=M, fields=fields, zr=1 if zr else 0)
    raise TranslatorError('case %s: unrecognised size rule: %s' % (ids, s[:100]))

def srpc_rules():
    txt = _preprocess(os.path.join(G.REPO, 'supla-common', 'srpc.c'))
    body = _norm(_function_body(txt, 'srpc_getdata'))
    if not body.startswith(PROLOGUE):
        raise TranslatorError('srpc_getdata prologue changed')
    if not body.endswith(EPILOGUE):
        raise TranslatorError('srpc_getdata epilogue (copy / result selection) changed')
    sw = body[len(PROLOGUE):len(body) - len(EPILOGUE)].strip()
    rules = []
    for ids, s in _split_groups(sw):
        r = _parse_rule(ids, s)
        for i in ids: rules.append((i, r))
    seen = set()
    for i, _ in rules:
        if i in seen: raise TranslatorError('duplicate case %d' % i)
        seen.add(i)
    return rules

def dispatch_ids(extra):
    txt = _preprocess(os.path.join(G.REPO, 'src', 'user', 'supla_esp_devconn.c'), extra)
    body = _norm(_function_body(txt, 'supla_esp_on_remote_call_received'))
    m = re.search(r'if \(1 == \(result = srpc_getdata\(_srpc, &rd, 0\)\)\) \{ switch \(rd\.call_id\) \{', body)
    if not m: raise TranslatorError('dispatch switch of supla_esp_on_remote_call_received not found')
    i = m.end(); depth = 1; ids = []
    while i < len(body) and depth:
        c = body[i]
        if c == '{': depth += 1
        elif c == '}': depth -= 1
        elif depth == 1:
            mm = re.match(r'case (-?\d+) ?:', body[i:])
            if mm and not (body[i - 1].isalnum() or body[i - 1] == '_'):
                ids.append(int(mm.group(1))); i += mm.end(); continue
        i += 1
    if not ids: raise TranslatorError('no case labels in the dispatch switch')
    return ids

def config_funcs():
    """[(func, kind)] from the `switch (result->Func)` of supla_esp_channel_config_result (devcfg build):
    kind 1 = supla_esp_gpio_rs_apply_new_config, 2 = supla_esp_gpio_fb_apply_new_config, 0 = neither"""
    txt = _preprocess(os.path.join(G.REPO, 'src', 'user', 'supla_esp_devconn.c'), ['-DVERIF_RETREIVE_CHANNEL_CONFIG'])
    body = _norm(_function_body(txt, 'supla_esp_channel_config_result'))
    m = re.search(r'switch \(result->Func\) \{', body)
    if not m: raise TranslatorError('switch (result->Func) of supla_esp_channel_config_result not found')
    i = m.end(); depth = 1; start = i
    while i < len(body) and depth:
        depth += {'{': 1, '}': -1}.get(body[i], 0); i += 1
    sw = body[start:i - 1]
    # groups: labels at depth 0 followed by one braced block and `break;`
    out = []; pos = 0
    while pos < len(sw):
        mm = re.match(r' ?((?:case -?\d+ ?: ?)+)\{', sw[pos:])
        if not mm: 
            if sw[pos:].strip() == '': break
            raise TranslatorError('config_result switch: unexpected text: %s' % sw[pos:pos + 60])
        ids = [int(x) for x in re.findall(r'case (-?\d+)', mm.group(1))]
        j = pos + mm.end(); depth = 1
        while j < len(sw) and depth:
            depth += {'{': 1, '}': -1}.get(sw[j], 0); j += 1
        blk = sw[pos + mm.end():j - 1]
        rsn = blk.count('supla_esp_gpio_rs_apply_new_config('); fbn = blk.count('supla_esp_gpio_fb_apply_new_config(')
        if rsn + fbn > 1: raise TranslatorError('config_result switch: a case group calls apply_new_config more than once')
        kind = 1 if rsn else (2 if fbn else 0)
        for f in ids: out.append((f, kind))
        pos = j
    if not any(k == 1 for _, k in out) or not any(k == 2 for _, k in out):
        raise TranslatorError('config_result switch: roller-shutter / facade-blind groups not found')
    return out

def button_guards():
    """[(kind, entry_has_exists_guard, gm, ga, gb, im, ia)]: in *_apply_new_config the exchange of supla_input_cfg[im*c] and
    supla_input_cfg[im*c + ia] is guarded by `gm*c + ga < gb`; the function returns at once unless 0 <= c < RS_MAX_COUNT
    (and, when entry_has_exists_guard, unless supla_rs_cfg[c].up/down are set)"""
    txt = _preprocess(os.path.join(G.REPO, 'src', 'user', 'supla_esp_rs_fb.c'), ['-DVERIF_RETREIVE_CHANNEL_CONFIG'])
    out = []
    for kind, fn, cfg in ((1, 'supla_esp_gpio_rs_apply_new_config', 'rsConfig'), (2, 'supla_esp_gpio_fb_apply_new_config', 'fbConfig')):
        b = _norm(_function_body(txt, fn))
        m = re.match(r'if \(channel_number < 0 \|\| channel_number >= (\d+)( \|\| supla_rs_cfg\[channel_number\]\.up == \(\(void \*\)0\) \|\| '
                     r'supla_rs_cfg\[channel_number\]\.down == \(\(void \*\)0\))?\) \{ return; \}', b)
        if not m: raise TranslatorError('%s: entry guard not recognised' % fn)
        exists = 1 if m.group(2) else 0
        idx = r'\((\d+) \* channel_number\)'
        swap = (r'supla_esp_cfg\.ButtonsUpsideDown = \(newButtonsUpsideDown \? 1 : 0\); '
                r'(?:if \(' + idx + r'(?: \+ (\d+))? < (\d+)\) \{ )?'
                r'int newUpButtonGpio = supla_input_cfg\[' + idx + r' \+ (\d+)\]\.gpio_id; '
                r'int newDownButtonGpio = supla_input_cfg\[' + idx + r'\]\.gpio_id; '
                r'supla_input_cfg\[' + idx + r'\]\.gpio_id = newUpButtonGpio; '
                r'supla_input_cfg\[' + idx + r' \+ (\d+)\]\.gpio_id = newDownButtonGpio; (\})?')
        ms = list(re.finditer(swap, b))
        if len(ms) != 1 or b.count('supla_input_cfg[') != 4:
            raise TranslatorError('%s: button exchange not recognised (%d matches, %d index expressions)' % (fn, len(ms), b.count('supla_input_cfg[')))
        g = ms[0].groups()
        gm, ga, gb, i1, a1, i2, i3, i4, a4, close = g
        if not (i1 == i2 == i3 == i4 and a1 == a4) or ((gm is None) != (close is None)):
            raise TranslatorError('%s: button exchange uses inconsistent indices' % fn)
        if gm is None: gm, ga, gb = 0, 0, 1          # no guard: 0 < 1
        out.append((kind, exists, int(gm), int(ga or 0), int(gb), int(i1), int(a1)))
    return out

def register_unknown_buffer():
    """(alloc, bound) of the default branch of supla_esp_on_register_result: buff = os_malloc(alloc); ets_snprintf(buff, bound, …)"""
    txt = _preprocess(os.path.join(G.REPO, 'src', 'user', 'supla_esp_devconn.c'))
    b = _norm(_function_body(txt, 'supla_esp_on_register_result'))
    ms = re.findall(r'default: buff = malloc\((\d+)\); ets_snprintf\(buff, (\d+), "Unknown code %i", register_device_result->result_code\); '
                    r'supla_esp_set_state\(\d+, buff\); free\(buff\);', b)
    if len(ms) != 1 or b.count('ets_snprintf(') != 1 or b.count('buff = malloc(') != 1:
        raise TranslatorError('supla_esp_on_register_result: default branch (malloc + ets_snprintf) not recognised')
    return int(ms[0][0]), int(ms[0][1])

# guards of the handlers that the write-set model transcribes: (file, function, extra flags, regex on the normalised body, occurrences).
# A comparison operator, bound or index expression that changes makes the translator fail (the model would no longer be the code).
SHAPE_PINS = [
    ('src/user/supla_esp_devconn.c', 'supla_esp_on_remote_call_received', ['-DVERIF_RETREIVE_CHANNEL_CONFIG'],
     r'if \(cfg->ChannelNumber < 8\) \{ devconn->channel_function_from_server\[cfg->ChannelNumber\] = cfg->Func; if \(!supla_esp_channel_config_result\(cfg\)\)', 1),
    ('src/user/supla_esp_devconn.c', 'supla_esp_on_remote_call_received', ['-DVERIF_RETREIVE_CHANNEL_CONFIG'],
     r'if \(cfgFinish->ChannelNumber < 8\) \{ if \(devconn->runtime_config_channels\[cfgFinish->ChannelNumber\] == WaitingForConfig\)', 1),
    ('src/user/supla_esp_devconn.c', 'supla_esp_on_remote_call_received', ['-DVERIF_RETREIVE_CHANNEL_CONFIG'],
     r'for \(int i = 0; i < 8 && i < devconn->channel_count; i\+\+\)', 2),
    ('src/user/supla_esp_devconn.c', 'supla_esp_channel_config_result', ['-DVERIF_RETREIVE_CHANNEL_CONFIG'],
     r'if \(result->ChannelNumber >= 0 && result->ChannelNumber < 8\) \{ int staircaseTimeMs = 0;', 1),
    ('src/user/supla_esp_devconn.c', 'supla_esp_channel_config_result', ['-DVERIF_RETREIVE_CHANNEL_CONFIG'],
     r'supla_esp_cfg\.Time2\[result->ChannelNumber\] = staircaseTimeMs;', 1),
    ('src/user/supla_esp_devconn.c', 'supla_esp_channel_config_result', ['-DVERIF_RETREIVE_CHANNEL_CONFIG'],
     r'result->ConfigSize >= sizeof\(TChannelConfig_RollerShutter\)\) \{ TChannelConfig_RollerShutter \*channelConfig = \(TChannelConfig_RollerShutter \*\)result->Config; '
     r'channel_config_visualization_type\[result->ChannelNumber\] = channelConfig->VisualizationType;', 1),
    ('src/user/supla_esp_devconn.c', 'supla_esp_channel_config_result', ['-DVERIF_RETREIVE_CHANNEL_CONFIG'],
     r'result->ConfigSize >= sizeof\(TChannelConfig_FacadeBlind\)\) \{ TChannelConfig_FacadeBlind \*channelConfig = \(TChannelConfig_FacadeBlind \*\)result->Config; '
     r'channel_config_visualization_type\[result->ChannelNumber\] = channelConfig->VisualizationType;', 1),
    ('src/user/supla_esp_devconn.c', 'supla_esp_channel_config_result', ['-DVERIF_RETREIVE_CHANNEL_CONFIG'],
     r'for \(int i = 0; i < 7; i\+\+\) \{ if \(supla_input_cfg\[i\]\.channel == result->ChannelNumber\)', 1),
    ('src/user/supla_esp_devconn.c', 'supla_esp_channel_set_value', [],
     r'for \(a = 0; a < 8; a\+\+\) if \(supla_rs_cfg\[a\]\.up != \(\(void \*\)0\) && supla_rs_cfg\[a\]\.down != \(\(void \*\)0\) && supla_rs_cfg\[a\]\.up->channel == new_value->ChannelNumber\)', 1),
    ('src/user/supla_esp_devconn.c', 'supla_esp_channel_set_value', [],
     r'for ?\(a ?= ?0; ?a ?< ?8; ?a\+\+\) if \(supla_relay_cfg\[a\]\.gpio_id != 255 && new_value->ChannelNumber == supla_relay_cfg\[a\]\.channel\)', 1),
    ('src/user/supla_esp_devconn.c', 'supla_esp_channelgroup_set_value', [],
     r'new_value\.ChannelNumber = cg_new_value->ChannelNumber; new_value\.DurationMS = cg_new_value->DurationMS;', 1),
    ('src/user/supla_esp_devconn.c', 'supla_esp_calcfg_request', [],
     r'for \(int i = 0; i < 8; i\+\+\) \{ if \(supla_rs_cfg\[i\]\.up != \(\(void \*\)0\) && supla_rs_cfg\[i\]\.down != \(\(void \*\)0\) && supla_rs_cfg\[i\]\.up->channel == request->ChannelNumber &&', 2),
    ('src/user/supla_esp_rs_fb.c', 'supla_esp_gpio_rs_apply_new__times', [],
     r'if \(idx >= 8 \|\| supla_rs_cfg\[idx\]\.up == \(\(void \*\)0\) \|\| supla_rs_cfg\[idx\]\.down == \(\(void \*\)0\)\) \{ return 0; \}', 1),
    ('src/user/supla_esp_rs_fb.c', 'supla_esp_gpio_rs_apply_new__times', [],
     r'supla_esp_cfg\.Time2\[idx\] = close_time_ms; supla_esp_cfg\.Time1\[idx\] = open_time_ms; supla_esp_cfg\.AutoCalOpenTime\[idx\] = 0; supla_esp_cfg\.AutoCalCloseTime\[idx\] = 0; '
     r'supla_esp_state\.rs_position\[idx\] = 0; supla_esp_state\.tilt\[idx\] = 0;', 1),
    ('src/user/supla_esp_rs_fb.c', 'supla_esp_gpio_rs_add_task', [], r'^if \(idx < 0 \|\| idx >= 8\) \{ return; \}', 1),
    ('src/user/supla_esp_gpio.c', 'supla_esp_gpio_relay_set_duration_timer', [],
     r'^if \(channel < 8 && channel < 8 && supla_esp_cfg\.Time2\[channel\] > 0\)', 1),
    ('src/user/supla_esp_gpio.c', 'supla_esp_gpio_relay_hi', [],
     r'for \(a = 0; a < 8; a\+\+\) \{ if \(supla_relay_cfg\[a\]\.gpio_id == port\) \{ if \(supla_relay_cfg\[a\]\.flags & 0x02 \|\| supla_relay_cfg\[a\]\.flags & 0x04\) state = &supla_esp_state\.Relay\[a\];', 1),
    ('src/user/supla_esp_countdown_timer.c', 'supla_esp_countdown_timer_countdown', [],
     r'if \(i->channel_number < 8\) \{ supla_esp_state\.Time2Left\[i->channel_number\] = i->time_left_ms; \}', 1),
    ('src/user/supla_esp_input.c', 'supla_esp_input_set_active_triggers', [],
     r'input_cfg->active_triggers = input_cfg->action_trigger_cap & active_triggers;', 1),
    ('src/user/supla_esp_countdown_timer.c', 'supla_esp_countdown_timer_cb', [],
     r'if \(i->channel_number < 8\) \{ supla_esp_state\.Time2Left\[i->channel_number\] = i->time_left_ms; \}', 1),
]

def check_shape_pins():
    cache = {}
    for (f, fn, extra, rx, n) in SHAPE_PINS:
        key = (f, tuple(extra))
        if key not in cache: cache[key] = _preprocess(os.path.join(G.REPO, f), extra)
        body = _norm(_function_body(cache[key], fn))
        k = len(re.findall(rx, body))
        if k != n:
            raise TranslatorError('%s: guard/index shape changed (%d of %d): %s' % (fn, k, n, rx[:70]))

def _build_table():
    rules = srpc_rules()
    L = []
    def row(fmt, *args): L.append('  fprintf(stdout, "L SRPC_ROWS ' + fmt + '\\n"' + ''.join(', (long long)(%s)' % a for a in args) + ');\n')
    for cid, r in rules:
        if r['kind'] == 0:
            row('%d 0' % cid)
        elif r['kind'] == 1:
            a = ['sizeof(%s)' % r['alloc']] + ['sizeof(%s)' % t for t in r['sizes']] + ['sizeof(%s)' % t for t in r['nocopy']]
            fmt = '%d 1 %%lld %d' % (cid, len(r['sizes'])) + ' %lld' * len(r['sizes']) + ' %d' % len(r['nocopy']) + ' %lld' * len(r['nocopy'])
            row(fmt, *a)
        else:
            T, I, M = r['T'], r['item'], r['max']
            a = ['sizeof(%s)' % r['alloc'], 'sizeof(%s)' % T, '(size_t)(sizeof(%s) - sizeof(%s) * %s)' % (T, I, M), 'sizeof(%s)' % I, M]
            fmt = '%d 2 %%lld %%lld %%lld %%lld %%lld %d %d' % (cid, r['zr'], len(r['fields']))
            for f in r['fields']:
                a += ['offsetof(%s, %s)' % (T, f), 'sizeof(((%s *)0)->%s)' % (T, f), '((__typeof__(((%s *)0)->%s))-1) < 0' % (T, f)]
                fmt += ' %lld %lld %lld'
            row(fmt, *a)
    ra, rb = register_unknown_buffer()
    check_shape_pins()
    for f, k in config_funcs():
        L.append('  fprintf(stdout, "L CONFIG_FUNCS %d %d\\n");\n' % (f, k))
    for row in button_guards():
        L.append('  fprintf(stdout, "L BUTTON_GUARDS %s\\n");\n' % ' '.join(str(x) for x in row))
    for name, extra in (('DISPATCH_DEV', []), ('DISPATCH_DEVCFG', ['-DVERIF_RETREIVE_CHANNEL_CONFIG'])):
        for i in dispatch_ids(extra):
            L.append('  fprintf(stdout, "L %s %d\\n");\n' % (name, i))
    return dict(pre='#include <stddef.h>\n#include <stdlib.h>\n#include "proto.h"\n#include "srpc.h"\n',
                ints=[('SRPC_MAX_DATA_SIZE', 'SUPLA_MAX_DATA_SIZE'),
                      ('SRPC_RESULT_TRUE', 'SUPLA_RESULT_TRUE'), ('SRPC_RESULT_FALSE', 'SUPLA_RESULT_FALSE'),
                      ('SRPC_RESULT_DATA_ERROR', 'SUPLA_RESULT_DATA_ERROR'),
                      ('REG_UNKNOWN_ALLOC', str(ra)), ('REG_UNKNOWN_BOUND', str(rb))],
                body=''.join(L), extra_names=['SRPC_ROWS', 'DISPATCH_DEV', 'DISPATCH_DEVCFG', 'CONFIG_FUNCS', 'BUTTON_GUARDS'])

class _Lazy(dict):
    """group whose content is computed from the working tree when the translator runs (not at import)"""
    def __init__(self, build):
        dict.__init__(self); self._build = build
    def _fill(self):
        if not dict.__contains__(self, 'pre'):
            try:
                d = self._build()
            except Exception as e:          # any failure = translator broken for this group only
                msg = re.sub(r'[^A-Za-z0-9_ .,:;()\[\]<>=*+/-]', ' ', '%s: %s' % (type(e).__name__, e))[:240]
                d = dict(pre='#error "SrpcTable translator: %s"\n' % msg, ints=[], body='', extra_names=['SRPC_ROWS'])
            dict.update(self, d)
    def __getitem__(self, k): self._fill(); return dict.__getitem__(self, k)
    def get(self, k, d=None): self._fill(); return dict.get(self, k, d)
    def __contains__(self, k): self._fill(); return dict.__contains__(self, k)

G.GROUPS['SrpcTable'] = _Lazy(_build_table)

# ---------------------------------------------------------------------------------------------
def _off(T, f): return 'offsetof(%s, %s)' % (T, f)
def _len(a): return 'sizeof(%s) / sizeof((%s)[0])' % (a, a)

G.GROUPS['C03Consts'] = dict(
    pre='#include <stddef.h>\n#include "proto.h"\n#include <supla_esp.h>\n#include <supla_esp_cfg.h>\n#include <supla_esp_gpio.h>\n'
        '#include <supla_esp_rs_fb.h>\n#include <supla_esp_input.h>\n#include <supla_esp_devconn.c>\n',
    flags=['-DVERIF_RETREIVE_CHANNEL_CONFIG'],
    ints=[
        # table lengths taken from the arrays themselves
        ('N_RELAY', _len('supla_relay_cfg')), ('N_RS', _len('supla_rs_cfg')), ('N_INPUT', _len('supla_input_cfg')),
        ('N_TIME1', _len('supla_esp_cfg.Time1')), ('N_TIME2', _len('supla_esp_cfg.Time2')), ('N_TIME3', _len('supla_esp_cfg.Time3')),
        ('N_AUTOCAL_OPEN', _len('supla_esp_cfg.AutoCalOpenTime')), ('N_AUTOCAL_CLOSE', _len('supla_esp_cfg.AutoCalCloseTime')),
        ('N_TILT_TYPE', _len('supla_esp_cfg.TiltControlType')), ('N_TIME_MARGIN', _len('supla_esp_cfg.AdditionalTimeMargin')),
        ('N_STATE_RELAY', _len('supla_esp_state.Relay')), ('N_STATE_RSPOS', _len('supla_esp_state.rs_position')),
        ('N_STATE_TILT', _len('supla_esp_state.tilt')), ('N_STATE_TIME2LEFT', _len('supla_esp_state.Time2Left')),
        ('N_CHFUNC', _len('((devconn_params *)0)->channel_function_from_server')),
        ('N_RUNTIMECFG', _len('((devconn_params *)0)->runtime_config_channels')),
        ('N_VISTYPE', _len('channel_config_visualization_type')),
        ('MOTOR_UD_BITS', '8 * sizeof(supla_esp_cfg.MotorUpsideDown)'),
        # guards used by the code
        ('RS_MAX', 'RS_MAX_COUNT'), ('RELAY_MAX', 'RELAY_MAX_COUNT'), ('INPUT_MAX', 'INPUT_MAX_COUNT'),
        ('CHANNEL_MAX', 'CHANNEL_MAX_COUNT'), ('TIME2_COUNT', 'CFG_TIME2_COUNT'), ('STATE_TIME2_COUNT', 'STATE_CFG_TIME2_COUNT'),
        # call ids
        ('CALL_SET_VALUE', 'SUPLA_SD_CALL_CHANNEL_SET_VALUE'), ('CALL_GROUP_SET_VALUE', 'SUPLA_SD_CALL_CHANNELGROUP_SET_VALUE'),
        ('CALL_CALCFG', 'SUPLA_SD_CALL_DEVICE_CALCFG_REQUEST'), ('CALL_GET_CONFIG_RESULT', 'SUPLA_SD_CALL_GET_CHANNEL_CONFIG_RESULT'),
        ('CALL_SET_CONFIG', 'SUPLA_SD_CALL_SET_CHANNEL_CONFIG'), ('CALL_SET_CONFIG_RESULT', 'SUPLA_SD_CALL_SET_CHANNEL_CONFIG_RESULT'),
        ('CALL_CONFIG_FINISHED', 'SUPLA_SD_CALL_CHANNEL_CONFIG_FINISHED'), ('CALL_REGISTER_RESULT', 'SUPLA_SD_CALL_REGISTER_DEVICE_RESULT'),
        ('CALL_ACTIVITY_TIMEOUT_RESULT', 'SUPLA_SDC_CALL_SET_ACTIVITY_TIMEOUT_RESULT'), ('CALL_VERSIONERROR', 'SUPLA_SDC_CALL_VERSIONERROR'),
        ('CALL_FW_URL_RESULT', 'SUPLA_SD_CALL_GET_FIRMWARE_UPDATE_URL_RESULT'), ('CALL_CHANNEL_STATE', 'SUPLA_CSD_CALL_GET_CHANNEL_STATE'),
        ('CALL_PING_RESULT', 'SUPLA_SDC_CALL_PING_SERVER_RESULT'),
        # message fields
        ('NV_SIZE', 'sizeof(TSD_SuplaChannelNewValue)'), ('NV_CHANNEL', _off('TSD_SuplaChannelNewValue', 'ChannelNumber')),
        ('NV_DURATION', _off('TSD_SuplaChannelNewValue', 'DurationMS')), ('NV_VALUE', _off('TSD_SuplaChannelNewValue', 'value')),
        ('GV_SIZE', 'sizeof(TSD_SuplaChannelGroupNewValue)'), ('GV_CHANNEL', _off('TSD_SuplaChannelGroupNewValue', 'ChannelNumber')),
        ('GV_DURATION', _off('TSD_SuplaChannelGroupNewValue', 'DurationMS')), ('GV_VALUE', _off('TSD_SuplaChannelGroupNewValue', 'value')),
        ('CAL_HDR', _off('TSD_DeviceCalCfgRequest', 'Data')), ('CAL_CHANNEL', _off('TSD_DeviceCalCfgRequest', 'ChannelNumber')),
        ('CAL_COMMAND', _off('TSD_DeviceCalCfgRequest', 'Command')), ('CAL_SUPERUSER', _off('TSD_DeviceCalCfgRequest', 'SuperUserAuthorized')),
        ('CAL_DATATYPE', _off('TSD_DeviceCalCfgRequest', 'DataType')), ('CAL_DATASIZE', _off('TSD_DeviceCalCfgRequest', 'DataSize')),
        ('CAL_RS_SETTINGS_SIZE', 'sizeof(TCalCfg_RollerShutterSettings)'),
        ('CC_HDR', _off('TSD_ChannelConfig', 'Config')), ('CC_CHANNEL', _off('TSD_ChannelConfig', 'ChannelNumber')),
        ('CC_FUNC', _off('TSD_ChannelConfig', 'Func')), ('CC_TYPE', _off('TSD_ChannelConfig', 'ConfigType')),
        ('CC_SIZE', _off('TSD_ChannelConfig', 'ConfigSize')),
        ('ATC_ACTIONS', _off('TChannelConfig_ActionTrigger', 'ActiveActions')),
        ('RSC_SIZE', 'sizeof(TChannelConfig_RollerShutter)'), ('RSC_MOTOR_UD', _off('TChannelConfig_RollerShutter', 'MotorUpsideDown')),
        ('RSC_BUTTONS_UD', _off('TChannelConfig_RollerShutter', 'ButtonsUpsideDown')), ('RSC_MARGIN', _off('TChannelConfig_RollerShutter', 'TimeMargin')),
        ('FBC_SIZE', 'sizeof(TChannelConfig_FacadeBlind)'), ('FBC_MOTOR_UD', _off('TChannelConfig_FacadeBlind', 'MotorUpsideDown')),
        ('FBC_BUTTONS_UD', _off('TChannelConfig_FacadeBlind', 'ButtonsUpsideDown')), ('FBC_MARGIN', _off('TChannelConfig_FacadeBlind', 'TimeMargin')),
        ('STC_SIZE', 'sizeof(TChannelConfig_StaircaseTimer)'), ('ATC_SIZE', 'sizeof(TChannelConfig_ActionTrigger)'),
        ('FIN_CHANNEL', _off('TSD_ChannelConfigFinished', 'ChannelNumber')),
        # enum values
        ('CMD_ENTER_CFG_MODE', 'SUPLA_CALCFG_CMD_ENTER_CFG_MODE'), ('CMD_RECALIBRATE', 'SUPLA_CALCFG_CMD_RECALIBRATE'),
        ('DATATYPE_RS_SETTINGS', 'SUPLA_CALCFG_DATATYPE_RS_SETTINGS'),
        ('FNC_STAIRCASE', 'SUPLA_CHANNELFNC_STAIRCASETIMER'), ('FNC_POWERSWITCH', 'SUPLA_CHANNELFNC_POWERSWITCH'),
        ('FNC_LIGHTSWITCH', 'SUPLA_CHANNELFNC_LIGHTSWITCH'), ('FNC_RS', 'SUPLA_CHANNELFNC_CONTROLLINGTHEROLLERSHUTTER'),
        ('FNC_AWNING', 'SUPLA_CHANNELFNC_TERRACE_AWNING'), ('FNC_SCREEN', 'SUPLA_CHANNELFNC_PROJECTOR_SCREEN'),
        ('FNC_CURTAIN', 'SUPLA_CHANNELFNC_CURTAIN'), ('FNC_GARAGE', 'SUPLA_CHANNELFNC_ROLLER_GARAGE_DOOR'),
        ('FNC_ROOFWINDOW', 'SUPLA_CHANNELFNC_CONTROLLINGTHEROOFWINDOW'), ('FNC_FACADEBLIND', 'SUPLA_CHANNELFNC_CONTROLLINGTHEFACADEBLIND'),
        ('FNC_VERTICALBLIND', 'SUPLA_CHANNELFNC_VERTICAL_BLIND'), ('FNC_ACTIONTRIGGER', 'SUPLA_CHANNELFNC_ACTIONTRIGGER'),
        ('FLAG_CALCFG_RECALIBRATE', 'SUPLA_CHANNEL_FLAG_CALCFG_RECALIBRATE'),
        ('FLAG_RUNTIME_CONFIG', 'SUPLA_CHANNEL_FLAG_RUNTIME_CHANNEL_CONFIG_UPDATE'), ('FLAG_COUNTDOWN', 'SUPLA_CHANNEL_FLAG_COUNTDOWN_TIMER_SUPPORTED'),
    ],
)
