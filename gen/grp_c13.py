"""C13 — storage layout of the configuration / state records (current v7 and the old v6, v5A, v5B
layouts), flash geometry, TAG, factory-default image.  Everything is measured on /repo's working tree:
offsets/sizes by offsetof/sizeof, the TAG and the default image by *running* the real
supla_esp_cfg_init()/factory_defaults() of supla_esp_cfg.c against a blank stub flash inside the probe."""
import gen as G

PRE = r'''
#include <stddef.h>
#include <string.h>
#include <os_type.h>
#include <osapi.h>
#include <spi_flash.h>
#include <user_interface.h>
#include <supla_esp.h>
#include "supla_esp_cfg.c"
/* stub SDK for the probe: blank flash (or one preloaded configuration record), writes discarded, erase/write logged */
static long probe_ops[64][3]; static int probe_nops = 0;
static unsigned char probe_img[4096]; static unsigned probe_img_n = 0;
static void probe_log(long op, long a, long n) { if (probe_nops < 64) { probe_ops[probe_nops][0] = op; probe_ops[probe_nops][1] = a; probe_ops[probe_nops][2] = n; probe_nops++; } }
SpiFlashOpResult spi_flash_erase_sector(uint16 s) { probe_log(0, (long)s * SPI_FLASH_SEC_SIZE, SPI_FLASH_SEC_SIZE); return SPI_FLASH_RESULT_OK; }
SpiFlashOpResult spi_flash_write(uint32 d, uint32 *s, uint32 n) { (void)s; probe_log(1, d, n); return SPI_FLASH_RESULT_OK; }
SpiFlashOpResult spi_flash_read(uint32 s, uint32 *d, uint32 n) {
  memset(d, 0xFF, n);
  if (s == CFG_SECTOR * SPI_FLASH_SEC_SIZE) memcpy(d, probe_img, probe_img_n < n ? probe_img_n : n);
  return SPI_FLASH_RESULT_OK;
}
static void probe_print_ops(const char *name) {
  for (int i = 0; i < probe_nops; i++) fprintf(stdout, "L %s %ld %ld %ld\n", name, probe_ops[i][0], probe_ops[i][1], probe_ops[i][2]);
  probe_nops = 0;
}
uint32 spi_flash_get_id(void) { return 0; }
void ets_intr_lock(void) {}
void ets_intr_unlock(void) {}
void supla_log(int p, const char *f, ...) { (void)p; (void)f; }
void ets_timer_arm_new(os_timer_t *p, uint32_t t, bool r, bool ms) { (void)p; (void)t; (void)r; (void)ms; }
void ets_timer_disarm(os_timer_t *p) { (void)p; }
void ets_timer_setfn(os_timer_t *p, os_timer_func_t *f, void *a) { (void)p; (void)f; (void)a; }
int os_get_random(unsigned char *b, size_t l) { memset(b, 1, l); return 0; }
bool wifi_get_macaddr(uint8 i, uint8 *m) { (void)i; memset(m, 1, 6); return true; }
uint32 system_get_time(void) { return 0; }
uint32 system_get_chip_id(void) { return 0; }
uint32 system_get_rtc_time(void) { return 0; }
void factory_reset_mock(void) {}
#define OFF(T, f) offsetof(T, f)
#define SZ(T, f) sizeof(((T *)0)->f)
'''

def fields(prefix, T, names):
    return [('%s_%s' % (prefix, n.upper()), 'OFF(%s, %s)' % (T, n)) for n in names]

COMMON = ['TAG', 'GUID', 'AuthKey', 'Server', 'Email', 'LocationID', 'LocationPwd', 'WIFI_SSID', 'WIFI_PWD',
          'CfgButtonType', 'Button1Type', 'Button2Type', 'StatusLedOff', 'InputCfgTriggerOff', 'FirmwareUpdate',
          'Test', 'UpsideDown']

ints = [
    ('CFG_SIZE', 'sizeof(SuplaEspCfg)'), ('STATE_SIZE', 'sizeof(SuplaEspState)'),
    ('V6_SIZE', 'sizeof(SuplaEspCfg_old_v6)'), ('V5A_SIZE', 'sizeof(SuplaEspCfg_old_v5A)'), ('V5B_SIZE', 'sizeof(SuplaEspCfg_old_v5B)'),
    ('CFG_SECTOR_', 'CFG_SECTOR'), ('STATE_SECTOR_OFFSET_', 'STATE_SECTOR_OFFSET'), ('SEC_SIZE', 'SPI_FLASH_SEC_SIZE'),
    ('FLASH_OK', 'SPI_FLASH_RESULT_OK'), ('FLASH_ERR', 'SPI_FLASH_RESULT_ERR'), ('FLASH_TIMEOUT', 'SPI_FLASH_RESULT_TIMEOUT'),
    ('CHAR_SIGNED', '((char)-1 < 0)'), ('INT_SIZE', 'sizeof(int)'),
    ('TAG_SIZE', 'SZ(SuplaEspCfg, TAG)'), ('GUID_SIZE', 'SUPLA_GUID_SIZE'), ('AUTHKEY_SIZE', 'SUPLA_AUTHKEY_SIZE'),
    ('SERVER_SIZE', 'SERVER_MAXSIZE'), ('EMAIL_SIZE', 'SUPLA_EMAIL_MAXSIZE'), ('LOCPWD_SIZE', 'SUPLA_LOCATION_PWD_MAXSIZE'),
    ('SSID_SIZE', 'WIFI_SSID_MAXSIZE'), ('WPWD_SIZE', 'WIFI_PWD_MAXSIZE'), ('LOCID_SIZE', 'SZ(SuplaEspCfg, LocationID)'),
    ('TIME1_BYTES', 'SZ(SuplaEspCfg, Time1)'), ('TIME2_BYTES', 'SZ(SuplaEspCfg, Time2)'),
    ('ZERO7_SIZE', 'SZ(SuplaEspCfg, zero)'),
    # the sizes the old layouts use for the same fields must be the ones of the current layout (checked in Proofs.v)
    ('V6_EMAIL_SIZE', 'SZ(SuplaEspCfg_old_v6, Email)'), ('V5A_EMAIL_SIZE', 'SZ(SuplaEspCfg_old_v5A, Email)'), ('V5B_EMAIL_SIZE', 'SZ(SuplaEspCfg_old_v5B, Email)'),
    ('V6_TIME1_BYTES', 'SZ(SuplaEspCfg_old_v6, Time1)'), ('V6_TIME2_BYTES', 'SZ(SuplaEspCfg_old_v6, Time2)'),
]
ints += fields('O7', 'SuplaEspCfg', COMMON + ['Time1', 'Time2', 'Trigger', 'zero'])
ints += fields('O6', 'SuplaEspCfg_old_v6', COMMON + ['Time1', 'Time2', 'Trigger'])
ints += fields('O5B', 'SuplaEspCfg_old_v5B', COMMON + ['Time1', 'Time2', 'Trigger'])
ints += fields('O5A', 'SuplaEspCfg_old_v5A', COMMON + ['FullOpeningTime', 'FullClosingTime'])

BODY = r'''
  /* TAG written by the real supla_esp_cfg_init() on a blank flash; erase/write sequence of that boot */
  supla_esp_cfg_init();
  probe_print_ops("OPS_INIT_BLANK");
  fprintf(stdout, "B TAG7"); for (int i = 0; i < 6; i++) fprintf(stdout, " %u", (unsigned char)supla_esp_cfg.TAG[i]); fprintf(stdout, "\n");
  /* image produced by the real factory_defaults(0) from an all-zero record */
  memset(&supla_esp_cfg, 0, sizeof supla_esp_cfg); memset(&supla_esp_state, 0xEE, sizeof supla_esp_state);
  factory_defaults(0);
  fprintf(stdout, "B DEFAULTS_IMG"); for (size_t i = 0; i < sizeof supla_esp_cfg; i++) fprintf(stdout, " %u", ((unsigned char *)&supla_esp_cfg)[i]); fprintf(stdout, "\n");
  { int z = 1; for (size_t i = 0; i < sizeof supla_esp_state; i++) if (((unsigned char *)&supla_esp_state)[i]) z = 0;
    fprintf(stdout, "I DEFAULTS_ZERO_STATE %d\n", z); }
'''

BODY += r'''
  /* shape pins: the erase/write sequences (op, address, length) of a healthy save of each kind */
  supla_esp_cfg_save(&supla_esp_cfg); probe_print_ops("OPS_CFG_SAVE");
  supla_esp_save_state(0); probe_print_ops("OPS_STATE_SAVE");
  factory_defaults(1); probe_print_ops("OPS_FACTORY_SAVE");
  { SuplaEspCfg_old_v6 o; memset(&o, 0, sizeof o); memcpy(o.TAG, "SUPLA\6", 6); memset(o.GUID, 1, sizeof o.GUID); memset(o.AuthKey, 1, sizeof o.AuthKey);
    memcpy(probe_img, &o, sizeof o); probe_img_n = sizeof o; supla_esp_cfg_init(); probe_print_ops("OPS_INIT_V6");
    fprintf(stdout, "I INIT_V6_ACCEPTED %d\n", memcmp(supla_esp_cfg.GUID, o.GUID, sizeof o.GUID) == 0 && supla_esp_cfg.TAG[5] == 7);
    memcpy(probe_img, &supla_esp_cfg, sizeof supla_esp_cfg); probe_img_n = sizeof supla_esp_cfg; supla_esp_cfg_init();
    fprintf(stdout, "I OPS_INIT_V7_COUNT %d\n", probe_nops); probe_nops = 0; }
'''
G.GROUPS['C13Layout'] = dict(pre=PRE, ints=ints, body=BODY, extra_names=['TAG7', 'DEFAULTS_IMG', 'DEFAULTS_ZERO_STATE', 'OPS_INIT_BLANK', 'OPS_CFG_SAVE',
                                                                        'OPS_STATE_SAVE', 'OPS_FACTORY_SAVE', 'OPS_INIT_V6', 'INIT_V6_ACCEPTED', 'OPS_INIT_V7_COUNT'])
