"""C16/C17 constants of the MQTT client: buffer sizes, queue-entry size, control types, fixed-header rule tables,
error codes (as printed by the drivers: error - MQTT_ERROR_UNKNOWN), configuration field sizes."""
import gen as G

_pre = r'''
#include <stddef.h>
#include <supla_esp.h>
#include <supla_esp_cfg.h>
#include "mqtt.h"
#include "supla_esp_mqtt.h"
#include "mqtt.c"
#include <string.h>
/* supla_esp_mqtt.c is compiled into the probe for its macros (MQTT_KEEP_ALIVE_SEC, MQTT_CLIENTID_MAX_SIZE, RECONNECT_RETRY_TIME_MS);
   none of its functions is called: unresolved references are dropped by --gc-sections */
#include "supla_esp_mqtt.c"
#define ERRIDX(e) ((long long)(e) - (long long)MQTT_ERROR_UNKNOWN)
'''

_errs = ['CONTROL_FORBIDDEN_TYPE', 'CONTROL_INVALID_FLAGS', 'CONNECT_CLIENT_ID_REFUSED', 'CONNACK_FORBIDDEN_FLAGS',
         'CONNACK_FORBIDDEN_CODE', 'PUBLISH_FORBIDDEN_QOS', 'MALFORMED_RESPONSE', 'RESPONSE_INVALID_CONTROL_TYPE',
         'SEND_BUFFER_IS_FULL', 'RECV_BUFFER_TOO_SMALL', 'ACK_OF_UNKNOWN', 'CONNECTION_REFUSED', 'SUBSCRIBE_FAILED',
         'INVALID_REMAINING_LENGTH']
_cts = ['CONNECT', 'CONNACK', 'PUBLISH', 'PUBACK', 'PUBREC', 'PUBREL', 'PUBCOMP', 'SUBSCRIBE', 'SUBACK',
        'UNSUBSCRIBE', 'UNSUBACK', 'PINGREQ', 'PINGRESP', 'DISCONNECT']

G.GROUPS['MqttConsts'] = dict(
    mqtt=True,
    pre=_pre,
    ints=[
        ('RECVBUF', 'MQTT_RECVBUF_SIZE'),
        ('SENDBUF', 'MQTT_SENDBUF_SIZE'),
        ('QSZ', 'sizeof(struct mqtt_queued_message)'),
        ('QS_UNSENT', 'MQTT_QUEUED_UNSENT'),
        ('QS_AWAITING', 'MQTT_QUEUED_AWAITING_ACK'),
        ('QS_COMPLETE', 'MQTT_QUEUED_COMPLETE'),
        ('CONNACK_ACCEPTED', 'MQTT_CONNACK_ACCEPTED'),
        ('CONNACK_ID_REJECTED', 'MQTT_CONNACK_REFUSED_IDENTIFIER_REJECTED'),
        ('SUBACK_FAILURE', 'MQTT_SUBACK_FAILURE'),
        ('PUBLISH_DUP', 'MQTT_PUBLISH_DUP'),
        ('PUBLISH_QOS_MASK', 'MQTT_PUBLISH_QOS_MASK'),
        ('PUBLISH_RETAIN', 'MQTT_PUBLISH_RETAIN'),
        ('PREFIX_SIZE', 'MQTT_PREFIX_SIZE'),
        ('EMAIL_MAXSIZE', 'SUPLA_EMAIL_MAXSIZE'),
        ('PWD_MAXSIZE', 'SUPLA_LOCATION_PWD_MAXSIZE'),
        ('GUID_SIZE', 'SUPLA_GUID_SIZE'),
        ('FLAG_NO_AUTH', 'CFG_FLAG_MQTT_NO_AUTH'),
        ('FLAG_TLS', 'CFG_FLAG_MQTT_TLS'),
        ('FLAG_ENABLED', 'CFG_FLAG_MQTT_ENABLED'),
        ('PROTOCOL_LEVEL', 'MQTT_PROTOCOL_LEVEL'),
        ('CONNECT_CLEAN_SESSION', 'MQTT_CONNECT_CLEAN_SESSION'),
        ('CONNECT_WILL_FLAG', 'MQTT_CONNECT_WILL_FLAG'),
        ('CONNECT_USER_NAME', 'MQTT_CONNECT_USER_NAME'),
        ('CONNECT_PASSWORD', 'MQTT_CONNECT_PASSWORD'),
        ('CONNECT_WILL_RETAIN', 'MQTT_CONNECT_WILL_RETAIN'),
    ] + [('CT_' + c, 'MQTT_CONTROL_' + c) for c in _cts]
      + [('E_' + e, 'ERRIDX(MQTT_ERROR_' + e + ')') for e in _errs],
    bytes=[
        ('TYPE_VALID', 'mqtt_fixed_header_rules.control_type_is_valid', '16'),
        ('REQ_FLAGS', 'mqtt_fixed_header_rules.required_flags', '16'),
        ('MASK_FLAGS', 'mqtt_fixed_header_rules.mask_required_flags', '16'),
    ],
    body=r'''
  { /* behavioural pins: which remaining lengths 0..5 the real mqtt_unpack_response accepts for each packet type a broker sends
       (row: type, accepted lengths...), how many length bytes are accepted, CONNACK flag/code limits */
    static const int types[] = {2, 3, 4, 5, 6, 7, 9, 11, 13};
    for (unsigned i = 0; i < sizeof types / sizeof types[0]; i++) {
      fprintf(stdout, "L ACCEPTED_RL %d", types[i]);
      for (int rl = 0; rl <= 5; rl++) {
        uint8_t b[16]; memset(b, 0, sizeof b);
        b[0] = (uint8_t)((types[i] << 4) | (types[i] == 6 ? 2 : 0)); b[1] = (uint8_t)rl;
        struct mqtt_response r; memset(&r, 0, sizeof r);
        if (mqtt_unpack_response(&r, b, 2 + (size_t)rl) > 0) fprintf(stdout, " %d", rl);
      }
      fprintf(stdout, "\n");
    }
    int maxb = 0;
    for (int nb = 1; nb <= 6; nb++) {
      uint8_t b[16]; memset(b, 0x80, sizeof b); b[0] = 0x30; b[nb] = 0x02;
      struct mqtt_response r; memset(&r, 0, sizeof r);
      if (mqtt_unpack_fixed_header(&r, b, (size_t)nb + 1) != MQTT_ERROR_INVALID_REMAINING_LENGTH) maxb = nb; else break;
    }
    fprintf(stdout, "I RL_BYTES_MAX %d\n", maxb);
    int maxcode = -1, maxflag = -1;
    for (int c = 0; c < 256; c++) { uint8_t b[4] = {0x20, 2, 0, (uint8_t)c}; struct mqtt_response r; if (mqtt_unpack_response(&r, b, 4) > 0) maxcode = c; }
    for (int c = 0; c < 256; c++) { uint8_t b[4] = {0x20, 2, (uint8_t)c, 0}; struct mqtt_response r; if (mqtt_unpack_response(&r, b, 4) > 0) maxflag = c; }
    fprintf(stdout, "I CONNACK_CODE_MAX %d\nI CONNACK_FLAG_MAX %d\n", maxcode, maxflag);
    { /* QoS 3 and a topic that does not fit are rejected: error codes */
      uint8_t q3[8] = {0x36, 5, 0, 1, 'a', 0, 1}; struct mqtt_response r; fprintf(stdout, "I QOS3_RESULT %lld\n", (long long)mqtt_unpack_response(&r, q3, 7) < 0 ? ERRIDX(mqtt_unpack_response(&r, q3, 7)) : 0);
      uint8_t tl[8] = {0x30, 3, 0, 2, 'a'}; fprintf(stdout, "I TOPIC_OVERRUN_RESULT %lld\n", (long long)mqtt_unpack_response(&r, tl, 5) < 0 ? ERRIDX(mqtt_unpack_response(&r, tl, 5)) : 0);
    }
  }
  fprintf(stdout, "I KEEP_ALIVE_SEC %lld\nI CLIENTID_MAX %lld\nI RECONNECT_RETRY_MS %lld\n", (long long)MQTT_KEEP_ALIVE_SEC, (long long)MQTT_CLIENTID_MAX_SIZE, (long long)RECONNECT_RETRY_TIME_MS);
''' + '  fprintf(stdout, "S DEVICE_NAME"); { const char *q = MQTT_DEVICE_NAME; while (*q) fprintf(stdout, " %u", (unsigned char)*q++); } fprintf(stdout, "\\n");\n',
    extra_names=['ACCEPTED_RL', 'RL_BYTES_MAX', 'CONNACK_CODE_MAX', 'CONNACK_FLAG_MAX', 'QOS3_RESULT', 'TOPIC_OVERRUN_RESULT', 'KEEP_ALIVE_SEC', 'CLIENTID_MAX', 'RECONNECT_RETRY_MS', 'DEVICE_NAME'],
)
