"""C16/C17 constants of the MQTT client: buffer sizes, queue-entry size, control types, fixed-header rule tables,
error codes (as printed by the drivers: error - MQTT_ERROR_UNKNOWN), configuration field sizes."""
import gen as G

_pre = r'''
#include <stddef.h>
#include <supla_esp.h>
#include <supla_esp_cfg.h>
#include "mqtt.h"
#include "supla_esp_mqtt.h"
ssize_t mqtt_pal_sendall(mqtt_pal_socket_handle h, const void *b, size_t l, int f) { return 0; }
ssize_t mqtt_pal_recvall(mqtt_pal_socket_handle h, void *b, size_t l, int f) { return 0; }
unsigned int uptime_sec(void) { return 0; }
#include "mqtt.c"
#define ERRIDX(e) ((long long)(e) - (long long)MQTT_ERROR_UNKNOWN)
'''

_errs = ['CONTROL_FORBIDDEN_TYPE', 'CONTROL_INVALID_FLAGS', 'CONNECT_CLIENT_ID_REFUSED', 'CONNACK_FORBIDDEN_FLAGS',
         'CONNACK_FORBIDDEN_CODE', 'PUBLISH_FORBIDDEN_QOS', 'MALFORMED_RESPONSE', 'RESPONSE_INVALID_CONTROL_TYPE',
         'SEND_BUFFER_IS_FULL', 'RECV_BUFFER_TOO_SMALL', 'ACK_OF_UNKNOWN', 'CONNECTION_REFUSED', 'SUBSCRIBE_FAILED',
         'INVALID_REMAINING_LENGTH']
_cts = ['CONNECT', 'CONNACK', 'PUBLISH', 'PUBACK', 'PUBREC', 'PUBREL', 'PUBCOMP', 'SUBSCRIBE', 'SUBACK',
        'UNSUBSCRIBE', 'UNSUBACK', 'PINGREQ', 'PINGRESP', 'DISCONNECT']

G.GROUPS['MqttConsts'] = dict(
    mqtt=True,
    pre=_pre,
    ints=[
        ('RECVBUF', 'MQTT_RECVBUF_SIZE'),
        ('SENDBUF', 'MQTT_SENDBUF_SIZE'),
        ('QSZ', 'sizeof(struct mqtt_queued_message)'),
        ('QS_UNSENT', 'MQTT_QUEUED_UNSENT'),
        ('QS_AWAITING', 'MQTT_QUEUED_AWAITING_ACK'),
        ('QS_COMPLETE', 'MQTT_QUEUED_COMPLETE'),
        ('CONNACK_ACCEPTED', 'MQTT_CONNACK_ACCEPTED'),
        ('CONNACK_ID_REJECTED', 'MQTT_CONNACK_REFUSED_IDENTIFIER_REJECTED'),
        ('SUBACK_FAILURE', 'MQTT_SUBACK_FAILURE'),
        ('PUBLISH_DUP', 'MQTT_PUBLISH_DUP'),
        ('PUBLISH_QOS_MASK', 'MQTT_PUBLISH_QOS_MASK'),
        ('PUBLISH_RETAIN', 'MQTT_PUBLISH_RETAIN'),
        ('PREFIX_SIZE', 'MQTT_PREFIX_SIZE'),
        ('EMAIL_MAXSIZE', 'SUPLA_EMAIL_MAXSIZE'),
        ('PWD_MAXSIZE', 'SUPLA_LOCATION_PWD_MAXSIZE'),
        ('GUID_SIZE', 'SUPLA_GUID_SIZE'),
        ('FLAG_NO_AUTH', 'CFG_FLAG_MQTT_NO_AUTH'),
        ('FLAG_TLS', 'CFG_FLAG_MQTT_TLS'),
        ('FLAG_ENABLED', 'CFG_FLAG_MQTT_ENABLED'),
        ('PROTOCOL_LEVEL', 'MQTT_PROTOCOL_LEVEL'),
        ('CONNECT_CLEAN_SESSION', 'MQTT_CONNECT_CLEAN_SESSION'),
        ('CONNECT_WILL_FLAG', 'MQTT_CONNECT_WILL_FLAG'),
        ('CONNECT_USER_NAME', 'MQTT_CONNECT_USER_NAME'),
        ('CONNECT_PASSWORD', 'MQTT_CONNECT_PASSWORD'),
        ('CONNECT_WILL_RETAIN', 'MQTT_CONNECT_WILL_RETAIN'),
    ] + [('CT_' + c, 'MQTT_CONTROL_' + c) for c in _cts]
      + [('E_' + e, 'ERRIDX(MQTT_ERROR_' + e + ')') for e in _errs],
    bytes=[
        ('TYPE_VALID', 'mqtt_fixed_header_rules.control_type_is_valid', '16'),
        ('REQ_FLAGS', 'mqtt_fixed_header_rules.required_flags', '16'),
        ('MASK_FLAGS', 'mqtt_fixed_header_rules.mask_required_flags', '16'),
    ],
    body='  fprintf(stdout, "S DEVICE_NAME"); { const char *q = MQTT_DEVICE_NAME; while (*q) fprintf(stdout, " %u", (unsigned char)*q++); } fprintf(stdout, "\\n");\n',
    extra_names=['DEVICE_NAME'],
)
