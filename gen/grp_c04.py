"""Translator group C04Consts (used by C04 and C05).

Three mechanisms, all re-run on every check from the working tree (VERIF_REPO, default /repo):
 * C probe: call ids, result codes, struct sizes/offsets, timeouts (macros evaluated by the compiler
   under the device configuration); frame sizes are *measured* by running the real srpc_* functions.
 * source patterns on `gcc -E` output of the device sources: the list of every `srpc_*async*` call
   site with its guard (CallSites), the timer periods passed to os_timer_arm in devconn/wifi/gpio,
   the ping-window literals of supla_esp_devconn_timer1_cb, which functions clear the byte buffers.
 * callee -> call id map from `gcc -E` of srpc.c.
When a pattern no longer matches, the generated C contains `#error`, the probe does not compile and the
check reports "translator" as broken.
"""
import os, re, subprocess
import gen as G

REPO = G.REPO
USER = os.path.join(REPO, 'src', 'user')
SCAN = ['supla_esp_devconn', 'supla_update', 'supla_esp_gpio', 'supla_esp_input', 'supla_esp_cfg', 'supla_esp_cfgmode',
        'supla_esp_cfgmode_html', 'supla_esp_state', 'supla_esp_countdown_timer', 'supla_esp_dns_client',
        'supla_esp_wifi', 'uptime', 'supla_esp_rs_fb']

# public functions of devconn.c that the driver calls as LOCAL <api> (index = api number, fixed)
APIS = ['supla_esp_channel_value_changed', 'supla_esp_channel_value__changed', 'supla_esp_channel_value__changed_b',
        'supla_esp_channel_value__changed_c', 'supla_esp_channel_extendedvalue_changed',
        'supla_esp_devconn_send_action_trigger', 'supla_esp_get_channel_functions', 'supla_esp_calcfg_result',
        'supla_esp_set_channel_result']

def cpp(path, extra=()):
    r = subprocess.run(['gcc', '-E', '-w'] + G.dev_flags(REPO) + list(extra) + [path], capture_output=True, text=True)
    if r.returncode != 0: raise RuntimeError('cpp failed for %s: %s' % (path, r.stderr[-500:]))
    return r.stdout

def own_text(pp, path):
    """lines of the preprocessed output that come from `path` itself; returns list of (lineno, text)"""
    out = []; cur = None; ln = 0; base = os.path.basename(path)
    for line in pp.splitlines():
        m = re.match(r'#\s+(\d+)\s+"([^"]*)"', line)
        if m:
            cur = m.group(2); ln = int(m.group(1)); continue
        if cur is not None and os.path.basename(cur) == base: out.append((ln, line))
        ln += 1
    return out

def functions(lines):
    """splits own text into top-level function definitions: yields (name, first_line, body_text, [(offset->line)])"""
    text = ''; lnmap = []
    for (ln, t) in lines:
        lnmap.append((len(text), ln)); text += t + '\n'
    def line_of(off):
        lo = 0
        for (o, ln) in lnmap:
            if o <= off: lo = ln
            else: break
        return lo
    # blank out string and char literals
    clean = re.sub(r'"(\\.|[^"\\])*"', lambda m: '"' + ' ' * (len(m.group(0)) - 2) + '"', text)
    clean = re.sub(r"'(\\.|[^'\\])'", lambda m: "' '" if len(m.group(0)) == 3 else "'" + ' ' * (len(m.group(0)) - 2) + "'", clean)
    depth = 0; i = 0; n = len(clean); start = None; res = []; last_end = 0
    while i < n:
        c = clean[i]
        if c == '{':
            if depth == 0: start = i
            depth += 1
        elif c == '}':
            depth -= 1
            if depth == 0 and start is not None:
                head = clean[last_end:start]
                m = re.search(r'([A-Za-z_]\w*)\s*\(([^{};]*)\)\s*$', head)
                if m and not re.search(r'\b(struct|union|enum)\b[^()]*$', head) and '=' not in head.split('(')[0][-40:]:
                    res.append((m.group(1), line_of(start), clean[start:i + 1], start, line_of))
                last_end = i + 1; start = None
        elif c == ';' and depth == 0:
            last_end = i + 1
        i += 1
    return res

IS_REG = r'supla_esp_devconn_is_registered\s*\(\s*\)'

def positive_conjunct(cond):
    """is_registered() (optionally == 1) appears as a top-level && conjunct, not negated, no || at top level"""
    depth = 0; parts = []; cur = ''
    j = 0
    while j < len(cond):
        ch = cond[j]
        if ch == '(': depth += 1
        elif ch == ')': depth -= 1
        if depth == 0 and cond.startswith('||', j): return False
        if depth == 0 and cond.startswith('&&', j):
            parts.append(cur); cur = ''; j += 2; continue
        cur += ch; j += 1
    parts.append(cur)
    for p in parts:
        if re.fullmatch(r'\s*' + IS_REG + r'(\s*==\s*1)?\s*', p): return True
    return False

def block_stack(body, pos):
    """list of (header_text, block_start) for the blocks enclosing body[pos], outermost first"""
    st = []; i = 0
    while i < pos:
        c = body[i]
        if c == '{':
            k = i - 1
            while k >= 0 and body[k] not in ';{}': k -= 1
            # a header such as `if (a) {`; for `case X: {` keep as is
            st.append((body[k + 1:i].strip(), i))
        elif c == '}':
            if st: st.pop()
        i += 1
    return st

def guard_of(body, pos):
    """0 none, 1 inside if(is_registered()), 2 after `devconn->registered = 1;` in the same case section,
       3 inside `if (devconn->registered == 0) { devconn->registered = -1; ...` (the register transition)"""
    st = block_stack(body, pos)
    for (h, s) in st:
        m = re.match(r'if\s*\((.*)\)\s*$', h, flags=re.S)
        if m and positive_conjunct(m.group(1)): return 1
    for (h, s) in st:
        m = re.match(r'if\s*\(\s*devconn->registered\s*==\s*0\s*\)\s*$', h, flags=re.S)
        if m and re.match(r'\{\s*devconn->registered\s*=\s*-\s*1\s*;', body[s:], flags=re.S): return 3
    # kind 2: walk back from pos inside the enclosing switch block to the previous case/default label at the same depth
    for (h, s) in reversed(st):
        if re.match(r'switch\s*\(', h):
            seg = body[s + 1:pos]; depth = 0; last = 0
            for m in re.finditer(r'[{}]|\b(?:case\b[^:;{}]*|default\s*):', seg):
                t = m.group(0)
                if t == '{': depth += 1
                elif t == '}': depth -= 1
                elif depth == 0: last = m.end()
            sec = seg[last:]
            # statement at depth 0 of the section
            depth = 0; flat = ''
            for ch in sec:
                if ch == '{': depth += 1
                elif ch == '}': depth -= 1
                elif depth == 0: flat += ch
            if re.search(r'devconn->registered\s*=\s*1\s*;', flat) and not re.search(r'\b(break|return|goto)\b', flat): return 2
            break
    return 0

def analyse():
    # callee -> call id from srpc.c
    pp = cpp(os.path.join(REPO, 'supla-common', 'srpc.c'))
    callee = {}
    fl = functions(own_text(pp, 'srpc.c'))
    raw = {}
    for (name, ln, body, _, _) in fl:
        if not re.match(r'srpc_\w*async\w*$', name): continue
        ids = re.findall(r'srpc_async_?_call\s*\(\s*\w+\s*,\s*\(?\s*(\d+)\s*\)?', body)
        inner = [x for x in re.findall(r'\b(srpc_\w*async\w*)\s*\(', body) if x not in ('srpc_async_call', 'srpc_async__call')]
        raw[name] = (ids, inner)
    for name, (ids, inner) in raw.items():
        s = set(ids)
        for x in inner: s |= set(raw.get(x, ([], []))[0])
        callee[name] = int(sorted(s)[0]) if len(s) == 1 else -1
    sites = []; timers = {}; facts = {}
    allfun = {}
    for fi, base in enumerate(SCAN):
        path = os.path.join(USER, base + '.c')
        pp = cpp(path)
        fl = functions(own_text(pp, base + '.c'))
        allfun[base] = fl
    # first pass: lexical guards
    pending = []
    for fi, base in enumerate(SCAN):
        for (name, ln, body, start, line_of) in allfun[base]:
            for m in re.finditer(r'\b(srpc_\w*async\w*)\s*\(', body):
                g = guard_of(body, m.start())
                sites.append(dict(file=fi, line=line_of(start + m.start()), fn=name, callee=m.group(1),
                                  call=callee.get(m.group(1), -1), guard=g))
    # second pass: a function whose unguarded site is only reachable through guarded calls (kind 4)
    def callers_guarded(fn):
        found = 0
        for base in SCAN:
            for (name, ln, body, start, line_of) in allfun[base]:
                for m in re.finditer(r'\b' + re.escape(fn) + r'\b', body):
                    if name == fn and m.start() < body.find('{') + 1: continue
                    after = body[m.end():m.end() + 8].lstrip()
                    if not after.startswith('('): return False         # address taken (timer callback ...)
                    if guard_of(body, m.start()) not in (1, 2): return False
                    found += 1
        return found > 0
    for s in sites:
        if s['guard'] == 0 and callers_guarded(s['fn']): s['guard'] = 4
    # timers: os_timer_arm(&devconn->NAME, ms, rep)   (ets_timer_arm_new after preprocessing)
    dv = '\n'.join(b for (_, _, b, _, _) in allfun['supla_esp_devconn'])
    for m in re.finditer(r'ets_timer_arm_new\s*\(\s*&\s*devconn->(\w+)\s*,\s*(\w+)\s*,\s*(\w+)\s*,\s*1\s*\)', dv):
        timers.setdefault(m.group(1), set()).add((m.group(2), m.group(3)))
    wf = '\n'.join(b for (_, _, b, _, _) in allfun['supla_esp_wifi'])
    m = re.search(r'ets_timer_arm_new\s*\(\s*&\s*supla_esp_wifi_vars\.timer\s*,\s*(\d+)\s*,\s*(\d+)\s*,\s*1\s*\)', wf)
    facts['WIFI_CHECK_MS'] = int(m.group(1)) if m and m.group(2) == '1' else None
    gp = dict((n, b) for (n, _, b, _, _) in allfun['supla_esp_gpio'])
    m = re.search(r'ets_timer_arm_new\s*\(\s*&\s*supla_gpio_timer2\s*,\s*(\d+)\s*,\s*0\s*,\s*1\s*\)', gp.get('supla_esp_gpio_state_connected', ''))
    facts['GPIO_TIMER2_MS'] = int(m.group(1)) if m else None
    def one(name, rep):
        v = timers.get(name, set())
        if len(v) == 1:
            (ms, r) = next(iter(v))
            if r == rep and ms.isdigit(): return int(ms)
        return None
    facts['ITERATE_MS'] = one('supla_iterate_timer', '1')
    facts['TIMER1_MS'] = one('supla_devconn_timer1', '1')
    facts['WATCHDOG_MS'] = one('supla_watchdog_timer', '1')
    facts['STOP_DELAY_MS'] = one('stop_delay_timer', '0')
    v = timers.get('reconnect_delay_timer', set())
    facts['RECONNECT_ARMED_WITH_PARAM'] = 1 if v == {('time_ms', '0')} else None
    v = timers.get('supla_value_timer', set())
    facts['VALUE_TIMER_PARAM'] = 1 if v == {('time_ms', '0')} else None
    m = re.search(r'supla_esp_devconn_send_channel_values_with__delay\s*\(\s*(\d+)\s*\)', dv)
    facts['VALUE_DELAY_MS'] = int(m.group(1)) if m else None
    t1 = dict((n, b) for (n, _, b, _, _) in allfun['supla_esp_devconn']).get('supla_esp_devconn_timer1_cb', '')
    m = re.search(r't2\s*>=\s*\(\s*devconn->server_activity_timeout\s*\+\s*(\d+)\s*\)', t1)
    facts['PING_RECONNECT_PLUS'] = int(m.group(1)) if m else None
    lo = re.findall(r't[12]\s*>=\s*\(\s*devconn->server_activity_timeout\s*-\s*(\d+)\s*\)', t1)
    hi = re.findall(r't[12]\s*<=\s*devconn->server_activity_timeout\b', t1)
    facts['PING_WINDOW_MINUS'] = int(lo[0]) if len(lo) == 2 and lo[0] == lo[1] and len(hi) == 2 else None
    # which functions clear the two byte buffers
    dd = dict((n, b) for (n, _, b, _, _) in allfun['supla_esp_devconn'])
    def clears(fn): return 1 if (re.search(r'devconn->esp_send_buffer_len\s*=\s*0\s*;', dd.get(fn, '')) and
                                  re.search(r'devconn->recvbuff_size\s*=\s*0\s*;', dd.get(fn, ''))) else 0
    facts['DISCONNECT_CB_CLEARS'] = clears('supla_esp_devconn_disconnect_cb')
    facts['STOP_CLEARS'] = clears('supla_esp_devconn__stop')
    facts['CONNECT_CB_CLEARS'] = clears('supla_esp_devconn_connect_cb')
    return sites, facts

def build_body():
    lines = []
    try:
        sites, facts = analyse()
    except Exception as ex:
        return '#error "C04 translator: source analysis failed: %s"\n' % str(ex).replace('"', "'")[:200]
    for k, v in facts.items():
        if v is None: lines.append('#error "C04 translator: pattern for %s no longer matches"\n' % k)
        else: lines.append('  fprintf(stdout, "I %s %d\\n");\n' % (k, v))
    if not sites: lines.append('#error "C04 translator: no srpc async call sites found"\n')
    for s in sites:
        api = APIS.index(s['fn']) if s['fn'] in APIS else -1
        lines.append('  fprintf(stdout, "L CallSites %d %d %d %d %d\\n"); /* %s -> %s */\n' %
                     (s['file'], s['line'], s['call'], s['guard'], api, s['fn'], s['callee']))
    # measured frame sizes per LOCAL api (payload size of the frame the real srpc function produces)
    lines.append(r'''
  {
    TsrpcParams p; srpc_params_init(&p); p.data_read = c04_rd; p.data_write = c04_wr;
    void *s = srpc_init(&p); srpc_set_proto_version(s, ESP8266_SUPLA_PROTO_VERSION);
    char value[SUPLA_CHANNELVALUE_SIZE] = {0};
    TSuplaChannelExtendedValue ev; memset(&ev, 0, sizeof ev); ev.type = 1; ev.size = 16;
    TDS_ActionTrigger at; memset(&at, 0, sizeof at);
    TDS_DeviceCalCfgResult cr; memset(&cr, 0, sizeof cr);
    TDSC_ChannelState cs; memset(&cs, 0, sizeof cs);
    TDCS_SuplaSetActivityTimeout sat; memset(&sat, 0, sizeof sat);
    TDS_FirmwareUpdateParams fu; memset(&fu, 0, sizeof fu);
    #define MEAS(api, call) do { c04_n = 0; call; srpc_iterate(s); srpc_iterate(s); \
        unsigned ds = 0, cid = 0; if (c04_n >= 23) { memcpy(&cid, c04_b + 10, 4); memcpy(&ds, c04_b + 14, 4); } \
        fprintf(stdout, "L ApiFrames %d %u %u %d\n", api, cid, ds, c04_n); } while (0)
    MEAS(0, srpc_ds_async_channel_value_changed(s, 0, value));
    MEAS(1, srpc_ds_async_channel_value_changed(s, 0, value));
    MEAS(2, srpc_ds_async_channel_value_changed_b(s, 0, value, 0));
    MEAS(3, srpc_ds_async_channel_value_changed_c(s, 0, value, 0, 0));
    MEAS(4, srpc_ds_async_channel_extendedvalue_changed(s, 0, &ev));
    MEAS(5, srpc_ds_async_action_trigger(s, &at));
    MEAS(6, srpc_ds_async_get_channel_functions(s));
    MEAS(7, srpc_ds_async_device_calcfg_result(s, &cr));
    MEAS(8, srpc_ds_async_set_channel_result(s, 0, 0, 0));
    /* frames the automaton itself produces: 100 ping, 101 set activity timeout, 102 channel state result, 103 firmware url */
    MEAS(100, srpc_dcs_async_ping_server(s));
    MEAS(101, srpc_dcs_async_set_activity_timeout(s, &sat));
    MEAS(102, srpc_csd_async_channel_state_result(s, &cs));
    MEAS(103, srpc_sd_async_get_firmware_update_url(s, &fu));
  }
''')
    return ''.join(lines)

PRE = r'''
#include <stddef.h>
#include <string.h>
#include "proto.c"
#include "srpc.c"
#include "lck.c"
#include <supla_esp.h>
#include <espconn.h>
#include <user_interface.h>
void supla_log(int prio, const char *fmt, ...) { (void)prio; (void)fmt; }
uint32 system_get_time(void) { return 0; }
static unsigned char c04_b[4096]; static int c04_n = 0;
static int c04_rd(void *b, int n, void *d) { (void)b; (void)n; (void)d; return -1; }
static int c04_wr(void *b, int n, void *d) { (void)d; if (c04_n + n <= (int)sizeof c04_b) { memcpy(c04_b + c04_n, b, n); c04_n += n; } return n; }
'''

G.GROUPS['C04Consts'] = dict(
    pre=PRE,
    ints=[
        ('CALL_REGISTER_E', 'SUPLA_DS_CALL_REGISTER_DEVICE_E'),
        ('CALL_REGISTER', 'SUPLA_DS_CALL_REGISTER_DEVICE'),
        ('CALL_REGISTER_B', 'SUPLA_DS_CALL_REGISTER_DEVICE_B'),
        ('CALL_REGISTER_C', 'SUPLA_DS_CALL_REGISTER_DEVICE_C'),
        ('CALL_REGISTER_D', 'SUPLA_DS_CALL_REGISTER_DEVICE_D'),
        ('CALL_REGISTER_F', 'SUPLA_DS_CALL_REGISTER_DEVICE_F'),
        ('CALL_VALUE_CHANGED', 'SUPLA_DS_CALL_DEVICE_CHANNEL_VALUE_CHANGED'),
        ('CALL_VALUE_CHANGED_B', 'SUPLA_DS_CALL_DEVICE_CHANNEL_VALUE_CHANGED_B'),
        ('CALL_VALUE_CHANGED_C', 'SUPLA_DS_CALL_DEVICE_CHANNEL_VALUE_CHANGED_C'),
        ('CALL_EXTVALUE_CHANGED', 'SUPLA_DS_CALL_DEVICE_CHANNEL_EXTENDEDVALUE_CHANGED'),
        ('CALL_ACTION_TRIGGER', 'SUPLA_DS_CALL_ACTIONTRIGGER'),
        ('CALL_PING', 'SUPLA_DCS_CALL_PING_SERVER'),
        ('CALL_SET_ACTIVITY_TIMEOUT', 'SUPLA_DCS_CALL_SET_ACTIVITY_TIMEOUT'),
        ('CALL_GET_CHANNEL_CONFIG', 'SUPLA_DS_CALL_GET_CHANNEL_CONFIG'),
        ('CALL_GET_FIRMWARE_URL', 'SUPLA_DS_CALL_GET_FIRMWARE_UPDATE_URL'),
        ('CALL_GET_USER_LOCALTIME', 'SUPLA_DCS_CALL_GET_USER_LOCALTIME'),
        ('CALL_GET_CHANNEL_FUNCTIONS', 'SUPLA_DS_CALL_GET_CHANNEL_FUNCTIONS'),
        ('CALL_SET_CHANNEL_CONFIG', 'SUPLA_DS_CALL_SET_CHANNEL_CONFIG'),
        ('CALL_SET_VALUE_RESULT', 'SUPLA_DS_CALL_CHANNEL_SET_VALUE_RESULT'),
        ('CALL_CHANNEL_STATE_RESULT', 'SUPLA_DSC_CALL_CHANNEL_STATE_RESULT'),
        ('CALL_CALCFG_RESULT', 'SUPLA_DS_CALL_DEVICE_CALCFG_RESULT'),
        ('CALL_SET_CHANNEL_CONFIG_RESULT', 'SUPLA_DS_CALL_SET_CHANNEL_CONFIG_RESULT'),
        ('SRV_REGISTER_RESULT', 'SUPLA_SD_CALL_REGISTER_DEVICE_RESULT'),
        ('SRV_PING_RESULT', 'SUPLA_SDC_CALL_PING_SERVER_RESULT'),
        ('SRV_SET_ACTIVITY_TIMEOUT_RESULT', 'SUPLA_SDC_CALL_SET_ACTIVITY_TIMEOUT_RESULT'),
        ('SRV_GET_CHANNEL_STATE', 'SUPLA_CSD_CALL_GET_CHANNEL_STATE'),
        ('SRV_VERSIONERROR', 'SUPLA_SDC_CALL_VERSIONERROR'),
        ('SZ_REGISTER_RESULT', 'sizeof(TSD_SuplaRegisterDeviceResult)'),
        ('OFF_RESULT_CODE', 'offsetof(TSD_SuplaRegisterDeviceResult, result_code)'),
        ('OFF_RESULT_TIMEOUT', 'offsetof(TSD_SuplaRegisterDeviceResult, activity_timeout)'),
        ('SZ_PING_RESULT', 'sizeof(TSDC_SuplaPingServerResult)'),
        ('SZ_SET_ACTIVITY_TIMEOUT_RESULT', 'sizeof(TSDC_SuplaSetActivityTimeoutResult)'),
        ('OFF_SAT_RESULT_TIMEOUT', 'offsetof(TSDC_SuplaSetActivityTimeoutResult, activity_timeout)'),
        ('SZ_CHANNEL_STATE_REQUEST', 'sizeof(TCSD_ChannelStateRequest)'),
        ('SZ_VERSIONERROR', 'sizeof(TSDC_SuplaVersionError)'),
        ('RESULTCODE_TRUE', 'SUPLA_RESULTCODE_TRUE'),
        ('REG_BASE_SIZE', 'sizeof(TDS_SuplaRegisterDevice_E) - sizeof(TDS_SuplaDeviceChannel_C) * SUPLA_CHANNELMAXCOUNT'),
        ('REG_CHANNEL_SIZE', 'sizeof(TDS_SuplaDeviceChannel_C)'),
        ('REG_OFF_EMAIL', 'offsetof(TDS_SuplaRegisterDevice_E, Email)'),
        ('REG_OFF_AUTHKEY', 'offsetof(TDS_SuplaRegisterDevice_E, AuthKey)'),
        ('REG_OFF_GUID', 'offsetof(TDS_SuplaRegisterDevice_E, GUID)'),
        ('REG_OFF_SOFTVER', 'offsetof(TDS_SuplaRegisterDevice_E, SoftVer)'),
        ('REG_OFF_SERVERNAME', 'offsetof(TDS_SuplaRegisterDevice_E, ServerName)'),
        ('REG_OFF_CHANNEL_COUNT', 'offsetof(TDS_SuplaRegisterDevice_E, channel_count)'),
        ('REG_OFF_CHANNELS', 'offsetof(TDS_SuplaRegisterDevice_E, channels)'),
        ('GUID_SIZE', 'SUPLA_GUID_SIZE'), ('AUTHKEY_SIZE', 'SUPLA_AUTHKEY_SIZE'), ('EMAIL_MAXSIZE', 'SUPLA_EMAIL_MAXSIZE'),
        ('SOFTVER_MAXSIZE', 'SUPLA_SOFTVER_MAXSIZE'),
        ('ACTIVITY_TIMEOUT_DEFAULT', 'ACTIVITY_TIMEOUT'),
        ('WATCHDOG_TIMEOUT_S', 'WATCHDOG_TIMEOUT_SEC'),
        ('WATCHDOG_SOFT_TIMEOUT_S', 'WATCHDOG_SOFT_TIMEOUT_SEC'),
        ('RECONNECT_DELAY_MS', 'RECONNECT_DELAY_MSEC'),
        ('STATION_GOT_IP_', 'STATION_GOT_IP'),
        ('STATION_CONNECTING_', 'STATION_CONNECTING'),
        ('QUEUE_SIZE', 'SRPC_QUEUE_SIZE'),
        ('OUT_CHUNK', 'SRPC_BUFFER_SIZE'),
        ('SEND_BUFFER_SZ', 'SEND_BUFFER_SIZE'),
        ('OUT_BUFFER_MAX', 'BUFFER_MAX_SIZE'),
        ('OUT_BUFFER_MIN', 'BUFFER_MIN_SIZE'),
        ('ESP_INPROGRESS', 'ESPCONN_INPROGRESS'),
        ('ESP_MAXNUM', 'ESPCONN_MAXNUM'),
        ('ESP_ARG', 'ESPCONN_ARG'),
    ],
    bytes=[('SOFTVER', 'SUPLA_ESP_SOFTVER', 'strlen(SUPLA_ESP_SOFTVER)')],
    body=build_body(),
    extra_names=['WIFI_CHECK_MS', 'GPIO_TIMER2_MS', 'ITERATE_MS', 'TIMER1_MS', 'WATCHDOG_MS', 'STOP_DELAY_MS',
                 'RECONNECT_ARMED_WITH_PARAM', 'VALUE_TIMER_PARAM', 'VALUE_DELAY_MS', 'PING_RECONNECT_PLUS',
                 'PING_WINDOW_MINUS', 'DISCONNECT_CB_CLEARS', 'STOP_CLEARS', 'CONNECT_CB_CLEARS', 'CallSites', 'ApiFrames'],
)
