#!/usr/bin/env python3
"""Translator G: regenerates coq/Gen/*.v (and gen/out/*.json for the python side) from /repo's
current working tree.  Mechanism: C probes compiled with the host compiler under the device
configuration print `NAME = value`; nothing here is hand-copied from the sources.

usage: gen.py [group ...]     (no group = all)
exit 0 on success, 1 when a probe does not compile/run (=> "correspondence G broken").
"""
import json, os, subprocess, sys, hashlib, tempfile

VERIF = os.path.dirname(os.path.dirname(os.path.abspath(__file__)))
REPO = os.environ.get('VERIF_REPO', '/repo')
OUT_V = os.path.join(VERIF, 'coq', 'Gen')
OUT_J = os.path.join(VERIF, 'gen', 'out')

def dev_flags(repo=None, mqtt=False):
    repo = repo or REPO
    f = ['-DESP8266', '-D__EH_DISABLED', '-D__SINGLE_THREAD',
         '-include', f'{repo}/test/doubles/c_types.h',
         '-D_ROLLERSHUTTER_SUPPORT', '-D__FOTA', '-DCFG_SECTOR=0x3C', '-DESPMISSINGINCLUDES_H',
         '-DGPIO_PORT_INIT=', '-DRS_AUTOCALIBRATION_SUPPORTED', '-DRELAY_MAX_COUNT=8',
         '-DBOARD_CALCFG', '-DBOARD_ESP_ON_STATE_CHANGED', '-D__BOARD_ut_testing',
         f'-I{VERIF}/harness/include', f'-I{repo}/test/doubles', f'-I{repo}', f'-I{repo}/supla-common',
         f'-I{repo}/src/include', f'-I{repo}/src/nettle/include', f'-I{repo}/src/user']
    if mqtt:
        f += ['-DMQTT_SUPPORT_ENABLED', '-DMQTT_HA_RELAY_SUPPORT', '-DMQTT_HA_ROLLERSHUTTER_SUPPORT',
              '-include', f'{repo}/test/doubles/user_interface.h']
    return f

# ---------------------------------------------------------------------------------------------
# groups: name -> dict(pre=C text placed before main (includes), ints=[(coqname, cexpr)],
#                      bytes=[(coqname, cexpr_ptr, cexpr_len)], mqtt=bool)
GROUPS = {}

GROUPS['ProtoConsts'] = dict(
    pre='#include <stddef.h>\n#include "proto.c"\n#include "srpc.c"\n#include <supla_esp.h>\n#include <espconn.h>\n',
    ints=[
        ('TAG_SIZE', 'SUPLA_TAG_SIZE'),
        ('PROTO_VERSION', 'SUPLA_PROTO_VERSION'),
        ('PROTO_VERSION_MIN', 'SUPLA_PROTO_VERSION_MIN'),
        ('DEVICE_PROTO_VERSION', 'ESP8266_SUPLA_PROTO_VERSION'),
        ('MAX_DATA_SIZE', 'SUPLA_MAX_DATA_SIZE'),
        ('SDP_SIZE', 'sizeof(TSuplaDataPacket)'),
        ('OFF_VERSION', 'offsetof(TSuplaDataPacket, version)'),
        ('OFF_RR_ID', 'offsetof(TSuplaDataPacket, rr_id)'),
        ('OFF_CALL_ID', 'offsetof(TSuplaDataPacket, call_id)'),
        ('OFF_DATA_SIZE', 'offsetof(TSuplaDataPacket, data_size)'),
        ('OFF_DATA', 'offsetof(TSuplaDataPacket, data)'),
        ('SIZEOF_RR_ID', 'sizeof(((TSuplaDataPacket*)0)->rr_id)'),
        ('BUFFER_MIN', 'BUFFER_MIN_SIZE'),
        ('BUFFER_MAX', 'BUFFER_MAX_SIZE'),
        ('SRPC_BUFFER', 'SRPC_BUFFER_SIZE'),
        ('SRPC_QUEUE', 'SRPC_QUEUE_SIZE'),
        ('RECVBUFF_MAX', 'RECVBUFF_MAXSIZE'),
        ('SEND_BUFFER', 'SEND_BUFFER_SIZE'),
        ('RESULT_TRUE', 'SUPLA_RESULT_TRUE'),
        ('RESULT_FALSE', 'SUPLA_RESULT_FALSE'),
        ('RESULT_DATA_ERROR', 'SUPLA_RESULT_DATA_ERROR'),
        ('RESULT_VERSION_ERROR', 'SUPLA_RESULT_VERSION_ERROR'),
        ('RESULT_BUFFER_OVERFLOW', 'SUPLA_RESULT_BUFFER_OVERFLOW'),
        ('RESULT_DATA_TOO_LARGE', 'SUPLA_RESULT_DATA_TOO_LARGE'),
        ('ESPCONN_INPROGRESS_', 'ESPCONN_INPROGRESS'),
        ('ESPCONN_MAXNUM_', 'ESPCONN_MAXNUM'),
    ],
    bytes=[('TAG', 'sproto_tag', 'SUPLA_TAG_SIZE')],
)

def run_probe(name, g, repo=None):
    src = ['#include <stdio.h>\n', g['pre'], '\nint main(void){\n']
    for (n, e) in g.get('ints', []):
        src.append(f'  fprintf(stdout, "I {n} %lld\\n", (long long)({e}));\n')
    for (n, p, l) in g.get('bytes', []):
        src.append(f'  {{ const unsigned char *q=(const unsigned char*)({p}); long long L=(long long)({l}); '
                   f'fprintf(stdout, "B {n}"); for(long long i=0;i<L;i++) fprintf(stdout, " %u", q[i]); fprintf(stdout, "\\n"); }}\n')
    src.append(g.get('body', ''))
    src.append('  return 0;\n}\n')
    d = tempfile.mkdtemp(prefix='vgen_', dir=os.path.join(VERIF, '.cache'))
    try:
        c = os.path.join(d, 'probe.c'); exe = os.path.join(d, 'probe')
        open(c, 'w').write(''.join(src))
        cmd = ['gcc', '-w', '-O0'] + dev_flags(repo, g.get('mqtt', False)) + g.get('flags', []) + [c, '-o', exe, '-ffunction-sections', '-fdata-sections', '-Wl,--gc-sections'] + g.get('libs', [])
        r = subprocess.run(cmd, capture_output=True, text=True)
        if r.returncode != 0:
            return None, 'probe compile failed for %s:\n%s' % (name, r.stderr[-3000:])
        r = subprocess.run([exe], capture_output=True, text=True)
        if r.returncode != 0:
            return None, 'probe run failed for %s: %s' % (name, r.stderr[-2000:])
        vals = {}
        for line in r.stdout.splitlines():
            t = line.split()
            if not t: continue
            if t[0] == 'I': vals[t[1]] = int(t[2])
            elif t[0] == 'B': vals[t[1]] = [int(x) for x in t[2:]]
            elif t[0] == 'L': vals.setdefault(t[1], []).append([int(x) for x in t[2:]])
            elif t[0] == 'S': vals[t[1]] = [int(x) for x in t[2:]]   # string as byte list
        return vals, ''
    finally:
        subprocess.run(['rm', '-rf', d])

def zlit(v):
    return f'({v})' if v < 0 else str(v)

def write_v(name, vals, order):
    lines = ['(* GENERATED by gen/gen.py from the working tree of /repo — do not edit. *)',
             'From Coq Require Import ZArith List.', 'Import ListNotations.', 'Local Open Scope Z_scope.', '']
    for n in order:
        v = vals[n]
        if isinstance(v, int):
            lines.append(f'Definition {n} : Z := {zlit(v)}.')
        elif v and isinstance(v[0], list):
            rows = '; '.join('[' + '; '.join(zlit(x) for x in row) + ']' for row in v)
            lines.append(f'Definition {n} : list (list Z) := [{rows}].')
        else:
            lines.append(f'Definition {n} : list Z := [' + '; '.join(zlit(x) for x in v) + '].')
    txt = '\n'.join(lines) + '\n'
    p = os.path.join(OUT_V, name + '.v')
    old = open(p).read() if os.path.exists(p) else None
    if old != txt:
        tmp = p + '.%d.tmp' % os.getpid()
        with open(tmp, 'w') as f: f.write(txt)
        os.replace(tmp, p)
    jp = os.path.join(OUT_J, name + '.json'); jtxt = json.dumps(vals, indent=0, sort_keys=True)
    if not (os.path.exists(jp) and open(jp).read() == jtxt):
        tmp = jp + '.%d.tmp' % os.getpid()
        with open(tmp, 'w') as f: f.write(jtxt)
        os.replace(tmp, jp)

def gen(groups=None, repo=None):
    os.makedirs(OUT_V, exist_ok=True); os.makedirs(OUT_J, exist_ok=True)
    os.makedirs(os.path.join(VERIF, '.cache'), exist_ok=True)
    errs = []
    for name in (list(GROUPS) if groups is None else groups):
        g = GROUPS[name]
        vals, err = run_probe(name, g, repo)
        if vals is None:
            errs.append(err); continue
        order = [n for (n, _) in g.get('ints', [])] + [n for (n, _, _) in g.get('bytes', [])] + g.get('extra_names', [])
        missing = [n for n in order if n not in vals]
        if missing:
            errs.append(f'{name}: probe did not print {missing}'); continue
        write_v(name, vals, order)
    return errs

def load(name):
    return json.load(open(os.path.join(OUT_J, name + '.json')))

def load_groups():
    here = os.path.dirname(os.path.abspath(__file__))
    if here not in sys.path: sys.path.insert(0, here)
    for f in sorted(os.listdir(here)):
        if f.startswith('grp_') and f.endswith('.py'):
            __import__(f[:-3])

def main(argv):
    load_groups()
    errs = gen(argv or None)
    for e in errs: print('GEN-ERROR', e)
    return 1 if errs else 0

if __name__ == '__main__':
    # run through the importable module so that grp_*.py files (which `import gen`) register into the same GROUPS
    here = os.path.dirname(os.path.abspath(__file__))
    sys.path.insert(0, here)
    import gen as _g
    sys.exit(_g.main(sys.argv[1:]))
