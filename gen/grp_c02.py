"""C02 constants: the call ids srpc_async__call lets through at the device's protocol version, and (python side only)
the table of typed device->server entry points from harness/include/c02_calls.h."""
import gen as G

_body = r'''
  { /* srpc_call_allowed() at the protocol version devconn configures (ESP8266_SUPLA_PROTO_VERSION) */
    fprintf(stdout, "S ALLOWED_CALLS");
    for (unsigned id = 0; id < 65536u; id++) {
      unsigned char mv = srpc_call_min_version_required(0, id);
      if (mv == 0 || ESP8266_SUPLA_PROTO_VERSION >= mv) fprintf(stdout, " %u", id);
    }
    fprintf(stdout, "\n");
  }
#define ROW(k, cid, sz, base, unit, voff, vw, vmin, vmax) \
  fprintf(stdout, "L DSCALLS %lld %lld %lld %lld %lld %lld %lld %lld %lld\n", (long long)(k), (long long)(cid), (long long)(sz), \
          (long long)(base), (long long)(unit), (long long)(voff), (long long)(vw), (long long)(vmin), (long long)(vmax));
  C02_ROWS
'''

G.GROUPS['C02Consts'] = dict(
    pre='#include <stddef.h>\n#include "proto.c"\n#include "srpc.c"\n#include <supla_esp.h>\n#include <espconn.h>\n#include "c02_calls.h"\n',
    ints=[
        ('CALL_SCAN_LIMIT', '65536'),          # ids >= this are not in the switch of srpc_call_min_version_required
        ('OFFLINE_OFF_B', 'offsetof(TDS_SuplaDeviceChannelValue_B, Offline)'),
        ('OFFLINE_OFF_C', 'offsetof(TDS_SuplaDeviceChannelValue_C, Offline)'),
    ],
    body=_body,
    extra_names=['ALLOWED_CALLS'],
)
