"""Translator group UptimeConsts (C19): literals and shape of src/user/uptime.c, taken from the preprocessed
source of the working tree (gcc -E under the device configuration) + a probe for the type widths.
If the shape the hand-written model relies on is gone the group emits `#error` (translator failure)."""
import re, subprocess, os
import gen as G

def _pp(fname):
    r = subprocess.run(['gcc', '-E', '-P'] + G.dev_flags() + [os.path.join(G.REPO, 'src', 'user', fname)], capture_output=True, text=True)
    return r.stdout if r.returncode == 0 else ''

def _extract():
    v = {}; errs = []
    s = _pp('uptime.c')
    m = re.search(r'unsigned long long\s+uptime_usec\s*\(void\)\s*\{(.*?)\n\}', s, re.S)
    if not m: return v, ['uptime_usec not found']
    b = re.sub(r'\s+', ' ', m.group(1))
    if not re.search(r'uint32 time = system_get_time\(\);', b): errs.append('uptime_usec no longer reads the counter into a uint32')
    if not re.search(r'if \(time < usermain_uptime\.last_system_time\) \{ usermain_uptime\.cycles\+\+; \}', b): errs.append('wrap detection of uptime_usec changed')
    if not re.search(r'usermain_uptime\.last_system_time = time;', b): errs.append('last_system_time update changed')
    mm = re.search(r'return usermain_uptime\.cycles \* \(unsigned long long\)\s*(0x[0-9a-fA-F]+|\d+)\s*\+ \(unsigned long long\)\s*time;', b)
    if mm: v['UPTIME_MULT'] = int(mm.group(1), 0)
    else: errs.append('return expression of uptime_usec changed')
    mm = re.search(r'unsigned long long\s+uptime_msec\s*\(void\)\s*\{\s*return uptime_usec\(\) / \(unsigned long long\)\s*(\d+);\s*\}', s)
    if mm: v['UPTIME_MS_DIV'] = int(mm.group(1))
    else: errs.append('uptime_msec changed')
    mm = re.search(r'uint32\s+uptime_sec\s*\(void\)\s*\{\s*return uptime_msec\(\) / \(unsigned long long\)\s*(\d+);\s*\}', s)
    if mm: v['UPTIME_S_DIV'] = int(mm.group(1))
    else: errs.append('uptime_sec changed (expected `return uptime_msec() / (u64)N;` with a uint32 result)')
    mm = re.search(r'ets_timer_arm_new\(&usermain_uptime\.timer,\s*(\d+),\s*1,\s*1\)', s)
    if mm: v['UPTIME_POLL_MS'] = int(mm.group(1))
    else: errs.append('uptime watchdog timer is no longer armed repeating in ms')
    return v, errs

_vals, _errs = _extract()
_names = ['UPTIME_MULT', 'UPTIME_MS_DIV', 'UPTIME_S_DIV', 'UPTIME_POLL_MS']
G.GROUPS['UptimeConsts'] = dict(
    pre=('#include <stddef.h>\n#include <supla_esp.h>\n#include "uptime.c"\n'
         + ''.join('#error UptimeConsts: %s\n' % e for e in _errs)),
    ints=[('SIZEOF_CYCLES', 'sizeof(usermain_uptime.cycles)'), ('SIZEOF_LAST', 'sizeof(usermain_uptime.last_system_time)'),
          ('SIZEOF_USEC', 'sizeof(uptime_usec())'), ('SIZEOF_MSEC', 'sizeof(uptime_msec())'), ('SIZEOF_SEC', 'sizeof(uptime_sec())'),
          ('WATCHDOG_TIMEOUT_S', 'WATCHDOG_TIMEOUT_SEC')]
         + [(n, str(_vals.get(n, 0))) for n in _names],
)
