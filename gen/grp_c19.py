"""Translator group UptimeConsts (C19): literals and shape of src/user/uptime.c, taken from the preprocessed
source of the working tree (gcc -E under the device configuration) + a probe for the type widths.
If the shape the hand-written model relies on is gone the group emits `#error` (translator failure)."""
import re, subprocess, os
import gen as G

def _pp(fname):
    r = subprocess.run(['gcc', '-E', '-P'] + G.dev_flags() + [os.path.join(G.REPO, 'src', 'user', fname)], capture_output=True, text=True)
    return r.stdout if r.returncode == 0 else ''

def _extract():
    v = {}; errs = []
    s = _pp('uptime.c')
    m = re.search(r'unsigned long long\s+uptime_usec\s*\(void\)\s*\{(.*?)\n\}', s, re.S)
    if not m: return v, ['uptime_usec not found']
    b = re.sub(r'\s+', ' ', m.group(1))
    if not re.search(r'uint32 time = system_get_time\(\);', b): errs.append('uptime_usec no longer reads the counter into a uint32')
    if not re.search(r'if \(time < usermain_uptime\.last_system_time\) \{ usermain_uptime\.cycles\+\+; \}', b): errs.append('wrap detection of uptime_usec changed')
    if not re.search(r'usermain_uptime\.last_system_time = time;', b): errs.append('last_system_time update changed')
    mm = re.search(r'return usermain_uptime\.cycles \* \(unsigned long long\)\s*(0x[0-9a-fA-F]+|\d+)\s*\+ \(unsigned long long\)\s*time;', b)
    if mm: v['UPTIME_MULT'] = int(mm.group(1), 0)
    else: errs.append('return expression of uptime_usec changed')
    mm = re.search(r'unsigned long long\s+uptime_msec\s*\(void\)\s*\{\s*return uptime_usec\(\) / \(unsigned long long\)\s*(\d+);\s*\}', s)
    if mm: v['UPTIME_MS_DIV'] = int(mm.group(1))
    else: errs.append('uptime_msec changed')
    mm = re.search(r'uint32\s+uptime_sec\s*\(void\)\s*\{\s*return uptime_msec\(\) / \(unsigned long long\)\s*(\d+);\s*\}', s)
    if mm: v['UPTIME_S_DIV'] = int(mm.group(1))
    else: errs.append('uptime_sec changed (expected `return uptime_msec() / (u64)N;` with a uint32 result)')
    mm = re.search(r'ets_timer_arm_new\(&usermain_uptime\.timer,\s*(\d+),\s*1,\s*1\)', s)
    if mm: v['UPTIME_POLL_MS'] = int(mm.group(1))
    else: errs.append('uptime watchdog timer is no longer armed repeating in ms')
    return v, errs

# ---- every read of the clock and every expression over a stored time stamp in the device sources (G for C19) -------------
# One line per statement of the preprocessed sources that reads system_get_time()/RTC/uptime_* or compares / subtracts a
# stored stamp.  The list below is the set of sites the C19 theorems and scenarios were written against; the first column
# says how each site is covered:
#   T-uptime / T-shutter / T-input / T-devconn / T-countdown-window   whole-trace (or window) theorem of Properties_C19.v
#   D-cfgbutton        decision-level theorems (C12 model) + trace comparison (cfg-button scenarios)
#   X-trace:<kinds>    trace comparison of corr/c19.py only (scenario kinds that carry the site across the wrap)
#   N-bydesign / N-notexercised   raw counter used on purpose / code path not reachable in the harness scenarios
# Any added, removed or rewritten statement (e.g. `t - x < N` turned into `t < x + N`) makes the translator fail.
import grp_c08 as _g8
FILES=['../../supla-common/srpc.c','supla_esp_gpio.c','supla_esp_rs_fb.c','supla_esp_devconn.c','supla_esp_input.c','supla_esp_countdown_timer.c','supla_esp_cfgmode.c','supla_esp_state.c','supla_esp_cfg.c','supla_update.c','supla_esp_wifi.c','supla_esp_dns_client.c','uptime.c','user_main.c']
CLOCK=r'(?:system_get_time|system_get_rtc_time|uptime_usec|uptime_msec|uptime_sec)\s*\('
TIMEID=r'(?:system_get_time|system_get_rtc_time|uptime_usec|uptime_msec|uptime_sec|\bt\b|\btime\b|now_ms|time_diff|delta_time|\bt1\b|\bt2\b|start_time|stop_time|last_time|last_comm_time|up_time|down_time|init_time|last_state_change|entertime|last_response|last_sent|next_wd_soft_timeout_challenge|last_system_time|register_time_sec|last_save_time|cycles)'
def stmts(body):
    # split into statements / conditions
    parts=re.split(r'[;{}]', body)
    return [re.sub(r'\s+',' ',p).strip() for p in parts]
def sites():
  res=[]
  for f in FILES:
      src=_g8._pp(f)
      for name, body in _g8._functions(src):
          if not re.search(CLOCK, body) and not re.search(r'(start_time|stop_time|last_comm_time|last_state_change|init_time|last_response|last_sent|entertime)', body): continue
          for st in stmts(body):
              if not re.search(TIMEID, st): continue
              if re.search(CLOCK, st) or (re.search(r'[<>]=?|==|!=', st) and re.search(r'(start_time|stop_time|last_time|last_comm_time|up_time|down_time|init_time|last_state_change|entertime|last_response|last_sent|next_wd_soft|last_system_time|register_time_sec|last_save_time|delta_time|time_diff|\bt1\b|\bt2\b|\bt\b\s*[-<>]|[-<>]=?\s*\bt\b)', st)):
                  res.append((os.path.basename(f)[:-2].replace('supla_esp_',''), name, st))

  return res

_SITES_EXPECTED = r"""
N-bydesign:ping timestamp (canonicalised in the trace comparison) | srpc:srpc_dcs_async_ping_server | unsigned int time = system_get_time()
T-shutter | gpio:supla_esp_gpio_relay_hi | unsigned int t = system_get_time()
T-shutter | gpio:supla_esp_gpio_relay_hi | if (rs_cfg->start_time != 0)
T-shutter | gpio:supla_esp_gpio_relay_hi | rs_cfg->start_time = 0
T-shutter | gpio:supla_esp_gpio_relay_hi | if (rs_cfg->stop_time == 0)
T-shutter | gpio:supla_esp_gpio_relay_hi | rs_cfg->stop_time = t
T-shutter | gpio:supla_esp_gpio_relay_hi | if (rs_cfg->start_time == 0)
T-shutter | gpio:supla_esp_gpio_relay_hi | rs_cfg->start_time = t
T-shutter | gpio:supla_esp_gpio_relay_hi | if (rs_cfg->stop_time != 0)
T-shutter | gpio:supla_esp_gpio_relay_hi | rs_cfg->stop_time = 0
T-shutter | gpio:supla_esp_gpio_init | supla_esp_gpio_init_time = system_get_time()
X-trace:autocal-stall | rs_fb:supla_esp_gpio_rs_check_motor | unsigned int t = system_get_time()
X-trace:autocal-stall | rs_fb:supla_esp_gpio_rs_check_motor | if (t - rs_cfg->start_time < 300 * 1000)
T-shutter | rs_fb:supla_esp_gpio_rs_set_relay | unsigned int t = system_get_time()
T-shutter | rs_fb:supla_esp_gpio_rs_set_relay | if (500 && stop_delay == 1 && rs_cfg->start_time > 0 && rs_cfg->stop_time == 0 && (t - rs_cfg->start_time) / 1000 < 500)
T-shutter | rs_fb:supla_esp_gpio_rs_set_relay | delay_time = 500 - (t - rs_cfg->start_time) / 1000 + 1
T-shutter | rs_fb:supla_esp_gpio_rs_set_relay | t = system_get_time()
T-shutter | rs_fb:supla_esp_gpio_rs_set_relay | if (1000 && rs_cfg->start_time == 0 && rs_cfg->stop_time > 0 && (t - rs_cfg->stop_time) / 1000 < 1000)
T-shutter | rs_fb:supla_esp_gpio_rs_set_relay | delay_time = 1000 - (t - rs_cfg->stop_time) / 1000 + 1
X-trace:shutter,autocal-stall,rs-10min(+finding rs-report-grid-anchor) | rs_fb:supla_esp_gpio_rs_timer_cb | if (supla_esp_gpio_init_time == 0) return
X-trace:shutter,autocal-stall,rs-10min(+finding rs-report-grid-anchor) | rs_fb:supla_esp_gpio_rs_timer_cb | unsigned int t = system_get_time()
X-trace:shutter,autocal-stall,rs-10min(+finding rs-report-grid-anchor) | rs_fb:supla_esp_gpio_rs_timer_cb | if (t - rs_cfg->start_time < 2000 * 1000)
X-trace:shutter,autocal-stall,rs-10min(+finding rs-report-grid-anchor) | rs_fb:supla_esp_gpio_rs_timer_cb | rs_cfg->last_time = t
X-trace:shutter,autocal-stall,rs-10min(+finding rs-report-grid-anchor) | rs_fb:supla_esp_gpio_rs_timer_cb | rs_cfg->down_time = 0
X-trace:shutter,autocal-stall,rs-10min(+finding rs-report-grid-anchor) | rs_fb:supla_esp_gpio_rs_timer_cb | rs_cfg->up_time += (t - rs_cfg->last_time)
X-trace:shutter,autocal-stall,rs-10min(+finding rs-report-grid-anchor) | rs_fb:supla_esp_gpio_rs_timer_cb | if (rs_cfg->up_time > 0)
X-trace:shutter,autocal-stall,rs-10min(+finding rs-report-grid-anchor) | rs_fb:supla_esp_gpio_rs_timer_cb | supla_esp_gpio_rs_calibrate(rs_cfg, full_opening_time, rs_cfg->up_time, 100)
X-trace:shutter,autocal-stall,rs-10min(+finding rs-report-grid-anchor) | rs_fb:supla_esp_gpio_rs_timer_cb | supla_esp_gpio_rs_move_position(rs_cfg, full_opening_time, &rs_cfg->up_time, 1, isRsInMove)
X-trace:shutter,autocal-stall,rs-10min(+finding rs-report-grid-anchor) | rs_fb:supla_esp_gpio_rs_timer_cb | rs_cfg->down_time += (t - rs_cfg->last_time)
X-trace:shutter,autocal-stall,rs-10min(+finding rs-report-grid-anchor) | rs_fb:supla_esp_gpio_rs_timer_cb | rs_cfg->up_time = 0
X-trace:shutter,autocal-stall,rs-10min(+finding rs-report-grid-anchor) | rs_fb:supla_esp_gpio_rs_timer_cb | if (rs_cfg->down_time > 0)
X-trace:shutter,autocal-stall,rs-10min(+finding rs-report-grid-anchor) | rs_fb:supla_esp_gpio_rs_timer_cb | supla_esp_gpio_rs_calibrate(rs_cfg, full_closing_time, rs_cfg->down_time, 10100)
X-trace:shutter,autocal-stall,rs-10min(+finding rs-report-grid-anchor) | rs_fb:supla_esp_gpio_rs_timer_cb | supla_esp_gpio_rs_move_position(rs_cfg, full_closing_time, &rs_cfg->down_time, 0, isRsInMove)
X-trace:shutter,autocal-stall,rs-10min(+finding rs-report-grid-anchor) | rs_fb:supla_esp_gpio_rs_timer_cb | rs_cfg->up_time = 0
X-trace:shutter,autocal-stall,rs-10min(+finding rs-report-grid-anchor) | rs_fb:supla_esp_gpio_rs_timer_cb | rs_cfg->down_time = 0
X-trace:shutter,autocal-stall,rs-10min(+finding rs-report-grid-anchor) | rs_fb:supla_esp_gpio_rs_timer_cb | if (t - rs_cfg->last_comm_time >= 200000)
X-trace:shutter,autocal-stall,rs-10min(+finding rs-report-grid-anchor) | rs_fb:supla_esp_gpio_rs_timer_cb | if (rs_cfg->up_time > 600 * 1000 * 1000 || rs_cfg->down_time > 600 * 1000 * 1000)
X-trace:shutter,autocal-stall,rs-10min(+finding rs-report-grid-anchor) | rs_fb:supla_esp_gpio_rs_timer_cb | rs_cfg->last_comm_time = t
X-trace:shutter,autocal-stall,rs-10min(+finding rs-report-grid-anchor) | rs_fb:supla_esp_gpio_rs_timer_cb | rs_cfg->last_time = t
T-devconn | devconn:supla_esp_data_write | devconn->last_sent = uptime_sec()
T-devconn | devconn:supla_esp_data_write | if ( r == 0 ) devconn->last_sent = uptime_sec()
N-bydesign:raw uptime reported | devconn:supla_esp_on_register_result | devconn->register_time_sec = uptime_sec()
N-bydesign:raw uptime reported | devconn:supla_esp_get_channel_state | state->Uptime = uptime_sec()
N-bydesign:raw uptime reported | devconn:supla_esp_get_channel_state | state->ConnectionUptime = uptime_sec() - devconn->register_time_sec
T-devconn | devconn:supla_esp_on_remote_call_received | devconn->last_response = uptime_sec()
T-devconn | devconn:supla_esp_devconn_watchdog_cb | if (uptime_sec() > devconn->last_response)
T-devconn | devconn:supla_esp_devconn_watchdog_cb | if (uptime_sec() - devconn->last_response > 60)
T-devconn | devconn:supla_esp_devconn_watchdog_cb | unsigned int t = uptime_sec() - devconn->last_response
T-devconn | devconn:supla_esp_devconn_watchdog_cb | if (t >= 65 && t > devconn->server_activity_timeout && uptime_sec() > devconn->next_wd_soft_timeout_challenge)
T-devconn | devconn:supla_esp_devconn_init | devconn->last_response = uptime_sec()
T-devconn | devconn:supla_esp_devconn__reconnect | devconn->next_wd_soft_timeout_challenge = uptime_sec() + 65
T-devconn | devconn:supla_esp_devconn_timer1_cb | t1 = uptime_sec()-devconn->last_sent
T-devconn | devconn:supla_esp_devconn_timer1_cb | t2 = uptime_sec()-devconn->last_response
T-devconn | devconn:supla_esp_devconn_timer1_cb | if ( t2 >= (devconn->server_activity_timeout+10) )
T-devconn | devconn:supla_esp_devconn_timer1_cb | else if ( ( t1 >= (devconn->server_activity_timeout-5) && t1 <= devconn->server_activity_timeout ) || ( t2 >= (devconn->server_activity_timeout-5) && t2 <= devconn->server_activity_timeout ) )
T-input | input:supla_esp_input_notify_state_change | if (system_get_time() - supla_esp_gpio_init_time < 400 * 1000)
T-input(non-cfg)/D-cfgbutton | input:supla_esp_input_legacy_state_change_handling | if ((system_get_time() - input_cfg->last_state_change >= 2000 * 1000))
T-input(non-cfg)/D-cfgbutton | input:supla_esp_input_legacy_state_change_handling | if (!supla_esp_input_is_cfg_on_hold_enabled(input_cfg) && system_get_time() - supla_esp_cfgmode_entertime() > 3000 * 1000 && supla_esp_input_can_button_exit_cfgmode(input_cfg))
T-input(non-cfg)/D-cfgbutton | input:supla_esp_input_legacy_state_change_handling | input_cfg->last_state_change = system_get_time()
T-input(non-cfg)/D-cfgbutton | input:supla_esp_input_legacy_state_change_handling | if (input_cfg->click_counter > 0 && system_get_time() - supla_esp_cfgmode_entertime() > 3000 * 1000 && supla_esp_input_can_button_exit_cfgmode(input_cfg))
D-cfgbutton | input:supla_esp_input_legacy_timer_cb | if (system_get_time() - input_cfg->last_state_change >= supla_esp_input_get_cfg_press_time(input_cfg)*1000)
T-input | input:supla_esp_input_advanced_state_change_handling | input_cfg->last_state_change = system_get_time()
T-input | input:supla_esp_input_advanced_timer_cb | unsigned int delta_time = system_get_time() - input_cfg->last_state_change
T-input | input:supla_esp_input_advanced_timer_cb | if (delta_time >= supla_esp_input_get_cfg_press_time(input_cfg) * 1000)
T-input | input:supla_esp_input_advanced_timer_cb | if (input_cfg->click_counter == 1 && delta_time >= btn_hold_time_ms * 1000)
T-input | input:supla_esp_input_advanced_timer_cb | if (delta_time >= btn_multiclick_time_ms * 1000)
T-countdown-window | countdown_timer:supla_esp_countdown_timer_cb | unsigned long long now_ms = uptime_msec()
T-countdown-window | countdown_timer:supla_esp_countdown_timer_cb | unsigned long long time_diff = now_ms - i->last_time
T-countdown-window | countdown_timer:supla_esp_countdown_timer_cb | if (time_diff >= i->time_left_ms)
T-countdown-window | countdown_timer:supla_esp_countdown_timer_cb | countdown_timer_vars.finish_cb(i->gpio_id, i->channel_number, i->target_value)
T-countdown-window | countdown_timer:supla_esp_countdown_timer_cb | i->time_left_ms -= time_diff
T-countdown-window | countdown_timer:supla_esp_countdown_timer_cb | i->last_time = now_ms
T-countdown-window | countdown_timer:supla_esp_countdown_timer_countdown | if (countdown_timer_vars.items[a].channel_number == channel_number)
T-countdown-window | countdown_timer:supla_esp_countdown_timer_countdown | if (countdown_timer_vars.items[a].channel_number == 255)
T-countdown-window | countdown_timer:supla_esp_countdown_timer_countdown | i->last_time = uptime_msec()
D-cfgbutton | cfgmode:supla_esp_cfgmode_start | if (cfgmode_vars.entertime != 0) return
D-cfgbutton | cfgmode:supla_esp_cfgmode_start | cfgmode_vars.entertime = system_get_time()
D-cfgbutton | cfgmode:supla_esp_cfgmode_started | return cfgmode_vars.entertime == 0 ? 0 : 1
N-bydesign:GUID entropy | cfg:supla_esp_cfg_init | supla_esp_cfg.GUID[a]= (supla_esp_cfg.GUID[a] + system_get_time() + spi_flash_get_id() + system_get_chip_id() + system_get_rtc_time()) % 255
N-notexercised:update check | supla_update:supla_esp_check_updates | update_checking_start_time = system_get_time()
N-notexercised:update check | supla_update:supla_esp_update_started | if ( update_checking_start_time > 0 && system_get_time() - update_checking_start_time < 120000000 && update_step >= 2 )
T-uptime | uptime:uptime_usec | uint32 time = system_get_time()
T-uptime | uptime:uptime_usec | if (time < usermain_uptime.last_system_time)
T-uptime | uptime:uptime_msec | return uptime_usec() / (unsigned long long)1000
T-uptime | uptime:uptime_sec | return uptime_msec() / (unsigned long long)1000
T-uptime | uptime:supla_esp_uptime_counter_watchdog_cb | uptime_usec()
"""
def _check_sites():
    exp = [tuple(x.strip() for x in l.split(' | ', 2)) for l in _SITES_EXPECTED.strip().splitlines()]
    got = ['%s:%s' % (f, n) + ' | ' + st for (f, n, st) in sites()]
    want = [e[1] + ' | ' + e[2] for e in exp]
    errs = []
    for g in got:
        if g not in want: errs.append('time expression not in the covered-sites list: ' + g[:160].replace('"', "'"))
    for w in want:
        if w not in got: errs.append('covered time expression disappeared: ' + w[:160].replace('"', "'"))
    if [e for e in exp if e[0].startswith('??')]: errs.append('unclassified site in the list')
    return errs[:3]
def site_classes():
    """{class: count} for the report / evidence"""
    res = {}
    for l in _SITES_EXPECTED.strip().splitlines():
        k = l.split(' | ', 1)[0].split(':')[0].strip(); res[k] = res.get(k, 0) + 1
    return res

_vals, _errs = _extract()
_errs = _errs + _check_sites()
_names = ['UPTIME_MULT', 'UPTIME_MS_DIV', 'UPTIME_S_DIV', 'UPTIME_POLL_MS']
G.GROUPS['UptimeConsts'] = dict(
    pre=('#include <stddef.h>\n#include <supla_esp.h>\n#include "uptime.c"\n'
         + ''.join('#error UptimeConsts: %s\n' % e for e in _errs)),
    ints=[('SIZEOF_CYCLES', 'sizeof(usermain_uptime.cycles)'), ('SIZEOF_LAST', 'sizeof(usermain_uptime.last_system_time)'),
          ('SIZEOF_USEC', 'sizeof(uptime_usec())'), ('SIZEOF_MSEC', 'sizeof(uptime_msec())'), ('SIZEOF_SEC', 'sizeof(uptime_sec())'),
          ('WATCHDOG_TIMEOUT_S', 'WATCHDOG_TIMEOUT_SEC')]
         + [(n, str(_vals.get(n, 0))) for n in _names],
)
