"""C20 constants (fallback DNS resolver): server list, name limits, struct sizes/offsets, timer periods.
Everything is read from supla_esp_dns_client.c itself (the file is #included by the probe)."""
import os, re
import gen as G

def _skip_index_type():
    """C type of the index `a` that supla_esp_dns_recv_cb uses to skip the owner name of the first answer, read from its
    declaration in the body of that function.  Not found / not an unsigned integer type => a type that does not exist,
    so that the probe does not compile (translator broken)."""
    bad = 'struct c20_declaration_of_the_name_skip_index_not_recognised'
    try:
        src = open(os.path.join(G.REPO, 'src', 'user', 'supla_esp_dns_client.c')).read()
    except OSError:
        return bad
    m = re.search(r'supla_esp_dns_recv_cb\s*\([^)]*\)\s*\{(.*?)\n\}', src, flags=re.S)
    if not m: return bad
    body = re.sub(r'/\*.*?\*/|//[^\n]*', '', m.group(1), flags=re.S)
    d = re.findall(r'(?:^|[;{}])\s*((?:const\s+|volatile\s+|register\s+)*(?:(?:un)?signed\s+)?(?:(?:char|short|int|long)\b\s*)*|u?int(?:8|16|32|64)(?:_t)?\s+|size_t\s+)\ba\s*(?:=[^;,]*)?;', body)
    d = [x.strip() for x in d if x.strip()]
    loops = re.findall(r'for\s*\(\s*a\s*=\s*0\s*;\s*a\s*<\s*len\s*;\s*a\+\+\s*\)', body)
    if len(d) != 1 or len(loops) != 1: return bad
    return d[0]

_T = _skip_index_type()

_body = r'''
  { /* which byte of the header and which bits hold RCODE: set all bits of the field, look at the bytes */
    _t_dns_header h; memset(&h, 0, sizeof h); h.RCODE = 15;
    const unsigned char *q = (const unsigned char *)&h; long long off = -1, mask = 0;
    for (unsigned i = 0; i < sizeof h; i++) if (q[i]) { off = i; mask = q[i]; }
    fprintf(stdout, "I RCODE_OFF %lld\nI RCODE_MASK %lld\n", off, mask);
    memset(&h, 0, sizeof h); h.RD = 1;
    for (unsigned i = 0; i < sizeof h; i++) if (q[i]) { off = i; mask = q[i]; }
    fprintf(stdout, "I RD_OFF %lld\nI RD_MASK %lld\n", off, mask);
    memset(&h, 0, sizeof h); h.ID = 1;
    fprintf(stdout, "B ID_ONE %u %u\n", q[offsetof(_t_dns_header, ID)], q[offsetof(_t_dns_header, ID) + 1]);
  }
  for (int i = 0; i < DNS_SERVER_COUNT; i++)
    fprintf(stdout, "L SERVERS %u %u %u %u\n", dns_server_ip[i][0], dns_server_ip[i][1], dns_server_ip[i][2], dns_server_ip[i][3]);
  fprintf(stdout, "I HTONS_0102 %u\n", (unsigned)htons(0x0102));
'''

G.GROUPS['DnsConsts'] = dict(
    pre='#include <stddef.h>\n#include <string.h>\n#include "supla_esp_dns_client.c"\n',
    ints=[
        ('SERVER_COUNT', 'DNS_SERVER_COUNT'),
        ('DOMAIN_MAX', 'DOMAIN_MAX_LEN'),
        ('DOMAIN_MIN', 'DOMAIN_MIN_LEN'),
        ('TYPE_A_', 'TYPE_A'),
        ('CLASS_IN_', 'CLASS_IN'),
        ('RCODE_OK', 'RCODE_NO_ERROR'),
        ('TIMEOUT_MS', 'DNS_TIMEOUT_PER_REQUEST_MS'),
        ('RETRY_MS', 'RETRY_DELAY_MS'),
        ('PREFIX_SIZE', 'sizeof(unsigned short)'),
        ('HEADER_SIZE', 'sizeof(_t_dns_header)'),
        ('QSUFFIX_SIZE', 'sizeof(_t_dns_question_suffix)'),
        ('ASUFFIX_SIZE', 'sizeof(_t_dns_answer_suffix)'),
        ('ADDR_SIZE', 'sizeof(ip_addr_t)'),
        ('RDLEN_A', 'sizeof(unsigned int)'),
        ('OFF_QDCOUNT', 'offsetof(_t_dns_header, QDCOUNT)'),
        ('OFF_ANCOUNT', 'offsetof(_t_dns_header, ANCOUNT)'),
        ('OFF_Q_TYPE', 'offsetof(_t_dns_question_suffix, TYPE)'),
        ('OFF_Q_CLASS', 'offsetof(_t_dns_question_suffix, CLASS)'),
        ('OFF_A_TYPE', 'offsetof(_t_dns_answer_suffix, TYPE)'),
        ('OFF_A_CLASS', 'offsetof(_t_dns_answer_suffix, CLASS)'),
        ('OFF_A_RDLENGTH', 'offsetof(_t_dns_answer_suffix, RDLENGTH)'),
        # the name-skip index of supla_esp_dns_recv_cb: 2^bits of its declared type; 0 when that type is signed
        ('SKIP_IDX_MOD', '((%s)-1 > 0) ? (1LL << (8 * sizeof(%s) > 62 ? 62 : 8 * sizeof(%s))) : 0' % (_T, _T, _T)),
    ],
    body=_body,
    extra_names=['RCODE_OFF', 'RCODE_MASK', 'RD_OFF', 'RD_MASK', 'ID_ONE', 'SERVERS', 'HTONS_0102'],
)
