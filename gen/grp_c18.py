"""Translator group UpdateConsts (C18): constants of the firmware-update path in src/user/supla_update.c.

Macros (#define in the .c file and in the SDK/board headers) are evaluated by a C probe that
#includes the real headers.  Literals that exist only inside function bodies (slot bases per flash
map, size limits, HTTP header strings, footer magic) are located by pattern in the source text of
the working tree and then *evaluated by the probe as C expressions* (so `1024*492`, `0x81000`,
enum names are computed by the compiler, not by this script).  If a pattern is gone the group emits
`#error` and the translator fails ("correspondence G broken") instead of keeping old numbers."""
import os, re
import gen as G

def _src():
    try: return open(os.path.join(G.REPO, 'src', 'user', 'supla_update.c')).read()
    except OSError: return ''

def _func(src, name):
    m = re.search(r'\b' + name + r'\s*\([^;{]*\)\s*\{', src)
    if not m: return None
    i = src.find('{', m.start()); d = 0
    for j in range(i, len(src)):
        if src[j] == '{': d += 1
        elif src[j] == '}':
            d -= 1
            if d == 0: return src[i:j + 1]
    return None

def _extract():
    errs = []; body = []; src = _src()
    if not src: return ['supla_update.c not readable'], ''
    src_nc = re.sub(r'//[^\n]*', '', re.sub(r'/\*.*?\*/', '', src, flags=re.S))
    # --- slot bases: switch in supla_esp_update_url_result
    u = _func(src_nc, 'supla_esp_update_url_result')
    rows = 0
    if not u: errs.append('supla_esp_update_url_result not found')
    else:
        for m in re.finditer(r'((?:case\s+\w+\s*:\s*)+)update->flash_addr\s*=\s*ubin\s*==\s*UPGRADE_FW_BIN1\s*\?\s*([^:;]+?)\s*:\s*([^;]+?)\s*;\s*break\s*;', u):
            for lab in re.findall(r'case\s+(\w+)\s*:', m.group(1)):
                body.append('  fprintf(stdout, "L SLOTS %%lld %%lld %%lld\\n", (long long)(%s), (long long)(%s), (long long)(%s));\n' % (lab, m.group(2), m.group(3)))
                rows += 1
        if rows == 0: errs.append('slot table `update->flash_addr = ubin == UPGRADE_FW_BIN1 ? A : B` not found')
        if not re.search(r'int\s+ubin\s*=\s*system_upgrade_userbin_check\s*\(\s*\)\s*;\s*switch\s*\(\s*system_get_flash_size_map\s*\(\s*\)\s*\)', u): errs.append('url_result no longer switches on the flash map with ubin = system_upgrade_userbin_check()')
        if not re.search(r'update->flash_awo\s*=\s*update->flash_addr\s*;', u): errs.append('flash_awo is no longer initialised to flash_addr')
    # --- size limits: switch in recv_cb
    r = _func(src_nc, 'supla_esp_update_recv_cb')
    rows = 0
    if not r: errs.append('supla_esp_update_recv_cb not found')
    else:
        for m in re.finditer(r'((?:case\s+\w+\s*:\s*)+)if\s*\(\s*update->expected_file_size\s*<=\s*([^)]+?)\s*\)\s*update_step\s*=\s*FUPDT_STEP_DOWNLOADING\s*;\s*break\s*;', r):
            for lab in re.findall(r'case\s+(\w+)\s*:', m.group(1)):
                body.append('  fprintf(stdout, "L LIMITS %%lld %%lld\\n", (long long)(%s), (long long)(%s));\n' % (lab, m.group(2)))
                rows += 1
        if rows == 0: errs.append('size limits `if (expected_file_size <= N) update_step = DOWNLOADING` not found')
        strs = re.findall(r'strstr\s*\(\s*update->http_header_data\s*,\s*"((?:[^"\\]|\\.)*)"\s*\)', r)
        if len(strs) != 3: errs.append('expected three strstr(header, "...") tests, found %d' % len(strs))
        else:
            for n, s in zip(('HDR_STATUS', 'HDR_CTYPE', 'HDR_CLEN'), strs):
                body.append('  { const char *q = "%s"; fprintf(stdout, "S %s"); for (; *q; q++) fprintf(stdout, " %%u", (unsigned)(unsigned char)*q); fprintf(stdout, "\\n"); }\n' % (s, n))
        m = re.search(r'pos\s*\+=\s*(\d+)\s*;', r)
        if m:
            body.append('  fprintf(stdout, "I CLEN_SKIP %d\\n");\n' % int(m.group(1)))
            if len(strs) == 3 and int(m.group(1)) != len(strs[2].encode('latin-1').decode('unicode_escape')):
                errs.append('`pos+=%s` does not skip exactly the matched "%s"' % (m.group(1), strs[2]))
        else: errs.append('`pos+=N` after the Content-Length match not found')
        if not re.search(r'if\s*\(\s*update->expected_file_size\s*>\s*0\s*\)', r): errs.append('`expected_file_size > 0` test changed')
        if not re.search(r'update->http_header_data_len\s*>\s*3\s*&&', r): errs.append('header end test `http_header_data_len > 3` changed')
        if not re.search(r"\[update->http_header_data_len-1\]\s*==\s*'\\n'\s*&&\s*update->http_header_data\[update->http_header_data_len-2\]\s*==\s*'\\r'\s*&&\s*update->http_header_data\[update->http_header_data_len-3\]\s*==\s*'\\n'\s*&&\s*update->http_header_data\[update->http_header_data_len-4\]\s*==\s*'\\r'", r): errs.append('CRLFCRLF test changed')
        if not re.search(r'http_header_data_len\s*>=\s*MAX_HTTP_HEADER_SIZE\s*-\s*1', r): errs.append('header length guard `>= MAX_HTTP_HEADER_SIZE-1` changed')
        if not re.search(r"expected_file_size\s*<<\s*3\s*\)\s*\+\s*\(\s*update->expected_file_size\s*<<\s*1\s*\)\s*\+\s*update->http_header_data\[a\]\s*-\s*'0'", r): errs.append('decimal accumulation of Content-Length changed')
    # --- download / flash_write / disconnect shapes the model transcribes
    d = _func(src_nc, 'supal_esp_update_download'); fw = _func(src_nc, 'supla_esp_update_flash_write'); dc = _func(src_nc, 'supla_esp_update_disconnect_cb')
    if not d: errs.append('supal_esp_update_download not found')
    else:
        for pat, what in ((r'if\s*\(\s*len\s*\+\s*update->buff_pos\s*>\s*SPI_FLASH_SEC_SIZE\s*\)\s*len\s*=\s*SPI_FLASH_SEC_SIZE\s*-\s*update->buff_pos\s*;', 'chunk split at the sector size'),
                          (r'if\s*\(\s*update->buff_pos\s*==\s*SPI_FLASH_SEC_SIZE\s*\)\s*\{\s*if\s*\(\s*supla_esp_update_flash_write\(\)\s*==\s*0\s*\)\s*return\s*;\s*\}\s*update->downloaded_data_size\s*\+=\s*len\s*;', 'flush of a full sector before `downloaded_data_size += len`'),
                          (r'if\s*\(\s*update->buff_pos\s*>\s*0\s*&&\s*update->downloaded_data_size\s*==\s*update->expected_file_size\s*\)', 'final flush condition'),
                          (r'while\s*\(\s*content_len\s*>\s*0\s*\)', 'download loop condition')):
            if not re.search(pat, d): errs.append('download: %s changed' % what)
    if not fw: errs.append('supla_esp_update_flash_write not found')
    else:
        for pat, what in ((r'uint32\s+sector\s*=\s*update->flash_awo\s*/\s*SPI_FLASH_SEC_SIZE\s*;', 'sector = flash_awo / SPI_FLASH_SEC_SIZE'),
                          (r'for\s*\(\s*a\s*=\s*0\s*;\s*a\s*<\s*MAX_FLASH_ATTEMPTS\s*;\s*a\+\+\s*\)\s*if\s*\(\s*SPI_FLASH_RESULT_OK\s*==\s*spi_flash_erase_sector\(sector\)\s*&&\s*SPI_FLASH_RESULT_OK\s*==\s*spi_flash_write\(update->flash_awo\s*,\s*\(uint32_t\s*\*\)update->buff\s*,\s*update->buff_pos\)\s*\)\s*break\s*;', 'attempt loop (erase then write, a < MAX_FLASH_ATTEMPTS)'),
                          (r'if\s*\(\s*a\s*>=\s*MAX_FLASH_ATTEMPTS\s*\)', 'exhausted-attempts test'),
                          (r'update->flash_awo\s*\+=\s*update->buff_pos\s*;\s*update->buff_pos\s*=\s*0\s*;', 'flash_awo += buff_pos; buff_pos = 0')):
            if not re.search(pat, fw): errs.append('flash_write: %s changed' % what)
    if not dc: errs.append('supla_esp_update_disconnect_cb not found')
    rc = _func(src_nc, 'supla_esp_update_reconnect_cb')
    if not rc or not re.fullmatch(r'\{\s*supla_esp_update_disconnect_cb\s*\(\s*arg\s*\)\s*;\s*\}', rc):
        errs.append('supla_esp_update_reconnect_cb is no longer just `supla_esp_update_disconnect_cb(arg);` (code-dependent exit?)')
    # --- footer / signature layout in verify_and_reboot
    v = _func(src_nc, 'supla_esp_update_verify_and_reboot')
    if not v: errs.append('supla_esp_update_verify_and_reboot not found')
    else:
        mg = re.findall(r'footer\[(\d+)\]\s*!=\s*(0x[0-9A-Fa-f]+|\d+)', v)
        if [int(i) for i, _ in mg] != list(range(len(mg))) or len(mg) < 4: errs.append('footer magic test changed')
        else: body.append('  fprintf(stdout, "S FOOTER_MAGIC%s\\n"%s);\n' % (' %lld' * len(mg), ''.join(', (long long)(%s)' % x for _, x in mg)))
        m = re.search(r'uint8_t\s+footer\[(\d+)\]', v)
        if m: body.append('  fprintf(stdout, "I FOOTER_SIZE %d\\n");\n' % int(m.group(1)))
        else: errs.append('footer[] size not found')
        if not re.search(r'key_bytes\s*=\s*\(\s*footer\[6\]\s*<<\s*8\s*\)\s*-\s*footer\[7\]', v): errs.append('key_bytes formula changed')
        if not re.search(r'if\s*\(\s*key_bytes\s*==\s*RSA_NUM_BYTES\s*\)', v): errs.append('key_bytes == RSA_NUM_BYTES test changed')
        if not re.search(r'downloaded_data_size\s*>\s*16\s*\+\s*RSA_NUM_BYTES', v): errs.append('minimal size test changed')
        if not re.search(r'int\s+bytes_left\s*=\s*update->flash_awo\s*-\s*update->flash_addr\s*-\s*16\s*-\s*key_bytes\s*;\s*update->flash_awo\s*=\s*update->flash_addr\s*;', v): errs.append('bytes_left formula / rewind of flash_awo changed')
        if not re.search(r'spi_flash_read\(update->flash_awo\s*-\s*16\s*,\s*\(uint32_t\s*\*\)footer\s*,\s*16\)', v): errs.append('footer read changed')
        if not re.search(r'spi_flash_read\(update->flash_awo\s*,\s*\(uint32_t\s*\*\)update->buff\s*,\s*RSA_NUM_BYTES\)', v): errs.append('signature read changed')
        if not re.search(r'nettle_mpz_set_str_256_u\(public_key\.n\s*,\s*RSA_NUM_BYTES\s*,\s*rsa_public_key_bytes\)\s*;\s*mpz_set_ui\(public_key\.e\s*,\s*RSA_PUBLIC_EXPONENT\)', v): errs.append('public key set-up changed')
    return errs, ''.join(body)

_errs, _body = _extract()
_pre = ('#include <stddef.h>\n#include <user_interface.h>\n#include <espconn.h>\n#include <spi_flash.h>\n#include <upgrade.h>\n#include <supla_esp.h>\n'
        '#define C18_ONLY_MACROS\n'
        + ''.join('#error UpdateConsts: %s\n' % e.replace('\n', ' ') for e in _errs))
# the #defines local to supla_update.c are read from its text and evaluated by the probe
def _local_define(name):
    m = re.search(r'^\s*#define\s+' + name + r'\s+(.+?)\s*$', _src(), flags=re.M)
    return '(' + m.group(1) + ')' if m else None
_loc = {n: _local_define(n) for n in ('MAX_HTTP_HEADER_SIZE', 'MAX_FLASH_ATTEMPTS', 'FUPDT_STEP_DOWNLOADING')}
for n, e in _loc.items():
    if e is None: _pre += '#error UpdateConsts: #define %s not found in supla_update.c\n' % n

G.GROUPS['UpdateConsts'] = dict(
    pre=_pre,
    ints=[('MAX_HEADER', _loc['MAX_HTTP_HEADER_SIZE'] or '0'), ('MAX_ATTEMPTS', _loc['MAX_FLASH_ATTEMPTS'] or '0'),
          ('SEC_SIZE', 'SPI_FLASH_SEC_SIZE'), ('RSA_BYTES', 'RSA_NUM_BYTES'),
          ('FLAG_IDLE', 'UPGRADE_FLAG_IDLE'), ('FLAG_START', 'UPGRADE_FLAG_START'), ('FLAG_FINISH', 'UPGRADE_FLAG_FINISH'),
          ('FW_BIN1', 'UPGRADE_FW_BIN1'), ('FW_BIN2', 'UPGRADE_FW_BIN2')],
    body=_body,
    extra_names=['SLOTS', 'LIMITS', 'HDR_STATUS', 'HDR_CTYPE', 'HDR_CLEN', 'CLEN_SKIP', 'FOOTER_MAGIC', 'FOOTER_SIZE'],
)
