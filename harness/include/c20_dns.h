/* C20: accessors exported by harness/wrap/c20_dns_wrap.c */
#ifndef C20_DNS_H
#define C20_DNS_H
struct espconn;
struct espconn *vdns_conn(void);
int vdns_try_counter(void);
int vdns_success(void);
int vdns_cb_pending(void);
int vdns_request_null(void);
unsigned vdns_request_len(void);
int vdns_timeout_armed(void);
int vdns_retry_armed(void);
void vdns_result_ip(unsigned char out[4]);
#endif
