/* Board header of the verification harness.  It shadows /repo/test/doubles/board_ut_testing.h
 * (harness/include comes first on the include path) and is selected by -D__BOARD_ut_testing. */
#ifndef _TEST_SUPLA_BOARD_UT_TESTING_H
#define _TEST_SUPLA_BOARD_UT_TESTING_H

#define BOARD_ESP_FACTORY_DEFAULTS factory_reset_mock();

#ifdef VERIF_RETREIVE_CHANNEL_CONFIG
#define RETREIVE_CHANNEL_CONFIG 0xFF
#endif

#ifdef MQTT_SUPPORT_ENABLED
/* the default implementation is xtensa inline assembly */
#define PGM_READ_INLINED \
  static inline unsigned char pgm_read_byte_inlined(const void *addr) { return *(const unsigned char *)addr; }
#endif

#endif /*_TEST_SUPLA_BOARD_UT_TESTING_H*/
