/* Common main() of every C driver.  Input on stdin:
 *   #CASE <id>\n <event line>* #END\n   (repeated)
 * For every case a child process is forked (clean globals, crash isolation); the child calls
 * run_case(); the parent prints "#CASE <id>", the child's lines, "#STATUS ok|crash ..." and "#END".
 * Include this file once, in the driver's translation unit, after defining run_case(). */
#ifndef DRVMAIN_H
#define DRVMAIN_H
#include <stdio.h>
#include <stdlib.h>
#include <string.h>
#include <unistd.h>
#include <sys/wait.h>

static void run_case(int nlines, char **lines);

static int hexval(int c) {
  if (c >= '0' && c <= '9') return c - '0';
  if (c >= 'a' && c <= 'f') return c - 'a' + 10;
  if (c >= 'A' && c <= 'F') return c - 'A' + 10;
  return -1;
}
/* decodes a hex token; returns length; "-" or "" give 0 */
static int hex2bytes(const char *s, unsigned char *out, int max) {
  int n = 0;
  while (s[0] && s[1] && hexval(s[0]) >= 0 && hexval(s[1]) >= 0 && n < max) {
    out[n++] = (unsigned char)(hexval(s[0]) * 16 + hexval(s[1]));
    s += 2;
  }
  return n;
}
/* finds "key=" in a line and parses a long long after it; returns def if absent */
static long long kv(const char *line, const char *key, long long def) {
  size_t kl = strlen(key);
  const char *p = line;
  while ((p = strstr(p, key)) != NULL) {
    if ((p == line || p[-1] == ' ') && p[kl] == '=') return strtoll(p + kl + 1, NULL, 0);
    p += kl;
  }
  return def;
}
static const char *kvs(const char *line, const char *key) {
  size_t kl = strlen(key);
  const char *p = line;
  while ((p = strstr(p, key)) != NULL) {
    if ((p == line || p[-1] == ' ') && p[kl] == '=') return p + kl + 1;
    p += kl;
  }
  return NULL;
}

int main(int argc, char **argv) {
  (void)argc; (void)argv;
  setvbuf(stdout, NULL, _IONBF, 0);
  char *line = NULL; size_t cap = 0; ssize_t len;
  char **lines = NULL; int nlines = 0, caplines = 0; char id[128] = "";
  int in_case = 0;
  while ((len = getline(&line, &cap, stdin)) >= 0) {
    while (len > 0 && (line[len - 1] == '\n' || line[len - 1] == '\r')) line[--len] = 0;
    if (strncmp(line, "#CASE", 5) == 0) {
      snprintf(id, sizeof id, "%s", line + 5 + (line[5] == ' '));
      nlines = 0; in_case = 1; continue;
    }
    if (strcmp(line, "#END") == 0 && in_case) {
      char hdr[160]; int hl = snprintf(hdr, sizeof hdr, "#CASE %s\n", id);
      if (write(1, hdr, hl) < 0) return 2;
      pid_t pid = fork();
      if (pid == 0) { run_case(nlines, lines); fflush(stdout); _exit(0); }
      int st = 0; waitpid(pid, &st, 0);
      char tail[96]; int tl;
      if (WIFEXITED(st) && (WEXITSTATUS(st) == 0 || WEXITSTATUS(st) == 77)) tl = snprintf(tail, sizeof tail, "#STATUS ok\n#END\n");
      else if (WIFEXITED(st)) tl = snprintf(tail, sizeof tail, "#STATUS crash exit=%d\n#END\n", WEXITSTATUS(st));
      else tl = snprintf(tail, sizeof tail, "#STATUS crash sig=%d\n#END\n", WTERMSIG(st));
      if (write(1, tail, tl) < 0) return 2;
      for (int i = 0; i < nlines; i++) free(lines[i]);
      nlines = 0; in_case = 0; continue;
    }
    if (!in_case) continue;
    if (nlines >= caplines) { caplines = caplines ? caplines * 2 : 64; lines = realloc(lines, sizeof(char *) * caplines); }
    lines[nlines++] = strdup(line);
  }
  return 0;
}
#endif
