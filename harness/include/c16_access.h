/* Accessors of harness/wrap/c16_mqtt_wrap.c (statics of supla_esp_mqtt.c) and hooks of
 * harness/doubles/c16_mqtt_board.c.  Used by the C16 and C17 drivers. */
#ifndef C16_ACCESS_H
#define C16_ACCESS_H
#include <stdint.h>
#include <stddef.h>
struct mqtt_client;
struct espconn;
struct mqtt_client *c16_client(void);
unsigned char *c16_recvbuf(void);
unsigned c16_recvbuf_size(void);
unsigned c16_recv_len(void);
int c16_status(void);
void c16_set_started(int v);
struct espconn *c16_espconn(void);
const char *c16_prefix(void);
unsigned c16_prefix_len(void);
void c16_dns_found(unsigned ip);                 /* supla_esp_mqtt_dns__found */
void c16_on_connect(void);                       /* supla_esp_mqtt_conn_on_connect */
void c16_recv(char *p, unsigned short len);      /* supla_esp_mqtt_conn_recv_cb */
void c16_sync(void);                             /* mqtt_sync(&client) */
void c16_tick(void);                             /* first two statements of supla_esp_mqtt_iterate: sync + mq_clean */
void c17_set_prefix(char *p, unsigned len);
void c16_on_disconnect(void);                    /* supla_esp_mqtt_conn_on_disconnect */
int c16_str2int(const char *s, unsigned short len, unsigned char *err);

/* board double hooks */
extern void (*c16_on_message)(uint8_t dup, uint8_t qos, uint8_t retain, const void *topic, uint16_t topic_size,
                              const char *msg, size_t msg_size);
#endif
