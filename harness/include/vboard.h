#ifndef VBOARD_H
#define VBOARD_H
enum { VM_PLAUSIBLE = 0, VM_NEVER = 1, VM_ALWAYS = 2 };
struct vmotor { int mode; int up_ms, down_ms, startup_ms; };
struct vboard {
  int nrelay;
  struct { int gpio, channel, flags; unsigned channel_flags; } relay[8];
  int nrs;
  struct { int up_idx, down_idx; } rs[4];
  unsigned rs_channel_flags;
  int ninput;
  struct { int gpio, type, flags, relay_gpio, channel; unsigned at_cap; } input[7];
  struct vmotor motor[4];
};
extern struct vboard v_board;
extern int v_device_state;
#endif
