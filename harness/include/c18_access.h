/* accessors of harness/wrap/c18_update_wrap.c (statics of supla_update.c) */
#ifndef C18_ACCESS_H
#define C18_ACCESS_H
struct espconn;
int c18_exists(void);
int c18_step(void);
void c18_set_step(int s);
unsigned c18_base(void);
unsigned c18_awo(void);
int c18_expected(void);
int c18_downloaded(void);
int c18_matched(void);
int c18_buff_pos(void);
const unsigned char *c18_buff(void);
struct espconn *c18_conn(void);
int c18_const_max_header(void);
int c18_const_max_attempts(void);
#endif
