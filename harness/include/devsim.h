/* devsim.h — helpers for drivers that run the WHOLE device (real gpio/input/rs/devconn/srpc/proto/cfg…)
 * on the SDK doubles.  Include once in the driver TU (after drvmain.h is fine).
 *
 * CFG line (first line of a case), all keys optional:
 *   CFG boot=<u32> relays=<gpio>:<ch>:<flags>:<chflags>,… rs=<upidx>:<downidx>,… rsflags=<n>
 *       inputs=<gpio>:<type>:<flags>:<relaygpio>:<channel>:<atcap>,…
 *       motor=<mode>:<up_ms>:<down_ms>:<startup_ms>,…   lateness=<us>,<us>,…  sentdefault=<r>
 *       gpioin=<u32 initial input register>  email=0|1  time1=<ms>,..  (cfg.Time1 per channel) time2=<ms>,..
 * Events handled by ds_event():
 *   ADV <us>            advance virtual time (timers fire)
 *   IN <pin> <level>    input edge (ISR)
 *   WIFI <status>       wifi_station_get_connect_status() result from now on
 *   CONNCB | DISCCB     invoke the connect / disconnect callback registered on the server espconn
 *   RECV : <hex>        deliver raw bytes to the server connection's recv callback
 *   SRV <call_id> <rr_id> : <payload hex>   a well-framed server message
 *   REGOK <activity_timeout> | REGFAIL <result_code>   register-device result
 *   SENTRES r r r …     script for the next espconn_sent results
 *   SENSOR <mode>       motor sensor mode for shutter 0..3 (VM_*)
 *   ITER                call supla_esp_devconn_iterate(NULL) directly
 * Outputs (enable with the ds_log_* flags):
 *   GPIO <t_us> <pin> <level>         every change of the output register
 *   WIRE <t_us> <call_id> <rr_id> : <payload>   every complete frame accepted by espconn_sent (result 0) on the server conn
 *   WIREJUNK <t_us> : <hex>           accepted bytes that do not decode as frames (flushed at end)
 *   CONNECT/DISCONNECT <t_us>         espconn_connect / espconn_disconnect calls on the server connection
 *   RESTART <t_us>
 */
#ifndef DEVSIM_H
#define DEVSIM_H
#include <string.h>
#include <stdlib.h>
#include <os_type.h>
#include <osapi.h>
#include <user_interface.h>
#include <espconn.h>
#include <supla_esp.h>
#include <supla_esp_cfg.h>
#include <supla_esp_gpio.h>
#include <supla_esp_rs_fb.h>
#include <supla_esp_input.h>
#include <supla_esp_devconn.h>
#include <supla_esp_countdown_timer.h>
#include <proto.h>
#include "verif.h"
#include "vboard.h"
#include "verif_access.h"

void supla_esp_devconn_recv_cb(void *arg, char *pdata, unsigned short len);
void supla_esp_devconn_iterate(void *timer_arg);
void supla_esp_devconn_connect_cb(void *arg);
void supla_esp_devconn_disconnect_cb(void *arg);
void supla_esp_uptime_init(void);

static int ds_log_gpio = 1, ds_log_wire = 1, ds_log_conn = 1, ds_log_restart = 1, ds_stop_on_restart = 1;
static int ds_conn_id = 0;               /* incremented at every connect callback */
static unsigned char ds_wire[1 << 20]; static size_t ds_wire_n = 0;
static unsigned ds_srv_rr = 1;
static void (*ds_on_frame)(unsigned call_id, unsigned rr_id, const unsigned char *p, unsigned n) = 0;

static void ds_wire_flush_frames(void) {
  /* decode as many complete frames as possible from ds_wire */
  size_t o = 0;
  while (ds_wire_n - o >= 23) {
    if (memcmp(ds_wire + o, "SUPLA", 5) != 0) break;
    unsigned rr, call, ds_; memcpy(&rr, ds_wire + o + 6, 4); memcpy(&call, ds_wire + o + 10, 4); memcpy(&ds_, ds_wire + o + 14, 4);
    if (ds_ > SUPLA_MAX_DATA_SIZE) break;
    if (ds_wire_n - o < 18 + ds_ + 5) break;
    if (memcmp(ds_wire + o + 18 + ds_, "SUPLA", 5) != 0) break;
    if (ds_log_wire) { fprintf(stdout, "WIRE %llu %u %u : ", v_now, call, rr); vout_hex("", ds_wire + o + 18, ds_); }
    if (ds_on_frame) ds_on_frame(call, rr, ds_wire + o + 18, ds_);
    o += 18 + ds_ + 5;
  }
  memmove(ds_wire, ds_wire + o, ds_wire_n - o); ds_wire_n -= o;
}
static void ds_sent_hook(struct espconn *e, const unsigned char *p, unsigned len, int result) {
  if (e != vd_espconn() || result != 0) return;
  if (ds_wire_n + len <= sizeof ds_wire) { memcpy(ds_wire + ds_wire_n, p, len); ds_wire_n += len; }
  ds_wire_flush_frames();
}
static void ds_gpio_hook(int pin, int level) { if (ds_log_gpio) vout("GPIO %llu %d %d", v_now, pin, level); }
static void ds_restart_hook(void) {
  if (ds_log_restart) vout("RESTART %llu", v_now);
  if (ds_stop_on_restart) { if (ds_wire_n && ds_log_wire) { fprintf(stdout, "WIREJUNK %llu : ", v_now); vout_hex("", ds_wire, ds_wire_n); } fflush(stdout); _exit(0); }
}
static void ds_connect_hook(struct espconn *e) { if (e == vd_espconn() && ds_log_conn) vout("CONNECT %llu", v_now); }
static void ds_disconnect_hook(struct espconn *e) { if (e == vd_espconn() && ds_log_conn) vout("DISCONNECT %llu", v_now); }

static int ds_split(const char *s, char sep, long long *out, int max) {
  int n = 0; const char *p = s;
  while (*p && *p != ' ' && n < max) {
    out[n++] = strtoll(p, (char **)&p, 0);
    if (*p == sep) p++; else break;
  }
  return n;
}
static int ds_cfg_email = 1;
static long long ds_time1[8], ds_time2[8]; static int ds_ntime1 = 0, ds_ntime2 = 0;
static void ds_apply_cfg(const char *line) {
  const char *s; long long f[8];
  memset(&v_board, 0, sizeof v_board);
  v_boot = (unsigned)kv(line, "boot", 1);
  v_sent_default = (int)kv(line, "sentdefault", 0);
  v_gpio_in = (unsigned)kv(line, "gpioin", 0);
  ds_cfg_email = (int)kv(line, "email", 1);
  if ((s = kvs(line, "relays"))) {
    while (*s && *s != ' ') {
      int n = ds_split(s, ':', f, 4); int i = v_board.nrelay++;
      v_board.relay[i].gpio = (int)f[0]; v_board.relay[i].channel = n > 1 ? (int)f[1] : i;
      v_board.relay[i].flags = n > 2 ? (int)f[2] : 0; v_board.relay[i].channel_flags = n > 3 ? (unsigned)f[3] : 0;
      while (*s && *s != ',' && *s != ' ') s++; if (*s == ',') s++;
    }
  }
  if ((s = kvs(line, "rs"))) {
    while (*s && *s != ' ') {
      ds_split(s, ':', f, 2); int i = v_board.nrs++;
      v_board.rs[i].up_idx = (int)f[0]; v_board.rs[i].down_idx = (int)f[1];
      while (*s && *s != ',' && *s != ' ') s++; if (*s == ',') s++;
    }
  }
  v_board.rs_channel_flags = (unsigned)kv(line, "rsflags", 0);
  if ((s = kvs(line, "inputs"))) {
    while (*s && *s != ' ') {
      int n = ds_split(s, ':', f, 6); int i = v_board.ninput++;
      v_board.input[i].gpio = (int)f[0]; v_board.input[i].type = n > 1 ? (int)f[1] : 0; v_board.input[i].flags = n > 2 ? (int)f[2] : 0;
      v_board.input[i].relay_gpio = n > 3 ? (int)f[3] : 255; v_board.input[i].channel = n > 4 ? (int)f[4] : 255;
      v_board.input[i].at_cap = n > 5 ? (unsigned)f[5] : 0;
      while (*s && *s != ',' && *s != ' ') s++; if (*s == ',') s++;
    }
  }
  if ((s = kvs(line, "motor"))) {
    int i = 0;
    while (*s && *s != ' ' && i < 4) {
      int n = ds_split(s, ':', f, 4);
      v_board.motor[i].mode = (int)f[0]; v_board.motor[i].up_ms = n > 1 ? (int)f[1] : 0;
      v_board.motor[i].down_ms = n > 2 ? (int)f[2] : 0; v_board.motor[i].startup_ms = n > 3 ? (int)f[3] : 0; i++;
      while (*s && *s != ',' && *s != ' ') s++; if (*s == ',') s++;
    }
  }
  if ((s = kvs(line, "lateness"))) { long long l[64]; v_lateness_n = ds_split(s, ',', l, 64); for (int i = 0; i < v_lateness_n; i++) v_lateness_us[i] = (unsigned)l[i]; }
  if ((s = kvs(line, "time1"))) ds_ntime1 = ds_split(s, ',', ds_time1, 8);
  if ((s = kvs(line, "time2"))) ds_ntime2 = ds_split(s, ',', ds_time2, 8);
}

/* boots the device: configuration in RAM (no flash load), gpio, devconn; wifi is up, server is an IP literal */
static void ds_boot(int start_devconn) {
  v_quiet = 1; v_on_sent = ds_sent_hook; v_on_gpio_write = ds_gpio_hook; v_on_restart = ds_restart_hook;
  v_on_connect = ds_connect_hook; v_on_disconnect = ds_disconnect_hook;
  memset(&supla_esp_cfg, 0, sizeof supla_esp_cfg); memset(&supla_esp_state, 0, sizeof supla_esp_state);
  memcpy(supla_esp_cfg.TAG, "SUPLA", 5);
  for (int i = 0; i < SUPLA_GUID_SIZE; i++) supla_esp_cfg.GUID[i] = (char)(0x10 + i);
  for (int i = 0; i < SUPLA_AUTHKEY_SIZE; i++) supla_esp_cfg.AuthKey[i] = (char)(0x40 + i);
  strcpy(supla_esp_cfg.Server, "10.1.2.3"); if (ds_cfg_email) strcpy(supla_esp_cfg.Email, "user@example.org");
  strcpy(supla_esp_cfg.WIFI_SSID, "ssid"); strcpy(supla_esp_cfg.WIFI_PWD, "wifipassword");
  for (int i = 0; i < ds_ntime1 && i < CFG_TIME1_COUNT; i++) supla_esp_cfg.Time1[i] = (unsigned)ds_time1[i];
  for (int i = 0; i < ds_ntime2 && i < CFG_TIME2_COUNT; i++) supla_esp_cfg.Time2[i] = (unsigned)ds_time2[i];
  /* same order as user_init(): uptime counter, countdown timers, gpio, devconn */
  supla_esp_uptime_init();
  supla_esp_countdown_timer_init();
  supla_esp_gpio_init();
  supla_esp_devconn_init();
  if (start_devconn) supla_esp_devconn_start();
}
static void ds_conncb(void) {
  struct espconn *e = vd_espconn(); ds_conn_id++; ds_wire_n = 0;
  if (e && e->proto.tcp && e->proto.tcp->connect_callback) e->proto.tcp->connect_callback(e);
}
static void ds_disccb(void) {
  struct espconn *e = vd_espconn();
  if (e && e->proto.tcp && e->proto.tcp->disconnect_callback) e->proto.tcp->disconnect_callback(e);
}
static void ds_recv(const unsigned char *p, int len) {
  struct espconn *e = vd_espconn();
  if (e && e->recv_callback) e->recv_callback(e, (char *)p, (unsigned short)len);
}
static void ds_srv(unsigned call_id, unsigned rr_id, const unsigned char *payload, unsigned n) {
  static unsigned char fr[18 + SUPLA_MAX_DATA_SIZE + 5];
  if (n > SUPLA_MAX_DATA_SIZE) n = SUPLA_MAX_DATA_SIZE;
  memcpy(fr, "SUPLA", 5); fr[5] = ESP8266_SUPLA_PROTO_VERSION; memcpy(fr + 6, &rr_id, 4); memcpy(fr + 10, &call_id, 4); memcpy(fr + 14, &n, 4);
  memcpy(fr + 18, payload, n); memcpy(fr + 18 + n, "SUPLA", 5);
  /* the staging buffer takes RECVBUFF_MAXSIZE bytes: deliver in segments with iterates in between */
  unsigned tot = 18 + n + 5, o = 0;
  while (o < tot) { unsigned c = tot - o > 512 ? 512 : tot - o; ds_recv(fr + o, (int)c); o += c; if (o < tot) { supla_esp_devconn_iterate(NULL); supla_esp_devconn_iterate(NULL); } }
}
static void ds_regresult(int code, int timeout) {
  TSD_SuplaRegisterDeviceResult r; memset(&r, 0, sizeof r);
  r.result_code = code; r.activity_timeout = (unsigned char)timeout; r.version = ESP8266_SUPLA_PROTO_VERSION; r.version_min = 1;
  ds_srv(SUPLA_SD_CALL_REGISTER_DEVICE_RESULT, ds_srv_rr++, (unsigned char *)&r, sizeof r);
}
/* returns 1 when the line was a common event */
static int ds_event(char *l) {
  static unsigned char buf[70000];
  if (!strncmp(l, "ADV ", 4)) { v_advance(strtoull(l + 4, NULL, 0)); return 1; }
  if (!strncmp(l, "IN ", 3)) { int pin, lev; if (sscanf(l + 3, "%d %d", &pin, &lev) == 2) v_set_input(pin, lev); return 1; }
  if (!strncmp(l, "WIFI ", 5)) { v_wifi_status = atoi(l + 5); return 1; }
  if (!strncmp(l, "CONNCB", 6)) { ds_conncb(); return 1; }
  if (!strncmp(l, "DISCCB", 6)) { ds_disccb(); return 1; }
  if (!strncmp(l, "ITER", 4)) { supla_esp_devconn_iterate(NULL); return 1; }
  if (!strncmp(l, "RECV", 4)) { char *c = strchr(l, ':'); int n = c ? hex2bytes(c + 1 + (c[1] == ' '), buf, sizeof buf) : 0; ds_recv(buf, n); return 1; }
  if (!strncmp(l, "SRV ", 4)) {
    unsigned call = 0, rr = 0; sscanf(l + 4, "%u %u", &call, &rr);
    char *c = strchr(l, ':'); int n = c ? hex2bytes(c + 1 + (c[1] == ' '), buf, sizeof buf) : 0;
    ds_srv(call, rr, buf, (unsigned)n); return 1;
  }
  if (!strncmp(l, "REGOK", 5)) { ds_regresult(SUPLA_RESULTCODE_TRUE, atoi(l + 5)); return 1; }
  if (!strncmp(l, "REGFAIL", 7)) { ds_regresult(atoi(l + 7), 0); return 1; }
  if (!strncmp(l, "SENTRES", 7)) {
    char *p = l + 7; v_sent_n = 0; v_sent_i = 0;
    while (*p && *p != ':') { while (*p == ' ') p++; if (!*p || *p == ':') break; v_sent_script[v_sent_n++] = (int)strtol(p, &p, 0); if (v_sent_n >= V_SENT_SCRIPT_MAX) break; }
    return 1;
  }
  if (!strncmp(l, "SENSOR ", 7)) { int idx = 0, m = 0; if (sscanf(l + 7, "%d %d", &idx, &m) == 2 && idx >= 0 && idx < 4) v_board.motor[idx].mode = m; return 1; }
  return 0;
}
static void ds_finish(void) {
  if (ds_wire_n && ds_log_wire) { fprintf(stdout, "WIREJUNK %llu : ", v_now); vout_hex("", ds_wire, ds_wire_n); }
}
#endif
