#ifndef VERIF_ACCESS_H
#define VERIF_ACCESS_H
#include <srpc.h>
struct espconn;
int vd_exists(void);
void *vd_srpc(void);
void vd_set_srpc(void *s);
int vd_registered(void);
void vd_set_registered(int r);
int vd_started(void);
int vd_send_buffer_len(void);
unsigned vd_recvbuff_size(void);
struct espconn *vd_espconn(void);
int vd_activity_timeout(void);
unsigned vd_last_response(void);
unsigned vd_last_sent(void);
void vd_srpc_init_with_handler(_func_srpc_event_OnRemoteCallReceived h);
/* srpc_wrap.c */
TSuplaDataPacket *vs_in_queue_peek(void *srpc, int idx);
int vs_in_queue_count(void *srpc);
int vs_out_queue_count(void *srpc);
void *vs_proto(void *srpc);
/* proto_wrap.c */
unsigned vp_in_size(void *proto); unsigned vp_in_data_size(void *proto);
unsigned vp_out_size(void *proto); unsigned vp_out_data_size(void *proto);
#endif
