/* verif.h — interface of the deterministic SDK doubles used by every C driver.
 * All observable output goes through vout() (plain stdout, unbuffered) because
 * user_config.h redefines printf. */
#ifndef VERIF_H
#define VERIF_H
#include <stdarg.h>
#include <stdint.h>
#include <stddef.h>

/* ---- output ---- */
void vout(const char *fmt, ...);              /* one canonical output line (adds '\n') */
void vout_hex(const char *prefix, const void *p, size_t n); /* "<prefix><hex>\n" */
extern int v_quiet;                           /* 1: doubles print nothing themselves */

/* ---- clock & timers ---- */
extern unsigned long long v_now;              /* true microseconds since boot */
extern unsigned int v_boot;                   /* value of the 32-bit counter at boot */
void v_advance(unsigned long long dt_us);     /* fire due timers in (due, seq) order */
void v_timers_reset(void);
extern unsigned int v_lateness_us[64];        /* scripted lateness per firing (cyclic) */
extern int v_lateness_n;
extern unsigned long long v_timer_fired;      /* count of callbacks fired */

/* ---- espconn ---- */
struct espconn;
#define V_SENT_SCRIPT_MAX 4096
extern int v_sent_script[V_SENT_SCRIPT_MAX];  /* results for the next espconn_sent calls */
extern int v_sent_n, v_sent_i;
extern int v_sent_default;                    /* result when the script is exhausted */
extern int v_log_sent;                        /* 1: print SENT lines */
const char *v_conn_name(struct espconn *e);
void v_conn_set_name(struct espconn *e, const char *name);
/* hook called on every espconn_sent (after result chosen); may be NULL */
extern void (*v_on_sent)(struct espconn *e, const unsigned char *p, unsigned len, int result);
extern void (*v_on_connect)(struct espconn *e);
extern void (*v_on_disconnect)(struct espconn *e);
extern struct espconn *v_last_accept;         /* listening espconn given to espconn_accept */
extern struct espconn *v_last_connect;        /* espconn given to espconn_connect */

/* ---- gpio ---- */
extern uint32_t v_gpio_out, v_gpio_in, v_gpio_status;
extern int v_log_gpio;
void v_set_input(int pin, int level);         /* changes the input register and runs the ISR */
extern void (*v_on_gpio_write)(int pin, int level);

/* ---- flash ---- */
#define V_FLASH_SECTORS 1024
extern unsigned char v_flash[V_FLASH_SECTORS * 4096];
extern int v_flash_fail_at;                   /* k>0: the k-th next flash op fails; 0 none */
extern int v_flash_fail_code;                 /* what a failing op returns: 1 = SPI_FLASH_RESULT_ERR (default), 2 = SPI_FLASH_RESULT_TIMEOUT */
extern int v_flash_crash_at;                  /* k>0: longjmp/exit before the k-th next op */
extern int v_flash_ops;                       /* ops performed so far */
extern int v_log_flash;
extern void (*v_on_flash)(const char *op, unsigned addr, unsigned len);

/* ---- misc ---- */
extern int v_restart_count;                   /* supla_system_restart calls */
extern int v_upgrade_flag;
extern unsigned char v_random_byte;           /* os_get_random fills with ++v_random_byte */
extern int v_wifi_status;
extern int v_rsa_verdict;                     /* result of rsa_sha256_verify */
extern void (*v_on_restart)(void);
extern char v_last_log[256];                  /* last supla_log format */
extern void (*v_on_log)(int prio, const char *fmt);

#endif
