/* c07_core.h — whole-device driver core shared by harness/drv/c07.c and harness/drv/c06.c.
 *
 * The device is booted exactly in the order of user_init(): uptime_init, cfg_init (configuration AND state are
 * loaded from the flash double by the real supla_esp_cfg_init), countdown_timer_init, gpio_init (restore branch),
 * devconn_init.  The first boot of a case writes the configuration and an all-zero state with the real
 * supla_esp_cfg_save / supla_esp_save_state(0).
 *
 * CRASH = power loss at an event boundary: the process re-executes itself (execv /proc/self/exe), so every RAM
 * global is re-zeroed by the loader; what survives is exactly the two flash sectors (configuration, state) as the
 * real code wrote them, the true time v_now and the rest of the script.  GPIO outputs read 0 after the reboot
 * (REBOOT line), the 32-bit microsecond counter restarts at `boot2`, the lateness script restarts.
 *
 * First line of a case (numeric, the same line is read by the extracted model):
 *   CFG boot boot2 sbt lateflags nrel (gpio ch flags chflags)* nt2 ms* nlate us* [rest] :
 * boot/boot2 = value of the 32-bit microsecond counter at the first boot / right after a reboot, sbt =
 * StaircaseButtonType, lateflags=1: the board leaves supla_relay_cfg[].channel_flags zero in gpio_init (they are
 * filled by registration / the FLAGS event), ms = cfg.Time2[] per channel, us = lateness script of the timer double.
 * Events:  SET <ch> <v> <dur_ms> <sender>   supla_esp_channel_set_value() called directly
 *          SW <gpio> <hi>                    supla_esp_gpio_relay_switch() (what a button press ends in), hi 0|1|255
 *          TIME2 <ch> <ms>                   staircase time changed and configuration saved
 *          CHCFG <ch> <func> <type> <size> <ms>   channel config from the server (supla_esp_channel_config_result)
 *          FLAGS                             channel_flags := flags announced at registration (what
 *                                            supla_esp_devconn_set_channels does)
 *          ADV <us> | CRASH                  + everything of devsim.h
 * Outputs: GPIO <t> <pin> <level> | REBOOT <t> | SAVED <t> r0..r7 l0..l7 (state sector written: Relay[], Time2Left[])
 *          ST <t> <delay_ms> <armed> {<remaining> <Time2Left> <Relay> <pin>} per configured relay   after every event
 */
#ifndef C07_CORE_H
#define C07_CORE_H
#define main drvmain_main
#include "drvmain.h"
#undef main
#include <fcntl.h>
#include <sys/stat.h>
#include "devsim.h"
#include <uptime.h>
#include <spi_flash.h>

unsigned v7_delay_ms(void); int v7_timer_armed(void); unsigned v7_timer_period_us(void);
int v7_slot_channel(int i); unsigned v7_slot_left(int i);
void v7_disarm_watchdog(void); void v7_disarm_devconn_timers(void);
void supla_esp_channel_set_value(TSD_SuplaChannelNewValue *new_value);

static int c7_lateflags = 0, c7_sbt = 0, c7_log_st = 1, c7_log_saved = 1, c7_offline = 1;
static unsigned c7_boot2 = 1;
static unsigned c7_chflags[8];
static char **c7_lines; static int c7_nlines, c7_idx; static const char *c7_cfgline = "";
static void (*c7_after_boot)(void) = 0;      /* hooks of the including driver (c06) */
static void (*c7_after_cfg)(void) = 0; static void (*c7_after_event)(void) = 0;
static int (*c7_extra_event)(char *l) = 0;

static void c7_flash_hook(const char *op, unsigned addr, unsigned len) {
  (void)len;
  if (!c7_log_saved || strcmp(op, "write") != 0) return;
  if (addr != (CFG_SECTOR + STATE_SECTOR_OFFSET) * SPI_FLASH_SEC_SIZE) return;
  fprintf(stdout, "SAVED %llu", v_now);
  for (int a = 0; a < RELAY_MAX_COUNT; a++) fprintf(stdout, " %u", (unsigned)(unsigned char)supla_esp_state.Relay[a]);
  for (int a = 0; a < STATE_CFG_TIME2_COUNT; a++) fprintf(stdout, " %u", supla_esp_state.Time2Left[a]);
  fprintf(stdout, " :\n");
}
static void c7_gpio_hook(int pin, int level) { if (ds_log_gpio) vout("GPIO %llu %d %d :", v_now, pin, level); }

static void c7_st(void) {
  if (!c7_log_st) return;
  fprintf(stdout, "ST %llu %u %d", v_now, v7_delay_ms(), v7_timer_armed());
  for (int a = 0; a < RELAY_MAX_COUNT; a++) {
    if (supla_relay_cfg[a].gpio_id == 255) continue;
    TTimerState_ExtendedValue ts; supla_esp_countdown_get_state(supla_relay_cfg[a].channel, &ts);
    unsigned ch = supla_relay_cfg[a].channel;
    fprintf(stdout, " %u %u %u %d", ts.RemainingTimeMs, ch < STATE_CFG_TIME2_COUNT ? supla_esp_state.Time2Left[ch] : 0,
            (unsigned)(unsigned char)supla_esp_state.Relay[a], (int)((v_gpio_out >> supla_relay_cfg[a].gpio_id) & 1));
  }
  fprintf(stdout, " :\n");
}

/* an aged device: boot >= 2^32 in the CFG line presets the wrap count of uptime.c at the first boot (boot >> 32 wraps of
 * the 32-bit counter have been seen, the counter reads boot mod 2^32); a restart starts at 0 again */
typedef struct { uint32 cycles; uint32 last_system_time; ETSTimer timer; } c7_uptime_t;
extern c7_uptime_t usermain_uptime;
static unsigned c7_age = 0;
static long long c7_cfgints[512]; static int c7_ncfgints = 0, c7_cfgpos = 0;   /* c7_cfgpos: first int not consumed by the core */
/* CFG boot boot2 sbt lateflags nrel (gpio ch flags chflags)* nt2 ms* nlate us* [driver-specific rest] : */
static void c7_parse_cfg(const char *line) {
  memset(&v_board, 0, sizeof v_board); c7_ncfgints = 0;
  const char *p = line; if (!strncmp(p, "CFG", 3)) p += 3;
  while (*p && *p != ':' && c7_ncfgints < 512) { while (*p == ' ') p++; if (!*p || *p == ':') break; c7_cfgints[c7_ncfgints++] = strtoll(p, (char **)&p, 0); }
  int i = 0;
#define NEXT (i < c7_ncfgints ? c7_cfgints[i++] : 0)
  { long long b = c7_ncfgints ? NEXT : 1; v_boot = (unsigned)b; c7_age = (unsigned)((unsigned long long)b >> 32); } c7_boot2 = (unsigned)(c7_ncfgints > 1 ? NEXT : 1); c7_sbt = (int)NEXT; c7_lateflags = NEXT != 0;
  int nrel = (int)NEXT;
  for (int k = 0; k < nrel; k++) {
    long long g = NEXT, ch = NEXT, f = NEXT, cf = NEXT;
    if (k < 8) { v_board.relay[k].gpio = (int)g; v_board.relay[k].channel = (int)ch; v_board.relay[k].flags = (int)f; v_board.relay[k].channel_flags = (unsigned)cf; v_board.nrelay = k + 1; }
  }
  ds_ntime2 = 0; int nt2 = (int)NEXT; for (int k = 0; k < nt2; k++) { long long ms = NEXT; if (k < 8) ds_time2[ds_ntime2++] = ms; }
  v_lateness_n = 0; int nl = (int)NEXT; for (int k = 0; k < nl; k++) { long long us = NEXT; if (k < 64) v_lateness_us[v_lateness_n++] = (unsigned)us; }
  c7_cfgpos = i;
#undef NEXT
  for (int k = 0; k < 8; k++) c7_chflags[k] = k < v_board.nrelay ? v_board.relay[k].channel_flags : 0;
  if (c7_after_cfg) c7_after_cfg();
}
static void c7_fill_flags(void) {   /* lines 1538-1547 of supla_esp_devconn_set_channels, by relay index */
  for (int a = 0; a < RELAY_MAX_COUNT && a < v_board.nrelay; a++)
    if (supla_relay_cfg[a].gpio_id != 255) supla_relay_cfg[a].channel_flags = SUPLA_CHANNEL_FLAG_CHANNELSTATE | c7_chflags[a];
}

/* first = 1: establish the flash image of a configured device first */
static void c7_boot(int first) {
  v_quiet = 1; v_on_sent = ds_sent_hook; v_on_gpio_write = c7_gpio_hook; v_on_restart = ds_restart_hook;
  v_on_connect = ds_connect_hook; v_on_disconnect = ds_disconnect_hook; ds_log_conn = 0;
  if (first) {
    memset(&supla_esp_cfg, 0, sizeof supla_esp_cfg); memset(&supla_esp_state, 0, sizeof supla_esp_state);
    memcpy(supla_esp_cfg.TAG, "SUPLA", 5); supla_esp_cfg.TAG[5] = 7;
    for (int i = 0; i < SUPLA_GUID_SIZE; i++) supla_esp_cfg.GUID[i] = (char)(0x10 + i);
    for (int i = 0; i < SUPLA_AUTHKEY_SIZE; i++) supla_esp_cfg.AuthKey[i] = (char)(0x40 + i);
    strcpy(supla_esp_cfg.Server, "10.1.2.3"); strcpy(supla_esp_cfg.Email, "user@example.org");
    strcpy(supla_esp_cfg.WIFI_SSID, "ssid"); strcpy(supla_esp_cfg.WIFI_PWD, "wifipassword");
    for (int i = 0; i < ds_ntime2 && i < CFG_TIME2_COUNT; i++) supla_esp_cfg.Time2[i] = (unsigned)ds_time2[i];
    supla_esp_cfg.StaircaseButtonType = (char)c7_sbt;
    supla_esp_cfg_save(&supla_esp_cfg);
    supla_esp_save_state(0);
  }
  v_on_flash = c7_flash_hook;
  supla_esp_uptime_init();
  if (first) usermain_uptime.cycles = c7_age;
  supla_esp_cfg_init();
  supla_esp_countdown_timer_init();
  for (int i = 0; i < v_board.nrelay; i++) v_board.relay[i].channel_flags = c7_lateflags ? 0 : c7_chflags[i];
  supla_esp_gpio_init();
  for (int i = 0; i < v_board.nrelay; i++) v_board.relay[i].channel_flags = c7_chflags[i];
  supla_esp_devconn_init();
  if (c7_offline) v7_disarm_watchdog();
  if (c7_after_boot) c7_after_boot();
}

static void c7_crash(void) {
  char path[128]; mkdir("/tmp/c07", 0777);
  snprintf(path, sizeof path, "/tmp/c07/r%d.bin", (int)getpid());
  FILE *f = fopen(path, "wb"); if (!f) { vout("CRASH-IO-ERROR"); _exit(3); }
  int rest = c7_nlines - (c7_idx + 1); size_t cl = strlen(c7_cfgline);
  fwrite(&v_now, sizeof v_now, 1, f); fwrite(&cl, sizeof cl, 1, f); fwrite(c7_cfgline, 1, cl, f);
  fwrite(&rest, sizeof rest, 1, f);
  for (int i = c7_idx + 1; i < c7_nlines; i++) { size_t l = strlen(c7_lines[i]); fwrite(&l, sizeof l, 1, f); fwrite(c7_lines[i], 1, l, f); }
  fwrite(v_flash + (size_t)CFG_SECTOR * 4096, 1, 2 * 4096, f);
  fclose(f); fflush(stdout);
  char *argv[] = { "drv", "--resume", path, NULL };
  execv("/proc/self/exe", argv);
  vout("CRASH-EXEC-ERROR"); _exit(3);
}

static int c7_event(char *l) {
  if (!strncmp(l, "SET ", 4)) {
    int ch = 0, v = 0, sender = 0; unsigned dur = 0; sscanf(l + 4, "%d %d %u %d", &ch, &v, &dur, &sender);
    TSD_SuplaChannelNewValue nv; memset(&nv, 0, sizeof nv);
    nv.SenderID = sender; nv.ChannelNumber = (unsigned char)ch; nv.DurationMS = dur; nv.value[0] = (char)v;
    supla_esp_channel_set_value(&nv); return 1;
  }
  if (!strncmp(l, "SW ", 3)) { int g = 0, hi = 0; sscanf(l + 3, "%d %d", &g, &hi); supla_esp_gpio_relay_switch(g, (unsigned char)hi); return 1; }
  if (!strncmp(l, "TIME2 ", 6)) {
    int ch = 0; unsigned ms = 0; sscanf(l + 6, "%d %u", &ch, &ms);
    if (ch >= 0 && ch < CFG_TIME2_COUNT) { supla_esp_cfg.Time2[ch] = ms; supla_esp_cfg_save(&supla_esp_cfg); } return 1;
  }
  if (!strncmp(l, "CHCFG ", 6)) {   /* CHCFG <ch> <func> <cfgtype> <cfgsize> <TimeMS>: SET_CHANNEL_CONFIG / GET_CHANNEL_CONFIG_RESULT as dispatched */
    long long ch = 0, fn = 0, ct = 0, cs = 0, ms = 0; sscanf(l + 6, "%lld %lld %lld %lld %lld", &ch, &fn, &ct, &cs, &ms);
    static TSD_ChannelConfig cc; memset(&cc, 0, sizeof cc);
    cc.ChannelNumber = (unsigned char)ch; cc.Func = (int)fn; cc.ConfigType = (unsigned char)ct; cc.ConfigSize = (unsigned short)cs;
    TChannelConfig_StaircaseTimer st; memset(&st, 0, sizeof st); st.TimeMS = (int)ms; memcpy(cc.Config, &st, sizeof st);
    supla_esp_channel_config_result(&cc); return 1;
  }
  if (!strncmp(l, "FLAGS", 5)) { c7_fill_flags(); return 1; }
  if (!strncmp(l, "CRASH", 5)) { c7_crash(); return 1; }
  if (c7_extra_event && c7_extra_event(l)) return 1;
  return ds_event(l);
}

static void c7_run_from(int i) {
  for (c7_idx = i; c7_idx < c7_nlines; c7_idx++) {
    if (!c7_event(c7_lines[c7_idx])) vout("UNKNOWN-EVENT :");
    if (c7_after_event) c7_after_event(); else c7_st();
  }
  ds_finish();
}

static void run_case(int n, char **lines) {
  int i = 0; c7_lines = lines; c7_nlines = n;
  if (n > 0 && !strncmp(lines[0], "CFG", 3)) { c7_cfgline = lines[0]; i = 1; }
  c7_parse_cfg(c7_cfgline);
  c7_boot(1); if (c7_after_event) c7_after_event(); else c7_st();
  c7_run_from(i);
}

static int c7_resume(const char *path) {
  FILE *f = fopen(path, "rb"); if (!f) return 3;
  size_t cl = 0; int rest = 0; static char cfgl[4096];
  if (fread(&v_now, sizeof v_now, 1, f) != 1 || fread(&cl, sizeof cl, 1, f) != 1 || cl >= sizeof cfgl) return 3;
  if (cl && fread(cfgl, 1, cl, f) != cl) return 3;
  cfgl[cl] = 0; c7_cfgline = cfgl;
  if (fread(&rest, sizeof rest, 1, f) != 1) return 3;
  char **ls = calloc((size_t)rest + 1, sizeof(char *));
  for (int i = 0; i < rest; i++) { size_t l = 0; if (fread(&l, sizeof l, 1, f) != 1) return 3; ls[i] = calloc(l + 1, 1); if (l && fread(ls[i], 1, l, f) != l) return 3; }
  if (fread(v_flash + (size_t)CFG_SECTOR * 4096, 1, 2 * 4096, f) != 2 * 4096) return 3;
  fclose(f); unlink(path);
  c7_lines = ls; c7_nlines = rest;
  c7_parse_cfg(c7_cfgline);
  v_boot = (unsigned)(c7_boot2 - (unsigned)v_now);   /* the counter restarts at boot2 */
  v_lateness_n = v_lateness_n;                        /* lateness script restarts at index 0 (fresh process) */
  vout("REBOOT %llu :", v_now);
  c7_boot(0); if (c7_after_event) c7_after_event(); else c7_st();
  c7_run_from(0);
  return 0;
}

int main(int argc, char **argv) {
  if (argc >= 3 && !strcmp(argv[1], "--resume")) { setvbuf(stdout, NULL, _IONBF, 0); int r = c7_resume(argv[2]); fflush(stdout); _exit(r); }
  return drvmain_main(argc, argv);
}
#endif
