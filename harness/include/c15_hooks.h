/* C15: observation hooks compiled into the page renderers (harness/wrap/c15_html_wrap.c) */
#ifndef C15_HOOKS_H
#define C15_HOOKS_H
#include <stddef.h>
#define C15_MAXALLOC 64
struct c15_alloc { void *p; size_t n; };
extern struct c15_alloc c15_allocs[C15_MAXALLOC];
extern int c15_nalloc;
extern int c15_trunc;                 /* a rendering ets_snprintf needed more room than it was given */
void c15_reset(void);
void *c15_malloc(size_t n);
long c15_size_of(const void *p);      /* size requested for the allocation that returned p */
int c15_snprintf(char *s, unsigned int n, const char *f, ...);
char *c15_tmpl_v0(char dev_name[25], const char mac[6], const char data_saved);
char *c15_tmpl_v1(char dev_name[25], const char mac[6], const char data_saved);
char *c15_tmpl_v2(char dev_name[25], const char mac[6], const char data_saved);
char *c15_tmpl_v3(char dev_name[25], const char mac[6], const char data_saved);
char *c15_tmpl_v4(char dev_name[25], const char mac[6], const char data_saved);
char *c15_tmpl_v5(char dev_name[25], const char mac[6], const char data_saved);
char *supla_esp_cfgmode_get_html_template(char dev_name[25], const char mac[6], const char data_saved);
extern char c15_addsett[512];
#endif
