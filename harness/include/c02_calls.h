/* c02_calls.h — the device->server entry points of srpc.c exercised by the C02 driver.
 * One table, used twice:
 *   - gen/grp_c02.py prints one row per entry (call id, struct size, size formula) from the real headers, so the
 *     python generator knows which (call_id, payload) a typed call must put on the wire;
 *   - harness/drv/c02.c calls the real function of entry k with a struct image taken from the event.
 * Row: ROW(k, call_id, sizeof image, base, unit, var_off, var_width, vmin, vmax)
 *   payload size = base + unit * field, field = little-endian integer of var_width bytes at var_off of the image
 *   (var_width 0: fixed size = base); the wrapper itself returns 0 (nothing issued) when field < vmin or field > vmax. */
#ifndef C02_CALLS_H
#define C02_CALLS_H
#include <stddef.h>
#include <string.h>
#include <proto.h>
#include <srpc.h>

#define C02_FIXED(k, cid, T) ROW(k, cid, sizeof(T), sizeof(T), 0, 0, 0, 0, 0)
#define C02_VAR(k, cid, T, field, unit, region, vmin, vmax) \
  ROW(k, cid, sizeof(T), sizeof(T) - (region), unit, offsetof(T, field), sizeof(((T *)0)->field), vmin, vmax)
#define C02_NOARG(k, cid) ROW(k, cid, 0, 0, 0, 0, 0, 0, 0)

#define C02_ROWS \
  C02_FIXED(0, SUPLA_DCS_CALL_SET_ACTIVITY_TIMEOUT, TDCS_SuplaSetActivityTimeout) \
  C02_VAR(1, SUPLA_DS_CALL_REGISTER_DEVICE_C, TDS_SuplaRegisterDevice_C, channel_count, sizeof(TDS_SuplaDeviceChannel_B), \
          sizeof(TDS_SuplaDeviceChannel_B) * SUPLA_CHANNELMAXCOUNT, 0, SUPLA_CHANNELMAXCOUNT) \
  C02_VAR(2, SUPLA_DS_CALL_REGISTER_DEVICE_D, TDS_SuplaRegisterDevice_D, channel_count, sizeof(TDS_SuplaDeviceChannel_B), \
          sizeof(TDS_SuplaDeviceChannel_B) * SUPLA_CHANNELMAXCOUNT, 0, SUPLA_CHANNELMAXCOUNT) \
  C02_VAR(3, SUPLA_DS_CALL_REGISTER_DEVICE_E, TDS_SuplaRegisterDevice_E, channel_count, sizeof(TDS_SuplaDeviceChannel_C), \
          sizeof(TDS_SuplaDeviceChannel_C) * SUPLA_CHANNELMAXCOUNT, 0, SUPLA_CHANNELMAXCOUNT) \
  C02_FIXED(4, SUPLA_DS_CALL_GET_CHANNEL_CONFIG, TDS_GetChannelConfigRequest) \
  C02_VAR(5, SUPLA_DS_CALL_SET_CHANNEL_CONFIG, TSDS_SetChannelConfig, ConfigSize, 1, SUPLA_CHANNEL_CONFIG_MAXSIZE, 0, \
          SUPLA_CHANNEL_CONFIG_MAXSIZE) \
  C02_FIXED(6, SUPLA_DS_CALL_SET_CHANNEL_CONFIG_RESULT, TSDS_SetChannelConfigResult) \
  C02_FIXED(7, SUPLA_DS_CALL_ACTIONTRIGGER, TDS_ActionTrigger) \
  C02_VAR(8, SUPLA_DS_CALL_DEVICE_CALCFG_RESULT, TDS_DeviceCalCfgResult, DataSize, 1, SUPLA_CALCFG_DATA_MAXSIZE, 0, \
          SUPLA_CALCFG_DATA_MAXSIZE) \
  C02_FIXED(9, SUPLA_DSC_CALL_CHANNEL_STATE_RESULT, TDSC_ChannelState) \
  C02_FIXED(10, SUPLA_DS_CALL_GET_FIRMWARE_UPDATE_URL, TDS_FirmwareUpdateParams) \
  C02_VAR(11, SUPLA_DS_CALL_DEVICE_CHANNEL_EXTENDEDVALUE_CHANGED, TDS_SuplaDeviceChannelExtendedValue, value.size, 1, \
          SUPLA_CHANNELEXTENDEDVALUE_SIZE, 1, SUPLA_CHANNELEXTENDEDVALUE_SIZE) \
  C02_FIXED(12, SUPLA_DS_CALL_DEVICE_CHANNEL_VALUE_CHANGED, TDS_SuplaDeviceChannelValue) \
  C02_FIXED(13, SUPLA_DS_CALL_DEVICE_CHANNEL_VALUE_CHANGED_B, TDS_SuplaDeviceChannelValue_B) \
  C02_FIXED(14, SUPLA_DS_CALL_DEVICE_CHANNEL_VALUE_CHANGED_C, TDS_SuplaDeviceChannelValue_C) \
  C02_FIXED(15, SUPLA_DS_CALL_CHANNEL_SET_VALUE_RESULT, TDS_SuplaChannelNewValueResult) \
  C02_NOARG(16, SUPLA_DCS_CALL_GETVERSION) \
  C02_NOARG(17, SUPLA_DCS_CALL_GET_USER_LOCALTIME) \
  C02_NOARG(18, SUPLA_DS_CALL_GET_CHANNEL_FUNCTIONS) \
  C02_NOARG(19, SUPLA_DCS_CALL_GET_REGISTRATION_ENABLED) \
  C02_FIXED(20, SUPLA_DCS_CALL_PING_SERVER, TDCS_SuplaPingServer)
#define C02_NCALLS 21

_supla_int_t srpc_sd_async_get_firmware_update_url(void *_srpc, TDS_FirmwareUpdateParams *params);

/* calls the real entry point k with the struct image `img` (len bytes, zero padded) */
static _supla_int_t c02_ds_call(void *srpc, int k, const unsigned char *img, int len) {
  union {
    TDCS_SuplaSetActivityTimeout at; TDS_SuplaRegisterDevice_C rc; TDS_SuplaRegisterDevice_D rd; TDS_SuplaRegisterDevice_E re;
    TDS_GetChannelConfigRequest gc; TSDS_SetChannelConfig sc; TSDS_SetChannelConfigResult scr; TDS_ActionTrigger tr;
    TDS_DeviceCalCfgResult cr; TDSC_ChannelState cs; TDS_FirmwareUpdateParams fu; TDS_SuplaDeviceChannelExtendedValue ev;
    TDS_SuplaDeviceChannelValue v; TDS_SuplaDeviceChannelValue_B vb; TDS_SuplaDeviceChannelValue_C vc;
    TDS_SuplaChannelNewValueResult nr; unsigned char raw[4096];
  } u;
  memset(&u, 0, sizeof u);
  if (len > (int)sizeof u.raw) len = sizeof u.raw;
  if (len > 0) memcpy(u.raw, img, len);
  switch (k) {
    case 0: return srpc_dcs_async_set_activity_timeout(srpc, &u.at);
    case 1: return srpc_ds_async_registerdevice_c(srpc, &u.rc);
    case 2: return srpc_ds_async_registerdevice_d(srpc, &u.rd);
    case 3: return srpc_ds_async_registerdevice_e(srpc, &u.re);
    case 4: return srpc_ds_async_get_channel_config_request(srpc, &u.gc);
    case 5: return srpc_ds_async_set_channel_config_request(srpc, &u.sc);
    case 6: return srpc_ds_async_set_channel_config_result(srpc, &u.scr);
    case 7: return srpc_ds_async_action_trigger(srpc, &u.tr);
    case 8: return srpc_ds_async_device_calcfg_result(srpc, &u.cr);
    case 9: return srpc_csd_async_channel_state_result(srpc, &u.cs);
    case 10: return srpc_sd_async_get_firmware_update_url(srpc, &u.fu);
    case 11: { TSuplaChannelExtendedValue x; memcpy(&x, &u.ev.value, sizeof x);
               return srpc_ds_async_channel_extendedvalue_changed(srpc, u.ev.ChannelNumber, &x); }
    case 12: return srpc_ds_async_channel_value_changed(srpc, u.v.ChannelNumber, u.v.value);
    case 13: return srpc_ds_async_channel_value_changed_b(srpc, u.vb.ChannelNumber, u.vb.value, u.vb.Offline);
    case 14: return srpc_ds_async_channel_value_changed_c(srpc, u.vc.ChannelNumber, u.vc.value, u.vc.Offline, u.vc.ValidityTimeSec);
    case 15: return srpc_ds_async_set_channel_result(srpc, u.nr.ChannelNumber, u.nr.SenderID, u.nr.Success);
    case 16: return srpc_dcs_async_getversion(srpc);
    case 17: return srpc_dcs_async_get_user_localtime(srpc);
    case 18: return srpc_ds_async_get_channel_functions(srpc);
    case 19: return srpc_dcs_async_get_registration_enabled(srpc);
    case 20: return srpc_dcs_async_ping_server(srpc);
  }
  return 0;
}
#endif
