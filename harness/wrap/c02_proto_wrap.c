/* C02: compiles /repo/supla-common/proto.c unchanged (instead of harness/wrap/proto_wrap.c) and adds the accessors of
 * proto_wrap.c plus a setter for the request-id counter, so that the 32-bit wrap of next_rr_id can be reached. */
#include <proto.c>
unsigned vp_in_size(void *proto) { return ((TSuplaProtoData *)proto)->in.size; }
unsigned vp_in_data_size(void *proto) { return ((TSuplaProtoData *)proto)->in.data_size; }
unsigned vp_out_size(void *proto) { return ((TSuplaProtoData *)proto)->out.size; }
unsigned vp_out_data_size(void *proto) { return ((TSuplaProtoData *)proto)->out.data_size; }
void vp_c02_set_next_rr(void *proto, unsigned v) { ((TSuplaProtoData *)proto)->next_rr_id = v; }
unsigned vp_c02_next_rr(void *proto) { return ((TSuplaProtoData *)proto)->next_rr_id; }
