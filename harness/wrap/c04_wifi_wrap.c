/* C04/C05: compiles /repo/src/user/supla_esp_wifi.c unchanged, with the two SDK calls that start a Wi-Fi
 * (re)association redirected to logging doubles.  The SDK behaviour modelled: after wifi_station_connect()
 * the station status is STATION_CONNECTING until the environment (WIFI event) reports something else.
 * (harness/doubles/doubles.c keeps its own silent wifi_station_connect, unused by this TU.) */
#include <os_type.h>
#include <osapi.h>
#include <user_interface.h>
#include "verif.h"
bool c04_wifi_station_connect(void);
bool c04_wifi_station_disconnect(void);
int c04_log_wifi = 0;
unsigned c04_wifi_starts = 0;
bool c04_wifi_station_connect(void) {
  c04_wifi_starts++;
  v_wifi_status = STATION_CONNECTING;
  if (c04_log_wifi) vout("WIFISTART %llu", v_now);
  return true;
}
bool c04_wifi_station_disconnect(void) { return true; }
#define wifi_station_connect c04_wifi_station_connect
#define wifi_station_disconnect c04_wifi_station_disconnect
#include <supla_esp_wifi.c>
