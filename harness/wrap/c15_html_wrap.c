/* C15: every variant of the configuration page in one binary.
 * The MQTT configuration is the build configuration; supla_esp_cfgmode_mqtt_html.c is compiled here
 * (and excluded from the link) so that malloc and ets_snprintf of the renderers can be observed.
 * supla_esp_cfgmode_html.c is compiled six times under renamed entry points with
 * MQTT_SUPPORT_ENABLED undefined: {plain, CFGBTN_TYPE_SELECTION, BTN1_2_TYPE_SELECTION} x {__FOTA, no __FOTA}.
 * The text of the renderers is exactly that of /repo. */
#include <stddef.h>
#include <stdarg.h>
#include <stdio.h>
#include <stdlib.h>
#include <string.h>
#include <os_type.h>
#include <osapi.h>
#include <mem.h>
#include <supla_esp.h>
#include <supla_esp_cfg.h>
#include <supla_esp_state.h>
#include "c15_hooks.h"

struct c15_alloc c15_allocs[C15_MAXALLOC]; int c15_nalloc = 0; int c15_trunc = 0;
void c15_reset(void) { c15_nalloc = 0; c15_trunc = 0; }
void *c15_malloc(size_t n) {
  void *p = malloc(n);
  if (c15_nalloc < C15_MAXALLOC) { c15_allocs[c15_nalloc].p = p; c15_allocs[c15_nalloc].n = n; c15_nalloc++; }
  return p;
}
long c15_size_of(const void *p) {
  for (int i = c15_nalloc - 1; i >= 0; i--) if (c15_allocs[i].p == p) return (long)c15_allocs[i].n;
  return -1;
}
int c15_snprintf(char *s, unsigned int n, const char *f, ...) {
  va_list a; va_start(a, f); int r = vsnprintf(s, n, f, a); va_end(a);
  if (n > 1 && r >= (int)n) c15_trunc = 1;   /* n <= 1: the length-measuring calls */
  return r;
}

#define malloc c15_malloc
#define ets_snprintf c15_snprintf

#include "supla_esp_cfgmode_mqtt_html.c"

#undef MQTT_SUPPORT_ENABLED
#define supla_esp_cfgmode_get_html_template c15_tmpl_v0
#include "supla_esp_cfgmode_html.c"
#undef supla_esp_cfgmode_get_html_template
#define supla_esp_cfgmode_get_html_template c15_tmpl_v1
#define CFGBTN_TYPE_SELECTION
#include "supla_esp_cfgmode_html.c"
#undef CFGBTN_TYPE_SELECTION
#undef supla_esp_cfgmode_get_html_template
#define supla_esp_cfgmode_get_html_template c15_tmpl_v2
#define BTN1_2_TYPE_SELECTION
#include "supla_esp_cfgmode_html.c"
#undef BTN1_2_TYPE_SELECTION
#undef supla_esp_cfgmode_get_html_template
#undef __FOTA
#define supla_esp_cfgmode_get_html_template c15_tmpl_v3
#include "supla_esp_cfgmode_html.c"
#undef supla_esp_cfgmode_get_html_template
#define supla_esp_cfgmode_get_html_template c15_tmpl_v4
#define CFGBTN_TYPE_SELECTION
#include "supla_esp_cfgmode_html.c"
#undef CFGBTN_TYPE_SELECTION
#undef supla_esp_cfgmode_get_html_template
#define supla_esp_cfgmode_get_html_template c15_tmpl_v5
#define BTN1_2_TYPE_SELECTION
#include "supla_esp_cfgmode_html.c"
#undef BTN1_2_TYPE_SELECTION
#undef supla_esp_cfgmode_get_html_template
