/* C07/C06: compiles /repo/src/user/supla_esp_countdown_timer.c unchanged and adds read accessors for the
 * private slot table (exclude=('supla_esp_countdown_timer',)). */
#include <supla_esp_countdown_timer.c>
unsigned v7_delay_ms(void) { return countdown_timer_vars.delay_ms; }
int v7_timer_armed(void) { return countdown_timer_vars.timer.timer_expire ? 1 : 0; }
unsigned v7_timer_period_us(void) { return countdown_timer_vars.timer.timer_period; }
int v7_slot_channel(int i) { return countdown_timer_vars.items[i].channel_number; }
unsigned v7_slot_left(int i) { return countdown_timer_vars.items[i].time_left_ms; }
unsigned long long v7_slot_last(int i) { return countdown_timer_vars.items[i].last_time; }
int v7_slot_target(int i) { return countdown_timer_vars.items[i].target_value[0]; }
int v7_slot_sender(int i) { return countdown_timer_vars.items[i].sender_id; }
