/* C09/C10: supla_esp_rs_fb.c of /repo compiled with its call of supla_esp_channel_value__changed routed
 * through a hook, so that the value handed to the server by the 200 ms block of the timer callback is observable
 * even without a registered connection.  No source change: the only difference is the callee name. */
#include <os_type.h>
#include <osapi.h>
#include <supla_esp.h>
#include <supla_esp_devconn.h>
void c09_value_changed_hook(int channel_number, char value[SUPLA_CHANNELVALUE_SIZE]);
#define supla_esp_channel_value__changed c09_value_changed_hook
#include <supla_esp_rs_fb.c>
