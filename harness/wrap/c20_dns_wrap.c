/* C20: compiles /repo/src/user/supla_esp_dns_client.c unchanged and adds read-only accessors for its
 * state (the struct type is private to that file). */
#include <supla_esp_dns_client.c>
#include "c20_dns.h"
struct espconn *vdns_conn(void) { return &dns_client_vars.conn; }
int vdns_try_counter(void) { return dns_client_vars.try_counter; }
int vdns_success(void) { return dns_client_vars.success; }
int vdns_cb_pending(void) { return dns_client_vars.dns_query_result_cb != NULL; }
int vdns_request_null(void) { return dns_client_vars.request.data == NULL; }
unsigned vdns_request_len(void) { return dns_client_vars.request.data_len; }
int vdns_timeout_armed(void) { return dns_client_vars.timeout_timer.timer_expire != 0; }
int vdns_retry_armed(void) { return dns_client_vars.retry_timer.timer_expire != 0; }
void vdns_result_ip(unsigned char out[4]) { memcpy(out, &dns_client_vars.result_ipv4, 4); }
