/* C06: the shared srpc wrapper (real srpc.c + accessors) plus a setter for the before_async_call hook, which the
 * driver uses to see every call the device issues and whether the out-queue had room for it. */
#include "srpc_wrap.c"
void v6_set_before_call(void *srpc, _func_srpc_event_BeforeCall f) { if (srpc) ((Tsrpc *)srpc)->params.before_async_call = f; }
int v6_queue_size(void) { return SRPC_QUEUE_SIZE; }
