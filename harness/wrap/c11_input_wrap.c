/* C11: compiles /repo/src/user/supla_esp_input.c UNCHANGED with observation hooks
 * (build with exclude=('supla_esp_input',), this TU instead).
 *  - every call of supla_esp_input_notify_state_change is seen through the maintainers' own
 *    `#ifdef SUPLA_DEBUG supla_log("notify input %d change: %d", gpio, state)` at its entry
 *    (SUPLA_DEBUG is defined for this TU only; supla_log is redirected to c11_log which forwards
 *    the format to the ordinary double);
 *  - the calls input.c makes into other modules (gpio_on_input_active/inactive,
 *    devconn_send_action_trigger, cfgmode_start) are renamed to logging forwarders.
 * Hooks are implemented by the driver (harness/drv/c11.c). */
#include <stdarg.h>
#include <string.h>
#include <os_type.h>
#include <osapi.h>
#include <user_interface.h>
#include "supla_esp_input.h"
#include "supla_esp_gpio.h"
#include "supla_esp_rs_fb.h"
#include "supla_esp_cfgmode.h"
#include "supla_esp_cfg.h"
#include "supla_esp_mqtt.h"
#include "supla_esp_devconn.h"
#include "supla-dev/log.h"

void c11_hook_notify(int gpio, int new_state);
void c11_hook_onoff(supla_input_cfg_t *cfg, int active);
void c11_hook_trigger(int channel, int action);
void c11_hook_cfgmode(void);

static void c11_log(int prio, const char *fmt, ...) {
  if (fmt && strncmp(fmt, "notify input %d change: %d", 26) == 0) {
    va_list a; va_start(a, fmt);
    int gpio = va_arg(a, int); int st = va_arg(a, int);
    va_end(a);
    c11_hook_notify(gpio, st);
  }
  supla_log(prio, fmt);   /* the double records the format only */
}
static void c11_on_active(supla_input_cfg_t *c) { c11_hook_onoff(c, 1); supla_esp_gpio_on_input_active(c); }
static void c11_on_inactive(supla_input_cfg_t *c) { c11_hook_onoff(c, 0); supla_esp_gpio_on_input_inactive(c); }
static void c11_send_at(unsigned char channel, _supla_int_t action) {
  c11_hook_trigger(channel, action); supla_esp_devconn_send_action_trigger(channel, action);
}
static void c11_cfgmode_start(void) { c11_hook_cfgmode(); supla_esp_cfgmode_start(); }

#define SUPLA_DEBUG
#define supla_log c11_log
#define supla_esp_gpio_on_input_active c11_on_active
#define supla_esp_gpio_on_input_inactive c11_on_inactive
#define supla_esp_devconn_send_action_trigger c11_send_at
#define supla_esp_cfgmode_start c11_cfgmode_start
#include <supla_esp_input.c>
#undef supla_log
#undef supla_esp_gpio_on_input_active
#undef supla_esp_gpio_on_input_inactive
#undef supla_esp_devconn_send_action_trigger
#undef supla_esp_cfgmode_start

int c11_hold_ms(void) { return btn_hold_time_ms; }
int c11_multiclick_ms(void) { return btn_multiclick_time_ms; }
