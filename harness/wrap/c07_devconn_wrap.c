/* C07/C06: the shared devconn wrapper (real supla_esp_devconn.c + accessors) plus two accessors of our own.
 * Linked INSTEAD of harness/wrap/devconn_wrap.c (exclude=('devconn',), wrap without 'devconn'). */
#include "devconn_wrap.c"
/* the 1 s watchdog of devconn_init restarts an offline device after 60 s; C07 runs the device offline */
void v7_disarm_watchdog(void) { if (devconn) os_timer_disarm(&devconn->supla_watchdog_timer); }
void v7_disarm_devconn_timers(void) {
  if (!devconn) return;
  os_timer_disarm(&devconn->supla_watchdog_timer); os_timer_disarm(&devconn->supla_devconn_timer1);
  os_timer_disarm(&devconn->supla_iterate_timer); os_timer_disarm(&devconn->supla_value_timer);
}

/* C06: bytes waiting in devconn's own send buffer (refused by espconn_sent, retried at the next write) */
int v7_send_buffer_len(void) { return devconn ? devconn->esp_send_buffer_len : 0; }
