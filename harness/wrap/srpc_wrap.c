/* compiles /repo/supla-common/srpc.c unchanged and adds accessors for its private types */
#include <srpc.c>
TSuplaDataPacket *vs_in_queue_peek(void *srpc, int idx) {
  Tsrpc *s = (Tsrpc *)srpc; if (idx < 0 || idx >= s->in_queue.item_count) return NULL; return s->in_queue.item[idx];
}
int vs_in_queue_count(void *srpc) { return ((Tsrpc *)srpc)->in_queue.item_count; }
int vs_out_queue_count(void *srpc) { return ((Tsrpc *)srpc)->out_queue.item_count; }
void *vs_proto(void *srpc) { return ((Tsrpc *)srpc)->proto; }
