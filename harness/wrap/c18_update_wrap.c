/* C18 wrapper TU: the real /repo/src/user/supla_update.c, unchanged, plus
 *  - accessors for its statics (`update`, `update_step`),
 *  - interposed SDK calls whose doubles have no hook in harness/doubles/doubles.c
 *    (system_upgrade_flag_set, system_upgrade_reboot, rsa_sha256_verify) so that the driver can
 *    print canonical lines and script a content-dependent signature oracle,
 *  - malloc with a scripted fill pattern (the HTTP header buffer is searched with strstr()
 *    beyond the bytes received so far, i.e. over uninitialised heap).
 * Build: F.build_c(..., exclude=('supla_update',), extra_srcs=[this file]). */
#include <stddef.h>
#include <stdlib.h>
#include <string.h>

void *c18_malloc(size_t n);
void c18_flag_set(unsigned char f);
void c18_upgrade_reboot(void);

#define malloc(n) c18_malloc(n)
#define system_upgrade_flag_set c18_flag_set
#define system_upgrade_reboot c18_upgrade_reboot

/* the nettle headers define rsa_sha256_verify as a macro for nettle_rsa_sha256_verify;
 * include them first (include guards), then redirect the one call in supla_update.c */
#include <user_interface.h>
#include <espconn.h>
#include "nettle/sha2.h"
#include "nettle/rsa.h"
#include "nettle/bignum.h"
int c18_rsa_sha256_verify(const struct rsa_public_key *key, struct sha256_ctx *hash, const mpz_t signature);
#undef rsa_sha256_verify
#define rsa_sha256_verify c18_rsa_sha256_verify
/* which key the verification uses: modulus source and public exponent */
void c18_key_modulus(mpz_t x, size_t length, const uint8_t *s);
void c18_key_exponent(mpz_t x, unsigned long int e);
#undef nettle_mpz_set_str_256_u
#define nettle_mpz_set_str_256_u c18_key_modulus
#undef mpz_set_ui
#define mpz_set_ui c18_key_exponent

#include <supla_update.c>

#undef malloc
#undef system_upgrade_flag_set
#undef system_upgrade_reboot

#include "c18_access.h"

int c18_exists(void) { return update != NULL; }
int c18_step(void) { return update_step; }
void c18_set_step(int s) { update_step = (char)s; }
unsigned c18_base(void) { return update ? update->flash_addr : 0; }
unsigned c18_awo(void) { return update ? update->flash_awo : 0; }
int c18_expected(void) { return update ? update->expected_file_size : -1; }
int c18_downloaded(void) { return update ? update->downloaded_data_size : -1; }
int c18_matched(void) { return update ? update->http_header_matched : 0; }
int c18_buff_pos(void) { return update ? update->buff_pos : 0; }
const unsigned char *c18_buff(void) { return update ? (const unsigned char *)update->buff : NULL; }
struct espconn *c18_conn(void) { return update ? &update->conn : NULL; }
int c18_const_max_header(void) { return MAX_HTTP_HEADER_SIZE; }
int c18_const_max_attempts(void) { return MAX_FLASH_ATTEMPTS; }
