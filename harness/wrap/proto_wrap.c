/* compiles /repo/supla-common/proto.c unchanged and adds accessors */
#include <proto.c>
unsigned vp_in_size(void *proto) { return ((TSuplaProtoData *)proto)->in.size; }
unsigned vp_in_data_size(void *proto) { return ((TSuplaProtoData *)proto)->in.data_size; }
unsigned vp_out_size(void *proto) { return ((TSuplaProtoData *)proto)->out.size; }
unsigned vp_out_data_size(void *proto) { return ((TSuplaProtoData *)proto)->out.data_size; }
