/* C03: the shared devconn wrapper (supla_esp_devconn.c unchanged + vd_* accessors) plus accessors for the
 * per-channel config-handshake arrays that the C03 driver snapshots.  Linked INSTEAD of devconn_wrap.c. */
#include "devconn_wrap.c"

int *c03_chfunc(void) { return devconn ? devconn->channel_function_from_server : NULL; }
int c03_chfunc_len(void) { return (int)(sizeof(devconn->channel_function_from_server) / sizeof(devconn->channel_function_from_server[0])); }
int *c03_runtimecfg(void) { return devconn ? (int *)devconn->runtime_config_channels : NULL; }
int c03_runtimecfg_len(void) { return (int)(sizeof(devconn->runtime_config_channels) / sizeof(devconn->runtime_config_channels[0])); }
#ifdef _ROLLERSHUTTER_SUPPORT
unsigned char *c03_vistype(void) { return channel_config_visualization_type; }
int c03_vistype_len(void) { return (int)sizeof(channel_config_visualization_type); }
#else
unsigned char *c03_vistype(void) { return 0; }
int c03_vistype_len(void) { return 0; }
#endif
