/* C14: supla_esp_cfgmode.c compiled as is, plus read access to the per-connection parser state
 * (TrivialHttpParserVars is private to that file). */
#include "supla_esp_cfgmode.c"

void c14_pvars(struct espconn *conn, int *step, int *type, int *cur, int *matched, int *offset) {
  TrivialHttpParserVars *p = conn ? (TrivialHttpParserVars *)conn->reverse : NULL;
  if (!p) { *step = *type = *cur = *matched = *offset = -1; return; }
  *step = p->step; *type = p->type; *cur = p->current_var; *matched = p->matched; *offset = p->offset;
}

/* the 64-bit host pads TrivialHttpParserVars behind intval[12]; on the 32-bit target intval is the last thing in the
 * allocation.  A canary in that padding makes a write past intval visible on the host. */
#include <stddef.h>
void c14_pv_canary_set(struct espconn *conn) {
  unsigned char *p = conn ? (unsigned char *)conn->reverse : NULL;
  if (!p) return;
  for (size_t i = offsetof(TrivialHttpParserVars, intval) + sizeof(((TrivialHttpParserVars *)0)->intval); i < sizeof(TrivialHttpParserVars); i++) p[i] = 0xC5;
}
int c14_pv_canary_ok(struct espconn *conn) {
  unsigned char *p = conn ? (unsigned char *)conn->reverse : NULL;
  if (!p) return 1;
  for (size_t i = offsetof(TrivialHttpParserVars, intval) + sizeof(((TrivialHttpParserVars *)0)->intval); i < sizeof(TrivialHttpParserVars); i++) if (p[i] != 0xC5) return 0;
  return 1;
}
