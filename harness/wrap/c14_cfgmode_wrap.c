/* C14: supla_esp_cfgmode.c compiled as is, plus read access to the per-connection parser state
 * (TrivialHttpParserVars is private to that file). */
#include "supla_esp_cfgmode.c"

void c14_pvars(struct espconn *conn, int *step, int *type, int *cur, int *matched, int *offset) {
  TrivialHttpParserVars *p = conn ? (TrivialHttpParserVars *)conn->reverse : NULL;
  if (!p) { *step = *type = *cur = *matched = *offset = -1; return; }
  *step = p->step; *type = p->type; *cur = p->current_var; *matched = p->matched; *offset = p->offset;
}
