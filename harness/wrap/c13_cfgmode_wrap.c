/* C13: the real src/user/supla_esp_cfgmode.c, with the single call of supla_esp_cfg_save() (commit block of
 * supla_esp_recv_callback) routed through a spy of the driver so that the record handed to the save and the
 * result of the save become observable.  Nothing else is changed. */
#include <os_type.h>
#include <osapi.h>
#include <supla_esp.h>
#include <supla_esp_cfg.h>          /* declares the real supla_esp_cfg_save before the rename below */
char c13_spy_cfg_save(SuplaEspCfg *cfg);
#define supla_esp_cfg_save c13_spy_cfg_save
#include "supla_esp_cfgmode.c"
#undef supla_esp_cfg_save
