/* Wrapper translation unit: compiles /repo/src/user/supla_esp_devconn.c unchanged and adds
 * accessors for its static state.  The original .c is NOT linked separately. */
#include <supla_esp_devconn.c>
#include "verif_access.h"

int vd_exists(void) { return devconn != NULL; }
void *vd_srpc(void) { return devconn ? devconn->srpc : NULL; }
void vd_set_srpc(void *s) { devconn->srpc = s; }
int vd_registered(void) { return devconn ? devconn->registered : -99; }
void vd_set_registered(int r) { devconn->registered = (char)r; }
int vd_started(void) { return devconn ? devconn->started : 0; }
int vd_send_buffer_len(void) { return devconn ? devconn->esp_send_buffer_len : -1; }
unsigned vd_recvbuff_size(void) { return devconn ? devconn->recvbuff_size : 0; }
struct espconn *vd_espconn(void) { return devconn ? &devconn->ESPConn : NULL; }
int vd_activity_timeout(void) { return devconn ? devconn->server_activity_timeout : 0; }
unsigned vd_last_response(void) { return devconn ? devconn->last_response : 0; }
unsigned vd_last_sent(void) { return devconn ? devconn->last_sent : 0; }
/* srpc instance with the real data_read/data_write of devconn but a caller-supplied handler */
void vd_srpc_init_with_handler(_func_srpc_event_OnRemoteCallReceived h) {
  TsrpcParams p;
  srpc_params_init(&p);
  p.data_read = &supla_esp_data_read;
  p.data_write = &supla_esp_data_write;
  p.on_remote_call_received = h;
  devconn->srpc = srpc_init(&p);
  srpc_set_proto_version(devconn->srpc, ESP8266_SUPLA_PROTO_VERSION);
}
