/* Wrapper translation unit for C08/C19: compiles /repo/src/user/supla_esp_rs_fb.c unchanged, with
 * os_timer_arm routed through a logging shim so that the unit driver can report every arming of a
 * shutter's delayed_trigger timer (the SDK double in doubles.c has no hook for that).
 * The original .c is NOT linked separately (pass exclude=('supla_esp_rs_fb',)). */
#include <os_type.h>
#include <osapi.h>
#undef os_timer_arm
void c08_timer_arm(os_timer_t *p, uint32_t ms, int repeat);
#define os_timer_arm(a, b, c) c08_timer_arm((a), (b), (c))
#include <supla_esp_rs_fb.c>
#undef os_timer_arm

void (*c08_on_arm)(int rs_idx, uint32_t ms) = 0;
void c08_timer_arm(os_timer_t *p, uint32_t ms, int repeat) {
  if (c08_on_arm) {
    for (int i = 0; i < RS_MAX_COUNT; i++)
      if (p == &supla_rs_cfg[i].delayed_trigger.timer) c08_on_arm(i, ms);
  }
  ets_timer_arm_new(p, ms, repeat, 1);
}
