/* Wrapper translation unit: compiles /repo/src/user/supla_esp_mqtt.c unchanged and adds accessors
 * for its state (supla_esp_mqtt_vars).  The original .c is NOT linked separately. */
#include <supla_esp_mqtt.c>
#include "c16_access.h"

struct mqtt_client *c16_client(void) { return &supla_esp_mqtt_vars->client; }
unsigned char *c16_recvbuf(void) { return supla_esp_mqtt_vars->recvbuf; }
unsigned c16_recvbuf_size(void) { return sizeof(supla_esp_mqtt_vars->recvbuf); }
unsigned c16_recv_len(void) { return supla_esp_mqtt_vars->recv_len; }
int c16_status(void) { return supla_esp_mqtt_vars->status; }
void c16_set_started(int v) { supla_esp_mqtt_vars->started = (uint8)v; }
struct espconn *c16_espconn(void) { return &supla_esp_mqtt_vars->esp_conn; }
const char *c16_prefix(void) { return supla_esp_mqtt_vars->prefix; }
unsigned c16_prefix_len(void) { return supla_esp_mqtt_vars->prefix_len; }
void c16_dns_found(unsigned ip) { ip_addr_t a; memset(&a, 0, sizeof a); memcpy(&a, &ip, 4); supla_esp_mqtt_dns__found(&a); }
void c16_on_connect(void) { supla_esp_mqtt_conn_on_connect(&supla_esp_mqtt_vars->esp_conn); }
void c16_recv(char *p, unsigned short len) { supla_esp_mqtt_conn_recv_cb(&supla_esp_mqtt_vars->esp_conn, p, len); }
void c16_sync(void) { mqtt_sync(&supla_esp_mqtt_vars->client); }
void c16_tick(void) {
  /* the first two statements of supla_esp_mqtt_iterate() */
  mqtt_sync(&supla_esp_mqtt_vars->client);
  if (mqtt_mq_length(&supla_esp_mqtt_vars->client.mq) > 0) {
    mqtt_mq_clean(&supla_esp_mqtt_vars->client.mq);
  }
}
int c16_str2int(const char *s, unsigned short len, unsigned char *err) { return supla_esp_mqtt_str2int(s, len, err); }
/* C17: replace the computed topic prefix (the old one is leaked on purpose) */
void c17_set_prefix(char *p, unsigned len) { supla_esp_mqtt_vars->prefix = p; supla_esp_mqtt_vars->prefix_len = (uint16)len; }
void c16_on_disconnect(void) { supla_esp_mqtt_conn_on_disconnect(&supla_esp_mqtt_vars->esp_conn); }
