/* C12: SDK functions needed only because the real user_main.c is linked (user_init boot decision,
 * the real supla_system_restart).  Built with -DVERIF_REAL_USER_MAIN so that doubles.c does not
 * define supla_system_restart itself. */
#include <os_type.h>
#include <osapi.h>
#include <user_interface.h>

bool system_partition_table_regist(const partition_item_t *partition_table, uint32_t partition_num, uint32_t map) {
  (void)partition_table; (void)partition_num; (void)map; return true;
}
void system_print_meminfo(void) {}
void wifi_status_led_uninstall(void) {}
