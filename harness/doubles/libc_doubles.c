/* ets_* libc wrappers.  Compiled WITHOUT the SDK headers because user_config.h redefines
 * strcpy/memcpy/... to the os_* names (which would make these functions call themselves). */
#include <stdarg.h>
#include <stdio.h>
#include <string.h>
#include <stddef.h>
typedef int bool_;
int ets_snprintf(char *s, unsigned int n, const char *f, ...) { va_list a; va_start(a, f); int r = vsnprintf(s, n, f, a); va_end(a); return r; }
int ets_vsnprintf(char *s, unsigned int n, const char *f, va_list a) { return vsnprintf(s, n, f, a); }
int ets_sprintf(char *s, const char *f, ...) { va_list a; va_start(a, f); int r = vsprintf(s, f, a); va_end(a); return r; }
int os_printf_plus(const char *f, ...) { (void)f; return 0; }
void ets_bzero(void *s, size_t n) { memset(s, 0, n); }
int ets_memcmp(const void *a, const void *b, unsigned int n) { return memcmp(a, b, n); }
void *ets_memmove(void *d, const void *s, unsigned int n) { return memmove(d, s, n); }
void *ets_memset(void *d, int v, unsigned int n) { return memset(d, v, n); }
int ets_strcmp(const char *a, const char *b) { return strcmp(a, b); }
char *ets_strcpy(char *a, const char *b) { return strcpy(a, b); }
int ets_strlen(const char *s) { return (int)strlen(s); }
int ets_strncmp(const char *a, const char *b, unsigned int n) { return strncmp(a, b, n); }
char *ets_strncpy(char *a, const char *b, unsigned int n) { return strncpy(a, b, n); }
char *ets_strstr(const char *a, const char *b) { return strstr(a, b); }
void ets_install_putc1(void (*p)(char c)) { (void)p; }

