/* Board callbacks required by the MQTT configuration (no board in /repo implements them).
 * Used by the C16 and C17 drivers: a received message is forwarded to the hook c16_on_message. */
#include <string.h>
#include <stdio.h>
#include <os_type.h>
#include <osapi.h>
#include <supla_esp.h>
#include <supla_esp_mqtt.h>
#include "c16_access.h"

void (*c16_on_message)(uint8_t dup, uint8_t qos, uint8_t retain, const void *topic, uint16_t topic_size,
                       const char *msg, size_t msg_size) = 0;

uint8 supla_esp_board_mqtt_get_subscription_topic(char **topic_name, uint8 index) {
  (void)topic_name; (void)index;
  return 0;
}
uint8 supla_esp_board_mqtt_get_message_for_publication(char **topic_name, void **message, size_t *message_size,
                                                       uint8 index, bool *retain) {
  (void)topic_name; (void)message; (void)message_size; (void)index; (void)retain;
  return 0;
}
void supla_esp_board_mqtt_on_message_received(uint8_t dup_flag, uint8_t qos_level, uint8_t retain_flag,
                                              const void *topic_name, uint16_t topic_name_size,
                                              const char *message, size_t message_size) {
  if (c16_on_message) c16_on_message(dup_flag, qos_level, retain_flag, topic_name, topic_name_size, message, message_size);
}
void supla_esp_board_mqtt_on_relay_state_changed(uint8 channel) { (void)channel; }
void supla_esp_board_on_rollershutter_position_changed(uint8 channel, int pos, int tilt) {
  (void)channel; (void)pos; (void)tilt;
}
uint32 supla_esp_board_cfg_html_additional_settings(char *buffer, uint32 buffer_size) {
  if (buffer && buffer_size) buffer[0] = 0;
  return 0;
}
