/* Deterministic plain-C doubles for the ESP8266 non-OS SDK, used to link and drive the real
 * device sources of /repo on the host.  See harness/include/verif.h. */
#include <stdarg.h>
#include <stdio.h>
#include <stdlib.h>
#include <string.h>
#include <os_type.h>
#include <osapi.h>
#include <user_interface.h>
#include <espconn.h>
#include <spi_flash.h>
#include <gpio.h>
#include <ets_sys.h>
#include <eagle_soc.h>
#include <supla_esp.h>
#include "nettle/esp8266.h"
#include "nettle/bignum.h"
#include "nettle/rsa.h"
#include "nettle/sha2.h"
#include "verif.h"

/* ------------------------------------------------------------------ output */
int v_quiet = 0;
void vout(const char *fmt, ...) {
  va_list a; va_start(a, fmt); vfprintf(stdout, fmt, a); va_end(a); fputc('\n', stdout);
}
void vout_hex(const char *prefix, const void *p, size_t n) {
  fputs(prefix, stdout);
  for (size_t i = 0; i < n; i++) fprintf(stdout, "%02x", ((const unsigned char *)p)[i]);
  fputc('\n', stdout);
}

/* ------------------------------------------------------------------ clock & timers */
unsigned long long v_now = 0;
unsigned int v_boot = 1;
unsigned int v_lateness_us[64];
int v_lateness_n = 0;
static int lateness_i = 0;
unsigned long long v_timer_fired = 0;
uint32 system_get_time(void) { return (uint32)(v_boot + v_now); }
void ets_delay_us(uint32_t us) { v_now += us; }
os_timer_func_t *lastTimerCb; struct _ETSTIMER_ *timer_first;

#define MAXT 512
static os_timer_t *tl[MAXT]; static unsigned long long due[MAXT]; static unsigned long long seqn[MAXT];
static int nt = 0; static unsigned long long seqc = 0;
static int tidx(os_timer_t *p) {
  for (int i = 0; i < nt; i++) if (tl[i] == p) return i;
  if (nt >= MAXT) { fprintf(stderr, "too many timers\n"); abort(); }
  tl[nt] = p; due[nt] = 0; return nt++;
}
void ets_timer_arm_new(os_timer_t *p, uint32_t t, bool rep, bool ms) {
  int i = tidx(p);
  unsigned long long per = ms ? (unsigned long long)t * 1000ULL : (unsigned long long)t;
  p->timer_period = rep ? (uint32)per : 0;
  due[i] = v_now + per; seqn[i] = ++seqc; p->timer_expire = 1;
}
void ets_timer_disarm(os_timer_t *p) { int i = tidx(p); due[i] = 0; p->timer_expire = 0; p->timer_period = 0; }
void ets_timer_setfn(os_timer_t *p, os_timer_func_t *f, void *a) { p->timer_func = f; p->timer_arg = a; }
void v_advance(unsigned long long dt) {
  unsigned long long end = v_now + dt;
  for (;;) {
    int best = -1;
    for (int i = 0; i < nt; i++)
      if (tl[i]->timer_expire && due[i] <= end &&
          (best < 0 || due[i] < due[best] || (due[i] == due[best] && seqn[i] < seqn[best]))) best = i;
    if (best < 0) break;
    unsigned long long at = due[best];
    if (v_lateness_n > 0) { at += v_lateness_us[lateness_i % v_lateness_n]; lateness_i++; }
    if (at > v_now) v_now = at;
    os_timer_t *p = tl[best];
    if (p->timer_period) { due[best] += (unsigned long long)p->timer_period; seqn[best] = ++seqc; }
    else { p->timer_expire = 0; }
    v_timer_fired++;
    if (p->timer_func) p->timer_func(p->timer_arg);
  }
  if (end > v_now) v_now = end;
}
void v_timers_reset(void) { nt = 0; lateness_i = 0; }

/* ------------------------------------------------------------------ libc-ish */
int os_get_random(unsigned char *b, size_t l);
unsigned char v_random_byte = 0;
int os_get_random(unsigned char *b, size_t l) { for (size_t i = 0; i < l; i++) b[i] = ++v_random_byte; return 0; }
/* supla_log double: records the format only (the real log.c must not be linked) */
char v_last_log[256];
void (*v_on_log)(int prio, const char *fmt) = 0;
void supla_log(int prio, const char *fmt, ...) {
  { const char *q = fmt ? fmt : ""; size_t i = 0; for (; q[i] && i < sizeof v_last_log - 1; i++) v_last_log[i] = q[i]; v_last_log[i] = 0; }
  if (v_on_log) v_on_log(prio, fmt);
}
void supla_vlog(int prio, const char *fmt, va_list a) { (void)a; supla_log(prio, "%s", fmt); }

/* ------------------------------------------------------------------ gpio */
uint32_t v_gpio_out = 0, v_gpio_in = 0, v_gpio_status = 0; int v_log_gpio = 0;
void (*v_on_gpio_write)(int pin, int level) = 0;
uint32 GPIO_REG_READ(uint32 reg) {
  if (reg == GPIO_OUT_ADDRESS) return v_gpio_out;
  if (reg == GPIO_IN_ADDRESS) return v_gpio_in;
  if (reg == GPIO_STATUS_ADDRESS) return v_gpio_status;
  return 0;
}
void GPIO_REG_WRITE(uint32 reg, uint32 v) { (void)reg; (void)v; }
void GPIO_OUTPUT_SET(uint32 port, uint8 v) {
  uint32_t old = v_gpio_out;
  if (v) v_gpio_out |= (1u << port); else v_gpio_out &= ~(1u << port);
  if (old != v_gpio_out) {
    if (v_log_gpio) vout("GPIO %llu %u %u", v_now, port, v ? 1 : 0);
    if (v_on_gpio_write) v_on_gpio_write((int)port, v ? 1 : 0);
  }
}
uint32 gpio_input_get(void) { return v_gpio_in; }
void pin_func_select(int a, int b) { (void)a; (void)b; }
void pin_pullup_dis(int a) { (void)a; }
void pin_pullup_en(int a) { (void)a; }
void gpio_output_set(uint32 set, uint32 clr, uint32 en, uint32 dis) {
  (void)en; (void)dis;
  for (int p = 0; p < 16; p++) {
    if (set & (1u << p)) GPIO_OUTPUT_SET(p, 1);
    if (clr & (1u << p)) GPIO_OUTPUT_SET(p, 0);
  }
}
void gpio_register_set(uint32 r, uint32 v) { (void)r; (void)v; }
void gpio_pin_intr_state_set(uint32 i, GPIO_INT_TYPE s) { (void)i; (void)s; }
ets_isr_t ets_gpio_intr_func;
void ets_intr_lock() {} void ets_intr_unlock() {}
void ets_isr_mask(uint32 m) { (void)m; } void ets_isr_unmask(uint32 m) { (void)m; }
void ets_isr_attach(int i, ets_isr_t f, void *a) { (void)i; (void)a; ets_gpio_intr_func = f; }
void v_set_input(int pin, int level) {
  uint32_t old = v_gpio_in;
  if (level) v_gpio_in |= (1u << pin); else v_gpio_in &= ~(1u << pin);
  if (old != v_gpio_in && ets_gpio_intr_func) { v_gpio_status = (1u << pin); ets_gpio_intr_func(NULL); v_gpio_status = 0; }
}

/* ------------------------------------------------------------------ flash */
unsigned char v_flash[V_FLASH_SECTORS * 4096];
int v_flash_fail_at = 0, v_flash_crash_at = 0, v_flash_ops = 0, v_log_flash = 0;
int v_flash_fail_code = SPI_FLASH_RESULT_ERR; /* result of a failing op: ERR (1) or TIMEOUT (2) */
void (*v_on_flash)(const char *op, unsigned addr, unsigned len) = 0;
static int flash_fault(void) {
  v_flash_ops++;
  if (v_flash_crash_at > 0 && --v_flash_crash_at == 0) { vout("CRASHPOINT %d", v_flash_ops); fflush(stdout); _exit(77); }
  if (v_flash_fail_at > 0 && --v_flash_fail_at == 0) return 1;
  return 0;
}
SpiFlashOpResult spi_flash_erase_sector(uint16 s) {
  if (v_log_flash) vout("FLASH erase %u 4096", (unsigned)s * 4096u);
  if (v_on_flash) v_on_flash("erase", (unsigned)s * 4096u, 4096);
  if (flash_fault()) return (SpiFlashOpResult)v_flash_fail_code;
  if (s < V_FLASH_SECTORS) memset(v_flash + (size_t)s * 4096, 0xFF, 4096);
  return SPI_FLASH_RESULT_OK;
}
SpiFlashOpResult spi_flash_write(uint32 d, uint32 *s, uint32 n) {
  if (v_log_flash) vout("FLASH write %u %u", d, n);
  if (v_on_flash) v_on_flash("write", d, n);
  if (flash_fault()) return (SpiFlashOpResult)v_flash_fail_code;
  for (uint32 i = 0; i < n; i++) if (d + i < sizeof v_flash) v_flash[d + i] &= ((unsigned char *)s)[i];
  return SPI_FLASH_RESULT_OK;
}
SpiFlashOpResult spi_flash_read(uint32 s, uint32 *d, uint32 n) {
  if (v_on_flash) v_on_flash("read", s, n);
  for (uint32 i = 0; i < n; i++) ((unsigned char *)d)[i] = (s + i < sizeof v_flash) ? v_flash[s + i] : 0xFF;
  return SPI_FLASH_RESULT_OK;
}
uint32 spi_flash_get_id(void) { return 0x1640EF; }

/* ------------------------------------------------------------------ espconn */
int v_sent_script[V_SENT_SCRIPT_MAX]; int v_sent_n = 0, v_sent_i = 0, v_sent_default = 0, v_log_sent = 0;
void (*v_on_sent)(struct espconn *e, const unsigned char *p, unsigned len, int result) = 0;
void (*v_on_connect)(struct espconn *e) = 0;
void (*v_on_disconnect)(struct espconn *e) = 0;
struct espconn *v_last_accept = 0, *v_last_connect = 0;
static struct { struct espconn *e; char name[16]; } conns[32]; static int nconns = 0;
const char *v_conn_name(struct espconn *e) {
  for (int i = 0; i < nconns; i++) if (conns[i].e == e) return conns[i].name;
  if (nconns < 32) { conns[nconns].e = e; snprintf(conns[nconns].name, 16, "c%d", nconns); return conns[nconns++].name; }
  return "c?";
}
void v_conn_set_name(struct espconn *e, const char *name) {
  for (int i = 0; i < nconns; i++) if (conns[i].e == e) { snprintf(conns[i].name, 16, "%s", name); return; }
  if (nconns < 32) { conns[nconns].e = e; snprintf(conns[nconns].name, 16, "%s", name); nconns++; }
}
static sint8 do_sent(struct espconn *e, uint8 *p, uint16 l) {
  int r = v_sent_i < v_sent_n ? v_sent_script[v_sent_i++] : v_sent_default;
  if (v_log_sent) { fprintf(stdout, "SENT %s %d %llu ", v_conn_name(e), r, v_now); vout_hex("", p, l); }
  if (v_on_sent) v_on_sent(e, p, l, r);
  return (sint8)r;
}
sint8 espconn_sent(struct espconn *e, uint8 *p, uint16 l) { return do_sent(e, p, l); }
sint8 espconn_send(struct espconn *e, uint8 *p, uint16 l) { return do_sent(e, p, l); }
sint8 espconn_secure_sent(struct espconn *e, uint8 *p, uint16 l) { return do_sent(e, p, l); }
sint8 espconn_secure_send(struct espconn *e, uint8 *p, uint16 l) { return do_sent(e, p, l); }
sint8 espconn_set_opt(struct espconn *e, uint8 o) { (void)e; (void)o; return 0; }
sint8 espconn_regist_recvcb(struct espconn *e, espconn_recv_callback c) { e->recv_callback = c; return 0; }
sint8 espconn_regist_sentcb(struct espconn *e, espconn_sent_callback c) { e->sent_callback = c; return 0; }
sint8 espconn_regist_disconcb(struct espconn *e, espconn_connect_callback c) { if (e->proto.tcp) e->proto.tcp->disconnect_callback = c; return 0; }
sint8 espconn_regist_connectcb(struct espconn *e, espconn_connect_callback c) { if (e->proto.tcp) e->proto.tcp->connect_callback = c; return 0; }
sint8 espconn_regist_reconcb(struct espconn *e, espconn_reconnect_callback c) { if (e->proto.tcp) e->proto.tcp->reconnect_callback = c; return 0; }
sint8 espconn_regist_time(struct espconn *e, uint32 i, uint8 t) { (void)e; (void)i; (void)t; return 0; }
sint8 espconn_accept(struct espconn *e) { v_last_accept = e; if (!v_quiet) vout("ACCEPT %s", v_conn_name(e)); return 0; }
sint8 espconn_connect(struct espconn *e) { v_last_connect = e; if (!v_quiet) vout("CONNECT %s %llu", v_conn_name(e), v_now); if (v_on_connect) v_on_connect(e); return 0; }
sint8 espconn_secure_connect(struct espconn *e) { return espconn_connect(e); }
sint8 espconn_disconnect(struct espconn *e) { if (!v_quiet) vout("DISCONNECT %s %llu", v_conn_name(e), v_now); if (v_on_disconnect) v_on_disconnect(e); return 0; }
sint8 espconn_secure_disconnect(struct espconn *e) { return espconn_disconnect(e); }
sint8 espconn_delete(struct espconn *e) { (void)e; return 0; }
sint8 espconn_create(struct espconn *e) { (void)e; return 0; }
uint32 espconn_port(void) { return 40000; }
bool espconn_secure_set_size(uint8 level, uint16 size) { (void)level; (void)size; return true; }
bool espconn_secure_ca_enable(uint8 level, uint32 flash_sector) { (void)level; (void)flash_sector; return true; }
err_t espconn_gethostbyname(struct espconn *p, const char *h, ip_addr_t *a, dns_found_callback f) {
  (void)p; (void)a; (void)f; if (!v_quiet) vout("GETHOSTBYNAME %s", h); return 0;
}
uint32 ipaddr_addr(const char *c) {
  unsigned a = 0, b = 0, cc = 0, d = 0; if (sscanf(c, "%u.%u.%u.%u", &a, &b, &cc, &d) != 4) return 0xFFFFFFFFu;
  return a | (b << 8) | (cc << 16) | (d << 24);
}

/* ------------------------------------------------------------------ system / wifi */
int v_wifi_status = 5 /* STATION_GOT_IP */;
bool wifi_get_macaddr(uint8 i, uint8 *m) { (void)i; for (int k = 0; k < 6; k++) m[k] = (uint8)(0xA0 + k); return true; }
void system_set_os_print(uint8 o) { (void)o; }
uint32 system_get_chip_id(void) { return 0x123456; }
uint32 system_get_rtc_time(void) { return 0; }
uint32 system_get_free_heap_size(void) { return 40000; }
bool wifi_softap_get_config(struct softap_config *c) { memset(c, 0, sizeof *c); return true; }
bool wifi_set_opmode(uint8 o) { if (!v_quiet) vout("OPMODE %u", o); return true; }
uint8 wifi_get_opmode(void) { return 1; }
bool wifi_softap_set_config(struct softap_config *c) { (void)c; return true; }
bool wifi_get_ip_info(uint8 i, struct ip_info *in) { (void)i; memset(in, 0, sizeof *in); return true; }
sint8 wifi_station_get_rssi(void) { return -50; }
void system_soft_wdt_stop(void) {} void system_soft_wdt_restart(void) {} void system_soft_wdt_feed(void) {}
static struct rst_info rinfo; struct rst_info *system_get_rst_info(void) { return &rinfo; }
uint8 wifi_station_get_connect_status(void) { return (uint8)v_wifi_status; }
bool wifi_station_disconnect(void) { return true; }
bool wifi_station_set_config(struct station_config *c) { (void)c; return true; }
bool wifi_station_get_config(struct station_config *c) { memset(c, 0, sizeof *c); return true; }
bool wifi_station_set_auto_connect(uint8 s) { (void)s; return true; }
bool wifi_station_connect(void) { return true; }
bool wifi_station_set_hostname(char *n) { (void)n; return true; }
int v_upgrade_flag = 0;
void system_upgrade_flag_set(uint8 f) { v_upgrade_flag = f; if (!v_quiet) vout("UPGRADEFLAG %u", f); }
void system_upgrade_reboot(void) { if (!v_quiet) vout("UPGRADEREBOOT"); }
enum flash_size_map v_flash_map = FLASH_SIZE_16M_MAP_1024_1024;
enum flash_size_map system_get_flash_size_map(void) { return v_flash_map; }
uint8 v_userbin = 0;
uint8 system_upgrade_userbin_check(void) { return v_userbin; }
void system_restart(void) { if (!v_quiet) vout("SYSTEMRESTART"); }
bool system_os_task(os_task_t task, uint8 prio, os_event_t *queue, uint8 qlen) { (void)task; (void)prio; (void)queue; (void)qlen; return true; }
bool system_os_post(uint8 prio, os_signal_t sig, os_param_t par) { (void)prio; (void)sig; (void)par; return true; }

int v_restart_count = 0; void (*v_on_restart)(void) = 0;
#ifndef VERIF_REAL_USER_MAIN
void supla_system_restart(void) { v_restart_count++; if (!v_quiet) vout("RESTART %llu", v_now); if (v_on_restart) v_on_restart(); }
void supla_system_restart_with_delay(uint32 d) { (void)d; v_restart_count++; if (!v_quiet) vout("RESTARTDELAY %llu", v_now); if (v_on_restart) v_on_restart(); }
#endif
void factory_reset_mock(void) { if (!v_quiet) vout("FACTORYHOOK"); }

/* ------------------------------------------------------------------ nettle (verdict scripted) */
int v_rsa_verdict = 0;
unsigned long long v_sha_bytes = 0; unsigned int v_sha_sum = 0;
void nettle_sha256_init(struct sha256_ctx *c) { (void)c; v_sha_bytes = 0; v_sha_sum = 0; }
void nettle_sha256_update(struct sha256_ctx *c, size_t l, const uint8_t *d) {
  (void)c; v_sha_bytes += l; for (size_t i = 0; i < l; i++) v_sha_sum = v_sha_sum * 31u + d[i];
}
void rsa_public_key_init(struct rsa_public_key *k) { (void)k; }
int nettle_rsa_public_key_prepare(struct rsa_public_key *k) { (void)k; return 1; }
void nettle_mpz_set_str_256_u(mpz_t x, size_t l, const uint8_t *s) { (void)x; (void)l; (void)s; }
unsigned int v_sig_sum = 0; size_t v_sig_len = 0;
void nettle_mpz_init_set_str_256_u(mpz_t x, size_t l, const uint8_t *s) {
  (void)x; v_sig_len = l; v_sig_sum = 0; for (size_t i = 0; i < l; i++) v_sig_sum = v_sig_sum * 31u + s[i];
}
void mpz_set_ui(mpz_t x, unsigned long int y) { (void)x; (void)y; }
void mpz_init(mpz_t x) { (void)x; }
int rsa_sha256_verify(const struct rsa_public_key *k, struct sha256_ctx *h, const mpz_t s) {
  (void)k; (void)h; (void)s;
  if (!v_quiet) vout("RSAVERIFY bytes=%llu sum=%u siglen=%zu sigsum=%u verdict=%d", v_sha_bytes, v_sha_sum, v_sig_len, v_sig_sum, v_rsa_verdict);
  return v_rsa_verdict;
}
void mpz_clear(mpz_t x) { (void)x; }
void rsa_public_key_clear(struct rsa_public_key *k) { (void)k; }
