/* Board callbacks required by the MQTT configuration (no board in /repo implements them).
 * Used by the C14 and C15 drivers.  The text of the "additional settings" block of the MQTT
 * configuration page is chosen by the driver (c15_addsett); it is rendered with snprintf
 * semantics exactly as a board would do it with ets_snprintf. */
#include <string.h>
#include <stdio.h>
#include <os_type.h>
#include <osapi.h>
#include <supla_esp.h>
#include <supla_esp_mqtt.h>

char c15_addsett[512] = "";

uint8 supla_esp_board_mqtt_get_subscription_topic(char **topic_name, uint8 index) {
  (void)topic_name; (void)index;
  return 0;
}
uint8 supla_esp_board_mqtt_get_message_for_publication(char **topic_name, void **message, size_t *message_size,
                                                       uint8 index, bool *retain) {
  (void)topic_name; (void)message; (void)message_size; (void)index; (void)retain;
  return 0;
}
void supla_esp_board_mqtt_on_message_received(uint8_t dup_flag, uint8_t qos_level, uint8_t retain_flag,
                                              const void *topic_name, uint16_t topic_name_size,
                                              const char *message, size_t message_size) {
  (void)dup_flag; (void)qos_level; (void)retain_flag; (void)topic_name; (void)topic_name_size;
  (void)message; (void)message_size;
}
void supla_esp_board_mqtt_on_relay_state_changed(uint8 channel) { (void)channel; }
void supla_esp_board_on_rollershutter_position_changed(uint8 channel, int pos, int tilt) {
  (void)channel; (void)pos; (void)tilt;
}
uint32 supla_esp_board_cfg_html_additional_settings(char *buffer, uint32 buffer_size) {
  return (uint32)snprintf(buffer, buffer_size, "%s", c15_addsett);
}
