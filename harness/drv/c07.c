/* C07 driver: the whole device, offline (devconn initialised but not started, its 1 s watchdog disarmed),
 * commands injected by direct calls; see harness/include/c07_core.h for events and outputs. */
#include "c07_core.h"
