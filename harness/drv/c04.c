/* C04/C05 driver: the whole device on the SDK doubles, with a small model of the SDK's TCP client
 * (espconn) state around the server connection:
 *   link: 0 idle, 1 connect requested (espconn_connect called), 2 live (connect_cb delivered), 3 closing
 *         (espconn_disconnect called on a live connection, disconnect_cb not yet delivered)
 *   CONNCB is delivered only when link==1, DISCCB only when link is 2 or 3, RECV when link==2 -- and when link==3: a segment that
 *   was in flight when the device called espconn_disconnect is still delivered, the close then completes: that recv callback is
 *   followed at once by the disconnect callback (one compound event: RX line, then DISCD line);
 *   espconn_sent answers `live` while link==2 and `dead` otherwise (CFG dead=<r>, SENTMODE <r>).
 * Events:  ADV <us> | WIFI <status> | CONNCB | DISCCB | RECV : <hex> | SENTMODE <r> | SENTRES r r ... |
 *          LOCAL <api> <a> <b>   (direct call of a public devconn function that contains an srpc call site)
 *          SERVER <delay_us>     (server responder: every ping frame that reaches the wire of the live connection is answered by a
 *                                 ping result <delay_us> later, delivered from an SDK timer; -1 switches the responder off)
 * Outputs: WIFISTART t | CONNECT t | DISCONNECT t | FRESH t conn sendbuf recvbuf registered evi | RX t conn evi | DISCD t conn evi |
 *          (evi = index of the event line in the case; RX/DISCD/FRESH tell which callbacks the SDK model delivered)
 *          WIRE t conn call_id rr_id : payload | JUNK t conn nbytes | RESTART t |
 *          SRVRX t conn (the responder delivered a ping result) |
 *          STATE t registered srpc started sendbuf recvbuf link timeout fired
 */
#include "drvmain.h"
#include "devsim.h"
void supla_esp_wifi_init(void);
extern int c04_log_wifi;
/* uptime.c keeps its state in a non-static global; an "aged device" is simulated by presetting the cycle count */
typedef struct { uint32 cycles; uint32 last_system_time; ETSTimer timer; } c4_uptime_t;
extern c4_uptime_t usermain_uptime;

enum { L_IDLE = 0, L_PENDING = 1, L_LIVE = 2, L_CLOSING = 3 };
static int c4_link = L_IDLE, c4_conn = 0, c4_live_res = 0, c4_dead_res = -12;
static unsigned char c4_wire[1 << 16]; static size_t c4_wire_n = 0; static int c4_stalled = 0;

/* server responder */
static long long c4_srv_delay = -1; static unsigned long long c4_srvq[16]; static int c4_srvq_n = 0; static ETSTimer c4_srv_timer;
static void c4_srv_cb(void *arg);
static void c4_srv_arm(unsigned long long due) {
  os_timer_disarm(&c4_srv_timer); os_timer_setfn(&c4_srv_timer, (os_timer_func_t *)c4_srv_cb, NULL);
  ets_timer_arm_new(&c4_srv_timer, (uint32_t)(due > v_now ? due - v_now : 0), 0, 0);     /* microseconds */
}
static void c4_set_default(void) { v_sent_default = (c4_link == L_LIVE) ? c4_live_res : c4_dead_res; }
static int c4_wire_conn(void) { return c4_link == L_LIVE ? c4_conn : 0; }

static void c4_decode(void) {
  size_t o = 0;
  while (!c4_stalled && c4_wire_n - o >= 23) {
    unsigned rr, call, ds_;
    if (memcmp(c4_wire + o, "SUPLA", 5) != 0) { c4_stalled = 1; break; }
    memcpy(&rr, c4_wire + o + 6, 4); memcpy(&call, c4_wire + o + 10, 4); memcpy(&ds_, c4_wire + o + 14, 4);
    if (ds_ > SUPLA_MAX_DATA_SIZE) { c4_stalled = 1; break; }
    if (c4_wire_n - o < 18 + ds_ + 5) break;
    if (memcmp(c4_wire + o + 18 + ds_, "SUPLA", 5) != 0) { c4_stalled = 1; break; }
    fprintf(stdout, "WIRE %llu %d %u %u : ", v_now, c4_wire_conn(), call, rr); vout_hex("", c4_wire + o + 18, ds_);
    if (call == SUPLA_DCS_CALL_PING_SERVER && c4_srv_delay >= 0 && c4_link == L_LIVE && c4_srvq_n < 16) {
      c4_srvq[c4_srvq_n++] = v_now + (unsigned long long)c4_srv_delay;
      if (c4_srvq_n == 1) c4_srv_arm(c4_srvq[0]);
    }
    o += 18 + ds_ + 5;
  }
  memmove(c4_wire, c4_wire + o, c4_wire_n - o); c4_wire_n -= o;
}
/* end of a connection (or of the case): bytes that cannot be the beginning of a frame are junk */
static void c4_wire_close(void) {
  int junk = c4_stalled;
  if (!junk && c4_wire_n > 0) {
    size_t k = c4_wire_n < 5 ? c4_wire_n : 5;
    if (memcmp(c4_wire, "SUPLA", k) != 0) junk = 1;
    if (!junk && c4_wire_n >= 18) { unsigned ds_; memcpy(&ds_, c4_wire + 14, 4); if (ds_ > SUPLA_MAX_DATA_SIZE) junk = 1; }
  }
  if (junk) vout("JUNK %llu %d %u", v_now, c4_wire_conn(), (unsigned)c4_wire_n);
  c4_wire_n = 0; c4_stalled = 0;
}
static void c4_sent_hook(struct espconn *e, const unsigned char *p, unsigned len, int result) {
  if (e != vd_espconn() || result != 0) return;
  if (c4_wire_n + len <= sizeof c4_wire) { memcpy(c4_wire + c4_wire_n, p, len); c4_wire_n += len; }
  c4_decode();
}
static void c4_srv_cb(void *arg) {
  static unsigned char fr[64]; unsigned rr = 1, call = SUPLA_SDC_CALL_PING_SERVER_RESULT, n = sizeof(TSDC_SuplaPingServerResult);
  (void)arg;
  if (c4_srvq_n == 0) return;
  memmove(c4_srvq, c4_srvq + 1, sizeof c4_srvq[0] * (size_t)(--c4_srvq_n));
  if (c4_srvq_n > 0) c4_srv_arm(c4_srvq[0]);
  if (c4_link == L_LIVE) {
    struct espconn *e = vd_espconn();
    memcpy(fr, "SUPLA", 5); fr[5] = ESP8266_SUPLA_PROTO_VERSION; memcpy(fr + 6, &rr, 4); memcpy(fr + 10, &call, 4); memcpy(fr + 14, &n, 4);
    memset(fr + 18, 0, n); memcpy(fr + 18 + n, "SUPLA", 5);
    vout("SRVRX %llu %d", v_now, c4_conn);
    if (e && e->recv_callback) e->recv_callback(e, (char *)fr, (unsigned short)(18 + n + 5));
  }
}
static void c4_restart_hook(void) { vout("RESTART %llu", v_now); fflush(stdout); _exit(0); }
static void c4_connect_hook(struct espconn *e) {
  if (e != vd_espconn()) return;
  vout("CONNECT %llu", v_now);
  if (c4_link == L_LIVE) c4_wire_close();
  c4_link = L_PENDING; c4_set_default();
}
static void c4_disconnect_hook(struct espconn *e) {
  if (e != vd_espconn()) return;
  vout("DISCONNECT %llu", v_now);
  if (c4_link == L_LIVE) { c4_wire_close(); c4_link = L_CLOSING; }
  else if (c4_link == L_PENDING) c4_link = L_IDLE;
  c4_set_default();
}
static void c4_boot(void) {
  v_quiet = 1; v_on_sent = c4_sent_hook; v_on_gpio_write = 0; v_on_restart = c4_restart_hook;
  v_on_connect = c4_connect_hook; v_on_disconnect = c4_disconnect_hook; c04_log_wifi = 1;
  memset(&supla_esp_cfg, 0, sizeof supla_esp_cfg); memset(&supla_esp_state, 0, sizeof supla_esp_state);
  memcpy(supla_esp_cfg.TAG, "SUPLA", 5);
  for (int i = 0; i < SUPLA_GUID_SIZE; i++) supla_esp_cfg.GUID[i] = (char)(0x10 + i);
  for (int i = 0; i < SUPLA_AUTHKEY_SIZE; i++) supla_esp_cfg.AuthKey[i] = (char)(0x40 + i);
  strcpy(supla_esp_cfg.Server, "10.1.2.3"); if (ds_cfg_email) strcpy(supla_esp_cfg.Email, "user@example.org");
  strcpy(supla_esp_cfg.WIFI_SSID, "ssid"); strcpy(supla_esp_cfg.WIFI_PWD, "wifipassword");
  c4_set_default();
  supla_esp_gpio_init();
  supla_esp_wifi_init();
  supla_esp_devconn_init();
  supla_esp_devconn_start();
}
static void c4_local(int api, int a, int b) {
  char value[SUPLA_CHANNELVALUE_SIZE]; memset(value, 0, sizeof value); value[0] = (char)b;
  switch (api) {
    case 0: supla_esp_channel_value_changed(a, (char)b); break;
    case 1: supla_esp_channel_value__changed(a, value); break;
    case 2: supla_esp_channel_value__changed_b(a, value, (unsigned char)(b & 1)); break;
    case 3: supla_esp_channel_value__changed_c(a, value, 0, (unsigned)b); break;
    case 4: { TSuplaChannelExtendedValue ev; memset(&ev, 0, sizeof ev); ev.type = 1; ev.size = 16; ev.value[0] = (char)b;
              supla_esp_channel_extendedvalue_changed((unsigned char)a, &ev); break; }
    case 5: supla_esp_devconn_send_action_trigger((unsigned char)a, b); break;
    case 6: supla_esp_get_channel_functions(); break;
    case 7: { TDS_DeviceCalCfgResult r; memset(&r, 0, sizeof r); r.ChannelNumber = a; r.Command = b; supla_esp_calcfg_result(&r); break; }
    case 8: supla_esp_set_channel_result((unsigned char)a, b, 1); break;
    default: vout("UNKNOWN-LOCAL %d", api);
  }
}
static void c4_state(void) {
  vout("STATE %llu %d %d %d %d %u %d %d %llu", v_now, vd_registered(), vd_srpc() != NULL, vd_started(),
       vd_send_buffer_len(), vd_recvbuff_size(), c4_link, vd_activity_timeout(), v_timer_fired);
}
static void run_case(int n, char **lines) {
  static unsigned char buf[70000];
  int i = 0;
  ds_apply_cfg(""); v_boot = 0;
  if (n > 0 && !strncmp(lines[0], "CFG", 3)) {
    /* CFG <boot> <dead_result> <nchannels> <uptime cycles> <lateness_us>... :   (positional; relays on gpio 4.. with channels 0..) */
    long long v[70]; int k = 0; char *p = lines[0] + 3;
    while (*p && *p != ':' && k < 70) { while (*p == ' ') p++; if (!*p || *p == ':') break; v[k++] = strtoll(p, &p, 0); }
    if (k > 0) v_boot = (unsigned)v[0];
    if (k > 1) c4_dead_res = (int)v[1];
    int nch = k > 2 ? (int)v[2] : 0; if (nch > 8) nch = 8;
    for (int r = 0; r < nch; r++) { v_board.relay[r].gpio = 4 + r; v_board.relay[r].channel = r; } v_board.nrelay = nch;
    if (k > 3) usermain_uptime.cycles = (uint32)v[3];
    v_lateness_n = 0; for (int j = 4; j < k && v_lateness_n < 64; j++) v_lateness_us[v_lateness_n++] = (unsigned)v[j];
    i = 1;
  }
  c4_boot();
  for (; i < n; i++) {
    char *l = lines[i];
    if (!strncmp(l, "ADV ", 4)) v_advance(strtoull(l + 4, NULL, 0));
    else if (!strncmp(l, "WIFI ", 5)) v_wifi_status = atoi(l + 5);
    else if (!strncmp(l, "CONNCB", 6)) {
      if (c4_link == L_PENDING) {
        struct espconn *e = vd_espconn();
        c4_link = L_LIVE; c4_conn++; c4_wire_n = 0; c4_stalled = 0; c4_set_default();
        if (e && e->proto.tcp && e->proto.tcp->connect_callback) e->proto.tcp->connect_callback(e);
        vout("FRESH %llu %d %d %u %d %d", v_now, c4_conn, vd_send_buffer_len(), vd_recvbuff_size(), vd_registered(), i);
      }
    } else if (!strncmp(l, "DISCCB", 6)) {
      if (c4_link == L_LIVE || c4_link == L_CLOSING) {
        struct espconn *e = vd_espconn();
        if (c4_link == L_LIVE) c4_wire_close();
        vout("DISCD %llu %d %d", v_now, c4_conn, i);
        c4_link = L_IDLE; c4_set_default();
        if (e && e->proto.tcp && e->proto.tcp->disconnect_callback) e->proto.tcp->disconnect_callback(e);
      }
    } else if (!strncmp(l, "RECV", 4)) {
      if (c4_link == L_LIVE || c4_link == L_CLOSING) {
        int closing = c4_link == L_CLOSING;
        char *c = strchr(l, ':'); int k = c ? hex2bytes(c + 1 + (c[1] == ' '), buf, sizeof buf) : 0;
        struct espconn *e = vd_espconn();
        vout("RX %llu %d %d", v_now, c4_conn, i);
        if (e && e->recv_callback) e->recv_callback(e, (char *)buf, (unsigned short)k);
        if (closing) {                          /* in-flight segment of a closing connection: the close completes */
          e = vd_espconn();
          vout("DISCD %llu %d %d", v_now, c4_conn, i);
          c4_link = L_IDLE; c4_set_default();
          if (e && e->proto.tcp && e->proto.tcp->disconnect_callback) e->proto.tcp->disconnect_callback(e);
        }
      }
    } else if (!strncmp(l, "SERVER ", 7)) { c4_srv_delay = strtoll(l + 7, NULL, 0); }
    else if (!strncmp(l, "SENTMODE ", 9)) { c4_live_res = atoi(l + 9); c4_set_default(); }
    else if (!strncmp(l, "SENTRES", 7)) {
      char *p = l + 7; v_sent_n = 0; v_sent_i = 0;
      while (*p && *p != ':') { while (*p == ' ') p++; if (!*p || *p == ':') break; v_sent_script[v_sent_n++] = (int)strtol(p, &p, 0); if (v_sent_n >= V_SENT_SCRIPT_MAX) break; }
    } else if (!strncmp(l, "LOCAL ", 6)) { int api = 0, a = 0, b = 0; sscanf(l + 6, "%d %d %d", &api, &a, &b); c4_local(api, a, b); }
    else vout("UNKNOWN-EVENT");
  }
  if (c4_link == L_LIVE) c4_wire_close(); else { c4_wire_n = 0; }
  c4_state();
}
