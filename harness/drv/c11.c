/* C11 driver: the whole real device (gpio, input, devconn, srpc, proto …) on the SDK doubles, one input
 * on GPIO 5, relay on GPIO 4 (channel 0), input channel (sensor / action trigger) as configured.
 * events:
 *   CFG <boot> <type> <flags> <relay 0|1> <channel> <atcap> <level0>     (first line)
 *   ADV <us>      time passes, due timers fire on time          BUSY <us>  time passes, nothing fires
 *   IN <level>    electrical level of the pin (edge -> ISR)      TRIG <mask> server enables action triggers
 *   REG           connect callback + successful registration (needs t >= 200 ms)
 * outputs compared with the model:
 *   NOTIFY t new prev cc    every call of supla_esp_input_notify_state_change (prev = last_state, cc = click_counter before)
 *   ACTIVE t | INACTIVE t   calls input.c -> supla_esp_gpio_on_input_active / _inactive
 *   GPIO t level            relay pin changes
 *   TRIG t channel action   calls input.c -> supla_esp_devconn_send_action_trigger
 *   VALUE t channel v       calls gpio.c  -> supla_esp_channel_value_changed
 *   TRIGSET t active max_clicks relay_connected     after a TRIG event
 *   CFGMODE t               supla_esp_cfgmode_start reached (case ends)
 *   FINAL t last cc step relay
 * outputs for the monitor only:  WAT t channel action / WVAL t channel v  (frames on the wire), REGD t r,
 *   EDGE t level (true time of every level change), BUSYAT t dt, RESTART t */
#include "drvmain.h"
#include "devsim.h"

#define C11_IN_PIN 5
#define C11_RELAY_PIN 4

int c11_hold_ms(void); int c11_multiclick_ms(void);
static int c11_channel = 255;

void c11_hook_notify(int gpio, int new_state) {
  supla_input_cfg_t *c = &supla_input_cfg[0];
  (void)gpio;
  vout("NOTIFY %llu %d %d %d", v_now, new_state, (int)c->last_state, (int)c->click_counter);
}
void c11_hook_onoff(supla_input_cfg_t *cfg, int active) { (void)cfg; vout(active ? "ACTIVE %llu" : "INACTIVE %llu", v_now); }
void c11_hook_trigger(int channel, int action) { vout("TRIG %llu %d %d", v_now, channel, action); }
void c11_hook_cfgmode(void) { vout("CFGMODE %llu", v_now); fflush(stdout); _exit(0); }

void __real_supla_esp_channel_value_changed(int channel_number, char v);
void __wrap_supla_esp_channel_value_changed(int channel_number, char v) {
  vout("VALUE %llu %d %d", v_now, channel_number, (int)v);
  __real_supla_esp_channel_value_changed(channel_number, v);
}
static void c11_gpio_hook(int pin, int level) { if (pin == C11_RELAY_PIN) vout("GPIO %llu %d", v_now, level); }
static void c11_frame(unsigned call_id, unsigned rr_id, const unsigned char *p, unsigned n) {
  (void)rr_id;
  if (call_id == SUPLA_DS_CALL_ACTIONTRIGGER && n >= sizeof(TDS_ActionTrigger)) {
    TDS_ActionTrigger at; memcpy(&at, p, sizeof at);
    vout("WAT %llu %d %d", v_now, (int)at.ChannelNumber, (int)at.ActionTrigger);
  } else if (call_id == SUPLA_DS_CALL_DEVICE_CHANNEL_VALUE_CHANGED && n >= 2) {
    vout("WVAL %llu %d %d", v_now, (int)p[0], (int)(signed char)p[1]);
  }
}

static void c11_trig(unsigned mask) {
  supla_input_cfg_t *c = &supla_input_cfg[0];
  if (vd_registered() == 1 && c11_channel != 255) {
    TSD_ChannelConfig cc; memset(&cc, 0, sizeof cc);
    cc.ChannelNumber = (unsigned char)c11_channel; cc.Func = SUPLA_CHANNELFNC_ACTIONTRIGGER; cc.ConfigType = 0;
    cc.ConfigSize = sizeof(TChannelConfig_ActionTrigger);
    TChannelConfig_ActionTrigger a; a.ActiveActions = mask; memcpy(cc.Config, &a, sizeof a);
    ds_srv(SUPLA_SD_CALL_GET_CHANNEL_CONFIG_RESULT, ds_srv_rr++, (unsigned char *)&cc,
           (unsigned)(sizeof cc - SUPLA_CHANNEL_CONFIG_MAXSIZE + sizeof a));
    supla_esp_devconn_iterate(NULL); supla_esp_devconn_iterate(NULL);
  } else {
    supla_esp_input_set_active_triggers(c, mask);
  }
  vout("TRIGSET %llu %u %d %d", v_now, (unsigned)c->active_triggers, (int)c->max_clicks, c->relay_gpio_id != 255 ? 1 : 0);
}

static void run_case(int n, char **lines) {
  int i = 0; char cfg[256];
  unsigned boot = 1, atcap = 0; int type = 2, flags = 0, relay = 1, channel = 255, level0 = 0;
  if (n > 0 && !strncmp(lines[0], "CFG", 3)) {
    sscanf(lines[0] + 3, "%u %d %d %d %d %u %d", &boot, &type, &flags, &relay, &channel, &atcap, &level0);
    i = 1;
  }
  c11_channel = channel;
  snprintf(cfg, sizeof cfg, "CFG boot=%u relays=%d:0:0:0 inputs=%d:%d:%d:%d:%d:%u gpioin=%u",
           boot, C11_RELAY_PIN, C11_IN_PIN, type, flags, relay ? C11_RELAY_PIN : 255, channel, atcap,
           level0 ? (1u << C11_IN_PIN) : 0u);
  ds_apply_cfg(cfg);
  ds_log_gpio = 0; ds_log_wire = 0; ds_log_conn = 0; ds_log_restart = 1; ds_stop_on_restart = 0;  /* a watchdog restart (boot counter wrap, C19) is not this property's business: logged, ignored */
  ds_on_frame = c11_frame;
  ds_boot(1);
  v_on_gpio_write = c11_gpio_hook;
  if (c11_hold_ms() != BTN_HOLD_TIME_MS || c11_multiclick_ms() != BTN_MULTICLICK_TIME_MS) vout("SKEW hold/multiclick");
  if (v_now != 0) vout("SKEW boot-time %llu", v_now);
  for (; i < n; i++) {
    char *l = lines[i];
    if (!strncmp(l, "ADV ", 4)) v_advance(strtoull(l + 4, NULL, 0));
    else if (!strncmp(l, "BUSY ", 5)) { vout("BUSYAT %llu %llu", v_now, strtoull(l + 5, NULL, 0)); ets_delay_us((uint32_t)strtoull(l + 5, NULL, 0)); }
    else if (!strncmp(l, "IN ", 3)) {
      int lv = atoi(l + 3) ? 1 : 0;
      if (lv != (int)((v_gpio_in >> C11_IN_PIN) & 1)) vout("EDGE %llu %d", v_now, lv);
      v_set_input(C11_IN_PIN, lv);
    }
    else if (!strncmp(l, "TRIG ", 5)) c11_trig((unsigned)strtoul(l + 5, NULL, 0));
    else if (!strncmp(l, "REG", 3)) { ds_conncb(); ds_regresult(SUPLA_RESULTCODE_TRUE, 120); supla_esp_devconn_iterate(NULL); vout("REGD %llu %d", v_now, vd_registered()); }
    else vout("UNKNOWN-EVENT");
  }
  {
    supla_input_cfg_t *c = &supla_input_cfg[0];
    vout("FINAL %llu %d %d %d %d", v_now, (int)c->last_state, (int)c->click_counter, (int)c->debounce_step,
         (int)((v_gpio_out >> C11_RELAY_PIN) & 1));
  }
}
