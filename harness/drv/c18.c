/* C18 driver: the real firmware-update code of /repo/src/user/supla_update.c
 * (init -> check_updates -> url_result -> delay timer -> resolve/connect -> recv_cb/disconnect_cb).
 *
 * events (configuration first, then START, then traffic):
 *   MAP m | USERBIN b          flash size map / running slot reported by the SDK (before START)
 *   ORACLE mode n S G          signature oracle (the last one of the case counts): mode 0 = never valid, 1 = always valid,
 *                              2 = valid iff exactly n bytes with checksum S were hashed and the
 *                                  512-byte signature buffer has checksum G
 *   FAILS : <hex>              result of the i-th flash erase/write (01 = fails), ok when exhausted
 *   HEAP : <hex>               content of freshly malloc'ed memory (rest is 00)
 *   FLASHINIT a : <hex>        preset flash content at address a
 *   START                      update cycle up to the HTTP request (prints BASE a | NOUPDATE)
 *   SEG : <hex>                one TCP segment of the HTTP response -> recv callback
 *   SEGFILL len seed           a segment of len filler bytes: b_i = (x_i + hi_i) & 255, x_0 = seed & 255,
 *                              x_{i+1} = (5 x_i + 113) & 255, hi_i = ((seed >> 8) + i / 256) & 255
 *   NOHALT                     callbacks keep being delivered after a restart / upgrade reboot was requested
 *                              (system_restart() is asynchronous on the ESP8266)
 *   DISC [1]                   disconnect callback (1: reconnect/error callback with ESPCONN_CONN)
 *   ERR code                   reconnect (error) callback with the espconn error code (-8 ABRT, -9 RST, -10 CLSD, ...)
 *   ARENA                      segments are handed over inside a large zeroed buffer (reads past the
 *                              segment return 00 instead of trapping under ASan)
 * outputs:
 *   BASE a | NOUPDATE | FLAG f | ERASE a | WRITE a len cks | VERIFY n sum siglen sigsum verdict builtinkey
 *   | UPGRADEREBOOT | RESTART
 * After RESTART/UPGRADEREBOOT the rest of the *current* callback still runs (system_restart()
 * returns on the ESP8266), later events are ignored (the device has rebooted). */
#include <string.h>
#include <os_type.h>
#include <osapi.h>
#include <supla_esp.h>
#include <supla_esp_devconn.h>
#include <supla_esp_cfg.h>
#include <supla_update.h>
#include <espconn.h>
#include <user_interface.h>
#include "nettle/sha2.h"
#include "nettle/rsa.h"
#include "nettle/bignum.h"
#include "verif.h"
#include "verif_access.h"
#include "c18_access.h"
#include "drvmain.h"

extern enum flash_size_map v_flash_map;
extern uint8 v_userbin;
extern unsigned long long v_sha_bytes;
extern unsigned int v_sha_sum, v_sig_sum;
extern size_t v_sig_len;

static int halted = 0, started = 0, nohalt = 0;
static int or_mode = 0; static unsigned long long or_n = 0; static unsigned or_s = 0, or_g = 0;
static unsigned char fails[8192]; static int fails_n = 0, fails_i = 0;
static unsigned char heap_fill[8192]; static int heap_n = 0;

void *c18_malloc(size_t n) {
  unsigned char *p = malloc(n);
  if (p) for (size_t i = 0; i < n; i++) p[i] = i < (size_t)heap_n ? heap_fill[i] : 0;
  return p;
}
void c18_flag_set(unsigned char f) { v_upgrade_flag = f; vout("FLAG %u", (unsigned)f); }
void c18_upgrade_reboot(void) { vout("UPGRADEREBOOT"); halted = !nohalt; }
static void on_restart(void) { vout("RESTART"); halted = !nohalt; }
/* the key handed to the verification: 1 iff the modulus is the built-in rsa_public_key_bytes[RSA_NUM_BYTES] and the
 * exponent is RSA_PUBLIC_EXPONENT (both set since the last verification) */
static int key_mod_ok = 0, key_exp_ok = 0;
void c18_key_modulus(mpz_t x, size_t length, const uint8_t *s) { (void)x; key_mod_ok = (s == rsa_public_key_bytes && length == RSA_NUM_BYTES); }
void c18_key_exponent(mpz_t x, unsigned long int e) { (void)x; key_exp_ok = (e == RSA_PUBLIC_EXPONENT); }
int c18_rsa_sha256_verify(const struct rsa_public_key *key, struct sha256_ctx *hash, const mpz_t sig) {
  (void)key; (void)hash; (void)sig;
  int v = or_mode == 1 ? 1 : or_mode == 2 ? (v_sha_bytes == or_n && v_sha_sum == or_s && v_sig_len == 512 && v_sig_sum == or_g) : 0;
  vout("VERIFY %llu %u %u %u %d %d", v_sha_bytes, v_sha_sum, (unsigned)v_sig_len, v_sig_sum, v, key_mod_ok && key_exp_ok);
  key_mod_ok = key_exp_ok = 0;
  return v;
}
static void on_flash(const char *op, unsigned addr, unsigned len) {
  if (op[0] == 'r') return;
  if (op[0] == 'e') vout("ERASE %u", addr);
  else {
    unsigned s = 0; const unsigned char *b = c18_buff();
    if (b) for (unsigned i = 0; i < len && i < 4096; i++) s = s * 31u + b[i];
    vout("WRITE %u %u %u", addr, len, s);
  }
  v_flash_fail_at = (fails_i < fails_n && fails[fails_i]) ? 1 : 0;
  fails_i++;
}
static void dummy_handler(void *srpc, unsigned _supla_int_t rr_id, unsigned _supla_int_t call_id, void *user, unsigned char ver) {
  (void)srpc; (void)rr_id; (void)call_id; (void)user; (void)ver;
}

static void do_start(void) {
  memset(&supla_esp_cfg, 0, sizeof supla_esp_cfg);
  strcpy(supla_esp_cfg.Email, "a@b.c"); strcpy(supla_esp_cfg.Server, "srv");
  supla_esp_cfg.FirmwareUpdate = 1;
  supla_esp_devconn_init();
  vd_srpc_init_with_handler(dummy_handler);
  supla_esp_update_init();
  supla_esp_check_updates(vd_srpc());           /* CHECK -> CHECKING, asks the server for the URL */
  TSD_FirmwareUpdate_UrlResult r; memset(&r, 0, sizeof r);
  r.exists = 1; r.url.available_protocols = SUPLA_URL_PROTO_HTTP;
  strcpy(r.url.host, "10.1.2.3"); r.url.port = 80; strcpy(r.url.path, "fw/user.bin");
  supla_esp_update_url_result(&r);
  if (!c18_exists()) { vout("NOUPDATE"); return; }
  v_advance(2100000ULL);                         /* delay timer -> resolve -> connect */
  struct espconn *c = c18_conn();
  if (v_last_connect != c || !c->proto.tcp || !c->recv_callback || !c->proto.tcp->disconnect_callback) { vout("NOCONNECT"); return; }
  if (c->proto.tcp->connect_callback) c->proto.tcp->connect_callback(c);   /* sends the GET request */
  started = 1;
  v_on_flash = on_flash; v_on_restart = on_restart;
  vout("BASE %u", c18_base());
}

static void run_case(int n, char **lines) {
  static unsigned char buf[70000];
  static unsigned char arena[140000];          /* ARENA: segment followed by zero bytes (over-reads do not trap) */
  int seen_start = 0, use_arena = 0;
  v_quiet = 1;
  v_flash_map = FLASH_SIZE_16M_MAP_1024_1024; v_userbin = 0;
  for (int i = 0; i < n; i++)                   /* the signature oracle of the case: the last ORACLE line */
    if (!strncmp(lines[i], "ORACLE", 6)) {
      unsigned long long a = 0, b = 0, s = 0, g = 0; sscanf(lines[i] + 6, "%llu %llu %llu %llu", &a, &b, &s, &g);
      or_mode = (int)a; or_n = b; or_s = (unsigned)s; or_g = (unsigned)g;
    }
  for (int i = 0; i < n; i++) {
    char *l = lines[i]; char *c = strchr(l, ':');
    int len = c ? hex2bytes(c + 1 + (c[1] == ' '), buf, sizeof buf) : 0;
    if (!strncmp(l, "MAP", 3)) { if (!seen_start) v_flash_map = (enum flash_size_map)atoi(l + 3); }
    else if (!strncmp(l, "USERBIN", 7)) { if (!seen_start) v_userbin = (uint8)atoi(l + 7); }
    else if (!strncmp(l, "ORACLE", 6)) { }
    else if (!strncmp(l, "ARENA", 5)) { use_arena = 1; }
    else if (!strncmp(l, "FAILS", 5)) { if (!seen_start) { fails_n = len > (int)sizeof fails ? (int)sizeof fails : len; memcpy(fails, buf, fails_n); fails_i = 0; } }
    else if (!strncmp(l, "HEAP", 4)) { if (!seen_start) { heap_n = len > (int)sizeof heap_fill ? (int)sizeof heap_fill : len; memcpy(heap_fill, buf, heap_n); } }
    else if (!strncmp(l, "FLASHINIT", 9)) {
      unsigned a = (unsigned)strtoul(l + 9, NULL, 10);
      if (!seen_start) for (int k = 0; k < len; k++) if (a + k < sizeof v_flash) v_flash[a + k] = buf[k];
    }
    else if (!strncmp(l, "START", 5)) { seen_start = 1; if (!started && !halted) do_start(); }
    else if (!strncmp(l, "NOHALT", 6)) { nohalt = 1; }
    else if (!strncmp(l, "SEG", 3)) {
      if (!strncmp(l, "SEGFILL", 7)) {             /* SEGFILL len seed: deterministic filler bytes (same expansion in the model) */
        unsigned long fl_len = 0, fl_seed = 0; sscanf(l + 7, "%lu %lu", &fl_len, &fl_seed);
        if (fl_len > 65535) fl_len = 65535;
        unsigned x = fl_seed & 255, lo = 0, hi = (fl_seed >> 8) & 255;
        for (unsigned long k = 0; k < fl_len; k++) {
          buf[k] = (unsigned char)((x + hi) & 255); x = (x * 5 + 113) & 255;
          if (++lo == 256) { lo = 0; hi = (hi + 1) & 255; }
        }
        len = (int)fl_len;
      }
      if (!started || halted || len > 65535) continue;
      struct espconn *e = c18_conn();
      if (use_arena) {
        memset(arena, 0, sizeof arena); memcpy(arena, buf, len);
        e->recv_callback(e, (char *)arena, (unsigned short)len);
      } else {
        char *seg = malloc(len ? len : 1); memcpy(seg, buf, len);         /* exact size: ASan sees over-reads */
        e->recv_callback(e, seg, (unsigned short)len);
        free(seg);
      }
    }
    else if (!strncmp(l, "ERR", 3)) {                /* ERR code: the reconnect (error) callback with an espconn error code */
      if (!started || halted) continue;
      struct espconn *e = c18_conn();
      if (e->proto.tcp->reconnect_callback) e->proto.tcp->reconnect_callback(e, (sint8)atoi(l + 3));
    }
    else if (!strncmp(l, "DISC", 4)) {
      if (!started || halted) continue;
      struct espconn *e = c18_conn();
      if (atoi(l + 4) == 1 && e->proto.tcp->reconnect_callback) e->proto.tcp->reconnect_callback(e, -11);
      else e->proto.tcp->disconnect_callback(e);
    }
  }
}
