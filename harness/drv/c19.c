/* C19 driver.  One binary, two modes (numeric CFG line, first line of a case):
 *
 *  CFG <boot> <cycles0> <last0> <wd> 0            uptime unit mode: real supla_esp_uptime_init(), then
 *        usermain_uptime.cycles / .last_system_time are preset (large uptimes), wd = 0 disarms the 10 s poll timer
 *     events : ADV <us> | USEC | MSEC | SEC        (real uptime_usec / uptime_msec / uptime_sec)
 *     outputs: U <kind 2|3|4> <hi32> <lo32>
 *
 *  CFG <boot_1> <n> <late> 1 <10 device numbers as in harness/drv/c08.c> <plain button type> <flags | at_cap << 8> <boot_2> ... <boot_k>
 *        whole device, the SAME scenario is run once per boot value (a forked child each, clean globals):
 *     outputs: RUN <k> <boot>, then the devsim lines of that run (GPIO/WIRE/CONNECT/DISCONNECT/RESTART with
 *              times relative to boot) and ZEROSAMPLE <t> when system_get_time() returned exactly 0
 */
#include "drvmain.h"
#include "devsim.h"
#include <sys/wait.h>

typedef struct { uint32 cycles; uint32 last_system_time; ETSTimer timer; } c19_uptime_t;   /* layout of uptime.c */
extern c19_uptime_t usermain_uptime;
unsigned long long uptime_usec(void); unsigned long long uptime_msec(void); uint32 uptime_sec(void);
void supla_esp_uptime_init(void);

uint32 __real_system_get_time(void);
static int zero_samples = 0, report_zero = 0;
uint32 __wrap_system_get_time(void) {
  uint32 t = __real_system_get_time();
  if (report_zero && t == 0 && zero_samples++ < 4) vout("ZEROSAMPLE %llu", v_now);
  return t;
}

static int parse_ints(const char *line, long long *a, int max) {
  int na = 0; const char *p = line + 3;
  while (*p && *p != ':' && na < max) { while (*p == ' ') p++; if (!*p || *p == ':') break; a[na++] = strtoll(p, (char **)&p, 0); }
  return na;
}
static void put64(int kind, unsigned long long v) { vout("U %d %llu %llu", kind, v >> 32, v & 0xFFFFFFFFull); }

static void run_uptime(long long *a, int n, char **lines) {
  v_quiet = 1; v_boot = (unsigned)a[0];
  supla_esp_uptime_init();
  usermain_uptime.cycles = (uint32)a[1]; usermain_uptime.last_system_time = (uint32)a[2];
  if (!a[3]) os_timer_disarm(&usermain_uptime.timer);
  for (int k = 1; k < n; k++) {
    char *l = lines[k];
    if (!strncmp(l, "ADV ", 4)) { long long dt = strtoll(l + 4, NULL, 0); if (dt > 0) v_advance((unsigned long long)dt); }
    else if (!strncmp(l, "USEC", 4)) put64(2, uptime_usec());
    else if (!strncmp(l, "MSEC", 4)) put64(3, uptime_msec());
    else if (!strncmp(l, "SEC", 3)) put64(4, (unsigned long long)uptime_sec());
    else vout("UNKNOWN-EVENT");
  }
}

/* same board as harness/drv/c08.c */
static void build_cfg(long long *a, unsigned boot, char *out, size_t cap) {
  int n = (int)a[1]; if (n < 0) n = 0; if (n > 4) n = 4;
  size_t o = 0;
  o += snprintf(out + o, cap - o, "CFG boot=%u", boot);
  if (a[2] > 0) o += snprintf(out + o, cap - o, " lateness=%lld", a[2]);
  o += snprintf(out + o, cap - o, " relays=");
  for (int i = 0; i < n; i++) o += snprintf(out + o, cap - o, "%s%d:%d,%d:%d", i ? "," : "", 1 + 2 * i, i, 2 + 2 * i, i);
  /* one plain relay (gpio 0, channel 4, countdown-capable) for the relay / countdown scenarios */
  o += snprintf(out + o, cap - o, "%s0:4:0:%u", n ? "," : "", 0x01000000u);
  if (n > 0) {
    o += snprintf(out + o, cap - o, " rs=");
    for (int i = 0; i < n; i++) o += snprintf(out + o, cap - o, "%s%d:%d", i ? "," : "", 2 * i, 2 * i + 1);
  }
  if (a[4] > 0 || a[14] > 0) {
    o += snprintf(out + o, cap - o, " inputs=");
    int first = 1;
    if (a[4] > 0) for (int i = 0; i < n && i < 3; i++) {
      o += snprintf(out + o, cap - o, "%s%d:%lld:%lld:%d:255:0,%d:%lld:%lld:%d:255:0", first ? "" : ",",
                    9 + 2 * i, a[4], a[5], 1 + 2 * i, 10 + 2 * i, a[4], a[5], 2 + 2 * i); first = 0;
    }
    /* a[14]: type of one button on gpio 15 bound to the plain relay (gpio 0) */
    /* a[15]: low 8 bits = input flags, upper bits = action-trigger capabilities (then the button is AT channel 5) */
    if (a[14] > 0) o += snprintf(out + o, cap - o, "%s15:%lld:%lld:0:%d:%lld", first ? "" : ",", a[14], a[15] & 0xFF,
                                 (a[15] >> 8) ? 5 : 255, a[15] >> 8);
  }
  if (n > 0) {
    o += snprintf(out + o, cap - o, " motor=");
    for (int i = 0; i < n; i++) o += snprintf(out + o, cap - o, "%s%lld:%lld:%lld:%lld", i ? "," : "", a[6], a[7], a[8], a[9]);
    o += snprintf(out + o, cap - o, " rsflags=%lld time1=", a[10]);
    for (int i = 0; i < n; i++) o += snprintf(out + o, cap - o, "%s%lld", i ? "," : "", a[11]);
    o += snprintf(out + o, cap - o, " time2=");
    for (int i = 0; i < n; i++) o += snprintf(out + o, cap - o, "%s%lld", i ? "," : "", a[12]);
  }
  o += snprintf(out + o, cap - o, " sentdefault=%lld", a[13]);
}

static void run_case(int n, char **lines) {
  if (n <= 0 || strncmp(lines[0], "CFG", 3)) { vout("NO-CFG"); return; }
  long long a[40]; memset(a, 0, sizeof a);
  int na = parse_ints(lines[0], a, 40);
  if (a[3 + 1] == 0 && na <= 5) { run_uptime(a, n, lines); return; }
  /* device mode: a[0] first boot, a[16..] further boots */
  int nb = 1 + (na > 16 ? na - 16 : 0);
  for (int r = 0; r < nb; r++) {
    /* a negative entry -b means: boot value b with the report-grid anchor of the known finding rs-report-grid-anchor
     * compensated (rs_cfg->last_comm_time preset so that the first 200 ms report test passes at the first timer tick, as it
     * does whenever the counter is past 200 ms at init) — an intervention on exactly that variable, used by the monitor to
     * decide whether a difference between boot = 1 and boot = 1000001 is caused by it */
    long long braw = (r == 0 ? a[0] : a[16 + r - 1]);
    int comp = braw < 0;
    unsigned boot = (unsigned)(comp ? -braw : braw);
    vout("RUN %d %u %d", r, boot, comp);
    fflush(stdout);
    pid_t pid = fork();
    if (pid == 0) {
      char cfg[1024]; build_cfg(a, boot, cfg, sizeof cfg);
      ds_apply_cfg(cfg);
      report_zero = 1;
      ds_boot(1);
      if (comp) for (int i = 0; i < RS_MAX_COUNT; i++) supla_rs_cfg[i].last_comm_time = boot - 200000u;
      for (int i = 1; i < n; i++) if (!ds_event(lines[i])) vout("UNKNOWN-EVENT");
      ds_finish();
      fflush(stdout); _exit(0);
    }
    int st = 0; waitpid(pid, &st, 0);
    if (!(WIFEXITED(st) && WEXITSTATUS(st) == 0)) vout("RUNCRASH %d", r);
  }
}
