/* C12, boot decision of an MQTT-capable build: links the REAL src/user/user_main.c compiled with the MQTT flags
 * (gen.py dev_flags(mqtt=True)) against inert stubs of every callee of user_init(); the stored configuration is
 * preset from the command line.  Started by harness/drv/c12.c for the event
 *   MBOOT en noauth locked ssid wpwd server ident pass    (flags 0/1; strings 0 = empty, 1 = set;
 *         ident = Email/Username, pass = LocationPwd/Password: one field each, anonymous unions of SuplaEspCfg)
 * Output lines (same syntax as the main driver): CFGMODE 0 | START <1 devconn, 2 mqtt>, then BOOTEND. */
#include <stdio.h>
#include <stdlib.h>
#include <string.h>
#include <user_interface.h>
#include "supla_esp.h"
#include "supla_esp_cfg.h"

SuplaEspCfg supla_esp_cfg;
SuplaEspState supla_esp_state;
static struct rst_info rst;
void user_init(void);

/* observation points */
static int n_cfg;
void supla_esp_cfgmode_start(void) { if (!n_cfg) printf("CFGMODE 0 :\n"); n_cfg++; }
void supla_esp_devconn_start(void) { printf("START 1 :\n"); }
void supla_esp_mqtt_client_start(void) { printf("START 2 :\n"); }
char supla_esp_cfgmode_started(void) { return n_cfg ? 1 : 0; }

/* inert stubs */
char supla_esp_cfg_init(void) { return 1; }
int supla_esp_cfgmode_generate_ssid_name(char *n, int l) { if (l > 0) n[0] = 0; return 0; }
void supla_esp_countdown_timer_init(void) {}
void supla_esp_devconn_before_system_restart(void) {}
void supla_esp_mqtt_before_system_restart(void) {}
void supla_esp_devconn_init(void) {}
void supla_esp_mqtt_init(void) {}
void supla_esp_dns_client_init(void) {}
void supla_esp_gpio_init(void) {}
void supla_esp_save_state(int d) {}
void supla_esp_update_init(void) {}
void supla_esp_uptime_init(void) {}
void supla_esp_wifi_init(void) {}
void supla_esp_set_state(int p, const char *m) {}
void supla_log(int p, const char *f, ...) {}
void ets_delay_us(uint32_t us) {}
void ets_timer_arm_new(void *t, uint32_t a, bool b, int c) {}
void ets_timer_disarm(void *t) {}
void ets_timer_setfn(void *t, void *f, void *a) {}
int os_printf_plus(const char *f, ...) { return 0; }
enum flash_size_map system_get_flash_size_map(void) { return (enum flash_size_map)0; }
uint32 system_get_free_heap_size(void) { return 40000; }
struct rst_info *system_get_rst_info(void) { return &rst; }
uint32 system_get_time(void) { return 123456; }
bool system_partition_table_regist(const partition_item_t *t, uint32_t n, uint32_t m) { return true; }
void system_print_meminfo(void) {}
void system_restart(void) {}
void system_soft_wdt_restart(void) {}
bool wifi_station_set_hostname(char *n) { return true; }
void wifi_status_led_uninstall(void) {}

int main(int argc, char **argv) {
  int a[9] = {0};
  setvbuf(stdout, NULL, _IONBF, 0);
  for (int i = 0; i < 9 && i + 1 < argc; i++) a[i] = atoi(argv[i + 1]);
  memset(&supla_esp_cfg, 0, sizeof supla_esp_cfg);
  supla_esp_cfg.Flags = (a[0] ? CFG_FLAG_MQTT_ENABLED : 0) | (a[1] ? CFG_FLAG_MQTT_NO_AUTH : 0) | (a[2] ? CFG_FLAG_DEVICE_LOCKED : 0);
  if (a[3]) strcpy(supla_esp_cfg.WIFI_SSID, "home");
  if (a[4]) strcpy(supla_esp_cfg.WIFI_PWD, "secret");
  if (a[5]) strcpy(supla_esp_cfg.Server, "host.lan");
  if (a[6]) strcpy(supla_esp_cfg.Username, "a@b.c");
  if (a[7]) strcpy(supla_esp_cfg.Password, "pass");
  user_init();
  printf("BOOTEND :\n");
  return 0;
}
